#!/usr/bin/env python3
"""Regenerates /verif/MANIFEST.json from the table below and validates it."""
import json, os, sys

ROOT = os.path.dirname(os.path.dirname(os.path.abspath(__file__)))

BASELINE_OFF = ("cd /repo && export GOFLAGS=-mod=mod GOPROXY=off && "
                "for m in . ./proto; do (cd /repo/$m && go test -mod=mod -json -vet=off -count=1 -timeout 25m ./...); done")

# id -> dict(category, text, note, technique, design_ref); only built checks are listed
CLAIMED = {
    "C18": dict(
        category="exploration",
        text="Bounded-exhaustive enumeration on the real codecs: the full product of a 15-string adversarial alphabet over every tuple field (subject id and subject set) and all 16 query shapes through JSON, URL-query (wire form) and protobuf (wire form) and back; every string of length <= 7 (thorough 9) over {a : # @ ( )} through FromString/String/FromString; the CLI line reader on string-domain tuples between comments and blank lines. Pure functions, so exhaustive small-scope enumeration is the right level. Call-order pairs: String / ToURLQuery / ToProto / json.Marshal / FromString of y right after the call for x (degenerate values included; single OS thread, GC off). The parse command under every answer of its reader: I/O error after every prefix, short reads (1..8 bytes), lines of 4 KiB..1 MiB.",
        note="Trusts encoding/json, net/url and google.golang.org/protobuf; string-form domain = fields without any of : # @ ( ); bounds: alphabet and string length.",
        technique="bounded-exhaustive input enumeration against round-trip oracles (explicit enumeration, no sampling)",
        design_ref="§4 C18"),
}

CLAIMED["C15"] = dict(
    category="model_checking", engine="vsched",
    text="Stateless model checking of the real check engine: tools/vinstr rewrites every go/chan/select/close/sync/errgroup/context.WithCancel in internal/check, checkgroup, x/graph into scheduler calls (generated overlay, /repo untouched); a cooperative scheduler owns every interleaving. For every scenario of a catalogue (all permission expressions with <=2 leaves over includes/traverse(recursive) x 7 tuple graphs incl. subject-set cycles, parent cycles, duplicates) it explores ALL schedules up to deviation bound 1 (thorough: wider leaf alphabet + bound 2) with a canceller thread whose cancel() lands at every scheduling point and storage that hangs after the cancel, plus every failing storage-call position x {transient, persistent}. Oracle per execution: the caller returns (no deadlock / step horizon), no panic, and at quiescence after context release zero goroutines remain. Added phases: cancelled-then-again (the same check re-issued with a fresh context after a cancelled one returned; both canonical select picks; quick: every sixth light scenario) and listings paged one row at a time with a fault at every position (traverse scenarios). sync.Pool is modelled deterministically (LIFO, emptied between executions); singleflight / semaphore are modelled.",
    note="Visible-operation granularity, sequentially consistent; in-memory store stands in for SQL (bound by C01's conformance comparison); global depth 5 in these scenarios; data races are C14's separate -race pass.",
    technique="stateless model checking: deviation-bounded exhaustive DFS over schedules of the instrumented implementation + exhaustive cancellation/fault-position enumeration",
    design_ref="§3.2-3.4, §4 C15")

CLAIMED["C01"] = dict(
    category="model_checking", engine="vsched",
    text="The real check engine (instrumented by tools/vinstr, run under the cooperative scheduler) is compared with an independent reference semantics (h/refsem: least fixpoint stratified over the SCCs of the atom dependency graph) on (A) every configuration with <=2 leaves over includes/traverse(recursive)/permits x every query-connected tuple set of <=3 tuples over 2 objects incl. subject sets, empty relations, duplicates x 3 queries x row orders, default mode, and typed OPL-rendered configurations in strict mode; (B) the same engine over the real SQL persister/traverser with row order forced through shard_id, cross-checked call by call count and answer against the in-memory store used for exploration; (C) ALL schedules up to deviation bound 1 (thorough 2) of ~700 scenarios that force the visited-set, cycle and short-circuit mechanisms - every outcome must equal the reference, so the answer is schedule independent within the bound. Cases the engine itself reports as cut by depth/width are excluded (C02). Added families: wide nodes on the SQL traverser (N subject sets around one and two traverser pages of 1000 rows, the subject a member of the K-th for every K around the seams; thorough every K); operator chains as OPL text (every || / && tree over 3-4 relations with none or one negated leaf in minimal TypeScript parentheses x all assignments of direct tuples, end to end through the parser); input enumeration of traverse configurations also with listings paged one row at a time. Two-namespace family (the same object names and relation in two namespaces, <= 4 tuples, both row orders); the SQL conformance part also asks with subject-set subjects, with and without relation. Candidates that the counterfactual attributes to the recorded finding KF-C01-1 are also replayed on the engine sources of known_findings.json's reference_commit: one that satisfies the oracle there is reported as a new violation.",
    note="Reference semantics written from the docs (strict mode from config.schema.json); bounds: <=2 leaves, <=3 tuples (thorough: 5 leaf kinds, all row permutations, deeper), deviation bound; violations that disappear under the counterfactual build with path-local visited sets are attributed to recorded finding KF-C01-1.",
    technique="bounded-exhaustive input enumeration + deviation-bounded stateless schedule exploration of the instrumented implementation against a reference model",
    design_ref="§4 C01")

CLAIMED["C02"] = dict(
    category="exploration", engine="vsched",
    text="Bounded-exhaustive grid on the instrumented engine (deterministic base schedule): every configuration with <=2 leaves (with and without `!`) x every tuple set of <=2 tuples plus named graphs and 5-hop chains x global depth 1..6 x request depth -1..g+2, and fan-outs w-1..w+2 around width w=1..4. Oracles: (a) allowed under any limit implies allowed by the unbounded reference semantics; (b) the answer with (request r, global g) equals the answer of a second registry whose global limit is eff(r,g) with no request depth. Non-trivial = the engine logged a cut.",
    note="Reference = h/refsem; fail-open cases where the configuration contains `!` and a cut happened are recorded finding KF-C02-1 (coarse class, see DESIGN.md); transport max-depth parsing is C08's part.",
    technique="bounded-exhaustive enumeration of (config, tuples, query, global depth, request depth, width) against a reference model and a differential oracle between two limit settings",
    design_ref="§4 C02")
CLAIMED["C03"] = dict(
    category="fault_enumeration", engine="vsched",
    text="For every scenario (all permission expressions with <=2 leaves x 7 tuple graphs) the fault-free check issues N storage calls; every position k=1..N x {transient, persistent} x {generic error, context.DeadlineExceeded} is injected at the storage interface of the instrumented engine, and the transient fault is additionally explored under every schedule with one deviation (failing call reordered against its siblings). Oracle: result is an error or the fault-free result of the same schedule; never allowed when fault-free denied; no result carries an error together with 'allowed' (also per BatchCheck entry). Fault kinds: generic, deadline exceeded, cancelled query (context.Canceled while the request context is alive); the SQL statement-fault part covers all graphs and the includes-a / includes-b / traverse leaves. A serialization-failure error (sqlcon.ErrConcurrentUpdate) is among the fault kinds; timers in the engine are modelled (durations elapse instantly).",
    note="Faults at the Manager/Traverser interface (in-memory store bound to SQL by C01 part B); SQL-statement-level faults are exercised in C05's harness for writes.",
    technique="exhaustive fault-position enumeration on the implementation under a controlled scheduler, differential against the fault-free run",
    design_ref="§4 C03")

CLAIMED["C04"] = dict(
    category="model_checking", engine="enum",
    text="Explicit-state breadth-first search over API histories on the real REST and gRPC handlers (in-process httptest / bufconn, sqlite-backed registry): alphabet of 56 operations (REST PUT/DELETE/PATCH, gRPC Transact/Delete, valid and invalid arguments), 3 roots (empty + 2 seeded stores), canonical state = multiset with multiplicity capped at 2, successors produced by replaying the shortest path on a truncated database, depth 3 quick / until the frontier empties (depth 7, 2187 states) thorough. After every transition: full listings on both transports + one query per query shape against the multiset reference model (h/refsem RefStore), accept/reject/no-effect oracles; on every new state the full 180-query sweep with two page sizes and a check/expand write-visibility panel. A bystander network with two relationships (one spelled like a tuple of the alphabet) shares the database during the whole search: never listed, never removed. The query sweep includes the empty string as a present value of object and relation (320 queries).",
    note="SQLite only; state abstraction caps multiplicities at 2 (delete removes all copies, so deeper multiplicities behave identically); check/expand panel is the direct-tuple version.",
    technique="explicit-state BFS over operation histories with canonical-state de-duplication, real handlers as the transition function, reference-model oracle",
    design_ref="§4 C04")
CLAIMED["C06"] = dict(
    category="model_checking", engine="enum",
    text="Two networks A and B on one database through the production contextualizer seam; B is seeded with a small graph that shares object/subject strings with A plus B-only strings. BFS over histories in A (C04's 56-operation alphabet incl. gRPC delete with an empty query) to depth 3 (thorough 5). After every transition B's observation vector (~105 list/check/expand requests over REST and gRPC) must be unchanged and no observation in A may contain a B-only string; a statement monitor on the SQL driver checks that every statement issued for A on keto_relation_tuples binds A's network id and never B's. The zero-UUID network is a third tenant (requests that carry uuid.Nil as network id must be scoped like any other); cross-network concurrent pairs: an operation in A is paused at every SQL statement boundary while B's observation vector is taken. Id-level family: A and B use the SAME internal ids at the Manager / Traverser / engine interfaces (16-tuple universe, 38 Manager operations in A, BFS depth 2 quick / 3 thorough; B's vector = lists, exists, both traversals, engine checks, expand trees). UUID-shaped names in every spelling uuid.FromString accepts, both write orders: each network lists exactly the spelling it wrote. Relation-less subject sets and the special relation spellings '', '...', '*' in the probes of both levels (B holds a relation-less subject-set row with a B-only string).",
    note="SQLite only; keto_uuid_mappings has no nid column (ids are UUIDv5 of network id and string) so the monitor there checks that no statement binds B's nid or a UUIDv5(B, s).",
    technique="explicit-state BFS over histories in one tenant with an invariant on the other tenant's observables + SQL statement monitor",
    design_ref="§4 C06")
CLAIMED["C07"] = dict(
    category="exploration", engine="enum",
    text="Bounded-exhaustive pagination grid on the real handlers: page size {1,2,3} x 7 row counts around the page boundaries x 24 query shapes x duplicates; page size {0,100} x {99,100,101,201} rows; every 3-operation sequence of {none, insert below/above the cursor, delete a returned / a not yet returned other row} at the page boundaries with shard_ids placed by raw SQL; 10 malformed/odd token kinds; REST and gRPC. Oracle: concatenated pages = matching stable rows exactly once, |page| <= size, token empty iff last page, malformed token is a 4xx / InvalidArgument-class error. Storage-failure family: every SQL statement of one page fetch fails (generic error, sqlite LOCKED / BUSY, cancelled) - the answer is an error or the fault-free page, and continuing afterwards still yields every row once. Single-statement fault mode: one statement (every statement in turn) of a fetch of 150 rows / 300 names, whose name lookup spans several lookup pages. Very large pages: 1500 rows at page sizes 999, 1000, 1001, 1499, 1500, 1501, 2000, 100000 (REST and gRPC).",
    note="Row order is forced through shard_id (the keyset key); SQLite only.",
    technique="bounded-exhaustive enumeration of (store size, page size, query shape, interleaved write history) against a multiset oracle",
    design_ref="§4 C07")
CLAIMED["C17"] = dict(
    category="exploration", engine="enum",
    text="115 read/syntax-API requests (check GET/POST both variants, batch check, expand, list, list namespaces, syntax check; valid and invalid; known and never-seen names; write routes sent to the read/syntax ports; REST and gRPC) x 3 stored states, every sequence of length 1 and 2 (thorough: length 3 over representatives). Oracle: byte-level dump of ALL tables before = after; monitor: the SQL driver wrapper sees no write statement during a read-API request. Non-vacuity: each write route changes the dump. 'After a write' states: 2 base states x 8 write requests (successful, failing, name-mapping-only) followed by every single read request. Every request also under a tenant without any row in the database; splice monitor: distinctive request strings may reach the database as bound arguments only. Candidates are confirmed on fresh servers.",
    note="SQLite only; REST batch check with a null element is exercised in C13's subprocess workers (it kills the process).",
    technique="bounded-exhaustive request-sequence enumeration with a whole-database dump invariant and an SQL statement monitor",
    design_ref="§4 C17")

CLAIMED["C14"] = dict(
    category="model_checking", engine="vsched",
    text="Schedule exploration of request PAIRS on one instrumented engine over a fixed store: every multiset of 2 requests from {check x3 (shared sub-graph, cyclic data), batch check, expand} under two configurations (a && !b, b || traverse), all interleavings up to deviation bound 1 (thorough 2) with storage calls as scheduling points; each request's answer must lie in the outcome set the same request produces alone over all schedules to the same bound. Complement: the same kinds of requests free-running under the Go race detector against the sqlite registry and its REST/gRPC servers, concurrent first requests on fresh registries and mixed with writes; every distinct race report is a violation keyed by the top keto frames of both accesses. Built as three passes: (1) alone sets, every exploration split across all workers; (2) pairs incl. a depth-variant of the same tuple through CheckRelationTuple and CheckIsMember, cancel phases under both canonical select picks, a pagination phase through one shared ManagerWrapper; (3) API pass: 16 read requests (list pages with different tokens / sizes, checks with different depths, batch, expand; REST and gRPC) of one network, every ordered pair, the first paused inside the SQL driver before each of its statements. The API pass includes lists over 150 names and the repeat oracle (the same request again, nothing else running, must answer the same); the race pass also runs two tenants with their own configuration sources. Thorough = the bound-1 passes (complete alone sets) followed by bound-2 passes as far as the cap allows. Pre-cancelled twin phase: a request issued with an already cancelled context while an identical one is in flight must fail with the cancellation. A request that goes through no rewrite (expand, incl. a diamond reachable through two siblings) must have exactly one answer alone over all schedules; the race pass includes concurrent multi-page listings at the default page size.",
    note="The -race pass is not exhaustive (stated in evidence); cooperative scheduling cannot see data races; bounds: 2 concurrent requests, deviation bound.",
    technique="deviation-bounded stateless schedule exploration of concurrent requests on the instrumented implementation (differential against solo runs) + free-running race-detector pass",
    design_ref="§4 C14")

CLAIMED["C19"] = dict(
    category="model_checking", engine="vsched",
    text="keto's real oplConfigWatcher, NamespaceWatcher (JSON/YAML/TOML) and event loop, instrumented by tools/vinstr (profile config: sync/RWMutex with Go's writer preference, select, channels) run under the cooperative scheduler. A dispatcher thread feeds EVERY history of length <=3 (thorough 4) over {change f1 to V1/V2/syntactically bad/type-incorrect, remove f1, change f2 to W1/bad}; a reader thread takes two samples (Namespaces + GetNamespaceByName) and, for OPL, a reload thread calls ShouldReload; ALL interleavings up to deviation bound 2 are explored. Oracle per sample and per file: the visible namespaces of the file are exactly one valid version of it dispatched so far (never a subset, a mix or an invalid one); at quiescence every file shows its last valid version; no deadlock. Families over the KINDS of invalid content per format (cut off, left-over bytes, wrong value / field type, duplicate key, unterminated comment / string; histories <= 3, bound 1); a lookup-vs-set scenario on the real config.Config object (bound 2): the last namespaces value set is what is served afterwards. The namespace content is observed (same class names, different relations); http OPL locations that differ in path / query (process-wide document cache). Watcher ERROR events are letters of the alphabets.",
    note="File-system notification (watcherx/fsnotify) is replaced by the dispatcher; for OPL targets 'eventually' is judged only when the last version of every file is valid (one bad file blocks all updates by design).",
    technique="stateless model checking: exhaustive event-history enumeration x deviation-bounded schedule exploration of the instrumented implementation",
    design_ref="§4 C19")

CLAIMED["C08"] = dict(
    category="exploration", engine="enum",
    text="Bounded-exhaustive transport agreement on the real handlers (REST GET/POST on the status-mirroring and the openapi route, REST batch, gRPC Check via tuple field and flat fields, gRPC BatchCheck): 3 seeded stores x 2 configurations (rewrite-free and OR-only, so the free-running engine is deterministic) x 639 query tuples (subject id / subject set, known and unknown namespaces, adversarial strings) x 7 max-depth values; every batch sequence of length <=3 over an 8-letter alphabet plus batches at the configured maximum and maximum+1. Oracle: each transport's decision equals the engine's CheckIsMember on the mapped tuple; mirror route 200 iff allowed, 403 iff denied; unknown namespace never allowed; batch order/length preserved, batch(B)[i] = single(B[i]), an invalid entry changes no other entry; oversize and non-numeric depth are 4xx. Look-alike batch letters (a subject id spelled like a subject set, names containing the separators) so that two different tuples with the same human-readable rendering sit in one batch with different decisions; request-order family: every ordered pair of single checks on one connection / one process (GOMAXPROCS 1) - the second answer must not depend on the first request. The chain store under a global depth limit that binds (limit 2 < chain 3); max-depth values outside int32 on REST; batch entries under a storage failure at every SQL statement (generic / cancelled): an entry carries an error or is what it is without the failure. A namespace removed from / restored to the configuration at run time: no transport answers allowed for the unknown namespace.",
    note="Configurations restricted to those whose engine outcome is schedule independent (C01 shows singleton outcome sets for them); SQLite only.",
    technique="bounded-exhaustive request enumeration with a differential oracle between transports and the engine",
    design_ref="§4 C08")
CLAIMED["C13"] = dict(
    category="exploration", engine="enum",
    text="Every REST route of the read, write and syntax routers (every method on every path, odd paths) and every gRPC method: the full product of core per-field choices {absent, null, empty, valid, wrong JSON type, negative, huge, oversized, array with null element, duplicate keys} plus every single-field (thorough: every pair) deviation, incl. every combination of absent optional protobuf sub-messages - 58k requests quick / 83k thorough - executed in worker subprocesses with a request journal so that a process death is attributed to the request in flight. Oracle: no handler panic, the worker does not die, status < 500 and gRPC code not Internal/Unknown (no storage fault injected), and a rejected request leaves the full table dump unchanged. Syntax-API families include cyclic SubjectSet types, self-referential permissions and forward references. Data-shaped family: well-formed check / batch / expand / list requests over stored nodes of 1001 and 2001 subject sets.",
    note="SQLite only; RLIMIT_AS 4 GiB per worker; 7 gigabyte-sized bodies skipped in thorough.",
    technique="bounded-exhaustive request-shape enumeration in journalled worker subprocesses with crash/panic/status/state oracles",
    design_ref="§4 C13")
CLAIMED["C16"] = dict(
    category="exploration", engine="enum",
    text="182 adversarial strings (empty, separators, escapes, NFC/NFD, RTL, emoji, 4-byte runes, 10 kB, case / trailing-space / ZWJ twins): all 33k ordered pairs for injectivity of the string<->UUID mapping; batches of sizes around 1, 50, 100, 150, 200, 250 (thorough 1..260, 301, 400, 401) x 5 duplicate patterns x {subject id, subject set, mixed} through Mapper.FromTuple->ToTuple, FromQuery->ToQuery (16 shapes) and ToTree, position-wise; end-to-end write -> list / expand / check over REST and gRPC; the reverse-lookup paging loop with explicit page sizes 1..5 x 0..12 ids and 99..201 ids at page sizes 7/50/99/100/101 (through an added, non-replacing method in the persister package). Write-chunk boundaries: batches of 14999 / 15000 / 15001 / 30001 never-seen names (and 29999..30002 with every name twice; tuple batches of 2999..3001 and 7499..7501 tuples) through the same round trips - the insert of new mappings is chunked by 15000 rows. One failing statement (every statement in turn) in reverse lookups of 150 / 250 ids (several lookup pages): an error or the right names. Every reverse lookup is repeated: the second answer must equal the first. The Location header of every create answer is decoded back to the relationship. Candidates are confirmed on a fresh server or, failing that, on a long-lived worker server (history-dependent defects).",
    note="Which id falls on the page boundary at the production page size depends on Go map iteration order and is not controlled (stated in evidence); UUIDv5 collision freedom is taken as given.",
    technique="bounded-exhaustive enumeration of names and batch shapes against round-trip / injectivity oracles",
    design_ref="§4 C16")

CLAIMED["C10"] = dict(
    category="exploration", engine="enum",
    text="Every boolean expression tree with <=3 binary operators (thorough 4), every placement of `!` (<=2 per path), atoms realised by the four leaf kinds, each rendered in 4 parenthesis layouts (mixed, full, TypeScript-minimal, redundant), plus every `(` / `!(` wrapper string of length <=9: schema.Parse must accept it and the truth table of the parsed rewrite must equal the truth table an independent precedence-climbing evaluator (TypeScript precedence) computes from the rendered token string. Independently the full product of 12 spelling dimensions x 6 layouts on two documents and a comment in every token gap must parse to the source AST. Declaration-order variants: every permutation of namespace declarations and of relation/permission members for the two documents (forward references). 20 comment shapes (every form a comment's ends can take) in every token gap; result-lifetime pairs: the namespaces returned for document a are re-read after document b was parsed (every ordered pair). Identifier shapes (keyword prefixes followed by _ or a digit, digits, underscores) in every name role; unions naming a namespace plainly and through a SubjectSet, both orders and array spellings.",
    note="Only spellings the documented grammar/examples allow are demanded (others are listed in evidence as not demanded); end-to-end agreement of engine decisions with the parsed rewrite is C01's part (strict-mode configurations reach keto as OPL text).",
    technique="bounded-exhaustive program enumeration with a truth-table oracle from an independent evaluator (translation validation of the OPL front end on a finite grammar)",
    design_ref="§4 C10")
CLAIMED["C11"] = dict(
    category="exploration", engine="enum",
    text="Every OPL program of a bounded grammar (<=3 namespaces, <=4 declarations, relation types from {N[], SubjectSet<N,r>[], unions}, permissions a leaf, a negated leaf or a binary of leaves): for each accepted program (a) every single-reference replacement by an undeclared name must be rejected with an error at that token, and (b) on a real engine over sqlite configured with the program, every conforming tuple set of <=2 tuples and every query on a declared (namespace, relation), default and strict mode, must not fail with a schema error. Documentation-shaped programs: namespace-specific relation names, a traversed relation typed as a union of namespaces with heterogeneous parents on one object, several traversals over one relation.",
    note="Engine free-running: only 'a schema error occurred' is judged and a candidate must reproduce 5/5; programs whose permissions recurse without consuming depth are skipped and counted; global depth 8.",
    technique="bounded-exhaustive program enumeration x bounded-exhaustive conforming inputs on the implementation",
    design_ref="§4 C11")
CLAIMED["C12"] = dict(
    category="exploration", engine="enum",
    text="All byte strings of length <=2 and all strings of length <=4 (thorough 5) over a 25-byte alphabet (every delimiter, quotes, comment starts, newline, letter, digit, non-ASCII and invalid UTF-8) in 5 parser contexts; all token sequences of length <=4 (5) over 41 spellings x 3 separators; the complete single-edit neighbourhood of the corpus documents; 28 geometric families up to 2^14 (2^16). Oracle: no panic, terminates (step-count watchdog), errors or well-formed namespaces, every error position inside the input with start <= end, Error/ToAPI/ToProto do not panic, REST and gRPC syntax endpoints agree with Parse; LINEAR WORK measured without wall-clock: tools/vticks inserts a tick at every function entry and loop body of package schema (generated overlay); ticks <= 100*|s|+500 on every input and doubling ratio <= 2.5 on every family. Runs of 1..64 adjacent one-rune tokens; a Parse that is permanently blocked (goroutine parked, no tick progress) is reported as non-termination; error-lifetime pairs: the errors of Parse(a) are rendered after Parse(b) ran on the same goroutine. A fatal error inside Parse is a violation too: inputs are journalled in a shared mapping before each Parse, the check runs below a supervisor, a process that dies inside Parse is reported with its input. REST syntax requests are also sent with the body arriving 1 and 7 bytes per read.",
    note="Hidden library costs inside a single call (e.g. fmt) are not counted; rendering n errors through the endpoints is quadratic in n (observed, not judged: the statement bounds parsing).",
    technique="bounded-exhaustive input enumeration with deterministic step counting (instrumented work counter) as the complexity oracle",
    design_ref="§4 C12")

CLAIMED["C05"] = dict(
    category="fault_enumeration", engine="sqlfault",
    text="55 write requests (REST create, REST PATCH / gRPC Transact with |I| in {0,1,2,3000,3001} x |D| in {0,1,100,101,201}, delete-by-query, Manager-level TransactRelationTuples; thorough adds |I| = 6001 and 7501, crossing the 15000-mapping chunk). For each, with N = the SQL statements of the fault-free request seen by the driver tap: (a) EVERY k in 1..N x {fail before executing, fail after executing, drop the connection}; (b) an invalid tuple / unknown namespace at every position (chunk boundaries +-1 for large batches); (c) REAL crash points: a worker subprocess on a file-backed database is SIGKILLed inside the driver before and after every statement k and the file is reopened by a fresh registry; (d) a reader on a second registry (same database, WAL and shared-cache variants) reads while the writer is paused at EVERY statement boundary, and every pair of boundaries for a two-read reader. Oracle: relationships after in {before, apply(I,D,before)}, = before when an error was reported; reader observations are the before- or the after-state and never go backwards. (e) RETRY part: requests whose names were never seen by the database, attempt 1 rolled back by a fault at every statement k (before / after), then the same request retried and every written relationship looked up by name over REST - all-or-nothing includes the name mappings the request created (a fault after COMMIT ran is recognised by listing first). (f) action spellings (capitalised, upper case, leading / trailing space) at every delta position of the small PATCH requests: refused as a whole, or the whole request - never the request without that delta. (g) the READER paused at each of its own statements while a whole request commits (listing of 1500 other rows, page size 10000: all or nothing of the request's inserts); a seeding write that is not stored as given is reported.",
    note="SQLite only (the only engine in the sandbox): what keto contributes - one transaction around the whole request, reused by nested calls - is what is falsifiable here; an error injected after COMMIT executed is a lost acknowledgement (either state accepted).",
    technique="exhaustive fault-position, crash-point (real SIGKILL) and reader-schedule enumeration at SQL-statement granularity on the implementation",
    design_ref="§4 C05")
CLAIMED["C09"] = dict(
    category="exploration", engine="enum",
    text="Every root-connected tuple multiset of <=4 tuples (thorough 5: 48534 multisets) over 4 objects, 2 relations, 2 users up to renaming - chains, diamonds, cycles, self-loops, duplicates - in ALL sibling row orders (shard_id forced), plus fan-out families with 99/100/101/201 children, x 11 request/global depth combinations, through the expand engine, REST and gRPC. Oracles against an independent reachability model (h/refsem ExpandGraph): every edge is a stored tuple, a subject set is an inner node at most once, height <= effective depth, statement count within a stated bound (termination on cycles, step-count horizon), leaves subset of reach, leaves superset of everything within depth (weaker reading), and with depth not binding the subject-id leaves equal the subjects the check API allows. Statement-fault pass: every SQL statement of an expansion fails once - the answer is an error or the fault-free tree, never a silently smaller tree. Two-namespace family (the same object name and relation in two namespaces; every root-connected set of <= 3 tuples, both row orders); run-time reconfiguration of limit.max_read_depth on one registry (7 sequences of limits x 4 request depths x 3 transports).",
    note="Rewrite-free namespaces; SQLite only; the row-order dependent incompleteness (recorded findings KF-C09-1/2) is matched by a structural signature computed from the counterexample.",
    technique="bounded-exhaustive enumeration of graphs x row orders x depths against a reference reachability model",
    design_ref="§4 C09")

NOT_YET = "check not built yet in this revision (work in progress; see DESIGN.md §4 for the planned model-checking design)"


def main():
    props = [json.loads(l) for l in open(os.path.join(ROOT, "properties.jsonl"))]
    checks, na = [], []
    for p in props:
        pid = p["id"]
        c = CLAIMED.get(pid)
        if not c:
            na.append({"property_id": pid, "reason": NOT_YET})
            continue
        checks.append({
            "property_id": pid,
            "quick_cmd": f"./check {pid} quick",
            "thorough_cmd": f"./check {pid} thorough",
            "evidence_file": f"/verif/evidence/{pid}.json",
            "replay_cmd_template": f"./check {pid} quick --replay {{path}}",
            "engine": c.get("engine", "enum"),
            "level_claimed": {"category": c["category"], "text": c["text"], "design_ref": c["design_ref"]},
            "level_note": c["note"],
            "technique": c["technique"],
        })
    m = {
        "version": 1,
        "setup_cmd": "./setup.sh",
        "hooks": {
            "guard": "verif",
            "enable": "go test -c -tags sqlite,verif -overlay <generated by tools/vinstr + h/added at check time>; /repo itself carries no hook code",
            "baseline_off_cmd": BASELINE_OFF,
            "source_commits": [],
            "add_only": True,
        },
        "engines": [
            {"name": "enum", "path": "h/ev, h/c18, h/opl, h/api", "serves_properties": ["C04", "C06", "C07", "C08", "C09", "C10", "C11", "C12", "C13", "C16", "C17", "C18"],
             "kind_free_text": "bounded-exhaustive enumerators / BFS over API histories driving keto's real code in-process"},
            {"name": "vsched", "path": "tools/vinstr, h/vsched, h/sched", "serves_properties": ["C01", "C02", "C03", "C14", "C15", "C19"],
             "kind_free_text": "source instrumenter + cooperative scheduler + deviation-bounded stateless DFS over the real check engine"},
            {"name": "sqlfault", "path": "h/sqlfault", "serves_properties": ["C03", "C05", "C06", "C17"],
             "kind_free_text": "database/sql driver wrapper: statement log, fault / crash / pause points at every statement"},
        ],
        "checks": checks,
        "not_applicable": na,
        "notes": "All checks rebuild from /repo's working tree through `go test -c -overlay`; exit 2 + INFRA-ERROR means the machinery could not decide (never on the unchanged tree). known_findings.json lists recorded defects.",
    }
    json.dump(m, open(os.path.join(ROOT, "MANIFEST.json"), "w"), indent=1)
    try:
        import jsonschema
        jsonschema.validate(m, json.load(open("/root/.vp/MANIFEST.schema.json")))
        print("MANIFEST.json valid;", len(checks), "claimed,", len(na), "not claimed")
    except ImportError:
        print("jsonschema not importable; MANIFEST.json written unvalidated")


if __name__ == "__main__":
    main()

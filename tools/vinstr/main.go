// vinstr rewrites the concurrency constructs of a set of keto source files
// into calls to the cooperative scheduler (github.com/ory/keto/verif/vsched)
// and writes the result as a `go build -overlay` file set. /repo is never
// modified; the instrumentation is re-derived from the working tree on every
// check run. Anything it does not understand is a loud error (exit 1).
package main

import (
	"encoding/json"
	"flag"
	"fmt"
	"go/ast"
	"go/parser"
	"go/printer"
	"go/token"
	"os"
	"path/filepath"
	"reflect"
	"sort"
	"strconv"
	"strings"
)

const (
	vschedPath = "github.com/ory/keto/verif/vsched"
	vsyncPath  = "github.com/ory/keto/verif/vsched/vsync"
	verrPath   = "github.com/ory/keto/verif/vsched/verrgroup"
	vsfPath    = "github.com/ory/keto/verif/vsched/vsingleflight"
	vsemPath   = "github.com/ory/keto/verif/vsched/vsemaphore"
)

var profiles = map[string][]string{
	// (an entry that names a file instruments that file only)
	"check":  {"internal/check", "internal/check/checkgroup", "internal/x/graph", "internal/expand", "internal/relationtuple/definitions.go"},
	"config": {"internal/driver/config"},
}

type rw struct {
	fset    *token.FileSet
	file    string
	n       int
	used    bool // vsched referenced
	counts  map[string]int
	ctxName string // local name of the "context" import
	fatal   []string
}

func id(s string) *ast.Ident { return ast.NewIdent(s) }
func sel(pkg, name string) ast.Expr {
	return &ast.SelectorExpr{X: id(pkg), Sel: id(name)}
}
func call(fn ast.Expr, args ...ast.Expr) *ast.CallExpr { return &ast.CallExpr{Fun: fn, Args: args} }
func (r *rw) vs(name string, args ...ast.Expr) *ast.CallExpr {
	r.used = true
	r.counts[name]++
	return call(sel("vsched", name), args...)
}
func (r *rw) fresh(p string) string { r.n++; return fmt.Sprintf("_vs%s%d", p, r.n) }
func (r *rw) site(p token.Pos) ast.Expr {
	pos := r.fset.Position(p)
	return &ast.BasicLit{Kind: token.STRING, Value: strconv.Quote(fmt.Sprintf("%s:%d", filepath.Base(pos.Filename), pos.Line))}
}
func (r *rw) fail(p token.Pos, msg string) {
	r.fatal = append(r.fatal, fmt.Sprintf("%s: %s", r.fset.Position(p), msg))
}

var (
	exprT = reflect.TypeOf((*ast.Expr)(nil)).Elem()
	stmtT = reflect.TypeOf((*ast.Stmt)(nil)).Elem()
	nodeT = reflect.TypeOf((*ast.Node)(nil)).Elem()
	declT = reflect.TypeOf((*ast.Decl)(nil)).Elem()
	specT = reflect.TypeOf((*ast.Spec)(nil)).Elem()
)

// children rewrites every child expression / statement of n in place.
func (r *rw) children(n ast.Node) {
	v := reflect.ValueOf(n)
	if v.Kind() != reflect.Ptr || v.IsNil() {
		return
	}
	v = v.Elem()
	if v.Kind() != reflect.Struct {
		return
	}
	for i := 0; i < v.NumField(); i++ {
		r.field(v.Field(i))
	}
}

func (r *rw) field(f reflect.Value) {
	switch f.Kind() {
	case reflect.Interface:
		if f.IsNil() {
			return
		}
		switch {
		case f.Type() == exprT:
			f.Set(reflect.ValueOf(r.expr(f.Interface().(ast.Expr))))
		case f.Type() == stmtT:
			f.Set(reflect.ValueOf(r.stmt(f.Interface().(ast.Stmt))))
		case f.Type() == declT, f.Type() == specT, f.Type() == nodeT:
			r.children(f.Interface().(ast.Node))
		}
	case reflect.Ptr:
		if f.IsNil() {
			return
		}
		if n, ok := f.Interface().(ast.Node); ok {
			switch n.(type) {
			case *ast.CommentGroup, *ast.Comment:
				return
			}
			if e, ok := n.(ast.Expr); ok && f.Type().Implements(exprT) {
				// concrete pointer field (e.g. *ast.FuncType, *ast.Ident, *ast.BasicLit): descend only
				_ = e
				r.children(n)
				return
			}
			if s, ok := n.(*ast.BlockStmt); ok {
				r.block(s)
				return
			}
			r.children(n)
		}
	case reflect.Slice:
		for j := 0; j < f.Len(); j++ {
			r.field(f.Index(j))
		}
	}
}

func (r *rw) block(b *ast.BlockStmt) {
	for i, s := range b.List {
		b.List[i] = r.stmt(s)
	}
}

func isRecvCall(e ast.Expr) (*ast.CallExpr, bool) {
	c, ok := e.(*ast.CallExpr)
	if !ok {
		return nil, false
	}
	s, ok := c.Fun.(*ast.SelectorExpr)
	if !ok {
		return nil, false
	}
	x, ok := s.X.(*ast.Ident)
	return c, ok && x.Name == "vsched" && s.Sel.Name == "Recv"
}

func (r *rw) expr(e ast.Expr) ast.Expr {
	r.children(e)
	switch x := e.(type) {
	case *ast.UnaryExpr:
		if x.Op == token.ARROW {
			return r.vs("Recv", x.X)
		}
	case *ast.CallExpr:
		if f, ok := x.Fun.(*ast.Ident); ok && f.Name == "close" && len(x.Args) == 1 {
			return r.vs("Close", x.Args[0])
		}
		if s, ok := x.Fun.(*ast.SelectorExpr); ok {
			if p, ok := s.X.(*ast.Ident); ok {
				if p.Name == r.ctxName && r.ctxName != "" {
					switch s.Sel.Name {
					case "WithCancel":
						c := r.vs("WithCancel", x.Args...)
						return c
					case "WithTimeout", "WithDeadline", "WithTimeoutCause", "WithDeadlineCause", "AfterFunc":
						r.fail(x.Pos(), "context."+s.Sel.Name+" is not modelled by vsched")
					}
				}
				if p.Name == "time" {
					switch s.Sel.Name {
					case "Sleep", "After", "NewTimer":
						// modelled: time passes instantly (a sleep is a yield, a timer has fired when it is looked at)
						return r.vs(s.Sel.Name, x.Args...)
					case "Tick", "NewTicker", "AfterFunc":
						r.fail(x.Pos(), "time."+s.Sel.Name+" in an instrumented file is not modelled by vsched")
					}
				}
			}
		}
	}
	return e
}

func trivialArg(e ast.Expr) bool {
	switch x := e.(type) {
	case *ast.BasicLit:
		return true
	case *ast.Ident:
		return x.Name == "nil" || x.Name == "true" || x.Name == "false"
	}
	return false
}

func (r *rw) goStmt(g *ast.GoStmt) ast.Stmt {
	c := g.Call
	fn := r.fresh("f")
	lhs := []ast.Expr{id(fn)}
	rhs := []ast.Expr{c.Fun}
	args := make([]ast.Expr, len(c.Args))
	for i, a := range c.Args {
		if trivialArg(a) {
			args[i] = a
			continue
		}
		n := r.fresh("a")
		lhs = append(lhs, id(n))
		rhs = append(rhs, a)
		args[i] = id(n)
	}
	inner := &ast.CallExpr{Fun: id(fn), Args: args, Ellipsis: c.Ellipsis}
	if c.Ellipsis != token.NoPos {
		inner.Ellipsis = 1
	}
	lit := &ast.FuncLit{Type: &ast.FuncType{Params: &ast.FieldList{}}, Body: &ast.BlockStmt{List: []ast.Stmt{&ast.ExprStmt{X: inner}}}}
	return &ast.BlockStmt{List: []ast.Stmt{
		&ast.AssignStmt{Lhs: lhs, Tok: token.DEFINE, Rhs: rhs},
		&ast.ExprStmt{X: r.vs("Go", r.site(g.Pos()), lit)},
	}}
}

func allBlank(es []ast.Expr) bool {
	for _, e := range es {
		if i, ok := e.(*ast.Ident); !ok || i.Name != "_" {
			return false
		}
	}
	return true
}

func (r *rw) selectStmt(s *ast.SelectStmt) ast.Stmt {
	var pre []ast.Stmt
	var caseVars []ast.Expr
	sw := &ast.SwitchStmt{Body: &ast.BlockStmt{}}
	hasDefault := false
	idx := 0
	for _, cl := range s.Body.List {
		cc := cl.(*ast.CommClause)
		for i, b := range cc.Body {
			cc.Body[i] = r.stmt(b)
		}
		if cc.Comm == nil {
			hasDefault = true
			sw.Body.List = append(sw.Body.List, &ast.CaseClause{List: nil, Body: cc.Body})
			continue
		}
		v := r.fresh("c")
		var body []ast.Stmt
		switch c := cc.Comm.(type) {
		case *ast.SendStmt:
			pre = append(pre, &ast.AssignStmt{Lhs: []ast.Expr{id(v)}, Tok: token.DEFINE, Rhs: []ast.Expr{r.vs("CaseSend", r.expr(c.Chan), r.expr(c.Value))}})
		case *ast.ExprStmt:
			u, ok := c.X.(*ast.UnaryExpr)
			if !ok || u.Op != token.ARROW {
				r.fail(c.Pos(), "unsupported select comm expression")
				continue
			}
			pre = append(pre, &ast.AssignStmt{Lhs: []ast.Expr{id(v)}, Tok: token.DEFINE, Rhs: []ast.Expr{r.vs("CaseRecv", r.expr(u.X))}})
		case *ast.AssignStmt:
			u, ok := c.Rhs[0].(*ast.UnaryExpr)
			if !ok || u.Op != token.ARROW || len(c.Rhs) != 1 {
				r.fail(c.Pos(), "unsupported select comm assignment")
				continue
			}
			pre = append(pre, &ast.AssignStmt{Lhs: []ast.Expr{id(v)}, Tok: token.DEFINE, Rhs: []ast.Expr{r.vs("CaseRecv", r.expr(u.X))}})
			tok := c.Tok
			if tok == token.DEFINE && allBlank(c.Lhs) {
				tok = token.ASSIGN
			}
			rhs := []ast.Expr{&ast.SelectorExpr{X: id(v), Sel: id("V")}}
			if len(c.Lhs) == 2 {
				rhs = append(rhs, &ast.SelectorExpr{X: id(v), Sel: id("OK")})
			}
			lhs := make([]ast.Expr, len(c.Lhs))
			for i, l := range c.Lhs {
				lhs[i] = r.expr(l)
			}
			body = append(body, &ast.AssignStmt{Lhs: lhs, Tok: tok, Rhs: rhs})
		default:
			r.fail(cc.Pos(), "unsupported select clause")
			continue
		}
		caseVars = append(caseVars, id(v))
		body = append(body, cc.Body...)
		sw.Body.List = append(sw.Body.List, &ast.CaseClause{List: []ast.Expr{&ast.BasicLit{Kind: token.INT, Value: strconv.Itoa(idx)}}, Body: body})
		idx++
	}
	def := "false"
	if hasDefault {
		def = "true"
	} else if n := len(sw.Body.List); n > 0 {
		// Select only returns valid indexes: turning the last arm into `default:` keeps the
		// switch a terminating statement exactly when the select was one.
		sw.Body.List[n-1].(*ast.CaseClause).List = nil
	}
	sw.Tag = r.vs("Select", append([]ast.Expr{id(def)}, caseVars...)...)
	return &ast.BlockStmt{List: append(pre, sw)}
}

func (r *rw) stmt(s ast.Stmt) ast.Stmt {
	switch x := s.(type) {
	case *ast.SelectStmt:
		return r.selectStmt(x)
	case *ast.LabeledStmt:
		if _, ok := x.Stmt.(*ast.SelectStmt); ok {
			r.fail(x.Pos(), "labelled select is not supported")
			return s
		}
	case *ast.BlockStmt:
		r.block(x)
		return x
	case *ast.DeferStmt:
		if c, ok := r.expr(x.Call).(*ast.CallExpr); ok {
			x.Call = c
		}
		return x
	case *ast.GoStmt:
		r.children(x.Call)
		return r.goStmt(x)
	}
	r.children(s)
	switch x := s.(type) {
	case *ast.SendStmt:
		return &ast.ExprStmt{X: r.vs("Send", x.Chan, x.Value)}
	case *ast.AssignStmt:
		if len(x.Lhs) == 2 && len(x.Rhs) == 1 {
			if c, ok := isRecvCall(x.Rhs[0]); ok {
				c.Fun = sel("vsched", "Recv2")
			}
		}
	case *ast.RangeStmt:
		// ranging over a channel cannot be recognised without type information; the scheduler's
		// watchdog turns an unmodelled blocking receive into a loud INFRA-ERROR.
	}
	return s
}

// counterfactual for known finding KF-C01-1: path-local visited sets in checkExpandSubject.
const cf5Old = `			innerCtx, visited = graph.CheckAndAddVisited(innerCtx, sub)
			if visited {
				continue
			}
			g.Add(e.checkIsAllowed(innerCtx, result.To, restDepth, true))`
const cf5New = `			var childCtx context.Context
			childCtx, visited = graph.VerifPathLocal(ctx, sub)
			if visited {
				continue
			}
			_ = innerCtx
			g.Add(e.checkIsAllowed(childCtx, result.To, restDepth, true))`

var cf5 = false
var cf5Applied = false
var overDir = "" // directory of replacement sources (mutants): <overDir>/<path relative to repo> replaces the repo file
var repoDir = "/repo"

func process(fset *token.FileSet, path string) (out []byte, counts map[string]int, errs []string) {
	readFrom := path
	if overDir != "" {
		if rel, err := filepath.Rel(repoDir, path); err == nil {
			if _, err := os.Stat(filepath.Join(overDir, rel)); err == nil {
				readFrom = filepath.Join(overDir, rel)
			}
		}
	}
	src, err := os.ReadFile(readFrom)
	if err != nil {
		return nil, nil, []string{err.Error()}
	}
	if cf5 && strings.HasSuffix(path, "internal/check/engine.go") {
		if strings.Count(string(src), cf5Old) == 1 {
			src = []byte(strings.Replace(string(src), cf5Old, cf5New, 1))
			cf5Applied = true
		}
	}
	f, err := parser.ParseFile(fset, path, src, parser.ParseComments|parser.SkipObjectResolution)
	if err != nil {
		return nil, nil, []string{err.Error()}
	}
	r := &rw{fset: fset, file: path, counts: map[string]int{}}
	syncUsed, errgUsed := false, false
	for _, im := range f.Imports {
		p, _ := strconv.Unquote(im.Path.Value)
		switch p {
		case "context":
			r.ctxName = "context"
			if im.Name != nil {
				r.ctxName = im.Name.Name
			}
		case "sync":
			syncUsed = true
		case "golang.org/x/sync/errgroup":
			errgUsed = true
		case "golang.org/x/sync/semaphore", "golang.org/x/sync/singleflight":
			errgUsed = true // (a modelled library is imported: the file must be rewritten)
		}
	}
	// header: build constraints must survive; other comments are dropped (synthesised
	// nodes carry no positions, so the printer could misplace them)
	var header []string
	for _, cg := range f.Comments {
		if cg.Pos() > f.Package {
			break
		}
		for _, c := range cg.List {
			if strings.HasPrefix(c.Text, "//go:build") || strings.HasPrefix(c.Text, "// +build") {
				header = append(header, c.Text)
			}
		}
	}
	for _, cg := range f.Comments {
		for _, c := range cg.List {
			if strings.HasPrefix(c.Text, "//go:embed") || strings.HasPrefix(c.Text, "//go:linkname") {
				errs = append(errs, path+": "+c.Text+" cannot be preserved by the instrumenter")
			}
		}
	}
	f.Comments = nil
	f.Doc = nil
	for _, d := range f.Decls {
		switch x := d.(type) {
		case *ast.FuncDecl:
			x.Doc = nil
			if x.Body != nil {
				r.block(x.Body)
			}
		case *ast.GenDecl:
			x.Doc = nil
			r.children(x)
		}
	}
	errs = append(errs, r.fatal...)
	if !r.used && !syncUsed && !errgUsed {
		if readFrom != path {
			return src, r.counts, errs // replacement without constructs: overlay the replacement as it is
		}
		return nil, r.counts, errs
	}
	for _, im := range f.Imports {
		p, _ := strconv.Unquote(im.Path.Value)
		switch p {
		case "sync":
			im.Path.Value = strconv.Quote(vsyncPath)
			if im.Name == nil {
				im.Name = id("sync")
			}
			r.counts["import-sync"]++
		case "golang.org/x/sync/errgroup":
			im.Path.Value = strconv.Quote(verrPath)
			if im.Name == nil {
				im.Name = id("errgroup")
			}
			r.counts["import-errgroup"]++
		case "golang.org/x/sync/singleflight":
			im.Path.Value = strconv.Quote(vsfPath)
			if im.Name == nil {
				im.Name = id("singleflight")
			}
			r.counts["import-singleflight"]++
		case "golang.org/x/sync/semaphore":
			im.Path.Value = strconv.Quote(vsemPath)
			if im.Name == nil {
				im.Name = id("semaphore")
			}
			r.counts["import-semaphore"]++
		}
	}
	if r.used {
		spec := &ast.ImportSpec{Name: id("vsched"), Path: &ast.BasicLit{Kind: token.STRING, Value: strconv.Quote(vschedPath)}}
		f.Decls = append([]ast.Decl{&ast.GenDecl{Tok: token.IMPORT, Specs: []ast.Spec{spec}}}, f.Decls...)
	}
	if r.ctxName != "" && r.ctxName != "_" && r.ctxName != "." {
		f.Decls = append(f.Decls, &ast.GenDecl{Tok: token.VAR, Specs: []ast.Spec{&ast.ValueSpec{Names: []*ast.Ident{id("_")}, Type: sel(r.ctxName, "Context")}}})
	}
	var sb strings.Builder
	for _, h := range header {
		sb.WriteString(h + "\n")
	}
	if len(header) > 0 {
		sb.WriteString("\n")
	}
	sb.WriteString("// Code generated by /verif/tools/vinstr from " + path + "; DO NOT EDIT.\n\n")
	cfg := printer.Config{Mode: printer.UseSpaces | printer.TabIndent, Tabwidth: 8}
	if err := cfg.Fprint(&sb, token.NewFileSet(), f); err != nil {
		errs = append(errs, path+": print: "+err.Error())
	}
	// the context import may have become unused (only WithCancel was used)
	res := sb.String()
	return []byte(res), r.counts, errs
}

func main() {
	profile := flag.String("profile", "check", "instrumentation profile")
	repo := flag.String("repo", "/repo", "keto working tree")
	out := flag.String("out", "", "output directory")
	flag.StringVar(&overDir, "over", "", "directory with replacement sources (relative paths as in the repo)")
	flag.BoolVar(&cf5, "cf5", false, "apply the counterfactual patch for KF-C01-1 (path-local visited sets)")
	flag.Parse()
	repoDir = *repo
	dirs, ok := profiles[*profile]
	if !ok || *out == "" {
		fmt.Println("usage: vinstr -profile check|config -repo /repo -out <dir>")
		os.Exit(1)
	}
	fset := token.NewFileSet()
	overlay := map[string]string{}
	total := map[string]int{}
	var errs []string
	for _, d := range dirs {
		var names []string
		if strings.HasSuffix(d, ".go") {
			names = []string{filepath.Base(d)}
			d = filepath.Dir(d)
		} else {
			ents, err := os.ReadDir(filepath.Join(*repo, d))
			if err != nil {
				errs = append(errs, err.Error())
				continue
			}
			for _, e := range ents {
				if !e.IsDir() {
					names = append(names, e.Name())
				}
			}
			// files that exist only among the replacement sources (a change that adds a file to the package)
			if overDir != "" {
				if more, err := os.ReadDir(filepath.Join(overDir, d)); err == nil {
					for _, e := range more {
						if _, err := os.Stat(filepath.Join(*repo, d, e.Name())); err != nil && !e.IsDir() {
							names = append(names, e.Name())
						}
					}
				}
			}
		}
		for _, n := range names {
			if !strings.HasSuffix(n, ".go") || strings.HasSuffix(n, "_test.go") {
				continue
			}
			src := filepath.Join(*repo, d, n)
			b, counts, es := process(fset, src)
			errs = append(errs, es...)
			for k, v := range counts {
				total[k] += v
			}
			if b == nil {
				continue
			}
			dst := filepath.Join(*out, strings.ReplaceAll(d, "/", "_")+"__"+n)
			if err := os.WriteFile(dst, b, 0o644); err != nil {
				errs = append(errs, err.Error())
			}
			overlay[src] = dst
		}
	}
	if cf5 && !cf5Applied {
		fmt.Println("vinstr: counterfactual cf5 is not applicable to this tree (checkExpandSubject changed)")
		os.Exit(3)
	}
	if len(errs) > 0 {
		for _, e := range errs {
			fmt.Println("vinstr:", e)
		}
		os.Exit(1)
	}
	b, _ := json.MarshalIndent(map[string]any{"Replace": overlay}, "", " ")
	if err := os.WriteFile(filepath.Join(*out, "overlay.json"), b, 0o644); err != nil {
		fmt.Println("vinstr:", err)
		os.Exit(1)
	}
	var ks []string
	for k, v := range total {
		ks = append(ks, fmt.Sprintf("%s=%d", k, v))
	}
	sort.Strings(ks)
	b, _ = json.Marshal(total)
	_ = os.WriteFile(filepath.Join(*out, "counts.json"), b, 0o644)
	fmt.Printf("vinstr: %d files instrumented (%s)\n", len(overlay), strings.Join(ks, " "))
}

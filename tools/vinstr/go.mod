module vinstr

go 1.23

module vticks

go 1.23

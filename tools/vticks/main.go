// vticks writes instrumented copies of every non-test .go file of
// <repo>/internal/schema into <out> together with <out>/overlay.json
// ({"Replace": {original: copy}}) for `go build -overlay`.
//
// Instrumentation: a call `verifTick()` is inserted as the first statement of
// every function body (declarations and literals) and of every for / range
// loop body. The function verifTick and its counter are NOT generated here:
// they live in /verif/h/added/internal/schema/zz_verif_ticks.go, which the
// driver overlays into the package for every variant.
//
// Build constraints, the package clause, imports, comments and directives are
// kept (the file is re-printed from its AST with comments).
package main

import (
	"bytes"
	"encoding/json"
	"flag"
	"fmt"
	"go/ast"
	"go/format"
	"go/parser"
	"go/printer"
	"go/token"
	"os"
	"path/filepath"
	"sort"
	"strings"
)

func tickStmt() ast.Stmt {
	return &ast.ExprStmt{X: &ast.CallExpr{Fun: ast.NewIdent("verifTick")}}
}

func prepend(b *ast.BlockStmt) {
	if b == nil {
		return
	}
	b.List = append([]ast.Stmt{tickStmt()}, b.List...)
}

func instrument(f *ast.File) (funcs, loops int) {
	ast.Inspect(f, func(n ast.Node) bool {
		switch x := n.(type) {
		case *ast.FuncDecl:
			if x.Body != nil {
				prepend(x.Body)
				funcs++
			}
		case *ast.FuncLit:
			prepend(x.Body)
			funcs++
		case *ast.ForStmt:
			prepend(x.Body)
			loops++
		case *ast.RangeStmt:
			prepend(x.Body)
			loops++
		}
		return true
	})
	return
}

func fail(format string, a ...any) {
	fmt.Fprintf(os.Stderr, "vticks: "+format+"\n", a...)
	os.Exit(1)
}

func main() {
	profile := flag.String("profile", "ticks", "instrumentation profile (only \"ticks\")")
	repo := flag.String("repo", "/repo", "keto working tree")
	out := flag.String("out", "", "output directory")
	over := flag.String("over", "", "directory with replacement sources (mutants), paths relative to the repo")
	flag.Parse()
	if *profile != "ticks" {
		fail("unknown profile %q", *profile)
	}
	if *out == "" {
		fail("-out is required")
	}
	if err := os.MkdirAll(*out, 0o755); err != nil {
		fail("%v", err)
	}
	dir := filepath.Join(*repo, "internal", "schema")
	ents, err := os.ReadDir(dir)
	if err != nil {
		fail("%v", err)
	}
	replace := map[string]string{}
	var names []string
	for _, e := range ents {
		n := e.Name()
		if e.IsDir() || !strings.HasSuffix(n, ".go") || strings.HasSuffix(n, "_test.go") {
			continue
		}
		names = append(names, n)
	}
	sort.Strings(names)
	totalF, totalL := 0, 0
	for _, n := range names {
		src := filepath.Join(dir, n)
		readFrom := src
		if *over != "" {
			if alt := filepath.Join(*over, "internal", "schema", n); fileExists(alt) {
				readFrom = alt // a mutant of this file: instrument the mutant
			}
		}
		fset := token.NewFileSet()
		f, err := parser.ParseFile(fset, readFrom, nil, parser.ParseComments)
		if err != nil {
			fail("parse %s: %v", src, err)
		}
		nf, nl := instrument(f)
		totalF += nf
		totalL += nl
		var buf bytes.Buffer
		if err := (&printer.Config{Mode: printer.UseSpaces | printer.TabIndent, Tabwidth: 8}).Fprint(&buf, fset, f); err != nil {
			fail("print %s: %v", src, err)
		}
		b, err := format.Source(buf.Bytes())
		if err != nil {
			fail("instrumented %s does not re-parse: %v", n, err)
		}
		// the result must still be a valid file of the same package with the same constraints
		chk, err := parser.ParseFile(token.NewFileSet(), n, b, parser.ParseComments)
		if err != nil || chk.Name.Name != f.Name.Name {
			fail("instrumented %s is not a valid file of package %s: %v", n, f.Name.Name, err)
		}
		if c0, c1 := constraints(readFrom), constraintsOf(b); c0 != c1 {
			fail("build constraints of %s changed: %q -> %q", n, c0, c1)
		}
		dst := filepath.Join(*out, n)
		if err := os.WriteFile(dst, b, 0o644); err != nil {
			fail("%v", err)
		}
		replace[src] = dst
	}
	if len(replace) == 0 {
		fail("no Go files found in %s", dir)
	}
	ov, _ := json.MarshalIndent(map[string]any{"Replace": replace}, "", " ")
	if err := os.WriteFile(filepath.Join(*out, "overlay.json"), append(ov, '\n'), 0o644); err != nil {
		fail("%v", err)
	}
	fmt.Printf("vticks: %d files, %d function entries, %d loop bodies instrumented\n", len(replace), totalF, totalL)
}

func fileExists(p string) bool {
	st, err := os.Stat(p)
	return err == nil && !st.IsDir()
}

// constraints returns the //go:build and // +build lines that precede the package clause.
func constraints(path string) string {
	b, err := os.ReadFile(path)
	if err != nil {
		fail("%v", err)
	}
	return constraintsOf(b)
}

func constraintsOf(b []byte) string {
	var out []string
	for _, l := range strings.Split(string(b), "\n") {
		t := strings.TrimSpace(l)
		if strings.HasPrefix(t, "package ") {
			break
		}
		if strings.HasPrefix(t, "//go:build ") || strings.HasPrefix(t, "// +build ") {
			out = append(out, t)
		}
	}
	return strings.Join(out, "\n")
}

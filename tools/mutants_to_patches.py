#!/usr/bin/env python3
"""Converts directory mutants (full file copies under mutants/<name>/<relpath>) into mutants/<name>.patch:
for every file the base is the historical /repo version (any commit touching it, or the working tree)
that minimises the diff, so that later fixes in /repo are not reverted by a stale copy."""
import os, subprocess, sys, difflib, shutil
ROOT = "/verif/mutants"
def versions(rel):
    out = [("worktree", open(os.path.join("/repo", rel)).read())]
    commits = subprocess.run(["git", "-C", "/repo", "log", "--format=%H", "--", rel], capture_output=True, text=True).stdout.split()
    for c in commits:
        r = subprocess.run(["git", "-C", "/repo", "show", f"{c}:{rel}"], capture_output=True, text=True)
        if r.returncode == 0:
            out.append((c[:7], r.stdout))
    return out
for name in sorted(os.listdir(ROOT)):
    d = os.path.join(ROOT, name)
    if not os.path.isdir(d):
        continue
    chunks = []
    for dp, _, fns in os.walk(d):
        for fn in fns:
            if not fn.endswith(".go"):
                continue
            rel = os.path.relpath(os.path.join(dp, fn), d)
            mut = open(os.path.join(dp, fn)).read()
            best = None
            for tag, base in versions(rel):
                diff = list(difflib.unified_diff(base.splitlines(True), mut.splitlines(True), "a/" + rel, "b/" + rel, n=3))
                size = sum(1 for l in diff if l[:1] in "+-" and l[:3] not in ("+++", "---"))
                if best is None or size < best[0]:
                    best = (size, tag, diff)
            print(f"{name}: {rel} base={best[1]} changed_lines={best[0]}")
            chunks.append("".join(best[2]))
    open(os.path.join(ROOT, name + ".patch"), "w").write("".join(chunks))
    shutil.rmtree(d)

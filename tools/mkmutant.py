#!/usr/bin/env python3
"""mkmutant.py <name> <path relative to /repo> <old> <new>  — writes /verif/mutants/<name>.patch: one replacement in the current file."""
import os, sys, difflib
name, rel, old, new = sys.argv[1:5]
src = open(os.path.join("/repo", rel)).read()
if src.count(old) != 1:
    sys.exit(f"{name}: pattern occurs {src.count(old)} times in {rel}")
mut = src.replace(old, new)
d = "".join(difflib.unified_diff(src.splitlines(True), mut.splitlines(True), "a/" + rel, "b/" + rel, n=3))
open(os.path.join("/verif/mutants", name + ".patch"), "w").write(d)
print("mutant", name)

#!/usr/bin/env python3
"""mkmutant.py <name> <path relative to /repo> <old> <new>  — full copy of the file with one replacement, under /verif/mutants/<name>/."""
import os, sys
name, rel, old, new = sys.argv[1:5]
src = open(os.path.join("/repo", rel)).read()
if src.count(old) != 1:
    sys.exit(f"{name}: pattern occurs {src.count(old)} times in {rel}")
dst = os.path.join("/verif/mutants", name, rel)
os.makedirs(os.path.dirname(dst), exist_ok=True)
open(dst, "w").write(src.replace(old, new))
print("mutant", name, "->", dst)

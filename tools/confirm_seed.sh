#!/bin/bash
# confirm_seed.sh <PROP> <name> <demo-dest-relative-path> <demo go test args...>
# Confirms a seeded change in the scratch worktree /tmp/seed/<PROP>: applies the patch, builds, runs the
# pinned suite (no sqlite tag) and compares its ok/FAIL summary with the clean tree, runs the demo with
# and without the change, then turns the change into an overlay mutant /verif/mutants/seed-<prop>-<name>.
set -u
P=$1; N=$2; DEST=$3; shift 3
WT=/tmp/seed/$P; OUT=/tmp/seed/out/$P/$N
export GOFLAGS=-mod=mod GOPROXY=off
summ() { (cd $WT && go test -vet=off -count=1 ./... 2>&1 | grep -E "^(ok|FAIL|--- FAIL|---)" | sed -E 's/\t[0-9.]+s$//; s/\(cached\)//; s/ \([0-9.]+s\)//' | sort); }
git -C $WT checkout -q -- . ; git -C $WT clean -fdq
if [ ! -f /tmp/seed/baseline.txt ]; then summ > /tmp/seed/baseline.txt; fi
# demo on the clean tree
mkdir -p $(dirname $WT/$DEST); cp $OUT/demo_test.go $WT/$DEST
(cd $WT && go test "$@" > /tmp/seed/logs/$P-$N.demo-clean.log 2>&1); CLEAN=$?
rm -f $WT/$DEST
git -C $WT apply $OUT/patch.diff || { echo "$P/$N: PATCH DOES NOT APPLY"; exit 1; }
(cd $WT && go build ./... ) || { echo "$P/$N: BUILD FAILS"; git -C $WT checkout -q -- .; exit 1; }
summ > /tmp/seed/logs/$P-$N.suite.txt
if diff -q /tmp/seed/baseline.txt /tmp/seed/logs/$P-$N.suite.txt >/dev/null; then SUITE=same; else SUITE=DIFFERENT; fi
cp $OUT/demo_test.go $WT/$DEST
(cd $WT && go test "$@" > /tmp/seed/logs/$P-$N.demo-patched.log 2>&1); PATCHED=$?
rm -f $WT/$DEST
# mutant patch for ./selftest (applied to the current /repo files at build time)
lp=$(echo $P | tr A-Z a-z)
M=/verif/mutants/seed-$lp-$N.patch
cp $OUT/patch.diff $M
git -C $WT checkout -q -- . ; git -C $WT clean -fdq
echo "$P/$N: suite=$SUITE demo_clean_exit=$CLEAN demo_patched_exit=$PATCHED mutant=$M"

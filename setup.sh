#!/bin/bash
# Offline setup: build the instrumenter and warm the Go build cache for every
# harness variant. Everything comes from files on disk (module cache + /repo).
set -u
cd "$(dirname "$0")"
export GOFLAGS=-mod=mod GOPROXY=off GODEBUG=goindex=0
unset GOTOOLCHAIN GOSUMDB
mkdir -p .build evidence replays
for t in vinstr vticks; do if [ -d tools/$t ]; then (cd tools/$t && go build -o ../../.build/$t .) || exit 1; fi; done
# warm caches: compile (not run) each harness package through the driver
python3 - <<'PY'
import importlib.machinery, importlib.util, os, sys
ld = importlib.machinery.SourceFileLoader("check", os.path.join(os.getcwd(), "check"))
spec = importlib.util.spec_from_loader("check", ld); m = importlib.util.module_from_spec(spec); ld.exec_module(m)
seen = set()
for pid, (variant, pkg, test) in sorted(m.CHECKS.items()):
    if (variant, pkg) in seen or not os.path.isdir(os.path.join(m.H, pkg)): continue
    seen.add((variant, pkg))
    m.build(variant, pkg)
if os.path.isdir(os.path.join(m.H, "racep")): m.build("race", "racep")
if os.path.isdir(os.path.join(m.H, "sched")): m.build("instrcf", "sched")
PY

// Package racep holds the free-running -race pass of C14: the same kinds of
// requests as the schedule exploration, but on the uninstrumented build with
// the Go race detector, against the sqlite-backed registry and its REST and
// gRPC servers, mixed with writes. It is a complement the technique requires
// (hand-offs of a cooperative scheduler are happens-before edges that blind
// the detector); it is not exhaustive and the evidence says so.
package racep

import (
	"fmt"
	"github.com/gofrs/uuid"
	"os"
	"sync"
	"testing"

	"github.com/ory/keto/internal/namespace"
	"github.com/ory/keto/internal/namespace/ast"
	"github.com/ory/keto/ketoapi"
	"github.com/ory/keto/verif/apih"
)

func sp(s string) *string { return &s }

func nss() []*namespace.Namespace {
	return []*namespace.Namespace{{Name: "n", Relations: []ast.Relation{
		{Name: "a"}, {Name: "b"},
		// operand order: negation first, traverse before includes (no "cheapest first" order)
		{Name: "p", SubjectSetRewrite: &ast.SubjectSetRewrite{Operation: ast.OperatorAnd, Children: ast.Children{
			&ast.InvertResult{Child: &ast.ComputedSubjectSet{Relation: "b"}},
			&ast.SubjectSetRewrite{Operation: ast.OperatorOr, Children: ast.Children{
				&ast.TupleToSubjectSet{Relation: "a", ComputedSubjectSetRelation: "a"},
				&ast.ComputedSubjectSet{Relation: "a"}}}}}},
	}}}
}

func tup(o, r, s string) *ketoapi.RelationTuple {
	return &ketoapi.RelationTuple{Namespace: "n", Object: o, Relation: r, SubjectID: sp(s)}
}
func tupSet(o, r, so, sr string) *ketoapi.RelationTuple {
	return &ketoapi.RelationTuple{Namespace: "n", Object: o, Relation: r, SubjectSet: &ketoapi.SubjectSet{Namespace: "n", Object: so, Relation: sr}}
}

// TestRacePass: rounds of concurrent FIRST requests on a fresh registry (lazy
// initialisation), followed by a mixed read/write workload.
func TestRacePass(t *testing.T) {
	if os.Getenv("VERIF_RACE_RUN") == "" {
		t.Skip("driven by TestC14")
	}
	rounds := 6
	if os.Getenv("VERIF_TIER") == "thorough" {
		rounds = 30
	}
	requests := 0
	for round := 0; round < rounds; round++ {
		s := apih.NewServer(t, apih.Options{Namespaces: nss(), Config: map[string]any{"limit.max_read_depth": 10}})
		c := s.Client()
		var wg sync.WaitGroup
		run := func(f func()) {
			wg.Add(1)
			go func() { defer wg.Done(); f() }()
		}
		// concurrent first requests of every kind
		run(func() { c.CheckGET(tup("o1", "p", "u"), false, "") })
		run(func() { c.CheckPOST(tup("o1", "a", "u"), true, "3") })
		run(func() { c.BatchCheck([]*ketoapi.RelationTuple{tup("o1", "p", "u"), tup("o2", "p", "u")}, "") })
		run(func() { c.Expand(&ketoapi.SubjectSet{Namespace: "n", Object: "o1", Relation: "a"}, "3") })
		run(func() { c.List(&ketoapi.RelationQuery{Namespace: sp("n")}, "", "") })
		run(func() { c.Create(tupSet("o1", "a", "o2", "a")) })
		run(func() { c.Namespaces() })
		run(func() { c.GCheck(apih.ProtoTuple(tup("o1", "p", "u")), 0) })
		run(func() { c.GList(apih.ProtoQuery(&ketoapi.RelationQuery{Namespace: sp("n")}), 0, "") })
		run(func() {
			c.GExpand(apih.ProtoSubject(nil, &ketoapi.SubjectSet{Namespace: "n", Object: "o1", Relation: "a"}), 3)
		})
		run(func() { c.GBatchCheck(nil, 0) })
		run(func() { c.SyntaxCheck([]byte("class x implements Namespace {}")) })
		wg.Wait()
		requests += 12
		// steady state: reads of all kinds against concurrent writes
		for g := 0; g < 8; g++ {
			g := g
			run(func() {
				for i := 0; i < 6; i++ {
					o := fmt.Sprintf("o%d", (g+i)%3+1)
					switch (g + i) % 6 {
					case 0:
						c.CheckGET(tup(o, "p", "u"), false, "")
					case 1:
						c.BatchCheck([]*ketoapi.RelationTuple{tup(o, "p", "u"), tup(o, "a", "u"), tup(o, "p", "v")}, "")
					case 2:
						c.Expand(&ketoapi.SubjectSet{Namespace: "n", Object: o, Relation: "a"}, "4")
					case 3:
						c.ListAll(&ketoapi.RelationQuery{Namespace: sp("n")}, "2", 50)
					case 4:
						c.Create(tup(o, "a", fmt.Sprintf("w%d-%d", g, i)))
						c.Patch([]*ketoapi.PatchDelta{{Action: ketoapi.ActionInsert, RelationTuple: tupSet(o, "a", "o3", "a")}, {Action: ketoapi.ActionDelete, RelationTuple: tup(o, "b", "u")}})
					case 5:
						c.GCheck(apih.ProtoTuple(tup(o, "p", "u")), 2)
						c.DeleteQuery(&ketoapi.RelationQuery{Namespace: sp("n"), Object: sp(o), Relation: sp("b")})
					}
				}
			})
		}
		wg.Wait()
		requests += 8 * 6
		s.Settle()
	}
	// listings and expansions that need several pages at the DEFAULT page size (more than 100 rows), concurrently:
	// pagination state (cursor, options) belongs to one call
	for round := 0; round < rounds/2+1; round++ {
		s := apih.NewServer(t, apih.Options{Namespaces: nss(), Config: map[string]any{"limit.max_read_depth": 10}})
		c := s.Client()
		var ds []*ketoapi.PatchDelta
		for i := 0; i < 250; i++ {
			ds = append(ds, &ketoapi.PatchDelta{Action: ketoapi.ActionInsert, RelationTuple: tup("wide", "a", fmt.Sprintf("m%03d", i))})
		}
		c.Patch(ds)
		var wg sync.WaitGroup
		for g := 0; g < 6; g++ {
			g := g
			wg.Add(1)
			go func() {
				defer wg.Done()
				for i := 0; i < 3; i++ {
					switch (g + i) % 3 {
					case 0:
						c.ListAll(&ketoapi.RelationQuery{Namespace: sp("n"), Object: sp("wide")}, "", 10)
					case 1:
						c.Expand(&ketoapi.SubjectSet{Namespace: "n", Object: "wide", Relation: "a"}, "2")
					case 2:
						c.GListAll(apih.ProtoQuery(&ketoapi.RelationQuery{Namespace: sp("n")}), 0, 10)
					}
				}
			}()
		}
		wg.Wait()
		requests += 18
		s.Settle()
	}
	// tenants with their OWN configuration source (Contextualizer.Config): requests of two tenants in flight at
	// once, each under its limits
	ta, tb := uuid.Must(uuid.FromString("aaaaaaaa-aaaa-4aaa-8aaa-aaaaaaaaaaaa")), uuid.Must(uuid.FromString("bbbbbbbb-bbbb-4bbb-8bbb-bbbbbbbbbbbb"))
	for round := 0; round < rounds; round++ {
		s := apih.NewServer(t, apih.Options{Namespaces: nss(), MultiTenant: true, Config: map[string]any{"limit.max_read_depth": 10},
			TenantConfig: map[uuid.UUID]map[string]any{ta: {"limit.max_read_depth": 8}, tb: {"limit.max_read_depth": 2}}})
		s.AddNetwork(ta)
		s.AddNetwork(tb)
		var wg sync.WaitGroup
		for g := 0; g < 8; g++ {
			g := g
			wg.Add(1)
			go func() {
				defer wg.Done()
				c := s.ClientFor([]uuid.UUID{ta, tb}[g%2])
				for i := 0; i < 6; i++ {
					o := fmt.Sprintf("o%d", (g+i)%3+1)
					switch i % 4 {
					case 0:
						c.CheckGET(tup(o, "p", "u"), false, "")
					case 1:
						c.Expand(&ketoapi.SubjectSet{Namespace: "n", Object: o, Relation: "a"}, "")
					case 2:
						c.GCheck(apih.ProtoTuple(tup(o, "p", "u")), 0)
					case 3:
						c.Create(tupSet(o, "a", "o3", "a"))
					}
				}
			}()
		}
		wg.Wait()
		requests += 8 * 6
		s.Settle()
	}
	fmt.Printf("RACEPASS requests=%d rounds=%d\n", requests, rounds)
}

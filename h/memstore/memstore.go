// Package memstore is a deliberately boring in-memory stand-in for keto's SQL
// persister + traverser, used as the storage of all schedule exploration: it
// is fast, deterministic, has an explicit row order, counts calls, and can
// fail or hang the k-th call. It mirrors the SQL semantics call by call; the
// binding is checked by the conformance comparison in h/sched (same calls on
// both stores, same row order, same answers).
package memstore

import (
	"context"
	"errors"
	"fmt"
	"strconv"

	"github.com/gofrs/uuid"

	"github.com/ory/keto/internal/driver/config"
	"github.com/ory/keto/internal/namespace"
	"github.com/ory/keto/internal/relationtuple"
	"github.com/ory/keto/internal/x"
	"github.com/ory/keto/verif/vsched"
)

type T = relationtuple.RelationTuple

type FaultPlan struct {
	At         int   // 1-based index of the failing call in execution order; 0 = none
	Persistent bool  // all calls from At on fail
	Err        error // error to return
}

type Store struct {
	Rows []*T // in row order (the order every listing / traversal returns)

	Cfg config.Provider // for the strict-mode rule of TraverseSubjectSetRewrite

	Calls   int
	Fault   FaultPlan
	Faulted int // number of calls that were failed
	// Hang: when non-nil and true, calls whose own context is not cancelled never complete.
	Hang func() bool
	// Visible makes every call a scheduling point of the cooperative scheduler.
	Visible bool
	PageSize int // default page size of GetRelationTuples (SQL: 100)
	Log     []string
	KeepLog bool
}

var ErrInjected = errors.New("injected storage failure")

func New(cfg config.Provider) *Store { return &Store{Cfg: cfg, PageSize: 100} }

func (s *Store) Reset(rows []*T) {
	s.Rows = rows
	s.Calls, s.Faulted = 0, 0
	s.Fault = FaultPlan{}
	s.Hang = nil
	s.Log = nil
}

func (s *Store) enter(ctx context.Context, what string) error {
	if s.Visible {
		var blocked func() bool
		if s.Hang != nil {
			blocked = func() bool { return s.Hang() && ctx.Err() == nil }
		}
		vsched.StorePoint(what, blocked)
	}
	s.Calls++
	if s.KeepLog {
		s.Log = append(s.Log, what)
	}
	if err := ctx.Err(); err != nil {
		return err
	}
	if s.Fault.At > 0 && (s.Calls == s.Fault.At || (s.Fault.Persistent && s.Calls > s.Fault.At)) {
		s.Faulted++
		if s.Fault.Err != nil {
			return s.Fault.Err
		}
		return ErrInjected
	}
	return nil
}

func subjEq(a, b relationtuple.Subject) bool {
	if a == nil || b == nil {
		return false
	}
	return a.Equals(b)
}

func match(r *T, q *relationtuple.RelationQuery) bool {
	if q.Namespace != nil && r.Namespace != *q.Namespace {
		return false
	}
	if q.Object != nil && r.Object != *q.Object {
		return false
	}
	if q.Relation != nil && r.Relation != *q.Relation {
		return false
	}
	if q.Subject != nil && !subjEq(r.Subject, q.Subject) {
		return false
	}
	return true
}

func qstr(q *relationtuple.RelationQuery) string {
	f := func(p *string) string {
		if p == nil {
			return "*"
		}
		return *p
	}
	o := "*"
	if q.Object != nil {
		o = q.Object.String()[:8]
	}
	sub := "*"
	if q.Subject != nil {
		sub = q.Subject.String()
	}
	return fmt.Sprintf("%s:%s#%s@%s", f(q.Namespace), o, f(q.Relation), sub)
}

func (s *Store) GetRelationTuples(ctx context.Context, q *relationtuple.RelationQuery, options ...x.PaginationOptionSetter) ([]*T, string, error) {
	if err := s.enter(ctx, "get "+qstr(q)); err != nil {
		return nil, "", err
	}
	opts := x.GetPaginationOptions(options...)
	per := opts.Size
	if per == 0 {
		per = s.PageSize
	}
	start := 0
	if opts.Token != "" {
		n, err := strconv.Atoi(opts.Token)
		if err != nil {
			return nil, "", errors.New("malformed page token")
		}
		start = n
	}
	res := make([]*T, 0)
	next := ""
	for i := start; i < len(s.Rows); i++ {
		if !match(s.Rows[i], q) {
			continue
		}
		if len(res) == per {
			next = strconv.Itoa(i)
			break
		}
		res = append(res, s.Rows[i])
	}
	return res, next, nil
}

func (s *Store) ExistsRelationTuples(ctx context.Context, q *relationtuple.RelationQuery) (bool, error) {
	if err := s.enter(ctx, "exists "+qstr(q)); err != nil {
		return false, err
	}
	for _, r := range s.Rows {
		if match(r, q) {
			return true, nil
		}
	}
	return false, nil
}

func (s *Store) TraverseSubjectSetExpansion(ctx context.Context, start *T) ([]*relationtuple.TraversalResult, error) {
	if start.Subject == nil {
		return nil, errors.New("subject is not allowed to be nil")
	}
	if err := s.enter(ctx, "expand "+qstr(start.ToQuery())); err != nil {
		return nil, err
	}
	var res []*relationtuple.TraversalResult
	for _, r := range s.Rows {
		if r.Namespace != start.Namespace || r.Object != start.Object || r.Relation != start.Relation {
			continue
		}
		ss, ok := r.Subject.(*relationtuple.SubjectSet)
		if !ok {
			continue
		}
		found := false
		for _, r2 := range s.Rows {
			if r2.Namespace == ss.Namespace && r2.Object == ss.Object && r2.Relation == ss.Relation && subjEq(r2.Subject, start.Subject) {
				found = true
				break
			}
		}
		res = append(res, &relationtuple.TraversalResult{
			From:  start,
			To:    &T{Namespace: ss.Namespace, Object: ss.Object, Relation: ss.Relation, Subject: start.Subject},
			Via:   relationtuple.TraversalSubjectSetExpand,
			Found: found,
		})
		if found {
			return res, nil
		}
	}
	return res, nil
}

func (s *Store) TraverseSubjectSetRewrite(ctx context.Context, start *T, computed []string) ([]*relationtuple.TraversalResult, error) {
	if err := s.enter(ctx, fmt.Sprintf("rewrite %s %v", qstr(start.ToQuery()), computed)); err != nil {
		return nil, err
	}
	nm, err := s.Cfg.Config(ctx).NamespaceManager()
	if err != nil {
		return nil, err
	}
	strict := s.Cfg.Config(ctx).StrictMode()
	var rels []string
	for _, rel := range computed {
		astRel, _ := namespace.ASTRelationFor(ctx, nm, start.Namespace, rel)
		if strict && astRel != nil && astRel.SubjectSetRewrite != nil {
			continue
		}
		rels = append(rels, rel)
	}
	if start.Subject == nil && len(rels) > 0 {
		return nil, errors.New("subject is not allowed to be nil")
	}
	for _, r := range s.Rows {
		if r.Namespace != start.Namespace || r.Object != start.Object || !subjEq(r.Subject, start.Subject) {
			continue
		}
		for _, rel := range rels {
			if r.Relation == rel {
				return []*relationtuple.TraversalResult{{From: start, To: r, Via: relationtuple.TraversalComputedUserset, Found: true}}, nil
			}
		}
	}
	var res []*relationtuple.TraversalResult
	for _, rel := range computed {
		res = append(res, &relationtuple.TraversalResult{
			From:  start,
			To:    &T{Namespace: start.Namespace, Object: start.Object, Relation: rel, Subject: start.Subject},
			Via:   relationtuple.TraversalComputedUserset,
			Found: false,
		})
	}
	return res, nil
}

// ---- write side (unused by the check engine; present to satisfy the interface)

func (s *Store) WriteRelationTuples(ctx context.Context, rs ...*T) error {
	s.Rows = append(s.Rows, rs...)
	return nil
}
func (s *Store) DeleteRelationTuples(ctx context.Context, rs ...*T) error {
	return errors.New("memstore: not implemented")
}
func (s *Store) DeleteAllRelationTuples(ctx context.Context, q *relationtuple.RelationQuery) error {
	return errors.New("memstore: not implemented")
}
func (s *Store) TransactRelationTuples(ctx context.Context, ins []*T, del []*T) error {
	return errors.New("memstore: not implemented")
}

// ---- name mapping: deterministic, injective on the harness' name universe

type Names struct {
	byID map[uuid.UUID]string
}

func NewNames() *Names { return &Names{byID: map[uuid.UUID]string{}} }

func (n *Names) ID(s string) uuid.UUID {
	u := uuid.NewV5(uuid.Nil, s)
	n.byID[u] = s
	return u
}

func (n *Names) MapStringsToUUIDs(_ context.Context, s ...string) ([]uuid.UUID, error) {
	out := make([]uuid.UUID, len(s))
	for i, x := range s {
		out[i] = n.ID(x)
	}
	return out, nil
}
func (n *Names) MapStringsToUUIDsReadOnly(ctx context.Context, s ...string) ([]uuid.UUID, error) {
	return n.MapStringsToUUIDs(ctx, s...)
}
func (n *Names) MapUUIDsToStrings(_ context.Context, u ...uuid.UUID) ([]string, error) {
	out := make([]string, len(u))
	for i, x := range u {
		out[i] = n.byID[x]
	}
	return out, nil
}

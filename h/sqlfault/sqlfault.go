//go:build sqlite

// Package sqlfault is a database/sql/driver wrapper around mattn/go-sqlite3.
//
// It registers itself in init() under the name ory/pop would use for its own
// instrumented sqlite driver ("instrumented-sql-driver-sqlite3"). pop only
// registers a driver under that name when none exists, so importing this
// package (even blank) makes EVERY SQL statement keto issues on sqlite flow
// through the wrapper, with zero changes to keto.
//
// When no Tap is attached the wrapper forwards every call unchanged.
//
// API (all goroutine-safe, switchable at run time):
//
//	tap := sqlfault.Attach(match)   // observe connections whose DSN contains match ("" = all)
//	tap.StartLog(); evs := tap.StopLog()      // statement log (BEGIN/COMMIT/ROLLBACK/EXEC/QUERY + SQL + args)
//	tap.SetBefore(func(*Event) error)         // called before a statement; error => statement NOT executed, error returned
//	tap.SetAfter(func(*Event, error) error)   // called after it ran; non-nil return replaces the result ("executed, then failure reported")
//	tap.Count(), tap.CountKind(k), tap.ResetCount()
//	tap.InFlight(), tap.WaitIdle(cap)         // statements executing + open result sets + open transactions
//	tap.Close()
//
// Hooks run on the goroutine that issues the statement, outside every lock of
// this package, so a hook may block (pause point), call os.Exit / SIGKILL the
// process (crash point), or return driver.ErrBadConn (dropped connection).
package sqlfault

import (
	"context"
	"database/sql"
	"database/sql/driver"
	"io"
	"reflect"
	"runtime"
	"strings"
	"sync"
	"sync/atomic"
	"time"

	"github.com/mattn/go-sqlite3"
)

// DriverName is the name pop looks up before registering its own driver.
const DriverName = "instrumented-sql-driver-sqlite3"

type Kind string

const (
	Begin    Kind = "BEGIN"
	Commit   Kind = "COMMIT"
	Rollback Kind = "ROLLBACK"
	Exec     Kind = "EXEC"
	Query    Kind = "QUERY"
)

// Event describes one statement boundary.
type Event struct {
	Seq  int64  `json:"seq"`  // process-wide sequence number (1-based)
	Conn int64  `json:"conn"` // id of the driver connection
	DSN  string `json:"-"`    // data source name the connection was opened with
	Kind Kind   `json:"kind"`
	SQL  string `json:"sql,omitempty"`
	Args []any  `json:"args,omitempty"` // bound driver values in ordinal order
	InTx bool   `json:"in_tx"`          // the connection is inside BEGIN..COMMIT/ROLLBACK
	// Ctx is the context the statement was issued with (nil for COMMIT/ROLLBACK
	// and legacy non-context calls). Not serialised.
	Ctx context.Context `json:"-"`
}

// IsWrite reports whether the statement text is anything but a plain read
// (SELECT / PRAGMA-read / EXPLAIN / WITH..SELECT). BEGIN/COMMIT/ROLLBACK are not writes.
func (e *Event) IsWrite() bool {
	switch e.Kind {
	case Begin, Commit, Rollback:
		return false
	}
	for _, part := range strings.Split(e.SQL, ";") {
		s := strings.ToUpper(strings.TrimSpace(part))
		if s == "" {
			continue
		}
		switch {
		case strings.HasPrefix(s, "SELECT"), strings.HasPrefix(s, "EXPLAIN"), strings.HasPrefix(s, "VALUES"):
		case strings.HasPrefix(s, "WITH") && !strings.Contains(s, "INSERT ") && !strings.Contains(s, "UPDATE ") && !strings.Contains(s, "DELETE "):
		case strings.HasPrefix(s, "PRAGMA") && !strings.Contains(s, "="):
		default:
			return true
		}
	}
	return false
}

// Tap is one observer / fault injector.
type Tap struct {
	match string

	mu      sync.Mutex
	before  func(*Event) error
	after   func(*Event, error) error
	logging bool
	log     []Event
	counts  map[Kind]int64
	total   int64

	inflight atomic.Int64 // statements executing + result sets not yet closed
}

var (
	tapsMu sync.RWMutex
	taps   []*Tap
	seq    atomic.Int64
	connID atomic.Int64
)

// Attach registers a new tap for all connections whose DSN contains match.
func Attach(match string) *Tap {
	t := &Tap{match: match, counts: map[Kind]int64{}}
	tapsMu.Lock()
	taps = append(taps, t)
	tapsMu.Unlock()
	return t
}

// Close detaches the tap.
func (t *Tap) Close() {
	tapsMu.Lock()
	defer tapsMu.Unlock()
	for i, x := range taps {
		if x == t {
			taps = append(taps[:i:i], taps[i+1:]...)
			return
		}
	}
}

func (t *Tap) SetBefore(f func(*Event) error) { t.mu.Lock(); t.before = f; t.mu.Unlock() }

func (t *Tap) SetAfter(f func(*Event, error) error) { t.mu.Lock(); t.after = f; t.mu.Unlock() }

// StartLog clears the log and starts recording.
func (t *Tap) StartLog() { t.mu.Lock(); t.log = nil; t.logging = true; t.mu.Unlock() }

// StopLog stops recording and returns what was recorded since StartLog.
func (t *Tap) StopLog() []Event {
	t.mu.Lock()
	defer t.mu.Unlock()
	t.logging = false
	l := t.log
	t.log = nil
	return l
}

// Log returns a copy of the current log without stopping it.
func (t *Tap) Log() []Event {
	t.mu.Lock()
	defer t.mu.Unlock()
	return append([]Event(nil), t.log...)
}

// Count is the number of statements seen (all kinds) since Attach / ResetCount.
func (t *Tap) Count() int64 { t.mu.Lock(); defer t.mu.Unlock(); return t.total }

func (t *Tap) CountKind(k Kind) int64 { t.mu.Lock(); defer t.mu.Unlock(); return t.counts[k] }

func (t *Tap) ResetCount() { t.mu.Lock(); t.total = 0; t.counts = map[Kind]int64{}; t.mu.Unlock() }

// InFlight is the number of statements currently executing plus result sets
// (driver.Rows) not yet closed on the connections this tap matches.
func (t *Tap) InFlight() int64 { return t.inflight.Load() }

// WaitIdle polls until InFlight()==0 (true) or the cap elapsed (false). It is a
// harness courtesy for free-running engines (stragglers), never an oracle.
func (t *Tap) WaitIdle(cap time.Duration) bool {
	deadline := time.Now().Add(cap)
	for i := 0; ; i++ {
		if t.inflight.Load() == 0 {
			return true
		}
		if time.Now().After(deadline) {
			return false
		}
		if i < 100 {
			runtime.Gosched()
		} else {
			time.Sleep(20 * time.Microsecond)
		}
	}
}

func matching(dsn string) []*Tap {
	tapsMu.RLock()
	defer tapsMu.RUnlock()
	var out []*Tap
	for _, t := range taps {
		if t.match == "" || strings.Contains(dsn, t.match) {
			out = append(out, t)
		}
	}
	return out
}

// around runs do() between the before and after hooks of all matching taps.
func around(c *conn, ctx context.Context, kind Kind, q string, args []driver.NamedValue, do func() error) error {
	_, err := around2(c, ctx, kind, q, args, do)
	return err
}

// around2 additionally returns the taps whose in-flight counter is still held
// (only for a successful Query: released when the rows are closed).
func around2(c *conn, ctx context.Context, kind Kind, q string, args []driver.NamedValue, do func() error) (held []*Tap, err error) {
	ts := matching(c.dsn)
	if len(ts) == 0 {
		return nil, do()
	}
	for _, t := range ts {
		t.inflight.Add(1)
	}
	defer func() {
		if kind == Query && err == nil {
			held = ts
			return
		}
		for _, t := range ts {
			t.inflight.Add(-1)
		}
	}()
	ev := &Event{Seq: seq.Add(1), Conn: c.id, DSN: c.dsn, Kind: kind, SQL: q, InTx: c.inTx.Load(), Ctx: ctx}
	if len(args) > 0 {
		ev.Args = make([]any, len(args))
		for i, a := range args {
			ev.Args[i] = a.Value
		}
	}
	for _, t := range ts {
		t.mu.Lock()
		t.total++
		t.counts[kind]++
		if t.logging {
			t.log = append(t.log, *ev)
		}
		b := t.before
		t.mu.Unlock()
		if b != nil {
			if err := b(ev); err != nil {
				return nil, err
			}
		}
	}
	err = do()
	for _, t := range ts {
		t.mu.Lock()
		a := t.after
		t.mu.Unlock()
		if a != nil {
			if e2 := a(ev, err); e2 != nil {
				err = e2
			}
		}
	}
	return nil, err
}

// ---------------------------------------------------------------------------

// Driver wraps sqlite3.SQLiteDriver.
type Driver struct{ Inner driver.Driver }

func init() {
	for _, n := range sql.Drivers() {
		if n == DriverName {
			return
		}
	}
	sql.Register(DriverName, &Driver{Inner: &sqlite3.SQLiteDriver{}})
}

func (d *Driver) Open(name string) (driver.Conn, error) {
	in, err := d.Inner.Open(name)
	if err != nil {
		return nil, err
	}
	return &conn{in: in, dsn: name, id: connID.Add(1)}, nil
}

type conn struct {
	in   driver.Conn
	dsn  string
	id   int64
	inTx atomic.Bool
}

var (
	_ driver.Conn               = (*conn)(nil)
	_ driver.ConnBeginTx        = (*conn)(nil)
	_ driver.ConnPrepareContext = (*conn)(nil)
	_ driver.ExecerContext      = (*conn)(nil)
	_ driver.QueryerContext     = (*conn)(nil)
	_ driver.Pinger             = (*conn)(nil)
	_ driver.SessionResetter    = (*conn)(nil)
	_ driver.Validator          = (*conn)(nil)
	_ driver.NamedValueChecker  = (*conn)(nil)
)

func (c *conn) Close() error { return c.in.Close() }

func (c *conn) Prepare(q string) (driver.Stmt, error) {
	s, err := c.in.Prepare(q)
	if err != nil {
		return nil, err
	}
	return &stmt{in: s, c: c, q: q}, nil
}

func (c *conn) PrepareContext(ctx context.Context, q string) (driver.Stmt, error) {
	var s driver.Stmt
	var err error
	if p, ok := c.in.(driver.ConnPrepareContext); ok {
		s, err = p.PrepareContext(ctx, q)
	} else {
		s, err = c.in.Prepare(q)
	}
	if err != nil {
		return nil, err
	}
	return &stmt{in: s, c: c, q: q}, nil
}

func (c *conn) Begin() (driver.Tx, error) { return c.BeginTx(context.Background(), driver.TxOptions{}) }

func (c *conn) BeginTx(ctx context.Context, opts driver.TxOptions) (driver.Tx, error) {
	var t driver.Tx
	err := around(c, ctx, Begin, "BEGIN", nil, func() (err error) {
		if b, ok := c.in.(driver.ConnBeginTx); ok {
			t, err = b.BeginTx(ctx, opts)
		} else {
			t, err = c.in.Begin() //nolint:staticcheck
		}
		return err
	})
	if err != nil {
		if t != nil { // after-hook failure: the transaction was opened, undo it
			_ = t.Rollback()
		}
		return nil, err
	}
	c.inTx.Store(true)
	held := matching(c.dsn)
	for _, h := range held {
		h.inflight.Add(1) // an open transaction counts as in flight until COMMIT/ROLLBACK
	}
	return &tx{in: t, c: c, held: held}, nil
}

func (c *conn) ExecContext(ctx context.Context, q string, args []driver.NamedValue) (driver.Result, error) {
	var r driver.Result
	err := around(c, ctx, Exec, q, args, func() (err error) {
		switch e := c.in.(type) {
		case driver.ExecerContext:
			r, err = e.ExecContext(ctx, q, args)
		case driver.Execer: //nolint:staticcheck
			r, err = e.Exec(q, values(args))
		default:
			err = driver.ErrSkip
		}
		return err
	})
	if err != nil {
		return nil, err
	}
	return r, nil
}

func (c *conn) QueryContext(ctx context.Context, q string, args []driver.NamedValue) (driver.Rows, error) {
	var r driver.Rows
	held, err := around2(c, ctx, Query, q, args, func() (err error) {
		switch e := c.in.(type) {
		case driver.QueryerContext:
			r, err = e.QueryContext(ctx, q, args)
		case driver.Queryer: //nolint:staticcheck
			r, err = e.Query(q, values(args))
		default:
			err = driver.ErrSkip
		}
		return err
	})
	if err != nil {
		if r != nil {
			_ = r.Close()
		}
		return nil, err
	}
	return wrapRows(r, held), nil
}

func (c *conn) Ping(ctx context.Context) error {
	if p, ok := c.in.(driver.Pinger); ok {
		return p.Ping(ctx)
	}
	return nil
}

func (c *conn) ResetSession(ctx context.Context) error {
	if p, ok := c.in.(driver.SessionResetter); ok {
		return p.ResetSession(ctx)
	}
	return nil
}

func (c *conn) IsValid() bool {
	if p, ok := c.in.(driver.Validator); ok {
		return p.IsValid()
	}
	return true
}

func (c *conn) CheckNamedValue(nv *driver.NamedValue) error {
	if p, ok := c.in.(driver.NamedValueChecker); ok {
		return p.CheckNamedValue(nv)
	}
	return driver.ErrSkip
}

func values(args []driver.NamedValue) []driver.Value {
	out := make([]driver.Value, len(args))
	for i, a := range args {
		out[i] = a.Value
	}
	return out
}

func named(args []driver.Value) []driver.NamedValue {
	out := make([]driver.NamedValue, len(args))
	for i, a := range args {
		out[i] = driver.NamedValue{Ordinal: i + 1, Value: a}
	}
	return out
}

type tx struct {
	in   driver.Tx
	c    *conn
	held []*Tap
	once sync.Once
}

func (t *tx) release() {
	t.c.inTx.Store(false)
	t.once.Do(func() {
		for _, h := range t.held {
			h.inflight.Add(-1)
		}
	})
}

func (t *tx) Commit() error {
	defer t.release()
	executed := false
	err := around(t.c, nil, Commit, "COMMIT", nil, func() error { executed = true; return t.in.Commit() })
	if err != nil && !executed {
		// A COMMIT refused by a before-hook ("statement not executed"): the
		// database aborts the transaction. Without this the pooled connection
		// would stay inside the transaction that database/sql considers done.
		_ = t.in.Rollback()
	}
	return err
}

func (t *tx) Rollback() error {
	defer t.release()
	executed := false
	err := around(t.c, nil, Rollback, "ROLLBACK", nil, func() error { executed = true; return t.in.Rollback() })
	if err != nil && !executed {
		_ = t.in.Rollback() // same: never leave the connection inside a transaction
	}
	return err
}

type stmt struct {
	in driver.Stmt
	c  *conn
	q  string
}

var (
	_ driver.Stmt              = (*stmt)(nil)
	_ driver.StmtExecContext   = (*stmt)(nil)
	_ driver.StmtQueryContext  = (*stmt)(nil)
	_ driver.NamedValueChecker = (*stmt)(nil)
)

func (s *stmt) Close() error  { return s.in.Close() }
func (s *stmt) NumInput() int { return s.in.NumInput() }

func (s *stmt) Exec(args []driver.Value) (driver.Result, error) {
	return s.ExecContext(context.Background(), named(args))
}

func (s *stmt) Query(args []driver.Value) (driver.Rows, error) {
	return s.QueryContext(context.Background(), named(args))
}

func (s *stmt) ExecContext(ctx context.Context, args []driver.NamedValue) (driver.Result, error) {
	var r driver.Result
	err := around(s.c, ctx, Exec, s.q, args, func() (err error) {
		if e, ok := s.in.(driver.StmtExecContext); ok {
			r, err = e.ExecContext(ctx, args)
		} else {
			r, err = s.in.Exec(values(args)) //nolint:staticcheck
		}
		return err
	})
	if err != nil {
		return nil, err
	}
	return r, nil
}

func (s *stmt) QueryContext(ctx context.Context, args []driver.NamedValue) (driver.Rows, error) {
	var r driver.Rows
	held, err := around2(s.c, ctx, Query, s.q, args, func() (err error) {
		if e, ok := s.in.(driver.StmtQueryContext); ok {
			r, err = e.QueryContext(ctx, args)
		} else {
			r, err = s.in.Query(values(args)) //nolint:staticcheck
		}
		return err
	})
	if err != nil {
		if r != nil {
			_ = r.Close()
		}
		return nil, err
	}
	return wrapRows(r, held), nil
}

func (s *stmt) CheckNamedValue(nv *driver.NamedValue) error {
	if p, ok := s.in.(driver.NamedValueChecker); ok {
		return p.CheckNamedValue(nv)
	}
	return driver.ErrSkip
}

// rows forwards everything to the inner rows and releases the in-flight
// counters of the taps when closed.
type rows struct {
	in   driver.Rows
	held []*Tap
	once sync.Once
}

func wrapRows(r driver.Rows, held []*Tap) driver.Rows {
	if len(held) == 0 {
		return r
	}
	return &rows{in: r, held: held}
}

var (
	_ driver.RowsNextResultSet              = (*rows)(nil)
	_ driver.RowsColumnTypeDatabaseTypeName = (*rows)(nil)
	_ driver.RowsColumnTypeLength           = (*rows)(nil)
	_ driver.RowsColumnTypeNullable         = (*rows)(nil)
	_ driver.RowsColumnTypePrecisionScale   = (*rows)(nil)
	_ driver.RowsColumnTypeScanType         = (*rows)(nil)
)

func (r *rows) Columns() []string { return r.in.Columns() }

func (r *rows) Close() error {
	err := r.in.Close()
	r.once.Do(func() {
		for _, t := range r.held {
			t.inflight.Add(-1)
		}
	})
	return err
}

func (r *rows) Next(dest []driver.Value) error { return r.in.Next(dest) }

func (r *rows) HasNextResultSet() bool {
	if x, ok := r.in.(driver.RowsNextResultSet); ok {
		return x.HasNextResultSet()
	}
	return false
}

func (r *rows) NextResultSet() error {
	if x, ok := r.in.(driver.RowsNextResultSet); ok {
		return x.NextResultSet()
	}
	return io.EOF
}

func (r *rows) ColumnTypeDatabaseTypeName(i int) string {
	if x, ok := r.in.(driver.RowsColumnTypeDatabaseTypeName); ok {
		return x.ColumnTypeDatabaseTypeName(i)
	}
	return ""
}

func (r *rows) ColumnTypeLength(i int) (int64, bool) {
	if x, ok := r.in.(driver.RowsColumnTypeLength); ok {
		return x.ColumnTypeLength(i)
	}
	return 0, false
}

func (r *rows) ColumnTypeNullable(i int) (bool, bool) {
	if x, ok := r.in.(driver.RowsColumnTypeNullable); ok {
		return x.ColumnTypeNullable(i)
	}
	return false, false
}

func (r *rows) ColumnTypePrecisionScale(i int) (int64, int64, bool) {
	if x, ok := r.in.(driver.RowsColumnTypePrecisionScale); ok {
		return x.ColumnTypePrecisionScale(i)
	}
	return 0, 0, false
}

func (r *rows) ColumnTypeScanType(i int) reflect.Type {
	if x, ok := r.in.(driver.RowsColumnTypeScanType); ok {
		return x.ColumnTypeScanType(i)
	}
	return reflect.TypeOf(new(any)).Elem()
}

// Package vsingleflight replaces golang.org/x/sync/singleflight in instrumented files: same API, built on
// vsched primitives, so that the goroutine DoChan starts, the group's mutex and the waiting of duplicate
// callers are visible to the scheduler. (Panics / Goexit inside fn are not re-thrown to waiters.)
package vsingleflight

import "github.com/ory/keto/verif/vsched"

type Result struct {
	Val    interface{}
	Err    error
	Shared bool
}

type call struct {
	wg    vsched.WaitGroup
	val   interface{}
	err   error
	dups  int
	chans []chan<- Result
}

type Group struct {
	mu vsched.Mutex
	m  map[string]*call
}

func (g *Group) Do(key string, fn func() (interface{}, error)) (v interface{}, err error, shared bool) {
	g.mu.Lock()
	if g.m == nil {
		g.m = make(map[string]*call)
	}
	if c, ok := g.m[key]; ok {
		c.dups++
		g.mu.Unlock()
		c.wg.Wait()
		return c.val, c.err, true
	}
	c := new(call)
	c.wg.Add(1)
	g.m[key] = c
	g.mu.Unlock()
	g.doCall(c, key, fn)
	return c.val, c.err, c.dups > 0
}

func (g *Group) DoChan(key string, fn func() (interface{}, error)) <-chan Result {
	ch := make(chan Result, 1)
	g.mu.Lock()
	if g.m == nil {
		g.m = make(map[string]*call)
	}
	if c, ok := g.m[key]; ok {
		c.dups++
		c.chans = append(c.chans, ch)
		g.mu.Unlock()
		return ch
	}
	c := &call{chans: []chan<- Result{ch}}
	c.wg.Add(1)
	g.m[key] = c
	g.mu.Unlock()
	vsched.Go("singleflight.DoChan", func() { g.doCall(c, key, fn) })
	return ch
}

func (g *Group) doCall(c *call, key string, fn func() (interface{}, error)) {
	c.val, c.err = fn()
	g.mu.Lock()
	c.wg.Done()
	if g.m[key] == c {
		delete(g.m, key)
	}
	for _, ch := range c.chans {
		vsched.Send(ch, Result{c.val, c.err, c.dups > 0})
	}
	g.mu.Unlock()
}

func (g *Group) Forget(key string) {
	g.mu.Lock()
	delete(g.m, key)
	g.mu.Unlock()
}

// Package verrgroup replaces golang.org/x/sync/errgroup in instrumented files:
// same API, built on vsched primitives so that its goroutines, its limit
// semaphore and Wait are visible to the scheduler.
package verrgroup

import (
	"context"

	"github.com/ory/keto/verif/vsched"
)

type Group struct {
	cancel func(error)
	wg     vsched.WaitGroup
	sem    chan struct{}
	once   vsched.Once
	err    error
}

func WithContext(ctx context.Context) (*Group, context.Context) {
	ctx, cancel := context.WithCancelCause(ctx)
	return &Group{cancel: cancel}, ctx
}

func (g *Group) done() {
	if g.sem != nil {
		vsched.Recv(g.sem)
	}
	g.wg.Done()
}

func (g *Group) Wait() error {
	g.wg.Wait()
	if g.cancel != nil {
		g.cancel(g.err)
		vsched.NoteCancel()
	}
	return g.err
}

func (g *Group) Go(f func() error) {
	if g.sem != nil {
		vsched.Send(g.sem, struct{}{})
	}
	g.wg.Add(1)
	vsched.Go("errgroup.Go", func() {
		defer g.done()
		if err := f(); err != nil {
			g.once.Do(func() {
				g.err = err
				if g.cancel != nil {
					g.cancel(g.err)
					vsched.NoteCancel()
				}
			})
		}
	})
}

func (g *Group) SetLimit(n int) {
	if n < 0 {
		g.sem = nil
		return
	}
	g.sem = make(chan struct{}, n)
}

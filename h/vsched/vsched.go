// Package vsched is a cooperative scheduler over real goroutines. Instrumented
// keto code (rewritten by tools/vinstr) calls the shims in this package instead
// of performing channel / select / go / lock / cancel operations natively.
// While an Execution is active exactly one registered thread runs at a time;
// at every visible operation the running thread publishes the operation and
// the scheduler decides (by a replayable choice list) which enabled operation
// of which thread happens next. With no active Execution the shims perform the
// native operation (pass-through), so instrumented binaries also run ordinary
// code.
package vsched

import (
	"context"
	"fmt"
	"hash/fnv"
	"os"
	"reflect"
	"runtime"
	"runtime/debug"
	"sort"
	"strings"
	"sync"
	"sync/atomic"
	"time"
)

type kind uint8

const (
	kStart kind = iota
	kResume
	kSend
	kRecv
	kSelect
	kClose
	kLock
	kRLock
	kWLockAnnounce
	kWLockAcquire
	kWgWait
	kCancel
	kStore
	kYield
)

var kindName = [...]string{"start", "resume", "send", "recv", "select", "close", "lock", "rlock", "wlock-announce", "wlock-acquire", "wg-wait", "cancel", "store", "yield"}

// chanCase is one communication: a plain send/recv or one arm of a select.
type chanCase struct {
	send   bool
	key    uintptr     // channel identity
	ref    any         // keeps the channel alive
	capN   int         // cap(ch)
	val    any         // value to send
	probe  func() bool // non-blocking: is the REAL channel closed (only uninstrumented code closes real channels without us)
	setRcv func(v any, ok bool)
	m      *chanSt
}

type pref struct {
	t  *thread
	ci int
}

type op struct {
	kind    kind
	cases   []*chanCase // send/recv: 1; select: n
	hasDef  bool
	chosen  int // filled by the scheduler: index of the case taken, -1 = default
	obj     any // *Mutex / *RWMutex / *WaitGroup / store key
	label   string
	blocked func() bool // for kStore hang mode etc.: op disabled while true
}

type thread struct {
	ex      *Execution
	id      string
	idx     int
	wake    chan struct{}
	exited  chan struct{}
	pending *op
	done    bool
	nchild  int
	site    string
	last    uint64 // hash of this thread's last event (HB fingerprint)
	nops    int
	idh     uint64
	env     bool // environment thread: ordered after all program threads (running it early is a deviation)
}

type chanSt struct {
	ref    any
	capN   int
	buf    []any
	closed bool
	probed int
	ps, pr []pref  // pending senders / receivers
	nameT  *thread // canonical name: first-touch thread id + that thread's op count
	nameN  int
	last   uint64
}

// Event is one executed transition.
type Event struct {
	Thread string `json:"t"`
	Kind   string `json:"k"`
	Obj    string `json:"o,omitempty"`
	Pick   int    `json:"pick"`
	NAlts  int    `json:"n"`
}

type Config struct {
	Prefix      []int          // choices to replay (only points with >1 alternative are recorded)
	Horizon     int            // max transitions, default 20000
	Trace       bool           // record Events
	FastBase    bool           // base schedule only: take the first enabled alternative without enumerating the others (no choice points recorded)
	Fp          bool           // compute state fingerprints at every recorded point
	Seen        map[uint64]int // state fingerprint -> max remaining budget explored (pruning); nil = off
	Bound       int            // deviation budget (used only with Seen)
	BaseOrder   int            // 0: continue current thread, then creation order; 1: newest thread first
	SelectOrder int            // 0: among several ready cases of one select the first in source order is the canonical pick; 1: the last
}

// Execution is the result of one run.
type Execution struct {
	cfg         Config
	threads     []*thread
	live        []*thread // not done, in creation order
	fpAcc       uint64    // incremental state fingerprint: sum over threads of contrib(t)
	running     *thread
	main        *thread
	chans       map[uintptr]*chanSt
	objLast     map[any]uint64
	finished    chan struct{}
	cancelEpoch int
	dead        bool
	fail        string

	Choices  []int    // the pick at every recorded point
	NAlts    []int    // number of alternatives at that point
	Fps      []uint64 // state fingerprint BEFORE each recorded point
	Steps    int
	Events   []Event
	Outcome  string // "ok" | "deadlock" | "horizon" | "panic" | "pruned" | "diverged"
	PanicMsg string
	Leaked   []string // threads alive at the end, with their pending op
	MaxLive  int
	NThreads int
	Devs     int
	FinalFp  uint64
}

var cur *Execution

// Active reports whether an exploration execution is in progress.
func Active() bool { return cur != nil }

func me() *thread {
	ex := cur
	if ex == nil {
		return nil
	}
	t := ex.running
	if ex.dead {
		runtime.Goexit()
	}
	return t
}

// Run executes body as thread "0" under the scheduler and returns when the
// system is quiescent (no enabled transition) or the horizon is reached.
// Epoch counts executions: per-process state that must not leak from one execution into the next
// (vsync.Pool contents) is dropped when the epoch changes.
func Epoch() uint64 { return atomic.LoadUint64(&runEpoch) }

var runEpoch uint64

func Run(cfg Config, body func()) *Execution {
	atomic.AddUint64(&runEpoch, 1)
	if cur != nil {
		panic("vsched: nested Run")
	}
	if cfg.Horizon == 0 {
		cfg.Horizon = 20000
	}
	ex := &Execution{cancelEpoch: 1, cfg: cfg, chans: map[uintptr]*chanSt{}, objLast: map[any]uint64{}, finished: make(chan struct{}, 1), Outcome: "ok"}
	cur = ex
	ex.main = ex.newThread(nil, "main")
	ex.startThread(ex.main, body)
	// hand the token to the scheduler: the controller is not a thread
	ex.running = nil
	ex.schedule(nil)
	// watchdog: the running thread must keep reaching scheduling points; only a full period without
	// ANY progress (uninstrumented blocking, runaway loop) is an infrastructure error
	wd := time.NewTicker(60 * time.Second)
	defer wd.Stop()
	lastSteps := -1
wait:
	for {
		select {
		case <-ex.finished:
			break wait
		case <-wd.C:
			if ex.Steps != lastSteps {
				lastSteps = ex.Steps
				continue
			}
			fmt.Printf("INFRA-ERROR vsched watchdog: running thread made no scheduling call for 60s (uninstrumented blocking?)\n")
			if ex.running != nil {
				fmt.Printf("  running thread %s site %s\n", ex.running.id, ex.running.site)
			}
			buf := make([]byte, 1<<20)
			n := runtime.Stack(buf, true)
			os.Stdout.Write(buf[:n])
			os.Exit(2)
		}
	}
	// teardown: sequentially unwind every thread that is still parked
	ex.dead = true
	live := 0
	for _, t := range ex.threads {
		if !t.done {
			live++
			desc := t.id + "@" + t.site
			if t.pending != nil {
				desc += ":" + ex.describe(t.pending)
			}
			ex.Leaked = append(ex.Leaked, desc)
		}
	}
	for _, t := range ex.threads {
		if !t.done {
			ex.running = t
			t.wake <- struct{}{}
			<-t.exited
		}
	}
	ex.NThreads = len(ex.threads)
	ex.FinalFp = ex.stateFp()
	cur = nil
	return ex
}

func (ex *Execution) newThread(parent *thread, site string) *thread {
	t := &thread{ex: ex, idx: len(ex.threads), wake: make(chan struct{}, 1), exited: make(chan struct{}), site: site}
	if parent == nil {
		t.id = "0"
		t.idh = 0x1234567
	} else {
		t.idh = mix(parent.idh, uint64(parent.nchild)+1)
		t.id = fmt.Sprintf("%s.%d", parent.id, parent.nchild)
		parent.nchild++
		t.last = mix(parent.last, uint64(parent.nchild))
	}
	ex.threads = append(ex.threads, t)
	ex.live = append(ex.live, t)
	ex.fpAcc += t.contrib()
	return t
}

func (t *thread) contrib() uint64 {
	v := mix(t.idh, t.last)
	if t.done {
		v = mix(v, 7)
	}
	return v * 0x9E3779B97F4A7C15
}

func (t *thread) setLast(h uint64) {
	t.ex.fpAcc -= t.contrib()
	t.last = h
	t.ex.fpAcc += t.contrib()
}

func (ex *Execution) markDone(t *thread) {
	ex.fpAcc -= t.contrib()
	t.done = true
	ex.fpAcc += t.contrib()
	for i, u := range ex.live {
		if u == t {
			ex.live = append(ex.live[:i], ex.live[i+1:]...)
			break
		}
	}
}

func (ex *Execution) startThread(t *thread, f func()) {
	t.pending = &op{kind: kStart}
	go func() {
		defer close(t.exited)
		<-t.wake
		if ex.dead {
			return
		}
		defer func() {
			if r := recover(); r != nil {
				if !ex.dead {
					ex.Outcome = "panic"
					ex.PanicMsg = fmt.Sprintf("thread %s (%s): %v\n%s", t.id, t.site, r, debug.Stack())
					ex.markDone(t)
					ex.finish()
				}
				return
			}
			if ex.dead {
				return
			}
			ex.markDone(t)
			ex.schedule(nil)
		}()
		f()
	}()
}

// Go is the instrumented `go` statement.
func Go(site string, f func()) {
	t := me()
	if t == nil {
		go f()
		return
	}
	nt := t.ex.newThread(t, site)
	t.ex.startThread(nt, f)
}

// GoEnv starts an environment thread (canceller, fault injector, reader...):
// in the canonical order it comes after every program thread, so the base
// schedule runs it last and running it at any earlier point costs one deviation.
func GoEnv(site string, f func()) {
	t := me()
	if t == nil {
		go f()
		return
	}
	nt := t.ex.newThread(t, site)
	nt.env = true
	t.ex.startThread(nt, f)
}

func (ex *Execution) finish() {
	select {
	case ex.finished <- struct{}{}:
	default:
	}
}

func mix(a, b uint64) uint64 {
	x := a*0x9E3779B97F4A7C15 ^ (b + 0x7F4A7C15F39CC060 + (a << 6) + (a >> 2))
	x ^= x >> 29
	x *= 0xBF58476D1CE4E5B9
	x ^= x >> 32
	return x
}

func hstr(s string) uint64 {
	h := fnv.New64a()
	h.Write([]byte(s))
	return h.Sum64()
}

// point publishes o as the running thread's pending operation and blocks until
// the scheduler has executed it.
func (t *thread) point(o *op) {
	t.pending = o
	ex := t.ex
	for ci, c := range o.cases {
		m := ex.chanOf(c, t)
		if c.send {
			m.ps = append(m.ps, pref{t, ci})
		} else {
			m.pr = append(m.pr, pref{t, ci})
		}
	}
	ex.schedule(t)
}

// unregister removes t's pending channel cases from the waiter lists.
func (ex *Execution) unregister(t *thread, o *op) {
	for _, c := range o.cases {
		m := c.m
		if m == nil {
			continue
		}
		if c.send {
			m.ps = dropThread(m.ps, t)
		} else {
			m.pr = dropThread(m.pr, t)
		}
	}
}

func dropThread(l []pref, t *thread) []pref {
	j := 0
	for _, p := range l {
		if p.t != t {
			l[j] = p
			j++
		}
	}
	return l[:j]
}

type alt struct {
	t       *thread
	caseIdx int     // index into t.pending.cases, -1 for default / non-channel ops
	partner *thread // rendezvous receiver
	pcase   int
}

func (ex *Execution) chanOf(c *chanCase, t *thread) *chanSt {
	if c.m != nil {
		return c.m
	}
	m := ex.chans[c.key]
	if m == nil {
		m = &chanSt{ref: c.ref, capN: c.capN, nameT: t, nameN: t.nops}
		m.last = mix(t.idh, uint64(t.nops)+77)
		ex.chans[c.key] = m
	}
	c.m = m
	return m
}

func (m *chanSt) name() string { return fmt.Sprintf("ch(%s/%d)", m.nameT.id, m.nameN) }

// closed: modelled close, or the REAL channel was closed by uninstrumented code. Real closes
// only happen inside context cancellation, which always passes through NoteCancel, so the
// real channel is probed at most once per cancellation epoch.
func (ex *Execution) closed(c *chanCase, m *chanSt) bool {
	if m.closed {
		return true
	}
	if c.probe != nil && m.probed != ex.cancelEpoch {
		m.probed = ex.cancelEpoch
		if c.probe() {
			m.closed = true
			return true
		}
	}
	return false
}

// NoteCancel must be called after any context cancellation performed outside WithCancel's wrapper.
func NoteCancel() {
	if ex := cur; ex != nil {
		ex.cancelEpoch++
	}
}

// recvReady: can a receive on this case complete now (including by rendezvous with a parked sender)?
func (ex *Execution) recvReady(c *chanCase, m *chanSt, self *thread, withRendezvous bool) bool {
	if len(m.buf) > 0 || ex.closed(c, m) {
		return true
	}
	if withRendezvous && m.capN == 0 {
		for _, p := range m.ps {
			if p.t != self {
				return true
			}
		}
	}
	return false
}

func (ex *Execution) altsOf(t *thread, out []alt) []alt {
	o := t.pending
	switch o.kind {
	case kStart, kResume, kClose, kCancel, kYield, kWLockAnnounce:
		return append(out, alt{t: t, caseIdx: -1})
	case kStore:
		if o.blocked != nil && o.blocked() {
			return out
		}
		return append(out, alt{t: t, caseIdx: -1})
	case kLock:
		if !o.obj.(*Mutex).locked {
			out = append(out, alt{t: t, caseIdx: -1})
		}
		return out
	case kRLock:
		m := o.obj.(*RWMutex)
		if !m.w && m.wwait == 0 {
			out = append(out, alt{t: t, caseIdx: -1})
		}
		return out
	case kWLockAcquire:
		m := o.obj.(*RWMutex)
		if !m.w && m.r == 0 {
			out = append(out, alt{t: t, caseIdx: -1})
		}
		return out
	case kWgWait:
		if o.obj.(*WaitGroup).n == 0 {
			out = append(out, alt{t: t, caseIdx: -1})
		}
		return out
	}
	// channel operations
	n0 := len(out)
	anyReady := false
	for i, c := range o.cases {
		m := ex.chanOf(c, t)
		if c.send {
			if ex.closed(c, m) {
				out = append(out, alt{t: t, caseIdx: i}) // will panic: send on closed channel
				continue
			}
			if m.capN > 0 {
				if len(m.buf) < m.capN {
					out = append(out, alt{t: t, caseIdx: i})
				}
				continue
			}
			for _, p := range m.pr {
				if p.t != t {
					out = append(out, alt{t: t, caseIdx: i, partner: p.t, pcase: p.ci})
				}
			}
		} else {
			if len(m.buf) > 0 || ex.closed(c, m) {
				out = append(out, alt{t: t, caseIdx: i})
			} else if ex.recvReady(c, m, t, true) {
				anyReady = true // the rendezvous is listed under the sender
			}
		}
	}
	if o.kind == kSelect && o.hasDef && len(out) == n0 && !anyReady {
		out = append(out, alt{t: t, caseIdx: -1})
	}
	if ex.cfg.SelectOrder == 1 {
		// the canonical pick among several ready cases of one select is the LAST one in source order
		for i, j := n0, len(out)-1; i < j; i, j = i+1, j-1 {
			out[i], out[j] = out[j], out[i]
		}
	}
	return out
}

func (ex *Execution) describe(o *op) string {
	s := kindName[o.kind]
	for _, c := range o.cases {
		if m := ex.chans[c.key]; m != nil {
			if c.send {
				s += " !" + m.name()
			} else {
				s += " ?" + m.name()
			}
		}
	}
	if o.label != "" {
		s += " " + o.label
	}
	return s
}

// stateFp: the multiset of per-thread last-event hashes determines the
// Mazurkiewicz trace executed so far (given thread-local determinism).
func (ex *Execution) stateFp() uint64 {
	acc := ex.fpAcc
	if ex.running != nil {
		acc = mix(acc, uint64(ex.running.idx)+1)
	}
	return acc
}

// schedule is called by the running thread (self != nil: it has just published
// self.pending and must block until that op is executed) or on behalf of a
// thread that just ended / the controller (self == nil).
func (ex *Execution) schedule(self *thread) {
	var buf [16]alt
	alts := buf[:0]
	if ex.cfg.FastBase {
		if self != nil {
			alts = ex.altsOf(self, alts)
		}
		if len(alts) == 0 {
			for pass := 0; pass < 2 && len(alts) == 0; pass++ {
				for _, t := range ex.live {
					if t == self || t.pending == nil || t.env != (pass == 1) {
						continue
					}
					if alts = ex.altsOf(t, alts); len(alts) > 0 {
						break
					}
				}
			}
		}
		if len(alts) > 1 {
			alts = alts[:1]
		}
		ex.scheduleTail(self, alts)
		return
	}
	// canonical order: the thread that was running first, then creation order
	if ex.cfg.BaseOrder == 1 {
		for i := len(ex.live) - 1; i >= 0; i-- {
			t := ex.live[i]
			if !t.done && t.pending != nil {
				alts = ex.altsOf(t, alts)
			}
		}
	} else {
		if self != nil {
			alts = ex.altsOf(self, alts)
		}
		for _, t := range ex.live {
			if t == self || t.done || t.pending == nil || t.env {
				continue
			}
			alts = ex.altsOf(t, alts)
		}
		for _, t := range ex.live {
			if t == self || t.done || t.pending == nil || !t.env {
				continue
			}
			alts = ex.altsOf(t, alts)
		}
	}
	ex.scheduleTail(self, alts)
}

func (ex *Execution) scheduleTail(self *thread, alts []alt) {
	live := len(ex.live)
	if live > ex.MaxLive {
		ex.MaxLive = live
	}
	stop := func(outcome string) {
		if outcome != "" {
			ex.Outcome = outcome
		}
		ex.finish()
		if self != nil {
			<-self.wake // parked until teardown
			runtime.Goexit()
		}
	}
	if len(alts) == 0 {
		if ex.main.done {
			stop("")
		} else {
			stop("deadlock")
		}
		return
	}
	ex.Steps++
	if ex.Steps > ex.cfg.Horizon {
		stop("horizon")
		return
	}
	pick := 0
	if len(alts) > 1 {
		pos := len(ex.Choices)
		var fp uint64
		if ex.cfg.Seen != nil || ex.cfg.Trace || ex.cfg.Fp {
			fp = ex.stateFp()
		}
		if pos < len(ex.cfg.Prefix) {
			pick = ex.cfg.Prefix[pos]
			if pick >= len(alts) {
				stop("diverged")
				return
			}
		} else if ex.cfg.Seen != nil {
			remaining := ex.cfg.Bound - ex.Devs
			if b, ok := ex.cfg.Seen[fp]; ok && b >= remaining {
				stop("pruned")
				return
			}
			ex.cfg.Seen[fp] = remaining
		}
		if pick != 0 {
			ex.Devs++
		}
		ex.Choices = append(ex.Choices, pick)
		ex.NAlts = append(ex.NAlts, len(alts))
		ex.Fps = append(ex.Fps, fp)
	}
	a := alts[pick]
	ex.apply(a, pick, len(alts))
	if ex.fail != "" {
		ex.PanicMsg = ex.fail
		stop("panic")
		return
	}
	next := a.t
	ex.running = next
	if next == self {
		return
	}
	next.wake <- struct{}{}
	if self != nil {
		<-self.wake
		if ex.dead {
			runtime.Goexit()
		}
	}
}

func (ex *Execution) apply(a alt, pick, nalts int) {
	t := a.t
	o := t.pending
	ex.unregister(t, o)
	t.pending = nil
	t.nops++
	o.chosen = a.caseIdx
	var objHash uint64
	objDesc := ""
	switch o.kind {
	case kSend, kRecv, kSelect:
		if a.caseIdx < 0 {
			objDesc = "default"
			// a default branch observes "nothing ready" on all its channels: order it after their last events
			for _, c := range o.cases {
				objHash = mix(objHash, ex.chans[c.key].last)
			}
			break
		}
		c := o.cases[a.caseIdx]
		m := ex.chans[c.key]
		if ex.cfg.Trace {
			objDesc = m.name()
		}
		objHash = m.last
		if c.send {
			if m.closed {
				ex.fail = "send on closed channel " + m.name() + " by thread " + t.id
				return
			}
			if a.partner != nil {
				u := a.partner
				uo := u.pending
				ex.unregister(u, uo)
				uo.chosen = a.pcase
				uo.cases[a.pcase].setRcv(c.val, true)
				u.pending = &op{kind: kResume}
				u.nops++
				h := mix(mix(t.last, u.last), mix(m.last, hstr("rdv")))
				u.setLast(mix(h, 1))
				t.setLast(mix(h, 2))
				m.last = h
				if ex.cfg.Trace {
					ex.Events = append(ex.Events, Event{Thread: t.id + "->" + u.id, Kind: "rendezvous", Obj: m.name(), Pick: pick, NAlts: nalts})
				}
				return
			}
			m.buf = append(m.buf, c.val)
		} else {
			if len(m.buf) > 0 {
				v := m.buf[0]
				m.buf = m.buf[1:]
				c.setRcv(v, true)
			} else {
				c.setRcv(nil, false) // closed
				// receives from a closed channel commute with each other: do not chain them through the channel
				h := mix(t.last, mix(objHash, hstr("rc")+uint64(a.caseIdx)<<8))
				t.setLast(h)
				if ex.cfg.Trace {
					ex.Events = append(ex.Events, Event{Thread: t.id, Kind: kindName[o.kind] + "(closed)", Obj: objDesc, Pick: pick, NAlts: nalts})
				}
				return
			}
		}
		h := mix(t.last, mix(objHash, uint64(o.kind)+uint64(a.caseIdx)<<8))
		t.setLast(h)
		m.last = h
	case kClose:
		c := o.cases[0]
		m := ex.chanOf(c, t)
		if m.closed {
			ex.fail = "close of closed channel " + m.name() + " by thread " + t.id
			return
		}
		m.closed = true
		if ex.cfg.Trace {
			objDesc = m.name()
		}
		h := mix(t.last, mix(m.last, uint64(kClose)))
		t.setLast(h)
		m.last = h
	case kLock:
		mu := o.obj.(*Mutex)
		mu.locked = true
		objDesc = "mutex"
		h := mix(t.last, mix(ex.objLast[mu], uint64(kLock)))
		t.setLast(h)
		ex.objLast[mu] = h
	case kRLock:
		mu := o.obj.(*RWMutex)
		mu.r++
		h := mix(t.last, mix(ex.objLast[mu], uint64(kRLock)))
		t.setLast(h) // readers commute: do not advance the object's hash
	case kWLockAnnounce:
		mu := o.obj.(*RWMutex)
		mu.wwait++
		h := mix(t.last, mix(ex.objLast[mu], uint64(kWLockAnnounce)))
		t.setLast(h)
		ex.objLast[mu] = h
	case kWLockAcquire:
		mu := o.obj.(*RWMutex)
		mu.wwait--
		mu.w = true
		h := mix(t.last, mix(ex.objLast[mu], uint64(kWLockAcquire)))
		t.setLast(h)
		ex.objLast[mu] = h
	case kWgWait:
		wg := o.obj.(*WaitGroup)
		t.setLast(mix(t.last, mix(ex.objLast[wg], uint64(kWgWait))))
	case kCancel:
		objDesc = o.label
		// cancellation is observed through Done channels (closed-probe); order it globally
		h := mix(t.last, mix(ex.objLast["cancel"], uint64(kCancel)))
		t.setLast(h)
		ex.objLast["cancel"] = h
	case kStore:
		objDesc = o.label
		t.setLast(mix(t.last, mix(hstr(o.label), uint64(kStore))))
	default:
		t.setLast(mix(t.last, uint64(o.kind)+1))
	}
	if ex.cfg.Trace {
		ex.Events = append(ex.Events, Event{Thread: t.id, Kind: kindName[o.kind], Obj: objDesc, Pick: pick, NAlts: nalts})
	}
}

// ---------------------------------------------------------------- channel shims

func key(ch any) uintptr { return reflect.ValueOf(ch).Pointer() }

func Send[T any](ch chan<- T, v T) {
	t := me()
	if t == nil {
		ch <- v
		return
	}
	if ch == nil {
		t.point(&op{kind: kSend}) // never enabled
		return
	}
	t.point(&op{kind: kSend, cases: []*chanCase{{send: true, key: key(ch), ref: ch, capN: cap(ch), val: v}}})
}

func recvCase[T any](ch <-chan T, dst *T, ok *bool) *chanCase {
	return &chanCase{key: key(ch), ref: ch, capN: cap(ch),
		probe: func() bool {
			select {
			case _, o := <-ch:
				return !o
			default:
				return false
			}
		},
		setRcv: func(v any, o bool) {
			if o {
				*dst = v.(T)
			}
			*ok = o
		}}
}

func Recv[T any](ch <-chan T) T {
	v, _ := Recv2(ch)
	return v
}

func Recv2[T any](ch <-chan T) (T, bool) {
	t := me()
	if t == nil {
		v, ok := <-ch
		return v, ok
	}
	var v T
	var ok bool
	if ch == nil {
		t.point(&op{kind: kRecv})
		return v, ok
	}
	t.point(&op{kind: kRecv, cases: []*chanCase{recvCase(ch, &v, &ok)}})
	return v, ok
}

func Close[T any](ch chan<- T) {
	t := me()
	if t == nil {
		close(ch)
		return
	}
	t.point(&op{kind: kClose, cases: []*chanCase{{send: true, key: key(ch), ref: ch, capN: cap(ch)}}})
	close(ch)
}

// Case is one arm of an instrumented select.
type Case interface {
	build() *chanCase
	native() reflect.SelectCase
	afterNative(v reflect.Value, ok bool)
}

type RecvC[T any] struct {
	ch <-chan T
	V  T
	OK bool
}

func CaseRecv[T any](ch <-chan T) *RecvC[T] { return &RecvC[T]{ch: ch} }
func (c *RecvC[T]) build() *chanCase {
	if c.ch == nil {
		return nil
	}
	return recvCase(c.ch, &c.V, &c.OK)
}
func (c *RecvC[T]) native() reflect.SelectCase {
	return reflect.SelectCase{Dir: reflect.SelectRecv, Chan: reflect.ValueOf(c.ch)}
}
func (c *RecvC[T]) afterNative(v reflect.Value, ok bool) {
	if ok {
		c.V = v.Interface().(T)
	}
	c.OK = ok
}

type SendC[T any] struct {
	ch chan<- T
	v  T
}

func CaseSend[T any](ch chan<- T, v T) *SendC[T] { return &SendC[T]{ch: ch, v: v} }
func (c *SendC[T]) build() *chanCase {
	if c.ch == nil {
		return nil
	}
	return &chanCase{send: true, key: key(c.ch), ref: c.ch, capN: cap(c.ch), val: c.v}
}
func (c *SendC[T]) native() reflect.SelectCase {
	return reflect.SelectCase{Dir: reflect.SelectSend, Chan: reflect.ValueOf(c.ch), Send: reflect.ValueOf(c.v)}
}
func (c *SendC[T]) afterNative(reflect.Value, bool) {}

// Select returns the index of the arm taken, -1 for default.
func Select(hasDefault bool, cases ...Case) int {
	t := me()
	if t == nil {
		sc := make([]reflect.SelectCase, 0, len(cases)+1)
		for _, c := range cases {
			sc = append(sc, c.native())
		}
		if hasDefault {
			sc = append(sc, reflect.SelectCase{Dir: reflect.SelectDefault})
		}
		i, v, ok := reflect.Select(sc)
		if i == len(cases) {
			return -1
		}
		cases[i].afterNative(v, ok)
		return i
	}
	o := &op{kind: kSelect, hasDef: hasDefault}
	idx := make([]int, 0, len(cases))
	for i, c := range cases {
		if cc := c.build(); cc != nil { // nil channels never fire
			o.cases = append(o.cases, cc)
			idx = append(idx, i)
		}
	}
	t.point(o)
	if o.chosen < 0 {
		return -1
	}
	return idx[o.chosen]
}

// ---------------------------------------------------------------- context

// WithCancel returns a standard context whose cancel function is a visible operation.
func WithCancel(parent context.Context) (context.Context, context.CancelFunc) {
	ctx, cancel := context.WithCancel(parent)
	return ctx, func() {
		if t := me(); t != nil {
			t.point(&op{kind: kCancel, label: "cancel"})
		}
		cancel()
		NoteCancel()
	}
}

// Yield is an explicit scheduling point (used inside polling loops of harnesses).
func Yield(label string) {
	if t := me(); t != nil {
		t.point(&op{kind: kYield, label: label})
	}
}

// StorePoint makes a storage call of the environment a visible, commuting
// operation; blocked (may be nil) disables it, which models hung storage.
func StorePoint(label string, blocked func() bool) {
	if t := me(); t != nil {
		t.point(&op{kind: kStore, label: label, blocked: blocked})
	}
}

// ThreadID is the canonical id of the running thread ("" outside an execution).
func ThreadID() string {
	if ex := cur; ex != nil && ex.running != nil {
		return ex.running.id
	}
	return ""
}

// ---------------------------------------------------------------- sync shims

type Mutex struct {
	locked bool
	real   sync.Mutex // pass-through implementation
}

func (m *Mutex) Lock() {
	t := me()
	if t == nil {
		m.real.Lock()
		return
	}
	t.point(&op{kind: kLock, obj: m})
}

func (m *Mutex) Unlock() {
	t := me()
	if t == nil {
		m.real.Unlock()
		return
	}
	if !m.locked {
		panic("vsched: unlock of unlocked mutex")
	}
	m.locked = false
}

func (m *Mutex) TryLock() bool {
	t := me()
	if t == nil {
		return m.real.TryLock()
	}
	if m.locked {
		return false
	}
	m.locked = true
	return true
}

// RWMutex follows Go's writer preference: Lock = announce (from then on new
// RLocks are disabled) then acquire (enabled once readers have drained).
type RWMutex struct {
	w     bool
	r     int
	wwait int
	real  sync.RWMutex
}

func (m *RWMutex) RLock() {
	t := me()
	if t == nil {
		m.real.RLock()
		return
	}
	t.point(&op{kind: kRLock, obj: m})
}

func (m *RWMutex) RUnlock() {
	t := me()
	if t == nil {
		m.real.RUnlock()
		return
	}
	m.r--
}

func (m *RWMutex) Lock() {
	t := me()
	if t == nil {
		m.real.Lock()
		return
	}
	t.point(&op{kind: kWLockAnnounce, obj: m})
	t.point(&op{kind: kWLockAcquire, obj: m})
}

func (m *RWMutex) Unlock() {
	t := me()
	if t == nil {
		m.real.Unlock()
		return
	}
	m.w = false
}

func (m *RWMutex) RLocker() sync.Locker { return rlocker{m} }

type rlocker struct{ m *RWMutex }

func (r rlocker) Lock()   { r.m.RLock() }
func (r rlocker) Unlock() { r.m.RUnlock() }

type WaitGroup struct {
	n    int
	real sync.WaitGroup
}

func (w *WaitGroup) Add(d int) {
	if me() == nil {
		w.real.Add(d)
		return
	}
	w.n += d
}

func (w *WaitGroup) Done() { w.Add(-1) }

func (w *WaitGroup) Wait() {
	t := me()
	if t == nil {
		w.real.Wait()
		return
	}
	t.point(&op{kind: kWgWait, obj: w})
}

type Once struct {
	m    Mutex
	done bool
}

func (o *Once) Do(f func()) {
	if o.done {
		return
	}
	o.m.Lock()
	defer o.m.Unlock()
	if !o.done {
		defer func() { o.done = true }()
		f()
	}
}

// ---------------------------------------------------------------- reporting

func (ex *Execution) TraceString() string {
	var sb strings.Builder
	for i, e := range ex.Events {
		fmt.Fprintf(&sb, "%4d %-14s %-12s %s", i, e.Thread, e.Kind, e.Obj)
		if e.NAlts > 1 {
			fmt.Fprintf(&sb, "  [pick %d/%d]", e.Pick, e.NAlts)
		}
		sb.WriteByte('\n')
	}
	return sb.String()
}

func (ex *Execution) LeakSites() []string {
	var s []string
	for _, l := range ex.Leaked {
		s = append(s, l)
	}
	sort.Strings(s)
	return s
}

// ---------------------------------------------------------------- time (modelled: durations elapse instantly)

// Sleep is a scheduling point; no real time passes.
func Sleep(d time.Duration) {
	if me() == nil {
		time.Sleep(d)
		return
	}
	Yield("sleep")
}

// After returns a channel that already holds the tick: whenever the code looks, the duration has elapsed. (A select
// between the tick and another ready case is a choice the explorer enumerates.)
func After(d time.Duration) <-chan time.Time {
	if me() == nil {
		return time.After(d)
	}
	c := make(chan time.Time, 1)
	Send(c, time.Time{}) // (through the scheduler, which keeps its own account of channel contents)
	return c
}

// Timer mirrors the part of time.Timer that code under test uses.
type Timer struct {
	C    <-chan time.Time
	real *time.Timer
}

func NewTimer(d time.Duration) *Timer {
	if me() == nil {
		t := time.NewTimer(d)
		return &Timer{C: t.C, real: t}
	}
	return &Timer{C: After(d)}
}

func (t *Timer) Stop() bool {
	if t.real != nil {
		return t.real.Stop()
	}
	return false
}

func (t *Timer) Reset(d time.Duration) bool {
	if t.real != nil {
		return t.real.Reset(d)
	}
	t.C = After(d)
	return false
}

package vsched

import "time"

// Explore is a stateless depth-first search over the schedule tree by
// re-execution, with iterative deviation bounding: every pick other than the
// canonical first alternative costs 1; all executions with at most Bound
// deviations are run to completion.
type Explore struct {
	Bound          int
	BaseOrder      int
	SelectOrder    int
	Prune          bool      // happens-before state caching (see Config.Seen)
	Count          bool      // count distinct HB states even without pruning
	MaxExecs       int       // 0 = unlimited
	Deadline       time.Time // zero = none
	Shard, NShards int       // this process explores the level-1 subtrees with index%NShards == Shard (0/0 = all)
	Horizon        int

	// results
	Execs       int
	Points      int // scheduling points with more than one alternative
	Transitions int
	States      map[uint64]struct{}
	Pruned      int
	Complete    bool // the whole tree below Bound was explored
	MaxThreads  int
	MaxLive     int
}

// Run explores; exec must build a fresh instance of the scenario and call
// vsched.Run with the given Config, returning the Execution. visit is called
// for every completed (not pruned) execution and returns false to stop.
func (e *Explore) Run(exec func(Config) *Execution, visit func(*Execution) bool) {
	var seen map[uint64]int
	if e.Prune {
		seen = map[uint64]int{}
	}
	if e.Count || e.Prune {
		e.States = map[uint64]struct{}{}
	}
	type node struct {
		prefix []int
		top    int // index of the level-1 subtree
	}
	stack := []node{{}}
	e.Complete = true
	first := true
	ntop := 0
	for len(stack) > 0 {
		if (e.MaxExecs > 0 && e.Execs >= e.MaxExecs) || (!e.Deadline.IsZero() && time.Now().After(e.Deadline)) {
			e.Complete = false
			return
		}
		nd := stack[len(stack)-1]
		stack = stack[:len(stack)-1]
		x := exec(Config{Prefix: nd.prefix, Seen: seen, Bound: e.Bound, BaseOrder: e.BaseOrder, SelectOrder: e.SelectOrder, Fp: e.Count, Horizon: e.Horizon, FastBase: e.Bound == 0 && !e.Count && !e.Prune})
		e.Execs++
		e.Points += len(x.Choices)
		e.Transitions += x.Steps
		if x.NThreads > e.MaxThreads {
			e.MaxThreads = x.NThreads
		}
		if x.MaxLive > e.MaxLive {
			e.MaxLive = x.MaxLive
		}
		if e.States != nil {
			for _, fp := range x.Fps {
				e.States[fp] = struct{}{}
			}
			e.States[x.FinalFp] = struct{}{}
		}
		if x.Outcome == "pruned" {
			e.Pruned++
		} else if !(first && e.NShards > 1 && e.Shard != 0) {
			if !visit(x) {
				e.Complete = false
				return
			}
		}
		devs := 0
		for i := 0; i < len(nd.prefix); i++ {
			if nd.prefix[i] != 0 {
				devs++
			}
		}
		// children in reverse so that the DFS visits them in ascending order
		for i := len(x.Choices) - 1; i >= len(nd.prefix); i-- {
			d := devs
			for j := len(nd.prefix); j < i; j++ {
				if x.Choices[j] != 0 {
					d++
				}
			}
			if d+1 > e.Bound {
				continue
			}
			for alt := x.NAlts[i] - 1; alt >= 1; alt-- {
				top := nd.top
				if first {
					top = ntop
					ntop++
					if e.NShards > 1 && top%e.NShards != e.Shard {
						continue
					}
				}
				p := make([]int, i+1)
				copy(p, x.Choices[:i])
				p[i] = alt
				stack = append(stack, node{prefix: p, top: top})
			}
		}
		first = false
	}
}

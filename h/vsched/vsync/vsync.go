// Package vsync replaces "sync" in instrumented files (same method sets).
package vsync

import (
	"sync"

	"github.com/ory/keto/verif/vsched"
)

type (
	Mutex     = vsched.Mutex
	RWMutex   = vsched.RWMutex
	WaitGroup = vsched.WaitGroup
	Once      = vsched.Once
	Locker    = sync.Locker
	Map       = sync.Map
)

// Pool: a deterministic sync.Pool - last in, first out, never dropped within one execution (a legal and the
// most adversarial behaviour of sync.Pool: whatever was Put is what the next Get returns), emptied between
// executions so that no state leaks from one explored schedule into the next.
type Pool struct {
	New   func() any
	mu    sync.Mutex
	epoch uint64
	items []any
}

func (p *Pool) sync() {
	if e := vsched.Epoch(); e != p.epoch {
		p.epoch, p.items = e, nil
	}
}

func (p *Pool) Get() any {
	p.mu.Lock()
	p.sync()
	if n := len(p.items); n > 0 {
		x := p.items[n-1]
		p.items = p.items[:n-1]
		p.mu.Unlock()
		return x
	}
	p.mu.Unlock()
	if p.New != nil {
		return p.New()
	}
	return nil
}

func (p *Pool) Put(x any) {
	if x == nil {
		return
	}
	p.mu.Lock()
	p.sync()
	p.items = append(p.items, x)
	p.mu.Unlock()
}

// Package vsync replaces "sync" in instrumented files (same method sets).
package vsync

import (
	"sync"

	"github.com/ory/keto/verif/vsched"
)

type (
	Mutex     = vsched.Mutex
	RWMutex   = vsched.RWMutex
	WaitGroup = vsched.WaitGroup
	Once      = vsched.Once
	Locker    = sync.Locker
	Map       = sync.Map
	Pool      = sync.Pool
)

// Package vsemaphore replaces golang.org/x/sync/semaphore in instrumented files (same API, FIFO waiters as
// in the original), built on vsched primitives.
package vsemaphore

import (
	"context"

	"github.com/ory/keto/verif/vsched"
)

type waiter struct {
	n     int64
	ready chan struct{}
}

type Weighted struct {
	size    int64
	cur     int64
	mu      vsched.Mutex
	waiters []*waiter
}

func NewWeighted(n int64) *Weighted { return &Weighted{size: n} }

func (s *Weighted) Acquire(ctx context.Context, n int64) error {
	if vsched.Select(true, vsched.CaseRecv(ctx.Done())) == 0 {
		return ctx.Err()
	}
	s.mu.Lock()
	if s.size-s.cur >= n && len(s.waiters) == 0 {
		s.cur += n
		s.mu.Unlock()
		return nil
	}
	if n > s.size {
		s.mu.Unlock()
		vsched.Recv(ctx.Done())
		return ctx.Err()
	}
	w := &waiter{n: n, ready: make(chan struct{})}
	s.waiters = append(s.waiters, w)
	s.mu.Unlock()
	if vsched.Select(false, vsched.CaseRecv(ctx.Done()), vsched.CaseRecv(w.ready)) == 1 {
		return nil
	}
	s.mu.Lock()
	if vsched.Select(true, vsched.CaseRecv(w.ready)) == 0 {
		// acquired after the cancellation: give it back
		s.cur -= n
		s.notify()
	} else {
		for i, x := range s.waiters {
			if x == w {
				s.waiters = append(s.waiters[:i], s.waiters[i+1:]...)
				if i == 0 && s.size > s.cur {
					s.notify()
				}
				break
			}
		}
	}
	s.mu.Unlock()
	return ctx.Err()
}

func (s *Weighted) TryAcquire(n int64) bool {
	s.mu.Lock()
	ok := s.size-s.cur >= n && len(s.waiters) == 0
	if ok {
		s.cur += n
	}
	s.mu.Unlock()
	return ok
}

func (s *Weighted) Release(n int64) {
	s.mu.Lock()
	s.cur -= n
	if s.cur < 0 {
		s.mu.Unlock()
		panic("semaphore: released more than held")
	}
	s.notify()
	s.mu.Unlock()
}

func (s *Weighted) notify() {
	for len(s.waiters) > 0 {
		w := s.waiters[0]
		if s.size-s.cur < w.n {
			break
		}
		s.cur += w.n
		s.waiters = s.waiters[1:]
		vsched.Close(w.ready)
	}
}

package vsched

import (
	"context"
	"sort"
	"strings"
	"testing"
)

func outcomes(t *testing.T, bound int, prune bool, body func(out *string)) (map[string]int, *Explore) {
	res := map[string]int{}
	e := &Explore{Bound: bound, Prune: prune, Count: true}
	var o string
	e.Run(func(c Config) *Execution {
		o = ""
		return Run(c, func() { body(&o) })
	}, func(x *Execution) bool {
		if x.Outcome == "diverged" {
			t.Fatalf("diverged")
		}
		k := o + "/" + x.Outcome
		if len(x.Leaked) > 0 {
			k += "/leak"
		}
		res[k]++
		return true
	})
	return res, e
}

func keys(m map[string]int) string {
	var ks []string
	for k := range m {
		ks = append(ks, k)
	}
	sort.Strings(ks)
	return strings.Join(ks, " ")
}

func TestTwoSenders(t *testing.T) {
	for _, prune := range []bool{false, true} {
		m, e := outcomes(t, 99, prune, func(out *string) {
			ch := make(chan string)
			Go("a", func() { Send(ch, "a") })
			Go("b", func() { Send(ch, "b") })
			*out = Recv(ch) + Recv(ch)
		})
		if keys(m) != "ab/ok ba/ok" {
			t.Fatalf("got %v", m)
		}
		t.Logf("prune=%v execs=%d states=%d", prune, e.Execs, len(e.States))
	}
}

func TestSelectDefault(t *testing.T) {
	m, _ := outcomes(t, 99, false, func(out *string) {
		ch := make(chan int)
		Go("s", func() { Send(ch, 1) })
		c := CaseRecv(ch)
		switch Select(true, c) {
		case 0:
			*out = "got"
		default:
			*out = "default"
			Recv(ch)
		}
	})
	if keys(m) != "default/ok got/ok" {
		t.Fatalf("got %v", m)
	}
}

func TestBufferedAndClose(t *testing.T) {
	m, _ := outcomes(t, 99, false, func(out *string) {
		ch := make(chan int, 1)
		done := make(chan struct{})
		Go("s", func() { Send(ch, 1); Send(ch, 2); Close(done) })
		v1 := Recv(ch)
		v2 := Recv(ch)
		_, ok := Recv2(done)
		if v1 == 1 && v2 == 2 && !ok {
			*out = "fifo"
		} else {
			*out = "bad"
		}
	})
	if keys(m) != "fifo/ok" {
		t.Fatalf("got %v", m)
	}
}

func TestMutexLostUpdate(t *testing.T) {
	m, _ := outcomes(t, 99, false, func(out *string) {
		var mu Mutex
		var wg WaitGroup
		n := 0
		wg.Add(2)
		for i := 0; i < 2; i++ {
			Go("w", func() {
				mu.Lock()
				v := n
				mu.Unlock()
				mu.Lock()
				n = v + 1
				mu.Unlock()
				wg.Done()
			})
		}
		wg.Wait()
		*out = string(rune('0' + n))
	})
	if keys(m) != "1/ok 2/ok" {
		t.Fatalf("got %v", m)
	}
}

func TestDeadlockAndLeak(t *testing.T) {
	m, _ := outcomes(t, 99, false, func(out *string) {
		ch := make(chan int)
		Recv(ch)
	})
	if keys(m) != "/deadlock/leak" {
		t.Fatalf("got %v", m)
	}
	ran := false
	m, _ = outcomes(t, 99, false, func(out *string) {
		ch := make(chan int)
		Go("leaker", func() {
			defer func() { ran = true }()
			Send(ch, 1)
		})
	})
	if keys(m) != "/ok/leak" || !ran {
		t.Fatalf("got %v ran=%v", m, ran)
	}
}

func TestCancel(t *testing.T) {
	m, _ := outcomes(t, 99, false, func(out *string) {
		ctx, cancel := WithCancel(context.Background())
		res := make(chan string, 1)
		work := make(chan struct{})
		Go("w", func() {
			c0 := CaseRecv(ctx.Done())
			c1 := CaseRecv(work)
			switch Select(false, c0, c1) {
			case 0:
				Send(res, "cancelled")
			case 1:
				Send(res, "worked")
			}
		})
		Go("p", func() { Close(work) })
		Go("c", func() { cancel() })
		*out = Recv(res)
	})
	if keys(m) != "cancelled/ok worked/ok" {
		t.Fatalf("got %v", m)
	}
}

func TestBoundZeroIsOneExecution(t *testing.T) {
	_, e := outcomes(t, 0, false, func(out *string) {
		ch := make(chan string)
		Go("a", func() { Send(ch, "a") })
		Go("b", func() { Send(ch, "b") })
		*out = Recv(ch) + Recv(ch)
	})
	if e.Execs != 1 {
		t.Fatalf("execs=%d", e.Execs)
	}
}

func TestRWMutexWriterPreference(t *testing.T) {
	// recursive read lock with a writer queued in between deadlocks (Go semantics)
	m, _ := outcomes(t, 99, false, func(out *string) {
		var mu RWMutex
		done := make(chan struct{}, 2)
		Go("r", func() { mu.RLock(); mu.RLock(); mu.RUnlock(); mu.RUnlock(); Send(done, struct{}{}) })
		Go("w", func() { mu.Lock(); mu.Unlock(); Send(done, struct{}{}) })
		Recv(done)
		Recv(done)
	})
	if keys(m) != "/deadlock/leak /ok" {
		t.Fatalf("got %v", m)
	}
}

//go:build sqlite

package apih

import (
	"strings"
	"testing"

	"github.com/gofrs/uuid"

	"github.com/ory/keto/internal/namespace"
	"github.com/ory/keto/ketoapi"
	"github.com/ory/keto/verif/refsem"
	"github.com/ory/keto/verif/sqlfault"
)

func sp(s string) *string { return &s }

// TestHarness is the self-test of the shared harness: keto's SQL really flows
// through sqlfault, both transports work, dump/truncate/row order behave.
func TestHarness(t *testing.T) {
	s := NewServer(t, Options{
		Namespaces:  []*namespace.Namespace{{Name: "n1"}, {Name: "n2"}},
		Config:      map[string]any{"limit.max_read_depth": 50},
		MultiTenant: true,
	})
	c := s.Client()
	s.Tap.ResetCount()
	s.Tap.StartLog()
	t1 := &ketoapi.RelationTuple{Namespace: "n1", Object: "a", Relation: "r", SubjectID: sp("x")}
	if r := c.Create(t1); r.Status != 201 {
		t.Fatalf("create: %s", r)
	}
	log := s.Tap.StopLog()
	if s.Tap.Count() == 0 || len(log) == 0 {
		t.Fatalf("keto's statements do not pass through sqlfault (count=%d)", s.Tap.Count())
	}
	var sawInsert, sawBegin, sawCommit bool
	for _, e := range log {
		if e.Kind == sqlfault.Exec && strings.Contains(e.SQL, "INSERT INTO keto_relation_tuples") {
			sawInsert = true
			if !e.IsWrite() || !e.InTx {
				t.Fatalf("insert event misclassified: %+v", e)
			}
		}
		sawBegin = sawBegin || e.Kind == sqlfault.Begin
		sawCommit = sawCommit || e.Kind == sqlfault.Commit
	}
	if !sawInsert || !sawBegin || !sawCommit {
		t.Fatalf("log incomplete: insert=%v begin=%v commit=%v %+v", sawInsert, sawBegin, sawCommit, log)
	}
	t.Logf("create issued %d statements", len(log))

	// before-hook failure: statement not executed, request fails, nothing stored
	n := 0
	s.Tap.SetBefore(func(e *sqlfault.Event) error {
		if e.Kind == sqlfault.Exec && strings.Contains(e.SQL, "INSERT INTO keto_relation_tuples") {
			n++
			return sqlfaultErr
		}
		return nil
	})
	r := c.Create(&ketoapi.RelationTuple{Namespace: "n1", Object: "b", Relation: "r", SubjectID: sp("y")})
	s.Tap.SetBefore(nil)
	if n != 1 || r.Status < 500 {
		t.Fatalf("fault injection: hits=%d resp=%s", n, r)
	}

	_, g := c.List(&ketoapi.RelationQuery{Namespace: sp("n1")}, "", "")
	if g == nil || len(g.RelationTuples) != 1 || g.RelationTuples[0].Object != "a" {
		t.Fatalf("list: %+v", g)
	}
	gr, err := c.GList(ProtoQuery(&ketoapi.RelationQuery{}), 0, "")
	if err != nil || len(gr.RelationTuples) != 1 {
		t.Fatalf("grpc list: %v %v", gr, err)
	}
	if cr, err := c.GCheck(ProtoTuple(t1), 0); err != nil || !cr.Allowed {
		t.Fatalf("grpc check: %v %v", cr, err)
	}
	if r := c.CheckGET(t1, true, ""); r.Status != 200 {
		t.Fatalf("check: %s", r)
	} else if a, ok := r.Allowed(); !a || !ok {
		t.Fatalf("check: %s", r)
	}
	if r := c.Expand(&ketoapi.SubjectSet{Namespace: "n1", Object: "a", Relation: "r"}, ""); r.Status != 200 {
		t.Fatalf("expand: %s", r)
	}
	if r := c.Namespaces(); r.Status != 200 || !strings.Contains(string(r.Raw), "n2") {
		t.Fatalf("namespaces: %s", r)
	}
	if r := c.SyntaxCheck([]byte("class A implements Namespace {}")); r.Status != 200 {
		t.Fatalf("syntax: %s", r)
	}
	if _, err := c.GSyntax([]byte("class A implements Namespace {}")); err != nil {
		t.Fatalf("grpc syntax: %v", err)
	}
	if r := c.PatchRaw([]byte(`[null]`)); r.Panic == "" && r.Status < 400 {
		t.Fatalf("patch [null]: %s", r)
	} else {
		t.Logf("patch [null] -> %s", r)
	}

	d1 := s.Dump()
	if !strings.Contains(d1, "== keto_relation_tuples") || !strings.Contains(d1, "== keto_uuid_mappings") || !strings.Contains(d1, "== networks") {
		t.Fatalf("dump misses tables:\n%s", d1)
	}
	if d2 := s.Dump(); d1 != d2 {
		t.Fatalf("dump not deterministic")
	}

	// second network on the same database
	nb := uuid.Must(uuid.NewV4())
	s.AddNetwork(nb)
	cb := s.ClientFor(nb)
	if r := cb.Create(&ketoapi.RelationTuple{Namespace: "n1", Object: "a", Relation: "r", SubjectID: sp("onlyB")}); r.Status != 201 {
		t.Fatalf("create in B: %s", r)
	}
	if _, err := cb.GTransact(nil); err != nil {
		t.Fatalf("empty transact: %v", err)
	}
	_, g = c.List(&ketoapi.RelationQuery{}, "", "")
	if len(g.RelationTuples) != 1 {
		t.Fatalf("default network sees %d tuples", len(g.RelationTuples))
	}
	gb, err := cb.GList(ProtoQuery(&ketoapi.RelationQuery{}), 0, "")
	if err != nil || len(gb.RelationTuples) != 1 || gb.RelationTuples[0].Subject.GetId() != "onlyB" {
		t.Fatalf("B sees %v %v", gb, err)
	}

	// row order
	def := s.DefaultNetwork()
	for _, o := range []string{"c", "d", "e"} {
		if r := c.Create(&ketoapi.RelationTuple{Namespace: "n2", Object: o, Relation: "s", SubjectSet: &ketoapi.SubjectSet{Namespace: "n1", Object: "a", Relation: ""}}); r.Status != 201 {
			t.Fatal(r)
		}
	}
	rows := s.Rows(def)
	if len(rows) != 4 {
		t.Fatalf("rows: %+v", rows)
	}
	want := []string{rows[3].Key, rows[1].Key, rows[0].Key, rows[2].Key}
	s.SetRowOrder(def, []int{3, 1, 0, 2}, 16)
	pages, bad := c.ListAll(&ketoapi.RelationQuery{}, "1", 10)
	if bad != nil || len(pages) != 4 {
		t.Fatalf("pages: %v %v", pages, bad)
	}
	for i, p := range pages {
		if len(p) != 1 || string(refsem.Key(p[0])) != want[i] {
			t.Fatalf("page %d = %v want %s", i, p, want[i])
		}
	}

	s.Truncate()
	_, g = cb.List(&ketoapi.RelationQuery{}, "", "")
	if len(g.RelationTuples) != 0 {
		t.Fatalf("truncate left %d", len(g.RelationTuples))
	}
	if !strings.Contains(s.Dump(), "== keto_uuid_mappings (id,string_representation) rows=0") {
		t.Fatalf("mappings not truncated:\n%s", s.Dump())
	}

	// two servers on one DSN share the data
	s2 := NewServer(t, Options{Namespaces: []*namespace.Namespace{{Name: "n1"}}, DSN: s.DSN})
	if r := c.Create(t1); r.Status != 201 {
		t.Fatal(r)
	}
	_, g = s2.Client().List(&ketoapi.RelationQuery{}, "", "")
	if g == nil || len(g.RelationTuples) != 1 {
		t.Fatalf("second registry on the same DSN sees %+v", g)
	}
}

type errT string

func (e errT) Error() string { return string(e) }

const sqlfaultErr = errT("injected fault")

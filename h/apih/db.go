//go:build sqlite

package apih

import (
	"context"
	"database/sql"
	"fmt"
	"sort"
	"strings"
	"time"

	"github.com/gofrs/uuid"

	"github.com/ory/keto/internal/driver"
)

const (
	TableTuples   = "keto_relation_tuples"
	TableMappings = "keto_uuid_mappings"
	TableNetworks = "networks"
)

// DB is the registry's own *sql.DB (same pool, same sqlfault-wrapped driver).
func (s *Server) DB() *sql.DB { return RegDB(s.Reg) }

func RegDB(reg *driver.RegistryDefault) *sql.DB {
	return reg.Persister().Connection(context.Background()).Store.SQLDB()
}

// retryLocked runs f, retrying (bounded) while sqlite reports a lock held by a
// straggling reader of a previous request. Harness-only raw SQL uses it.
func retryLocked(f func() error) error {
	var err error
	for i := 0; i < 2000; i++ {
		err = f()
		if err == nil || !(strings.Contains(err.Error(), "locked") || strings.Contains(err.Error(), "busy")) {
			return err
		}
		time.Sleep(time.Duration(50+i) * time.Microsecond)
	}
	return err
}

// Settle waits (bounded) until no statement, result set or transaction is
// open on this server's database. Not an oracle.
func (s *Server) Settle() bool { return s.Tap.WaitIdle(2 * time.Second) }

// Dump renders ALL tables of the database (sqlite_master enumeration), every
// row, ordered by all columns, byte-exact (text as %q, blobs as hex).
func (s *Server) Dump() string {
	s.Settle()
	d, err := Dump(s.Reg)
	if err != nil {
		panic(fmt.Sprintf("apih.Dump: %v", err))
	}
	return d
}

func Dump(reg *driver.RegistryDefault) (string, error) {
	return DumpDB(RegDB(reg))
}

// DumpDB dumps through any *sql.DB on the database.
func DumpDB(db *sql.DB, only ...string) (string, error) {
	var out string
	err := retryLocked(func() error {
		var err error
		out, err = dumpOnce(db, only)
		return err
	})
	return out, err
}

func dumpOnce(db *sql.DB, only []string) (string, error) {
	ctx := context.Background()
	// one connection => one consistent view for the whole dump
	c, err := db.Conn(ctx)
	if err != nil {
		return "", err
	}
	defer c.Close()
	tables := only
	if len(tables) == 0 {
		rows, err := c.QueryContext(ctx, `SELECT name FROM sqlite_master WHERE type='table' AND name NOT LIKE 'sqlite_%' ORDER BY name`)
		if err != nil {
			return "", err
		}
		for rows.Next() {
			var n string
			if err := rows.Scan(&n); err != nil {
				rows.Close()
				return "", err
			}
			tables = append(tables, n)
		}
		if err := rows.Close(); err != nil {
			return "", err
		}
	}
	var b strings.Builder
	for _, tname := range tables {
		rows, err := c.QueryContext(ctx, `SELECT * FROM "`+tname+`"`)
		if err != nil {
			return "", err
		}
		cols, _ := rows.Columns()
		var lines []string
		for rows.Next() {
			vals := make([]any, len(cols))
			ptrs := make([]any, len(cols))
			for i := range vals {
				ptrs[i] = &vals[i]
			}
			if err := rows.Scan(ptrs...); err != nil {
				rows.Close()
				return "", err
			}
			parts := make([]string, len(cols))
			for i, v := range vals {
				switch x := v.(type) {
				case nil:
					parts[i] = "NULL"
				case []byte:
					parts[i] = fmt.Sprintf("x%x", x)
				case string:
					parts[i] = fmt.Sprintf("%q", x)
				case time.Time:
					parts[i] = "t" + x.UTC().Format(time.RFC3339Nano)
				default:
					parts[i] = fmt.Sprintf("%v", x)
				}
			}
			lines = append(lines, strings.Join(parts, "|"))
		}
		if err := rows.Err(); err != nil {
			rows.Close()
			return "", err
		}
		if err := rows.Close(); err != nil {
			return "", err
		}
		sort.Strings(lines)
		fmt.Fprintf(&b, "== %s (%s) rows=%d\n", tname, strings.Join(cols, ","), len(lines))
		for _, l := range lines {
			b.WriteString(l)
			b.WriteByte('\n')
		}
	}
	return b.String(), nil
}

// Exec runs harness-side raw SQL (retrying on sqlite lock errors).
func (s *Server) Exec(q string, args ...any) {
	if err := retryLocked(func() error { _, err := s.DB().Exec(q, args...); return err }); err != nil {
		panic(fmt.Sprintf("apih.Exec %q: %v", q, err))
	}
}

// Truncate deletes all relationships and all UUID mappings (every network) by
// raw SQL — the fast reset between BFS paths.
func (s *Server) Truncate() {
	s.Settle()
	s.Exec("DELETE FROM " + TableTuples)
	// keto_uuid_mappings is append-only in keto (a name's id is UUIDv5 of network and string) and
	// is deliberately left alone: deleting mappings behind the server's back would make the
	// harness incompatible with any (correct) caching of mappings inside the server.
}

// TruncateAll also empties keto_uuid_mappings (only for checks whose states need a database that has
// never seen any name; nothing may rely on the server noticing).
func (s *Server) TruncateAll() {
	s.Settle()
	s.Exec("DELETE FROM " + TableTuples)
	s.Exec("DELETE FROM " + TableMappings)
}

// TruncateTuples deletes the relationships of one network only.
func (s *Server) TruncateTuples(nid uuid.UUID) {
	s.Settle()
	s.Exec("DELETE FROM "+TableTuples+" WHERE nid = ?", nid.String())
}

// AddNetwork inserts a row into `networks` (FK target of keto_relation_tuples.nid).
func (s *Server) AddNetwork(nid uuid.UUID) {
	now := time.Now().UTC()
	s.Exec("INSERT INTO "+TableNetworks+" (id, created_at, updated_at) VALUES (?, ?, ?)", nid.String(), now, now)
}

// StoredRow is one row of keto_relation_tuples with its names resolved
// through keto_uuid_mappings by raw SQL ("" + ok=false where unmapped).
type StoredRow struct {
	ShardID string
	NID     string
	// Key has the format of refsem.Key: every field %q-quoted,
	// "ns":"obj"#"rel"@"id" or "ns":"obj"#"rel"@("ns":"obj"#"rel"), built from the mapped strings.
	Key string
}

// Rows returns the rows of a network in listing (shard_id) order.
func (s *Server) Rows(nid uuid.UUID) []StoredRow {
	s.Settle()
	var out []StoredRow
	err := retryLocked(func() error {
		out = nil
		rows, err := s.DB().Query(`SELECT t.shard_id, t.nid, t.namespace, COALESCE(mo.string_representation,'?'), t.relation,
       t.subject_id IS NOT NULL, COALESCE(ms.string_representation,'?'),
       COALESCE(t.subject_set_namespace,''), COALESCE(mso.string_representation,'?'), COALESCE(t.subject_set_relation,'')
FROM keto_relation_tuples t
LEFT JOIN keto_uuid_mappings mo ON mo.id = t.object
LEFT JOIN keto_uuid_mappings ms ON ms.id = t.subject_id
LEFT JOIN keto_uuid_mappings mso ON mso.id = t.subject_set_object
WHERE t.nid = ? ORDER BY t.shard_id`, nid.String())
		if err != nil {
			return err
		}
		defer rows.Close()
		for rows.Next() {
			var r StoredRow
			var ns, obj, rel, sid, ssn, sso, ssr string
			var isID bool
			if err := rows.Scan(&r.ShardID, &r.NID, &ns, &obj, &rel, &isID, &sid, &ssn, &sso, &ssr); err != nil {
				return err
			}
			if isID {
				r.Key = fmt.Sprintf("%q:%q#%q@%q", ns, obj, rel, sid)
			} else {
				r.Key = fmt.Sprintf("%q:%q#%q@(%q:%q#%q)", ns, obj, rel, ssn, sso, ssr)
			}
			out = append(out, r)
		}
		return rows.Err()
	})
	if err != nil {
		panic(fmt.Sprintf("apih.Rows: %v", err))
	}
	return out
}

// ShardID returns the n-th (n >= 0) harness shard id; ids are ordered by n
// under sqlite's text comparison and are valid version-4 UUID strings.
func ShardID(n int) string {
	return fmt.Sprintf("00000000-0000-4000-8000-%012x", n)
}

// SetShardID moves one row (identified by its current shard id) to a new id.
func (s *Server) SetShardID(nid uuid.UUID, old, new string) {
	s.Exec("UPDATE "+TableTuples+" SET shard_id = ? WHERE shard_id = ? AND nid = ?", new, old, nid.String())
}

// SetRowOrder reassigns the shard ids of ALL rows of the network so that the
// listing order becomes rows[perm[0]], rows[perm[1]], … where rows is the
// current listing order (perm == nil keeps the order). The k-th row of the
// new order gets ShardID((k+1)*gap), leaving room to place further rows
// between any two. It returns the rows in their new order.
func (s *Server) SetRowOrder(nid uuid.UUID, perm []int, gap int) []StoredRow {
	rows := s.Rows(nid)
	if perm == nil {
		perm = make([]int, len(rows))
		for i := range perm {
			perm[i] = i
		}
	}
	if len(perm) != len(rows) {
		panic(fmt.Sprintf("apih.SetRowOrder: %d rows, permutation of %d", len(rows), len(perm)))
	}
	if gap <= 0 {
		gap = 16
	}
	tx, err := s.DB().Begin()
	if err != nil {
		panic(err)
	}
	// two phases so that no intermediate state violates the primary key
	for i, r := range rows {
		if _, err := tx.Exec("UPDATE "+TableTuples+" SET shard_id = ? WHERE shard_id = ? AND nid = ?", fmt.Sprintf("ffffffff-ffff-4fff-8fff-%012x", i), r.ShardID, nid.String()); err != nil {
			_ = tx.Rollback()
			panic(fmt.Sprintf("apih.SetRowOrder: %v", err))
		}
	}
	out := make([]StoredRow, len(rows))
	for k, i := range perm {
		id := ShardID((k + 1) * gap)
		if _, err := tx.Exec("UPDATE "+TableTuples+" SET shard_id = ? WHERE shard_id = ? AND nid = ?", id, fmt.Sprintf("ffffffff-ffff-4fff-8fff-%012x", i), nid.String()); err != nil {
			_ = tx.Rollback()
			panic(fmt.Sprintf("apih.SetRowOrder: %v", err))
		}
		out[k] = rows[i]
		out[k].ShardID = id
	}
	if err := tx.Commit(); err != nil {
		panic(fmt.Sprintf("apih.SetRowOrder: %v", err))
	}
	return out
}

//go:build sqlite

// Package apih builds a real keto RegistryDefault on sqlite and exposes its
// REST routers and gRPC servers in-process:
//
//   - REST: the production handlers returned by RegistryDefault.ReadRouter /
//     WriteRouter / OPLSyntaxRouter, invoked through net/http/httptest
//     (request built by httptest.NewRequest, response captured by a
//     ResponseRecorder) under a recover() that turns a handler panic into the
//     distinct outcome Resp.Panic != "".
//   - gRPC: ReadGRPCServer / WriteGRPCServer / OplGRPCServer served on
//     google.golang.org/grpc/test/bufconn listeners, i.e. the real interceptor
//     chain (incl. keto's recovery interceptor) and real wire encoding.
//
// The registry is created by driver.NewDefaultRegistry — the production
// factory — so ketoctx options (contextualizer, HTTP middlewares, gRPC
// interceptors) are the production multi-tenancy seam, not a test shortcut.
//
// All SQL goes through package sqlfault (blank-imported here); Server.Tap is a
// tap restricted to this server's database.
package apih

import (
	"context"
	"fmt"
	"io"
	"net"
	"net/http"
	"os"
	"path/filepath"
	"runtime"
	"sync/atomic"
	"testing"
	"time"

	"github.com/gofrs/uuid"
	"github.com/ory/x/configx"
	"github.com/ory/x/logrusx"
	"github.com/sirupsen/logrus"
	"google.golang.org/grpc"
	"google.golang.org/grpc/credentials/insecure"
	"google.golang.org/grpc/metadata"
	"google.golang.org/grpc/test/bufconn"

	"github.com/ory/keto/internal/driver"
	"github.com/ory/keto/internal/driver/config"
	"github.com/ory/keto/internal/namespace"
	"github.com/ory/keto/ketoctx"
	oplv1 "github.com/ory/keto/proto/ory/keto/opl/v1alpha1"
	rts "github.com/ory/keto/proto/ory/keto/relation_tuples/v1alpha2"
	"github.com/ory/keto/verif/sqlfault"
)

// Options configures NewServer. The zero value gives a fresh in-memory sqlite
// database with no namespaces.
type Options struct {
	// Namespaces is the literal namespace list (config key "namespaces").
	Namespaces []*namespace.Namespace
	// OPL, if non-empty, is written to a temp file and configured as
	// namespaces.location (mutually exclusive with Namespaces).
	OPL string
	// Config holds extra config keys, e.g. {"limit.max_read_depth": 50}.
	Config map[string]any
	// DSN overrides the database ("sqlite://file:<name>?_fk=true&cache=shared&mode=memory").
	// Two servers given the same DSN share one database (and network id).
	DSN string
	// MultiTenant installs NetworkContextualizer plus an HTTP middleware and a
	// gRPC unary interceptor (through ketoctx options, the production seam)
	// that take the network id of a request from the header / metadata key
	// NetworkHeader. Requests without the header use the default network.
	MultiTenant bool
	// TenantConfig (with MultiTenant): configuration overrides per network id; requests of such a network are
	// served under their own configuration source (Contextualizer.Config), the others under the registry's.
	TenantConfig map[uuid.UUID]map[string]any
	// Contextualizer overrides the contextualizer (ignored if MultiTenant).
	Contextualizer ketoctx.Contextualizer
	// UnaryInterceptors are appended to keto's default gRPC interceptors.
	UnaryInterceptors []grpc.UnaryServerInterceptor
	// LogOutput receives keto's log (default: discarded). LogLevel default "fatal".
	LogOutput io.Writer
	LogLevel  string
	// TapMatch, if non-empty, replaces the substring of the driver-level DSN
	// that Server.Tap is restricted to (default: the database name, so two
	// servers on one database see each other's statements). Two servers on the
	// same database can get disjoint taps by spelling their DSN query options
	// in a different order and passing the whole driver DSN here (C05 reader).
	TapMatch string
}

// NetworkHeader is the HTTP header / gRPC metadata key carrying the network id
// when Options.MultiTenant is set.
const NetworkHeader = "x-verif-network"

type nidKey struct{}

// WithNetwork marks ctx as belonging to network nid (for direct engine calls).
func WithNetwork(ctx context.Context, nid uuid.UUID) context.Context {
	return context.WithValue(ctx, nidKey{}, nid)
}

// NetworkFrom returns the network id carried by ctx, if any.
func NetworkFrom(ctx context.Context) (uuid.UUID, bool) {
	n, ok := ctx.Value(nidKey{}).(uuid.UUID)
	return n, ok
}

// NetworkContextualizer is a ketoctx.Contextualizer that takes the network id
// from the request context (WithNetwork) and falls back to the default.
type NetworkContextualizer struct {
	// Sources: per-network configuration sources (Options.TenantConfig); networks without an entry get the
	// registry's own configuration.
	Sources map[uuid.UUID]*configx.Provider
}

func (NetworkContextualizer) Network(ctx context.Context, def uuid.UUID) uuid.UUID {
	if n, ok := NetworkFrom(ctx); ok {
		return n
	}
	return def
}

func (nc NetworkContextualizer) Config(ctx context.Context, c *configx.Provider) *configx.Provider {
	if n, ok := NetworkFrom(ctx); ok {
		if p := nc.Sources[n]; p != nil {
			return p
		}
	}
	return c
}

// Server is one keto instance with in-process transports.
type Server struct {
	Reg *driver.RegistryDefault
	Ctx context.Context
	DSN string
	// Tap sees exactly the SQL statements issued on this server's database.
	Tap *sqlfault.Tap

	readH, writeH, syntaxH http.Handler
	conns                  [3]*grpc.ClientConn

	// typed gRPC clients (default network; see Client for per-network calls)
	ReadC    rts.ReadServiceClient
	WriteC   rts.WriteServiceClient
	CheckC   rts.CheckServiceClient
	ExpandC  rts.ExpandServiceClient
	NamespC  rts.NamespacesServiceClient
	VersionC rts.VersionServiceClient
	SyntaxC  oplv1.SyntaxServiceClient

	baseline int
}

var dbSeq atomic.Int64

// NewDSN returns a fresh shared-cache in-memory sqlite DSN.
func NewDSN() string {
	return fmt.Sprintf("sqlite://file:verif_%d_%d_%d.sqlite?_fk=true&cache=shared&mode=memory", os.Getpid(), time.Now().UnixNano(), dbSeq.Add(1))
}

// NewFileDSN returns a DSN for a file-backed sqlite database in dir with the
// given extra query options (e.g. "_journal_mode=WAL&_busy_timeout=1").
func NewFileDSN(dir, extra string) string {
	p := filepath.Join(dir, fmt.Sprintf("verif_%d_%d.sqlite", os.Getpid(), dbSeq.Add(1)))
	d := "sqlite://file:" + p + "?_fk=true"
	if extra != "" {
		d += "&" + extra
	}
	return d
}

func dsnKey(dsn string) string {
	// the part of the DSN that identifies the database inside driver-level DSNs
	s := dsn
	if i := len("sqlite://"); len(s) > i && s[:i] == "sqlite://" {
		s = s[i:]
	}
	for i := 0; i < len(s); i++ {
		if s[i] == '?' {
			return s[:i]
		}
	}
	return s
}

// NewServer builds the registry (migrated, initialised) and the transports.
// Infrastructure failures call t.Fatal.
func NewServer(t testing.TB, o Options) *Server {
	t.Helper()
	ctx, cancel := context.WithCancel(context.Background())
	t.Cleanup(cancel)

	if o.DSN == "" {
		o.DSN = NewDSN()
	}
	if o.LogLevel == "" {
		o.LogLevel = "fatal"
	}
	vals := map[string]any{
		config.KeyDSN: o.DSN,
		"log.level":   o.LogLevel,
	}
	switch {
	case o.OPL != "":
		f := filepath.Join(t.TempDir(), "namespaces.ts")
		if err := os.WriteFile(f, []byte(o.OPL), 0o600); err != nil {
			t.Fatal(err)
		}
		vals[config.KeyNamespaces] = map[string]any{"location": "file://" + f}
	default:
		ns := o.Namespaces
		if ns == nil {
			ns = []*namespace.Namespace{}
		}
		vals[config.KeyNamespaces] = ns
	}
	for k, v := range o.Config {
		vals[k] = v
	}
	ctx = configx.ContextWithConfigOptions(ctx, configx.WithValues(vals))

	l := logrusx.New("Ory Keto", "verif", logrusx.ForceLevel(logrus.FatalLevel))
	if o.LogOutput != nil {
		l = logrusx.New("Ory Keto", "verif")
		l.Logger.SetOutput(o.LogOutput)
	} else {
		l.Logger.SetOutput(io.Discard)
	}

	kopts := []ketoctx.Option{ketoctx.WithLogger(l)}
	unary := append([]grpc.UnaryServerInterceptor{}, o.UnaryInterceptors...)
	switch {
	case o.MultiTenant:
		nc := NetworkContextualizer{Sources: map[uuid.UUID]*configx.Provider{}}
		for nid, over := range o.TenantConfig {
			tv := map[string]any{}
			for k, v := range vals {
				tv[k] = v
			}
			for k, v := range over {
				tv[k] = v
			}
			tc, err := config.NewDefault(configx.ContextWithConfigOptions(context.WithoutCancel(ctx), configx.WithValues(tv)), nil, l)
			if err != nil {
				t.Fatalf("apih: tenant configuration: %v", err)
			}
			nc.Sources[nid] = tc.Source()
		}
		kopts = append(kopts,
			ketoctx.WithContextualizer(nc),
			ketoctx.WithHTTPMiddlewares(func(rw http.ResponseWriter, r *http.Request, next http.HandlerFunc) {
				if h := r.Header.Get(NetworkHeader); h != "" {
					if n, err := uuid.FromString(h); err == nil {
						r = r.WithContext(WithNetwork(r.Context(), n))
					}
				}
				next(rw, r)
			}))
		unary = append(unary, func(ctx context.Context, req any, _ *grpc.UnaryServerInfo, handler grpc.UnaryHandler) (any, error) {
			if md, ok := metadata.FromIncomingContext(ctx); ok {
				if v := md.Get(NetworkHeader); len(v) > 0 {
					if n, err := uuid.FromString(v[0]); err == nil {
						ctx = WithNetwork(ctx, n)
					}
				}
			}
			return handler(ctx, req)
		})
	case o.Contextualizer != nil:
		kopts = append(kopts, ketoctx.WithContextualizer(o.Contextualizer))
	}
	if len(unary) > 0 {
		kopts = append(kopts, ketoctx.WithGRPCUnaryInterceptors(unary...))
	}

	tapMatch := dsnKey(o.DSN)
	if o.TapMatch != "" {
		tapMatch = o.TapMatch
	}
	tap := sqlfault.Attach(tapMatch)
	t.Cleanup(tap.Close)

	r, err := driver.NewDefaultRegistry(ctx, nil, true, kopts)
	if err != nil {
		t.Fatalf("apih: NewDefaultRegistry: %+v", err)
	}
	reg := r.(*driver.RegistryDefault)
	if err := reg.MigrateUp(ctx); err != nil { // applies pending migrations only, then Init
		t.Fatalf("apih: MigrateUp: %+v", err)
	}
	if err := reg.Init(ctx); err != nil {
		t.Fatalf("apih: Init: %+v", err)
	}

	s := &Server{Reg: reg, Ctx: ctx, DSN: o.DSN, Tap: tap}
	s.readH = reg.ReadRouter(ctx)
	s.writeH = reg.WriteRouter(ctx)
	s.syntaxH = reg.OPLSyntaxRouter(ctx)

	for i, gs := range []*grpc.Server{reg.ReadGRPCServer(ctx), reg.WriteGRPCServer(ctx), reg.OplGRPCServer(ctx)} {
		lis := bufconn.Listen(1 << 20)
		go func() { _ = gs.Serve(lis) }()
		t.Cleanup(gs.Stop)
		cc, err := grpc.NewClient("passthrough:///bufnet",
			grpc.WithContextDialer(func(ctx context.Context, _ string) (net.Conn, error) { return lis.DialContext(ctx) }),
			grpc.WithTransportCredentials(insecure.NewCredentials()),
			grpc.WithDefaultCallOptions(grpc.MaxCallRecvMsgSize(64<<20), grpc.MaxCallSendMsgSize(64<<20)))
		if err != nil {
			t.Fatalf("apih: grpc client: %v", err)
		}
		t.Cleanup(func() { _ = cc.Close() })
		s.conns[i] = cc
	}
	s.ReadC = rts.NewReadServiceClient(s.conns[0])
	s.CheckC = rts.NewCheckServiceClient(s.conns[0])
	s.ExpandC = rts.NewExpandServiceClient(s.conns[0])
	s.NamespC = rts.NewNamespacesServiceClient(s.conns[0])
	s.VersionC = rts.NewVersionServiceClient(s.conns[0])
	s.WriteC = rts.NewWriteServiceClient(s.conns[1])
	s.SyntaxC = oplv1.NewSyntaxServiceClient(s.conns[2])

	// warm the connections so that the goroutine baseline is stable
	for i := 0; i < 2; i++ {
		_, _ = s.VersionC.GetVersion(ctx, &rts.GetVersionRequest{})
		_, _ = rts.NewVersionServiceClient(s.conns[1]).GetVersion(ctx, &rts.GetVersionRequest{})
		_, _ = rts.NewVersionServiceClient(s.conns[2]).GetVersion(ctx, &rts.GetVersionRequest{})
	}
	return s
}

// Conn is the raw gRPC client connection to one of the three servers (to call
// a service the typed fields do not cover, e.g. WriteService on the read port).
func (s *Server) Conn(api API) *grpc.ClientConn { return s.conns[api] }

// DefaultNetwork is the network id the registry determined at Init.
func (s *Server) DefaultNetwork() uuid.UUID {
	return s.Reg.Persister().NetworkID(context.Background())
}

// MarkBaseline records the current goroutine count (process-wide) as the
// quiescent level Quiesce waits for.
func (s *Server) MarkBaseline() { s.baseline = runtime.NumGoroutine() }

// QuiesceToBaseline is Quiesce(baseline recorded by MarkBaseline, cap). Only
// meaningful while a single goroutine of the process issues requests; with
// several worker goroutines (one server each) use Settle, which is per server.
func (s *Server) QuiesceToBaseline(cap time.Duration) bool { return Quiesce(s.baseline, cap) }

// Quiesce waits (bounded) until the process' goroutine count is back at or
// below base — engine goroutines started by a check/expand may still issue
// reads for a moment after the response was sent. It is a harness courtesy,
// not an oracle; it reports whether the level was reached.
func Quiesce(base int, cap time.Duration) bool {
	deadline := time.Now().Add(cap)
	for i := 0; ; i++ {
		if runtime.NumGoroutine() <= base {
			return true
		}
		if time.Now().After(deadline) {
			return false
		}
		if i < 50 {
			runtime.Gosched()
		} else {
			time.Sleep(50 * time.Microsecond)
		}
	}
}

//go:build sqlite

package apih

import (
	"bytes"
	"context"
	"encoding/json"
	"fmt"
	"net/http"
	"net/http/httptest"
	"net/url"
	"strconv"

	"github.com/gofrs/uuid"
	"google.golang.org/grpc/codes"
	"google.golang.org/grpc/metadata"
	"google.golang.org/grpc/status"

	"github.com/ory/keto/ketoapi"
	oplv1 "github.com/ory/keto/proto/ory/keto/opl/v1alpha1"
	rts "github.com/ory/keto/proto/ory/keto/relation_tuples/v1alpha2"
)

// API selects one of keto's three listeners.
type API int

const (
	Read API = iota
	Write
	Syntax
)

// REST route constants (verified against keto's handlers).
const (
	RouteList       = "/relation-tuples"
	RouteAdmin      = "/admin/relation-tuples"
	RouteCheck      = "/relation-tuples/check"
	RouteCheckOAPI  = "/relation-tuples/check/openapi"
	RouteBatchCheck = "/relation-tuples/batch/check"
	RouteExpand     = "/relation-tuples/expand"
	RouteNamespaces = "/namespaces"
	RouteSyntax     = "/opl/syntax/check"
)

// Resp is the outcome of one REST request.
type Resp struct {
	Status int         // HTTP status; 0 iff the handler panicked
	Panic  string      // recovered panic value (Status == 0)
	Raw    []byte      // raw body
	JSON   any         // decoded body, nil if the body is not JSON
	Header http.Header `json:"-"`
}

func (r Resp) OK() bool { return r.Status >= 200 && r.Status < 300 }

// String is a short rendering for replay files.
func (r Resp) String() string {
	if r.Panic != "" {
		return "PANIC " + r.Panic
	}
	b := r.Raw
	if len(b) > 300 {
		b = b[:300]
	}
	return fmt.Sprintf("%d %s", r.Status, b)
}

// Client issues requests under one network (uuid.Nil = the default network).
type Client struct {
	S       *Server
	Network uuid.UUID
	// SendZeroNetwork sends the network header even when Network is the all-zero UUID (which
	// otherwise means "no header: default network"), so that keto resolves the network id uuid.Nil.
	SendZeroNetwork bool
}

func (s *Server) Client() *Client { return &Client{S: s} }

// ClientFor needs Options.MultiTenant.
func (s *Server) ClientFor(nid uuid.UUID) *Client { return &Client{S: s, Network: nid} }

// Do sends one REST request through the production router. The request
// context is cancelled once the handler returned (as net/http does).
func (c *Client) Do(api API, method, path string, q url.Values, body []byte) (resp Resp) {
	target := path
	if len(q) > 0 {
		target += "?" + q.Encode()
	}
	return c.DoRaw(api, method, target, body, nil)
}

// DoRaw is Do with a verbatim request target and extra headers.
func (c *Client) DoRaw(api API, method, target string, body []byte, hdr http.Header) (resp Resp) {
	var h http.Handler
	switch api {
	case Read:
		h = c.S.readH
	case Write:
		h = c.S.writeH
	default:
		h = c.S.syntaxH
	}
	ctx, cancel := context.WithCancel(c.S.Ctx)
	defer cancel()
	var rd *bytes.Reader
	if body == nil {
		rd = bytes.NewReader(nil)
	} else {
		rd = bytes.NewReader(body)
	}
	req := httptest.NewRequest(method, "http://keto.verif"+target, rd).WithContext(ctx)
	if body == nil {
		req.Body = http.NoBody
		req.ContentLength = 0
	} else {
		req.Header.Set("Content-Type", "application/json")
	}
	for k, v := range hdr {
		req.Header[k] = v
	}
	if c.Network != uuid.Nil || c.SendZeroNetwork {
		req.Header.Set(NetworkHeader, c.Network.String())
	}
	rec := httptest.NewRecorder()
	func() {
		defer func() {
			if p := recover(); p != nil {
				resp.Panic = fmt.Sprint(p)
				if resp.Panic == "" {
					resp.Panic = "panic"
				}
			}
		}()
		h.ServeHTTP(rec, req)
	}()
	if resp.Panic != "" {
		return resp
	}
	resp.Status = rec.Code
	resp.Raw = rec.Body.Bytes()
	resp.Header = rec.Header()
	var v any
	if len(resp.Raw) > 0 && json.Unmarshal(resp.Raw, &v) == nil {
		resp.JSON = v
	}
	return resp
}

// ---- query / tuple encoders (written here, not taken from keto) ------------

// QueryValues renders a relation query as URL parameters.
func QueryValues(q *ketoapi.RelationQuery) url.Values {
	v := url.Values{}
	if q == nil {
		return v
	}
	if q.Namespace != nil {
		v.Set("namespace", *q.Namespace)
	}
	if q.Object != nil {
		v.Set("object", *q.Object)
	}
	if q.Relation != nil {
		v.Set("relation", *q.Relation)
	}
	if q.SubjectID != nil {
		v.Set("subject_id", *q.SubjectID)
	}
	if q.SubjectSet != nil {
		v.Set("subject_set.namespace", q.SubjectSet.Namespace)
		v.Set("subject_set.object", q.SubjectSet.Object)
		v.Set("subject_set.relation", q.SubjectSet.Relation)
	}
	return v
}

// TupleValues renders a tuple as URL parameters (check GET).
func TupleValues(t *ketoapi.RelationTuple) url.Values {
	return QueryValues(&ketoapi.RelationQuery{Namespace: &t.Namespace, Object: &t.Object, Relation: &t.Relation, SubjectID: t.SubjectID, SubjectSet: t.SubjectSet})
}

// ProtoSubject / ProtoTuple / ProtoQuery build the gRPC messages.
func ProtoSubject(id *string, set *ketoapi.SubjectSet) *rts.Subject {
	switch {
	case id != nil:
		return &rts.Subject{Ref: &rts.Subject_Id{Id: *id}}
	case set != nil:
		return &rts.Subject{Ref: &rts.Subject_Set{Set: &rts.SubjectSet{Namespace: set.Namespace, Object: set.Object, Relation: set.Relation}}}
	}
	return nil
}

func ProtoTuple(t *ketoapi.RelationTuple) *rts.RelationTuple {
	if t == nil {
		return nil
	}
	return &rts.RelationTuple{Namespace: t.Namespace, Object: t.Object, Relation: t.Relation, Subject: ProtoSubject(t.SubjectID, t.SubjectSet)}
}

func ProtoQuery(q *ketoapi.RelationQuery) *rts.RelationQuery {
	if q == nil {
		return nil
	}
	return &rts.RelationQuery{Namespace: q.Namespace, Object: q.Object, Relation: q.Relation, Subject: ProtoSubject(q.SubjectID, q.SubjectSet)}
}

// TupleFromProto converts a returned proto tuple (nil subject stays nil).
func TupleFromProto(p *rts.RelationTuple) *ketoapi.RelationTuple {
	t := &ketoapi.RelationTuple{Namespace: p.GetNamespace(), Object: p.GetObject(), Relation: p.GetRelation()}
	switch s := p.GetSubject().GetRef().(type) {
	case *rts.Subject_Id:
		id := s.Id
		t.SubjectID = &id
	case *rts.Subject_Set:
		t.SubjectSet = &ketoapi.SubjectSet{Namespace: s.Set.GetNamespace(), Object: s.Set.GetObject(), Relation: s.Set.GetRelation()}
	}
	return t
}

// ---- REST helpers ----------------------------------------------------------

func mustJSON(v any) []byte {
	b, err := json.Marshal(v)
	if err != nil {
		panic(err)
	}
	return b
}

// Create: PUT /admin/relation-tuples.
func (c *Client) Create(t *ketoapi.RelationTuple) Resp { return c.CreateRaw(mustJSON(t)) }

func (c *Client) CreateRaw(body []byte) Resp { return c.Do(Write, "PUT", RouteAdmin, nil, body) }

// DeleteQuery: DELETE /admin/relation-tuples?<query>.
func (c *Client) DeleteQuery(q *ketoapi.RelationQuery) Resp {
	return c.Do(Write, "DELETE", RouteAdmin, QueryValues(q), nil)
}

func (c *Client) DeleteValues(v url.Values) Resp { return c.Do(Write, "DELETE", RouteAdmin, v, nil) }

// Patch: PATCH /admin/relation-tuples.
func (c *Client) Patch(deltas []*ketoapi.PatchDelta) Resp { return c.PatchRaw(mustJSON(deltas)) }

func (c *Client) PatchRaw(body []byte) Resp { return c.Do(Write, "PATCH", RouteAdmin, nil, body) }

// List: GET /relation-tuples. pageSize "" = absent. The typed response is nil
// unless the status is 200 and the body decodes.
func (c *Client) List(q *ketoapi.RelationQuery, pageSize, pageToken string) (Resp, *ketoapi.GetResponse) {
	v := QueryValues(q)
	if pageSize != "" {
		v.Set("page_size", pageSize)
	}
	if pageToken != "" {
		v.Set("page_token", pageToken)
	}
	r := c.Do(Read, "GET", RouteList, v, nil)
	if r.Status != 200 {
		return r, nil
	}
	var g ketoapi.GetResponse
	if err := json.Unmarshal(r.Raw, &g); err != nil {
		return r, nil
	}
	return r, &g
}

// ListAll follows next_page_token to the end (at most maxPages pages).
// pages[i] is the i-th page; the error response (if any) is returned in bad.
func (c *Client) ListAll(q *ketoapi.RelationQuery, pageSize string, maxPages int) (pages [][]*ketoapi.RelationTuple, bad *Resp) {
	tok := ""
	for i := 0; i < maxPages; i++ {
		r, g := c.List(q, pageSize, tok)
		if g == nil {
			return pages, &r
		}
		pages = append(pages, g.RelationTuples)
		if g.NextPageToken == "" {
			return pages, nil
		}
		tok = g.NextPageToken
	}
	return pages, &Resp{Status: -1, Raw: []byte("apih: page limit exceeded")}
}

func depthValues(v url.Values, maxDepth string) url.Values {
	if maxDepth != "" {
		v.Set("max-depth", maxDepth)
	}
	return v
}

// CheckGET: GET /relation-tuples/check[/openapi]. maxDepth "" = absent.
func (c *Client) CheckGET(t *ketoapi.RelationTuple, openapi bool, maxDepth string) Resp {
	p := RouteCheck
	if openapi {
		p = RouteCheckOAPI
	}
	return c.Do(Read, "GET", p, depthValues(TupleValues(t), maxDepth), nil)
}

// CheckPOST: POST /relation-tuples/check[/openapi] with a JSON tuple.
func (c *Client) CheckPOST(t *ketoapi.RelationTuple, openapi bool, maxDepth string) Resp {
	return c.CheckPOSTRaw(mustJSON(t), openapi, maxDepth)
}

func (c *Client) CheckPOSTRaw(body []byte, openapi bool, maxDepth string) Resp {
	p := RouteCheck
	if openapi {
		p = RouteCheckOAPI
	}
	return c.Do(Read, "POST", p, depthValues(url.Values{}, maxDepth), body)
}

// Allowed extracts {"allowed": b} from a check response.
func (r Resp) Allowed() (allowed, ok bool) {
	m, isMap := r.JSON.(map[string]any)
	if !isMap {
		return false, false
	}
	b, isBool := m["allowed"].(bool)
	return b, isBool
}

// BatchCheck: POST /relation-tuples/batch/check.
func (c *Client) BatchCheck(tuples []*ketoapi.RelationTuple, maxDepth string) Resp {
	return c.BatchCheckRaw(mustJSON(map[string]any{"tuples": tuples}), maxDepth)
}

func (c *Client) BatchCheckRaw(body []byte, maxDepth string) Resp {
	return c.Do(Read, "POST", RouteBatchCheck, depthValues(url.Values{}, maxDepth), body)
}

// Expand: GET /relation-tuples/expand.
func (c *Client) Expand(s *ketoapi.SubjectSet, maxDepth string) Resp {
	v := url.Values{"namespace": {s.Namespace}, "object": {s.Object}, "relation": {s.Relation}}
	return c.Do(Read, "GET", RouteExpand, depthValues(v, maxDepth), nil)
}

// Namespaces: GET /namespaces.
func (c *Client) Namespaces() Resp { return c.Do(Read, "GET", RouteNamespaces, nil, nil) }

// SyntaxCheck: POST /opl/syntax/check with the raw OPL text as the body.
func (c *Client) SyntaxCheck(content []byte) Resp {
	return c.Do(Syntax, "POST", RouteSyntax, nil, content)
}

// ---- gRPC helpers ----------------------------------------------------------

// GCtx returns a context carrying this client's network metadata.
func (c *Client) GCtx() (context.Context, context.CancelFunc) {
	ctx, cancel := context.WithCancel(c.S.Ctx)
	if c.Network != uuid.Nil || c.SendZeroNetwork {
		ctx = metadata.AppendToOutgoingContext(ctx, NetworkHeader, c.Network.String())
	}
	return ctx, cancel
}

// Code is the gRPC status code of err (OK for nil).
func Code(err error) codes.Code { return status.Code(err) }

func (c *Client) GList(q *rts.RelationQuery, pageSize int32, pageToken string) (*rts.ListRelationTuplesResponse, error) {
	ctx, cancel := c.GCtx()
	defer cancel()
	return c.S.ReadC.ListRelationTuples(ctx, &rts.ListRelationTuplesRequest{RelationQuery: q, PageSize: pageSize, PageToken: pageToken})
}

func (c *Client) GListAll(q *rts.RelationQuery, pageSize int32, maxPages int) (pages [][]*rts.RelationTuple, err error) {
	tok := ""
	for i := 0; i < maxPages; i++ {
		r, err := c.GList(q, pageSize, tok)
		if err != nil {
			return pages, err
		}
		pages = append(pages, r.RelationTuples)
		if r.NextPageToken == "" {
			return pages, nil
		}
		tok = r.NextPageToken
	}
	return pages, fmt.Errorf("apih: page limit exceeded")
}

func (c *Client) GTransact(deltas []*rts.RelationTupleDelta) (*rts.TransactRelationTuplesResponse, error) {
	ctx, cancel := c.GCtx()
	defer cancel()
	return c.S.WriteC.TransactRelationTuples(ctx, &rts.TransactRelationTuplesRequest{RelationTupleDeltas: deltas})
}

func (c *Client) GDelete(q *rts.RelationQuery) error {
	ctx, cancel := c.GCtx()
	defer cancel()
	_, err := c.S.WriteC.DeleteRelationTuples(ctx, &rts.DeleteRelationTuplesRequest{RelationQuery: q})
	return err
}

func (c *Client) GCheck(t *rts.RelationTuple, maxDepth int32) (*rts.CheckResponse, error) {
	ctx, cancel := c.GCtx()
	defer cancel()
	return c.S.CheckC.Check(ctx, &rts.CheckRequest{Tuple: t, MaxDepth: maxDepth})
}

func (c *Client) GCheckReq(req *rts.CheckRequest) (*rts.CheckResponse, error) {
	ctx, cancel := c.GCtx()
	defer cancel()
	return c.S.CheckC.Check(ctx, req)
}

func (c *Client) GBatchCheck(ts []*rts.RelationTuple, maxDepth int32) (*rts.BatchCheckResponse, error) {
	ctx, cancel := c.GCtx()
	defer cancel()
	return c.S.CheckC.BatchCheck(ctx, &rts.BatchCheckRequest{Tuples: ts, MaxDepth: maxDepth})
}

func (c *Client) GExpand(sub *rts.Subject, maxDepth int32) (*rts.ExpandResponse, error) {
	ctx, cancel := c.GCtx()
	defer cancel()
	return c.S.ExpandC.Expand(ctx, &rts.ExpandRequest{Subject: sub, MaxDepth: maxDepth})
}

func (c *Client) GNamespaces() (*rts.ListNamespacesResponse, error) {
	ctx, cancel := c.GCtx()
	defer cancel()
	return c.S.NamespC.ListNamespaces(ctx, &rts.ListNamespacesRequest{})
}

func (c *Client) GSyntax(content []byte) (*oplv1.CheckResponse, error) {
	ctx, cancel := c.GCtx()
	defer cancel()
	return c.S.SyntaxC.Check(ctx, &oplv1.CheckRequest{Content: content})
}

// Itoa is strconv.Itoa with 0 -> "" (absent parameter).
func Itoa(n int) string {
	if n == 0 {
		return ""
	}
	return strconv.Itoa(n)
}

//go:build verif

package graph

import (
	"context"

	"github.com/ory/keto/internal/relationtuple"
)

// VerifPathLocal is used only by the counterfactual build that attributes
// violations to known finding KF-C01-1 (visited set shared by concurrently
// evaluated sub-checks): it implements path-local cycle detection — the child
// context carries a private copy of the ancestors' set plus the child itself,
// and "visited" means "is an ancestor on this path".
func VerifPathLocal(ctx context.Context, current relationtuple.Subject) (context.Context, bool) {
	id := current.UniqueID().String()
	n := newStringSet()
	if set, ok := ctx.Value(visitedMapKey).(*stringSet); ok {
		set.l.Lock()
		_, found := set.m[id]
		for k := range set.m {
			n.m[k] = struct{}{}
		}
		set.l.Unlock()
		if found {
			return ctx, true
		}
	}
	n.m[id] = struct{}{}
	return context.WithValue(ctx, visitedMapKey, n), false
}

//go:build verif

package graph

import (
	"context"

	"github.com/ory/keto/internal/relationtuple"
)

// VerifPathLocal is used only by the counterfactual build that attributes
// violations to known finding KF-C01-1 (visited set shared by concurrently
// evaluated sub-checks): it implements path-local cycle detection — the child
// context carries a private copy of the ancestors' set plus the child itself,
// and "visited" means "is an ancestor on this path". Self-contained on purpose
// (own context key, own set): it must keep compiling when the package's own
// visited-set code is refactored.
func VerifPathLocal(ctx context.Context, current relationtuple.Subject) (context.Context, bool) {
	id := current.UniqueID().String()
	anc, _ := ctx.Value(verifPathKey{}).(map[string]struct{})
	if _, found := anc[id]; found {
		return ctx, true
	}
	n := make(map[string]struct{}, len(anc)+1)
	for k := range anc {
		n[k] = struct{}{}
	}
	n[id] = struct{}{}
	return context.WithValue(ctx, verifPathKey{}, n), false
}

type verifPathKey struct{}

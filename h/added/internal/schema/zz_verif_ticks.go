//go:build verif

package schema

// VerifTicks counts abstract work steps of package schema. The calls to
// verifTick() are inserted at build time by /verif/tools/vticks (variant
// "ticks" of /verif/check) at every function entry and at the start of every
// loop body; in every other build nothing calls verifTick and the counter stays
// 0. Not atomic on purpose: a tick-measuring harness runs Parse sequentially
// (one process per shard).
var VerifTicks int64

func verifTick() { VerifTicks++ }

//go:build verif

package sql

import (
	"context"

	"github.com/gofrs/uuid"

	"github.com/ory/keto/internal/x"
)

// VerifBatchFromUUIDs calls the unexported UUID->string lookup with an explicit
// lookup page size (production always uses the default, 100). C16 uses it to
// put every id of a small batch on a page boundary deterministically; nothing
// of keto's own code is replaced.
func (p *Persister) VerifBatchFromUUIDs(ctx context.Context, ids []uuid.UUID, pageSize int) ([]string, error) {
	return p.batchFromUUIDs(ctx, ids, x.WithSize(pageSize))
}

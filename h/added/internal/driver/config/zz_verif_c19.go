//go:build verif

package config

import (
	"context"
	"io"

	"github.com/ory/x/logrusx"
	"github.com/ory/x/watcherx"

	"github.com/ory/keto/internal/namespace"
)

// Exports for the C19 harness (/verif/h/cfgw): the real watchers, built without
// starting a file watcher, and the real event loop, so that the harness owns
// the event channel and the schedule.

type VerifHandler interface {
	namespace.Manager
	eventHandler
}

func VerifNewOPLWatcher(l *logrusx.Logger, target string) VerifHandler {
	return &oplConfigWatcher{
		logger:                 l,
		target:                 target,
		files:                  configFiles{byPath: make(map[string]io.Reader)},
		memoryNamespaceManager: *NewMemoryNamespaceManager(),
	}
}

func VerifNewNamespaceWatcher(l *logrusx.Logger, target string) VerifHandler {
	return &NamespaceWatcher{logger: l, target: target, namespaces: make(map[string]*NamespaceFile)}
}

func VerifStartEventHandler(ctx context.Context, eventCh watcherx.EventChannel, h VerifHandler, done <-chan int, initialEventsProcessed chan<- struct{}, l *logrusx.Logger) {
	startEventHandler(ctx, eventCh, h, done, initialEventsProcessed, l)
}

// VerifConfigChanged invokes the callback keto registers with the configuration file watcher,
// i.e. what happens when ANY key of the main config file changes on disk.
func VerifConfigChanged(k *Config) { k.watcher(nil, nil) }

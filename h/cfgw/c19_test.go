// C19 — namespace configuration reloads are keep-last-good and never partial.
// The real oplConfigWatcher / NamespaceWatcher and the real event loop
// (instrumented by tools/vinstr, profile "config") run under the cooperative
// scheduler; a dispatcher thread feeds an enumerated history of file events, a
// reader thread samples the visible namespaces at every possible instant.
package cfgw

import (
	"context"
	"errors"
	"fmt"
	"io"
	"net/http"
	"net/http/httptest"
	"os"
	"reflect"
	"sort"
	"strings"
	"testing"
	"time"
	"unsafe"

	"github.com/ory/x/configx"
	"github.com/ory/x/logrusx"
	"github.com/ory/x/watcherx"
	"github.com/sirupsen/logrus"

	"github.com/ory/keto/internal/driver/config"
	"github.com/ory/keto/internal/namespace"
	"github.com/ory/keto/verif/ev"
	"github.com/ory/keto/verif/vsched"
)

// ---- events: watcherx keeps the fields of its events unexported

func setField(v reflect.Value, name string, val any) {
	f := v.Elem().FieldByName(name)
	reflect.NewAt(f.Type(), unsafe.Pointer(f.UnsafeAddr())).Elem().Set(reflect.ValueOf(val).Convert(f.Type()))
}

func changeEvent(src string, data []byte) watcherx.Event {
	e := &watcherx.ChangeEvent{}
	setField(reflect.ValueOf(e), "data", data)
	setField(reflect.ValueOf(e), "source", src)
	if e.Source() != src {
		panic("INFRA: cannot build watcherx.ChangeEvent")
	}
	return e
}

func removeEvent(src string) watcherx.Event {
	e := &watcherx.RemoveEvent{}
	setField(reflect.ValueOf(e), "source", src)
	return e
}

// ---- contents

type version struct {
	name  string
	file  string
	data  string
	valid bool
	ns    []string // namespaces this version denotes (valid versions only)
	rm    bool
	errEv bool // not a version at all: the watcher reports a transient read / stat ERROR for the file
}

func oplDoc(names ...string) string {
	s := "import { Namespace } from \"@ory/keto-namespace-types\"\n"
	for _, n := range names {
		s += "class " + n + " implements Namespace {}\n"
	}
	return s
}

func oplAlphabet() []version {
	return []version{
		{name: "f1=V1", file: "/d/f1.ts", data: oplDoc("A", "B"), valid: true, ns: []string{"A", "B"}},
		{name: "f1=V2", file: "/d/f1.ts", data: oplDoc("A2"), valid: true, ns: []string{"A2"}},
		{name: "f1=BAD-syntax", file: "/d/f1.ts", data: "class A implements Namespace {"},
		{name: "f1=BAD-type", file: "/d/f1.ts", data: "class A implements Namespace { related: { x: Nope[] } }"},
		{name: "rm f1", file: "/d/f1.ts", rm: true, valid: true},
		{name: "f2=W1", file: "/d/f2.ts", data: oplDoc("C"), valid: true, ns: []string{"C"}},
		{name: "f2=BAD", file: "/d/f2.ts", data: "class {"},
		// an ERROR event of the watcher for a loaded file is not a version: nothing may change
		{name: "f1=ERROR-EVENT", file: "/d/f1.ts", errEv: true},
	}
}

func legacyAlphabet(ext string) []version {
	mk := func(id int, name string) string {
		switch ext {
		case ".json":
			return fmt.Sprintf(`{"id": %d, "name": %q}`, id, name)
		case ".toml":
			return fmt.Sprintf("id = %d\nname = %q\n", id, name)
		}
		return fmt.Sprintf("id: %d\nname: %s\n", id, name)
	}
	bad := "{{{ not: [valid"
	if ext == ".toml" {
		bad = "= = ="
	}
	f1, f2 := "/d/f1"+ext, "/d/f2"+ext
	return []version{
		{name: "f1=V1", file: f1, data: mk(1, "A"), valid: true, ns: []string{"A"}},
		{name: "f1=V2", file: f1, data: mk(2, "A2"), valid: true, ns: []string{"A2"}},
		{name: "f1=BAD", file: f1, data: bad},
		{name: "rm f1", file: f1, rm: true, valid: true},
		{name: "f2=W1", file: f2, data: mk(3, "C"), valid: true, ns: []string{"C"}},
		{name: "f2=BAD", file: f2, data: bad},
		{name: "f1=ERROR-EVENT", file: f1, errEv: true},
	}
}

// contentAlphabet: one file, two valid versions and every KIND of content that is not a namespace document of
// the format (each invalid by the format's own grammar or by the document type, not by keto's taste): garbage,
// a document cut off in the middle, a complete document followed by left-over bytes (what a shorter in-place
// write leaves behind), a well-formed value of the wrong type, a field of the wrong type.
func contentAlphabet(ext string) []version {
	f1 := "/d/f1" + ext
	var v1, v2 string
	var bads [][2]string
	switch ext {
	case ".json":
		v1, v2 = `{"id": 1, "name": "A"}`, `{"id": 2, "name": "A2"}`
		bads = [][2]string{
			{"cut-off", `{"id": 1, "na`},
			{"trailing-bytes", `{"id": 0, "name": "docs"}nts-archive"}`},
			{"trailing-document", `{"id": 1, "name": "A"} {"id": 2, "name": "B"}`},
			{"wrong-value-type", `"A"`},
			{"wrong-field-type", `{"id": "one", "name": "A"}`},
		}
	case ".yaml":
		v1, v2 = "id: 1\nname: A\n", "id: 2\nname: A2\n"
		bads = [][2]string{
			{"cut-off", "id: 1\nname: [A"},
			{"trailing-bytes", "id: 1\nname: A\n}}}\n"},
			{"wrong-field-type", "id: [1, 2]\nname: A\n"},
		}
	case ".toml":
		v1, v2 = "id = 1\nname = \"A\"\n", "id = 2\nname = \"A2\"\n"
		bads = [][2]string{
			{"cut-off", "id = 1\nname = \"A"},
			{"trailing-bytes", "id = 1\nname = \"A\"\n]]]\n"},
			{"duplicate-key", "id = 1\nname = \"A\"\nid = 2\n"},
			{"wrong-field-type", "id = \"one\"\nname = \"A\"\n"},
		}
	case ".ts":
		v1, v2 = oplDoc("A"), oplDoc("A2")
		bads = [][2]string{
			{"cut-off", "class A implements Namespace { related: { x: A"},
			{"unterminated-comment", oplDoc("A") + " /* "},
			{"unterminated-string", oplDoc("A") + " class \"B"},
			{"undeclared-type", "class A implements Namespace { related: { x: Nope[] } }"},
		}
	}
	nsOf := func(n string) []string { return []string{n} }
	out := []version{
		{name: "f1=V1", file: f1, data: v1, valid: true, ns: nsOf("A")},
		{name: "f1=V2", file: f1, data: v2, valid: true, ns: nsOf("A2")},
	}
	for _, b := range bads {
		out = append(out, version{name: "f1=BAD-" + b[0], file: f1, data: b[1]})
	}
	if ext == ".ts" {
		// keto's OPL grammar skips every top-level token outside a class declaration (that is how import and
		// export lines are tolerated), so left-over bytes after the last class are part of a VALID document
		out = append(out, version{name: "f1=V1+stray-tokens", file: f1, data: oplDoc("A") + " }}}", valid: true, ns: nsOf("A")})
		// the same class name with different content: a reload that keeps the names must still take effect
		out = append(out, version{name: "f1=V1+relation", file: f1, data: "import { Namespace } from \"@ory/keto-namespace-types\"\nclass A implements Namespace { related: { r: A[] } }\n", valid: true, ns: nsOf("A{r}")})
	}
	return out
}

type sample struct {
	names  []string
	issued int // number of events whose dispatch had begun when the sample was taken
	byName map[string]bool
}

func names(ctx context.Context, h config.VerifHandler, probe []string) sample {
	nn, _ := h.Namespaces(ctx)
	s := sample{byName: map[string]bool{}}
	for _, n := range nn {
		s.names = append(s.names, renderNS(n))
	}
	sort.Strings(s.names)
	for _, p := range probe {
		if n, err := h.GetNamespaceByName(ctx, p); err == nil && n != nil {
			s.byName[renderNS(n)] = true
		}
	}
	return s
}

// renderNS: what is observed of a served namespace - its name, and its relations when it has any (two versions
// of a file may declare the same names with different content)
func renderNS(n *namespace.Namespace) string {
	if len(n.Relations) == 0 {
		return n.Name
	}
	var rs []string
	for _, r := range n.Relations {
		rs = append(rs, r.Name)
	}
	sort.Strings(rs)
	return n.Name + "{" + strings.Join(rs, ",") + "}"
}

type outcome struct {
	samples []sample
	final   sample
	x       *vsched.Execution
}

// runHistory executes one history under the scheduler with choice prefix vc.
func runHistory(mk func(*logrusx.Logger) config.VerifHandler, l *logrusx.Logger, hist []version, vc vsched.Config, reload bool) outcome {
	var out outcome
	probe := []string{"A", "B", "A2", "C"}
	out.x = vsched.Run(vc, func() {
		h := mk(l)
		ctx, cancel := vsched.WithCancel(context.Background())
		eventCh := make(watcherx.EventChannel)
		done := make(chan int)
		initial := make(chan struct{})
		vsched.Go("event-loop", func() { config.VerifStartEventHandler(ctx, eventCh, h, done, initial, l) })
		issued := 0
		var wg vsched.WaitGroup
		wg.Add(2)
		vsched.Go("dispatcher", func() {
			defer wg.Done()
			for _, v := range hist {
				issued++
				if v.errEv {
					vsched.Send(eventCh, watcherx.Event(watcherx.NewErrorEvent(errors.New("verif: transient read error"), v.file)))
				} else if v.rm {
					vsched.Send(eventCh, removeEvent(v.file))
				} else {
					vsched.Send(eventCh, changeEvent(v.file, []byte(v.data)))
				}
			}
			// barrier: the loop takes the next event only after it has handled the previous one
			vsched.Send(eventCh, watcherx.Event(watcherx.NewErrorEvent(io.EOF, "barrier")))
		})
		vsched.GoEnv("reader", func() {
			defer wg.Done()
			for i := 0; i < 2; i++ {
				s := names(ctx, h, probe)
				s.issued = issued // every version whose dispatch had begun by the time the observation completed
				out.samples = append(out.samples, s)
			}
		})
		if reload {
			wg.Add(1)
			vsched.GoEnv("reload", func() {
				defer wg.Done()
				h.ShouldReload("x")
			})
		}
		wg.Wait()
		out.final = names(ctx, h, probe)
		cancel()
	})
	return out
}

// model: per file, the set of acceptable visible namespace sets after a prefix of the history.
// OPL (all files are re-parsed together; a bad file blocks every update): acceptable states are
// the "last-good" states along the prefix; legacy files are independent of each other.
type model struct {
	opl bool
}

func key(ns []string) string {
	s := append([]string(nil), ns...)
	sort.Strings(s)
	return strings.Join(s, ",")
}

// perFileVersions returns for each file the list of valid versions (namespace sets; removal = empty set)
// among hist[:n], in order; index 0 is the initial "nothing loaded yet".
func perFileVersions(hist []version, n int) map[string][][]string {
	m := map[string][][]string{}
	for _, v := range hist[:n] {
		if _, ok := m[v.file]; !ok {
			m[v.file] = [][]string{nil}
		}
		if v.rm {
			m[v.file] = append(m[v.file], nil)
		} else if v.valid {
			m[v.file] = append(m[v.file], v.ns)
		}
	}
	return m
}

func owner(hist []version, name string) string {
	for _, v := range hist {
		for _, n := range v.ns {
			if n == name {
				return v.file
			}
		}
	}
	return ""
}

// judgeSample: every visible namespace must belong to a valid version (already issued) of its file,
// and for each file the visible namespaces of that file must be EXACTLY one such version (never a
// strict subset, never a mix, never empty once a valid version has been applied and not removed —
// the last clause is judged at quiescence where "applied" is known).
func judgeSample(hist []version, s sample) string {
	pf := perFileVersions(hist, s.issued)
	seen := map[string][]string{}
	for _, n := range s.names {
		f := owner(hist, n)
		if f == "" {
			return fmt.Sprintf("namespace %q is visible but belongs to no version of any file", n)
		}
		seen[f] = append(seen[f], n)
	}
	files := map[string]bool{}
	for _, v := range hist {
		files[v.file] = true
	}
	for f := range files {
		vis := key(seen[f])
		ok := false
		for _, cand := range pf[f] {
			if key(cand) == vis {
				ok = true
			}
		}
		if len(pf[f]) == 0 && vis == "" {
			ok = true
		}
		if !ok {
			return fmt.Sprintf("file %s shows {%s}, which is not a valid version of it dispatched so far (%d events issued)", f, vis, s.issued)
		}
	}
	// GetNamespaceByName must agree with the listing taken just before it only in one direction
	// (a concurrent update may land in between), so it is judged against issued versions as well
	for n, present := range s.byName {
		if !present {
			continue
		}
		f := owner(hist, n)
		found := false
		for _, cand := range pf[f] {
			for _, c := range cand {
				if c == n {
					found = true
				}
			}
		}
		if !found {
			return fmt.Sprintf("GetNamespaceByName(%q) succeeds although no dispatched valid version declares it", n)
		}
	}
	return ""
}

// judgeFinal: at quiescence every file shows its last valid version (weaker reading for OPL: if the
// LAST version of some file is invalid, other files may lag behind - then any last-good state passes).
func judgeFinal(hist []version, s sample, opl bool) string {
	s.issued = len(hist)
	if bad := judgeSample(hist, s); bad != "" {
		return "at quiescence: " + bad
	}
	last := map[string]version{}
	for _, v := range hist {
		last[v.file] = v
	}
	allValid := true
	for _, v := range last {
		if !v.valid {
			allValid = false
		}
	}
	pf := perFileVersions(hist, len(hist))
	// OPL re-parses all files together and publishes only when every file parses: at quiescence a
	// file shows a valid version of it that is not older than the one it had at the last point of the
	// history where every file was valid, and not newer than its last valid version
	lastAllValid := 0
	{
		cur := map[string]version{}
		for i, v := range hist {
			cur[v.file] = v
			all := true
			for _, c := range cur {
				if !c.valid {
					all = false
				}
			}
			if all {
				lastAllValid = i + 1
			}
		}
	}
	lower := perFileVersions(hist, lastAllValid)
	for f, vs := range pf {
		want := vs[len(vs)-1]
		if opl && !allValid {
			var got []string
			for _, n := range s.names {
				if owner(hist, n) == f {
					got = append(got, n)
				}
			}
			from := 0
			if lv := lower[f]; len(lv) > 0 {
				from = len(lv) - 1
			}
			ok := false
			for _, cand := range vs[from:] {
				if key(cand) == key(got) {
					ok = true
				}
			}
			if !ok {
				return fmt.Sprintf("at quiescence file %s shows {%s}; acceptable are its valid versions from the last all-valid point on: %v", f, key(got), vs[from:])
			}
			continue
		}
		if !opl && !last[f].valid && !last[f].rm {
			// legacy: the file's last content is invalid -> last good version stays
		}
		var got []string
		for _, n := range s.names {
			if owner(hist, n) == f {
				got = append(got, n)
			}
		}
		if key(got) != key(want) {
			return fmt.Sprintf("at quiescence file %s shows {%s}, its last valid version is {%s}", f, key(got), key(want))
		}
	}
	return ""
}

func histName(h []version) string {
	s := make([]string, len(h))
	for i, v := range h {
		s[i] = v.name
	}
	return strings.Join(s, "; ")
}

func TestC19(t *testing.T) {
	run := ev.New("C19", "model_checking")
	shard, nshards, child := ev.Shard()
	if !child {
		cov := run.RunShards("TestC19", ev.Workers())
		run.Assume("the watchers and the event loop are keto's own code (instrumented); file-system notification itself (watcherx/fsnotify) is replaced by a dispatcher thread that sends the enumerated events",
			"'eventually takes effect' is judged at quiescence; for OPL targets, where one unparsable file blocks every update, it is judged only when the last version of every file is valid (weaker reading)",
			"a sample may show, per file, any valid version whose dispatch had begun when the sample started")
		run.Finish(cov)
		return
	}
	l := logrusx.New("keto", "verif")
	l.Logger.SetOutput(io.Discard)
	l.Logger.SetLevel(logrus.PanicLevel)
	deadline := ev.Deadline(150, 1200)
	maxLen, bound := 3, 2
	if ev.Thorough() {
		maxLen = 4
	}
	type family struct {
		name          string
		opl           bool
		mk            func(*logrusx.Logger) config.VerifHandler
		alpha         []version
		maxLen, bound int // 0 = the defaults above
	}
	fams := []family{
		{"opl-directory", true, func(l *logrusx.Logger) config.VerifHandler { return config.VerifNewOPLWatcher(l, "file:///d") }, oplAlphabet(), 0, 0},
		{"legacy-json", false, func(l *logrusx.Logger) config.VerifHandler { return config.VerifNewNamespaceWatcher(l, "file:///d") }, legacyAlphabet(".json"), 0, 0},
		{"legacy-yaml", false, func(l *logrusx.Logger) config.VerifHandler { return config.VerifNewNamespaceWatcher(l, "file:///d") }, legacyAlphabet(".yaml"), 0, 0},
		{"legacy-toml", false, func(l *logrusx.Logger) config.VerifHandler { return config.VerifNewNamespaceWatcher(l, "file:///d") }, legacyAlphabet(".toml"), 0, 0},
		// kinds of invalid content, one file, histories of length <= 3, one deviation
		{"opl-contents", true, func(l *logrusx.Logger) config.VerifHandler { return config.VerifNewOPLWatcher(l, "file:///d") }, contentAlphabet(".ts"), 3, 1},
		{"legacy-json-contents", false, func(l *logrusx.Logger) config.VerifHandler { return config.VerifNewNamespaceWatcher(l, "file:///d") }, contentAlphabet(".json"), 3, 1},
		{"legacy-yaml-contents", false, func(l *logrusx.Logger) config.VerifHandler { return config.VerifNewNamespaceWatcher(l, "file:///d") }, contentAlphabet(".yaml"), 3, 1},
		{"legacy-toml-contents", false, func(l *logrusx.Logger) config.VerifHandler { return config.VerifNewNamespaceWatcher(l, "file:///d") }, contentAlphabet(".toml"), 3, 1},
	}
	var cov struct {
		histories, execs, trans, states, samples int
		complete                                 bool
	}
	cov.complete = true
	n := 0
	for _, fam := range fams {
		// all histories of length 1..maxLen
		var hists [][]version
		var rec func(cur []version)
		fmaxLen, fbound := maxLen, bound
		if fam.maxLen > 0 {
			fmaxLen, fbound = fam.maxLen, fam.bound
		}
		rec = func(cur []version) {
			if len(cur) > 0 {
				hists = append(hists, append([]version(nil), cur...))
			}
			if len(cur) == fmaxLen {
				return
			}
			for _, v := range fam.alpha {
				rec(append(cur, v))
			}
		}
		rec(nil)
		for _, hist := range hists {
			n++
			if n%nshards != shard {
				continue
			}
			if !deadline.IsZero() && deadlinePassed(deadline) {
				cov.complete = false
				break
			}
			cov.histories++
			reported := false
			for _, reload := range []bool{false, true} {
				if reload && !fam.opl {
					continue // ShouldReload of the legacy watcher takes no lock
				}
				var last outcome
				e := &vsched.Explore{Bound: fbound, Count: true, Deadline: deadline}
				e.Run(func(vc vsched.Config) *vsched.Execution {
					last = runHistory(fam.mk, l, hist, vc, reload)
					return last.x
				}, func(x *vsched.Execution) bool {
					if reported {
						return true
					}
					rep := map[string]any{"family": fam.name, "history": histName(hist), "choices": x.Choices, "reload_thread": reload}
					switch {
					case x.Outcome == "deadlock":
						reported = true
						run.Violation("deadlock:"+blockedSig(x), fmt.Sprintf("[%s] history {%s}: the namespace manager deadlocks; blocked: %v", fam.name, histName(hist), x.Leaked), rep)
						return true
					case x.Outcome == "diverged":
						fmt.Printf("INFRA-ERROR schedule replay diverged in [%s] history {%s}: executions are not a function of the scheduler's choices\n", fam.name, histName(hist))
						os.Exit(2)
					case x.Outcome != "ok":
						reported = true
						run.Violation("abnormal:"+x.Outcome, fmt.Sprintf("[%s] history {%s}: %s %s", fam.name, histName(hist), x.Outcome, x.PanicMsg), rep)
						return true
					}
					for _, s := range last.samples {
						cov.samples++
						if bad := judgeSample(hist, s); bad != "" {
							reported = true
							run.Violation(sigOf(fam.opl, hist, bad), fmt.Sprintf("[%s] history {%s}: sample %v: %s", fam.name, histName(hist), s.names, bad), rep)
							return true
						}
					}
					for i := 1; i < len(last.samples); i++ {
						_ = i // monotonicity is implied per file by "dispatched so far" + the final check for these short histories
					}
					if bad := judgeFinal(hist, last.final, fam.opl); bad != "" {
						reported = true
						run.Violation(sigOf(fam.opl, hist, bad), fmt.Sprintf("[%s] history {%s}: final %v: %s", fam.name, histName(hist), last.final.names, bad), rep)
					}
					return true
				})
				cov.execs += e.Execs
				cov.trans += e.Transitions
				cov.states += len(e.States)
				if !e.Complete {
					cov.complete = false
				}
			}
			if cov.histories <= 1 && shard < 3 {
				run.Sample(map[string]any{"family": fam.name, "history": histName(hist), "bound": bound})
			}
		}
	}
	// conformance: a few histories through REAL files and the REAL file watcher (watcherx/fsnotify),
	// scheduler in pass-through mode. Polls until the expected final state shows; a timeout is
	// recorded as inconclusive, never as a violation (wall-clock time is not an oracle).
	realOK, realInconclusive := 0, 0
	reloadCases := 0
	if shard == 0 {
		realOK, realInconclusive = realFileConformance(t, run, l)
		reloadCases = configReloadKeepsLastGood(t, run, l)
	}
	lookupSetExecs := 0
	if shard == 1%nshards {
		lookupSetExecs = configLookupVsSet(t, run, l)
	}
	httpCases := 0
	if shard == 2%nshards {
		httpCases = configHTTPLocations(t, run, l)
	}
	run.FinishPart(map[string]any{
		"real_watcher_histories_confirmed":    realOK,
		"real_watcher_histories_inconclusive": realInconclusive,
		"config_reload_cases":                 reloadCases,
		"config_lookup_vs_set_executions":     lookupSetExecs,
		"config_http_location_pairs":          httpCases,
		"states":                              cov.states,
		"transitions":                         cov.trans,
		"traces_validated_against_impl":       cov.execs,
		"histories":                           cov.histories,
		"samples_judged":                      cov.samples,
		"max_history_length":                  maxLen,
		"max_deviation_bound":                 bound,
		"exhaustive":                          cov.complete,
	})
}

func deadlinePassed(d time.Time) bool { return !d.IsZero() && time.Now().After(d) }

func blockedSig(x *vsched.Execution) string {
	var s []string
	for _, l := range x.Leaked {
		at := strings.Index(l, "@")
		s = append(s, strings.Fields(l[at+1:])[0])
	}
	sort.Strings(s)
	return strings.Join(s, ",")
}

// sigOf: structural class of a C19 violation.
func sigOf(opl bool, hist []version, bad string) string {
	files := map[string]bool{}
	for _, v := range hist {
		files[v.file] = true
	}
	kind := "legacy"
	if opl {
		kind = "opl"
	}
	multi := "single-file"
	if len(files) > 1 {
		multi = "multi-file"
	}
	what := "wrong-version"
	if strings.Contains(bad, "at quiescence") {
		what = "final-" + what
	}
	return kind + ":" + multi + ":" + what
}

// realFileConformance replays histories on a temp directory watched by keto's own NewNamespaceWatcher.
func realFileConformance(t *testing.T, run *ev.Run, l *logrusx.Logger) (ok, inconclusive int) {
	alpha := legacyAlphabet(".json")
	pick := func(ix ...int) []version {
		var h []version
		for _, i := range ix {
			h = append(h, alpha[i])
		}
		return h
	}
	// indices: 0 f1=V1, 1 f1=V2, 2 f1=BAD, 3 rm f1, 4 f2=W1, 5 f2=BAD
	hists := [][]version{pick(0), pick(0, 1), pick(0, 2), pick(0, 4), pick(0, 4, 3), pick(4, 5, 0), pick(0, 2, 1)}
	for _, hist := range hists {
		dir := t.TempDir()
		ctx, cancel := context.WithCancel(context.Background())
		nw, err := config.NewNamespaceWatcher(ctx, l, "file://"+dir)
		if err != nil {
			cancel()
			inconclusive++
			continue
		}
		for _, v := range hist {
			p := dir + "/" + v.file[len("/d/"):]
			if v.rm {
				_ = os.Remove(p)
			} else {
				_ = os.WriteFile(p, []byte(v.data), 0o644)
			}
			time.Sleep(60 * time.Millisecond) // let the notification be delivered; not an oracle
		}
		deadline := time.Now().Add(15 * time.Second)
		good := false
		var got []string
		for time.Now().Before(deadline) {
			nn, _ := nw.Namespaces(ctx)
			got = got[:0]
			for _, n := range nn {
				got = append(got, n.Name)
			}
			sort.Strings(got)
			if judgeFinal(hist, sample{names: got}, false) == "" {
				good = true
				break
			}
			time.Sleep(50 * time.Millisecond)
		}
		cancel()
		if good {
			ok++
		} else {
			inconclusive++
			fmt.Printf("[c19] real-watcher replay of {%s} inconclusive: still %v after 15s\n", histName(hist), got)
		}
	}
	return
}

// configReloadKeepsLastGood: Config-level histories on real files. A watched file is loaded in a
// valid version, then changes to invalid content (or stays valid), then ANY change of the main
// configuration file is signalled (keto's own config-watcher callback): the namespaces served
// afterwards must still be a valid version of the file - never nothing. Sequential and
// deterministic: whether or not the old watcher has already seen the bad content, a manager that
// is rebuilt at this point loads what is on disk.
func configReloadKeepsLastGood(t *testing.T, run *ev.Run, l *logrusx.Logger) int {
	type fam struct {
		name, file, v1, v2, bad string
		nsValue                 func(path, dir string) any
		want1, want2            []string
	}
	fams := []fam{
		{"legacy-uri", "n.json", `{"id": 1, "name": "A"}`, `{"id": 2, "name": "A2"}`, "{{{ not json",
			func(path, dir string) any { return "file://" + dir }, []string{"A"}, []string{"A2"}},
		{"opl-file", "f.ts", oplDoc("A", "B"), oplDoc("A2"), "class A implements Namespace {",
			func(path, dir string) any { return map[string]any{"location": "file://" + path} }, []string{"A", "B"}, []string{"A2"}},
	}
	cases := 0
	for _, f := range fams {
		for _, second := range []string{"bad", "v2", "none"} {
			for _, events := range []int{1, 2} {
				dir := t.TempDir()
				path := dir + "/" + f.file
				if err := os.WriteFile(path, []byte(f.v1), 0o644); err != nil {
					t.Fatal(err)
				}
				ctx, cancel := context.WithCancel(context.Background())
				ctx = configx.ContextWithConfigOptions(ctx, configx.WithValues(map[string]any{
					config.KeyDSN: "memory", "log.level": "panic", config.KeyNamespaces: f.nsValue(path, dir)}))
				k, err := config.NewDefault(ctx, nil, l)
				if err != nil {
					cancel()
					t.Fatalf("INFRA: config: %v", err)
				}
				get := func() []string {
					nm, err := k.NamespaceManager()
					if err != nil {
						return []string{"error:" + err.Error()}
					}
					nn, _ := nm.Namespaces(ctx)
					var out []string
					for _, n := range nn {
						out = append(out, n.Name)
					}
					sort.Strings(out)
					return out
				}
				first := get()
				acceptable := [][]string{f.want1}
				switch second {
				case "bad":
					_ = os.WriteFile(path, []byte(f.bad), 0o644)
				case "v2":
					_ = os.WriteFile(path, []byte(f.v2), 0o644)
					acceptable = append(acceptable, f.want2)
				}
				for i := 0; i < events; i++ {
					config.VerifConfigChanged(k)
				}
				after := get()
				cases++
				ok := key(first) == key(f.want1)
				okAfter := false
				for _, a := range acceptable {
					if key(after) == key(a) {
						okAfter = true
					}
				}
				if !ok || !okAfter {
					run.Violation("config-reload-loses-last-good:"+f.name+":"+second,
						fmt.Sprintf("[%s] file loaded as %v, then changed to %s, then %d configuration-change event(s): namespaces served afterwards %v (acceptable: %v)", f.name, first, second, events, after, acceptable),
						map[string]any{"family": f.name, "second_version": second, "config_change_events": events})
				}
				cancel()
			}
		}
	}
	return cases
}

// configLookupVsSet: the namespace configuration is changed through config.Config.Set while other requests look the
// namespace manager up (the first lookup after a change builds it). All schedules to bound 2 on the real Config
// object (instrumented): every lookup sees the namespaces of one value set so far, and after everything has
// returned the namespaces served are those of the LAST value set - a change is never lost.
func configLookupVsSet(t *testing.T, run *ev.Run, l *logrusx.Logger) int {
	P := func(names ...string) []*namespace.Namespace {
		var out []*namespace.Namespace
		for _, n := range names {
			out = append(out, &namespace.Namespace{Name: n})
		}
		return out
	}
	ctx, cancel := context.WithCancel(context.Background())
	defer cancel()
	ctx = configx.ContextWithConfigOptions(ctx, configx.WithValues(map[string]any{config.KeyDSN: "memory", "log.level": "panic", config.KeyNamespaces: P("A")}))
	k, err := config.NewDefault(ctx, nil, l)
	if err != nil {
		t.Fatalf("INFRA: config: %v", err)
	}
	get := func() string {
		nm, err := k.NamespaceManager()
		if err != nil {
			return "error:" + err.Error()
		}
		nn, err := nm.Namespaces(ctx)
		if err != nil {
			return "error:" + err.Error()
		}
		var out []string
		for _, n := range nn {
			out = append(out, n.Name)
		}
		sort.Strings(out)
		return strings.Join(out, ",")
	}
	type scen struct {
		name    string
		sets    [][]string // values set, in order, by the writer thread
		lookups int        // concurrent lookup threads
	}
	execs := 0
	deadline := ev.Deadline(60, 300)
	for _, sc := range []scen{{"1 lookup || set B", [][]string{{"B"}}, 1}, {"2 lookups || set B", [][]string{{"B"}}, 2}, {"1 lookup || set B; set C", [][]string{{"B"}, {"C"}}, 1}, {"2 lookups || set B,C (two namespaces)", [][]string{{"B", "C"}}, 2}} {
		seen := make([]string, sc.lookups)
		final := ""
		reported := false
		e := &vsched.Explore{Bound: 2, Deadline: deadline}
		e.Run(func(vc vsched.Config) *vsched.Execution {
			if err := k.Set(config.KeyNamespaces, P("A")); err != nil { // back to the first value; the manager is rebuilt on the next lookup
				t.Fatalf("INFRA: set: %v", err)
			}
			return vsched.Run(vc, func() {
				var wg vsched.WaitGroup
				for i := 0; i < sc.lookups; i++ {
					i := i
					wg.Add(1)
					vsched.Go("lookup", func() { defer wg.Done(); seen[i] = get() })
				}
				wg.Add(1)
				vsched.Go("set", func() {
					defer wg.Done()
					for _, v := range sc.sets {
						if err := k.Set(config.KeyNamespaces, P(v...)); err != nil {
							seen[0] = "error: set: " + err.Error()
						}
					}
				})
				wg.Wait()
				final = get()
			})
		}, func(x *vsched.Execution) bool {
			execs++
			if reported {
				return true
			}
			rep := map[string]any{"family": "config-lookup-vs-set", "scenario": sc.name, "choices": x.Choices}
			if x.Outcome == "diverged" {
				fmt.Printf("INFRA-ERROR schedule replay diverged in [config-lookup-vs-set] %s\n", sc.name)
				os.Exit(2)
			}
			if x.Outcome != "ok" {
				reported = true
				run.Violation("config-lookup-vs-set:"+x.Outcome, fmt.Sprintf("[%s] execution %s %s; blocked: %v", sc.name, x.Outcome, x.PanicMsg, x.Leaked), rep)
				return true
			}
			valid := map[string]bool{"A": true}
			for _, v := range sc.sets {
				valid[strings.Join(v, ",")] = true
			}
			for i, sn := range seen {
				if !valid[sn] {
					reported = true
					run.Violation("config-lookup-vs-set:lookup-sees-no-version", fmt.Sprintf("[%s] lookup %d saw namespaces [%s], which is no value that was ever set", sc.name, i, sn), rep)
					return true
				}
			}
			if want := strings.Join(sc.sets[len(sc.sets)-1], ","); final != want {
				reported = true
				run.Violation("config-lookup-vs-set:change-lost", fmt.Sprintf("[%s] after the lookups and the writer returned, the namespaces served are [%s]; the last value set is [%s] (lookups saw %v)", sc.name, final, want, seen), rep)
			}
			return true
		})
	}
	return execs
}

// configHTTPLocations: OPL documents served over http. Every ordered pair of locations that differ in path, in
// the query string or only in one query parameter: the configuration is switched from the first to the second at
// run time (and a second configuration object is created for the second while the first is alive); the
// namespaces served must be those of the document AT THAT LOCATION (keto keeps fetched documents in a
// process-wide cache).
func configHTTPLocations(t *testing.T, run *ev.Run, l *logrusx.Logger) int {
	docs := map[string]string{}
	srv := httptest.NewServer(http.HandlerFunc(func(w http.ResponseWriter, r *http.Request) {
		if d, ok := docs[r.URL.RequestURI()]; ok {
			_, _ = w.Write([]byte(d))
			return
		}
		w.WriteHeader(404)
	}))
	defer srv.Close()
	uris := []string{"/opl/a", "/opl/b", "/opl?tenant=a", "/opl?tenant=b", "/opl?tenant=a&v=2", "/opl/a?tenant=b"}
	nameOf := map[string]string{}
	for i, u := range uris {
		nameOf[u] = fmt.Sprintf("Loc%d", i)
		docs[u] = oplDoc(nameOf[u])
	}
	served := func(k *config.Config, ctx context.Context) string {
		nm, err := k.NamespaceManager()
		if err != nil {
			return "error:" + err.Error()
		}
		nn, err := nm.Namespaces(ctx)
		if err != nil {
			return "error:" + err.Error()
		}
		var out []string
		for _, n := range nn {
			out = append(out, n.Name)
		}
		sort.Strings(out)
		return strings.Join(out, ",")
	}
	mk := func(ctx context.Context, u string) *config.Config {
		ctx = configx.ContextWithConfigOptions(ctx, configx.WithValues(map[string]any{config.KeyDSN: "memory", "log.level": "panic", config.KeyNamespaces: map[string]any{"location": srv.URL + u}}))
		k, err := config.NewDefault(ctx, nil, l)
		if err != nil {
			t.Fatalf("INFRA: config: %v", err)
		}
		return k
	}
	cases := 0
	reported := false
	for _, u1 := range uris {
		for _, u2 := range uris {
			if u1 == u2 || reported {
				continue
			}
			ctx, cancel := context.WithCancel(context.Background())
			k := mk(ctx, u1)
			first := served(k, ctx)
			time.Sleep(15 * time.Millisecond) // (courtesy to keto's asynchronous document cache; not an oracle)
			first = served(k, ctx)
			if err := k.Set(config.KeyNamespaces, map[string]any{"location": srv.URL + u2}); err != nil {
				t.Fatalf("INFRA: set: %v", err)
			}
			second := served(k, ctx)
			other := served(mk(ctx, u2), ctx)
			cases++
			rep := map[string]any{"family": "config-http-locations", "first": u1, "second": u2}
			switch {
			case first != nameOf[u1]:
				reported = true
				run.Violation("http-location:wrong-document", fmt.Sprintf("OPL location %s serves namespaces [%s], the document there declares [%s]", u1, first, nameOf[u1]), rep)
			case second != nameOf[u2]:
				reported = true
				run.Violation("http-location:document-of-another-location", fmt.Sprintf("the OPL location was switched from %s to %s at run time: namespaces served [%s], the document at the new location declares [%s]", u1, u2, second, nameOf[u2]), rep)
			case other != nameOf[u2]:
				reported = true
				run.Violation("http-location:document-of-another-location", fmt.Sprintf("a second configuration with OPL location %s (another one with %s exists in the process): namespaces served [%s], the document there declares [%s]", u2, u1, other, nameOf[u2]), rep)
			}
			cancel()
		}
	}
	return cases
}

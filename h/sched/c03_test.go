package sched

import (
	"context"
	"errors"
	"fmt"
	"testing"

	"github.com/ory/keto/internal/check/checkgroup"
	"github.com/ory/keto/ketoapi"
	"github.com/ory/keto/verif/ev"
	"github.com/ory/keto/verif/memstore"
	"github.com/ory/keto/verif/refsem"
	"github.com/ory/keto/verif/sqlfault"
	"github.com/ory/keto/verif/vsched"
	"github.com/ory/x/sqlcon"
)

// TestC03: storage failures during a check never produce 'allowed'.
func TestC03(t *testing.T) {
	run := ev.New("C03", "fault_enumeration")
	shard, nshards, child := ev.Shard()
	if !child {
		cov := run.RunShards("TestC03", ev.Workers())
		run.Assume("faults are injected at the storage interface the engine calls (Manager / Traverser): the k-th call in execution order fails, transiently or persistently, with a generic error, context.DeadlineExceeded, context.Canceled (a cancelled QUERY: the request context itself stays alive) or a serialization failure (sqlcon.ErrConcurrentUpdate, the class a retry layer would look for)",
			"'fault-free result' is the result of the same schedule without the fault (engine instrumented, deterministic)",
			"storage = in-memory stand-in bound to the SQL persister by C01's conformance part")
		run.Finish(cov)
		return
	}
	deadline := ev.Deadline(110, 1500)
	leaves := []int{LIncA, LIncB, LTrvAP}
	if ev.Thorough() {
		leaves = []int{LIncA, LIncB, LTrvAP, LTrvAB, LPermQ}
	}
	var cov struct {
		triples, hit, changed, scenarios, schedRuns, batchRuns, reorderScen, sqlScen, sqlTriples int
		complete                                                                                 bool
	}
	cov.complete = true
	kinds := []error{memstore.ErrInjected, context.DeadlineExceeded, context.Canceled, sqlcon.ErrConcurrentUpdate}

	judgeFault := func(sc *Scn, base, o CheckOut, plan memstore.FaultPlan, mode string, choices []int) {
		rep := sc.Replay()
		rep["fail_call"] = plan.At
		rep["persistent"] = plan.Persistent
		rep["error"] = fmt.Sprint(plan.Err)
		rep["mode"] = mode
		rep["choices"] = choices
		what := fmt.Sprintf("(%s, call %d/%d fails, persistent=%v, %v) in %s: fault-free=%s, with fault=%s", mode, plan.At, base.Calls, plan.Persistent, plan.Err, sc, memb(base.Res), memb(o.Res))
		if diverged(o.X, sc.String()) {
			return
		}
		if o.X.Outcome != "ok" {
			run.Violation("abnormal:"+o.X.Outcome, "execution "+o.X.Outcome+" "+what, rep)
			return
		}
		if o.Res.Err != nil && o.Res.Membership == checkgroup.IsMember {
			run.Violation("error-and-allowed", "the answer carries an error and says allowed "+what, rep)
			return
		}
		if o.Res.Err == nil && o.Res.Membership == checkgroup.IsMember && base.Res.Membership != checkgroup.IsMember {
			sig := "fault-flips-to-allowed"
			if sc.Cfg.Expr.hasNot() {
				sig = "fault-flips-to-allowed:under-not"
			}
			run.Violation(sig, "a storage failure turned a denied check into allowed "+what, rep)
			return
		}
		if o.Res.Err == nil && o.Res.Membership != base.Res.Membership {
			// allowed -> denied without an error: permitted by the statement? "returns an error or the same answer" - no.
			run.Violation("fault-changes-answer-silently", "a storage failure silently changed the answer "+what, rep)
		}
	}

	scns := sCatalogue(2, leaves)
	// plain (rewrite-free) namespace scenarios as well
	w := NewWorld(t, WorldOpt{Namespaces: scns[0].Cfg.NS, Depth: 5})
	var lastCfg *CfgSpec
	for i, sc := range scns {
		if i%nshards != shard {
			continue
		}
		if deadlinePassed(deadline) {
			cov.complete = false
			break
		}
		if sc.Cfg != lastCfg {
			w.SetNamespaces(t, sc.Cfg.NS)
			lastCfg = sc.Cfg
		}
		rows := w.Rows(sc.Tuples)
		q := w.Internal(sc.Query)
		// listings are paged; with page size 1 every traverse over two parents needs a second page,
		// so a failure on a LATER page fetch is among the enumerated positions
		pageSizes := []int{100}
		if sc.Cfg.Expr.usesTraverse() {
			pageSizes = []int{100, 1}
		}
		for _, ps := range pageSizes {
			base := w.RunCheck(rows, q, vsched.Config{FastBase: true}, RunOpt{PageSize: ps})
			if base.X.Outcome != "ok" || base.Res.Err != nil {
				continue // C15 / C01 territory
			}
			cov.scenarios++
			for pos := 1; pos <= base.Calls; pos++ {
				for _, pers := range []bool{false, true} {
					for _, kerr := range kinds {
						plan := memstore.FaultPlan{At: pos, Persistent: pers, Err: kerr}
						o := w.RunCheck(rows, q, vsched.Config{FastBase: true}, RunOpt{Fault: plan, PageSize: ps})
						cov.triples++
						if o.Faults > 0 {
							cov.hit++
							if o.Res.Err != nil || o.Res.Membership != base.Res.Membership {
								cov.changed++
							}
						}
						mode := "base schedule"
						if ps != 100 {
							mode = fmt.Sprintf("base schedule, listing page size %d", ps)
						}
						judgeFault(sc, base, o, plan, mode, nil)
					}
				}
			}
		}
	}
	// SQL layer: the same engine over the REAL persister and traverser; the k-th SQL statement of the
	// check fails inside the database/sql driver (every k; generic error, deadline exceeded and cancelled).
	{
		tap := sqlfault.Attach("")
		sqlLeaves := []int{LIncA, LIncB, LTrvAP}
		sqlScns := sCatalogue(2, sqlLeaves)
		lastCfg = nil
		for i, sc := range sqlScns {
			if i%nshards != shard || sc.Graph == "none" {
				continue
			}
			if deadlinePassed(deadline) {
				cov.complete = false
				break
			}
			if sc.Cfg != lastCfg {
				w.SetNamespaces(t, sc.Cfg.NS)
				lastCfg = sc.Cfg
			}
			rows := w.Rows(sc.Tuples)
			q := w.Internal(sc.Query)
			w.LoadSQL(t, rows)
			sqlRun := func(failAt int, kerr error) (CheckOut, int) {
				n := 0
				hit := 0
				tap.SetBefore(func(e *sqlfault.Event) error {
					n++
					if n == failAt {
						hit++
						return kerr
					}
					return nil
				})
				defer tap.SetBefore(nil)
				var out CheckOut
				out.X = vsched.Run(vsched.Config{FastBase: true}, func() {
					ctx, cancel := vsched.WithCancel(context.Background())
					out.Res = w.SQLEng.CheckRelationTuple(ctx, q, 0)
					cancel()
				})
				out.Calls = n
				out.Faults = hit
				return out, n
			}
			base, n := sqlRun(0, nil)
			if base.X.Outcome != "ok" || base.Res.Err != nil {
				continue
			}
			cov.sqlScen++
			for k := 1; k <= n; k++ {
				for _, kerr := range kinds {
					o, _ := sqlRun(k, kerr)
					cov.sqlTriples++
					if o.Faults > 0 && (o.Res.Err != nil || o.Res.Membership != base.Res.Membership) {
						cov.changed++
					}
					judgeFault(sc, base, o, memstore.FaultPlan{At: k, Err: kerr}, "SQL statement fault", nil)
				}
			}
		}
		tap.Close()
	}

	// second pass - the failing call reordered relative to its siblings: all schedules with one
	// deviation, for the transient generic fault at every position (the fault-free reference is the
	// same schedule without the fault). Runs as far as the time cap allows; reported separately.
	reorderComplete := true
	lastCfg = nil
	for i, sc := range scns {
		if i%nshards != shard || !(ev.Thorough() || (i/nshards)%3 == 0) {
			continue
		}
		if deadlinePassed(deadline) {
			reorderComplete = false
			break
		}
		if sc.Cfg != lastCfg {
			w.SetNamespaces(t, sc.Cfg.NS)
			lastCfg = sc.Cfg
		}
		rows := w.Rows(sc.Tuples)
		q := w.Internal(sc.Query)
		base := w.RunCheck(rows, q, vsched.Config{FastBase: true}, RunOpt{})
		if base.X.Outcome != "ok" || base.Res.Err != nil {
			continue
		}
		cov.reorderScen++
		{
			for pos := 1; pos <= base.Calls; pos++ {
				plan := memstore.FaultPlan{At: pos, Err: memstore.ErrInjected}
				e := &vsched.Explore{Bound: 1, Deadline: deadline}
				var last CheckOut
				e.Run(func(vc vsched.Config) *vsched.Execution {
					last = w.RunCheck(rows, q, vc, RunOpt{Fault: plan})
					return last.X
				}, func(x *vsched.Execution) bool {
					cov.schedRuns++
					// without the fault, same choices
					ff := w.RunCheck(rows, q, vsched.Config{Prefix: x.Choices}, RunOpt{})
					if ff.X.Outcome == "diverged" || ff.Res.Err != nil {
						return true // the fault-free run takes other branches; compare against base instead
					}
					judgeFault(sc, ff, last, plan, "1 deviation", x.Choices)
					return true
				})
				if !e.Complete {
					reorderComplete = false
				}
			}
		}
	}
	if shard == 0 {
		run.Sample(map[string]any{"scenario": scns[5].Replay(), "faults": "k-th storage call fails, k = 1..N, x {transient, persistent} x {generic, deadline exceeded, cancelled}"})
	}

	// batch check: an entry whose check hits the fault never says allowed together with an error
	if shard == 0 {
		cfg := mkCfgRefless(&Expr{Op: "and", Kids: []*Expr{{Op: "leaf", Leaf: LIncA}, {Op: "not", Kids: []*Expr{{Op: "leaf", Leaf: LIncB}}}}})
		w.SetNamespaces(t, cfg.NS)
		ts := []refsem.Tuple{tid("o1", "a", "u"), tid("o2", "a", "u"), tid("o2", "b", "u")}
		api := func(o string) *ketoapi.RelationTuple {
			u := "u"
			return &ketoapi.RelationTuple{Namespace: "n", Object: o, Relation: "p", SubjectID: &u}
		}
		batch := []*ketoapi.RelationTuple{api("o1"), api("o2"), api("o3")}
		for pos := 1; pos <= 12; pos++ {
			for _, pers := range []bool{false, true} {
				w.Store.Reset(w.Rows(ts))
				w.Store.Fault = memstore.FaultPlan{At: pos, Persistent: pers}
				var res []checkgroup.Result
				var err error
				x := vsched.Run(vsched.Config{FastBase: true}, func() {
					ctx, cancel := vsched.WithCancel(context.Background())
					res, err = w.Eng.BatchCheck(ctx, batch, 0)
					cancel()
				})
				cov.batchRuns++
				if x.Outcome != "ok" {
					run.Violation("abnormal:"+x.Outcome, fmt.Sprintf("batch check execution %s with failing call %d", x.Outcome, pos), nil)
					continue
				}
				if err != nil {
					continue
				}
				for bi, r := range res {
					if r.Err != nil && r.Membership == checkgroup.IsMember {
						run.Violation("error-and-allowed", fmt.Sprintf("batch entry %d carries an error and says allowed (failing call %d, persistent=%v)", bi, pos, pers), map[string]any{"fail_call": pos, "persistent": pers, "entry": bi})
					}
					if r.Err == nil && r.Membership == checkgroup.IsMember && bi != 0 {
						run.Violation("fault-flips-to-allowed", fmt.Sprintf("batch entry %d is allowed although denied on the fault-free store (failing call %d)", bi, pos), map[string]any{"fail_call": pos, "persistent": pers, "entry": bi})
					}
				}
			}
		}
	}
	_ = errors.New
	run.FinishPart(map[string]any{
		"evaluations":                 cov.triples + cov.schedRuns + cov.batchRuns + cov.sqlTriples,
		"sql_statement_fault_triples": cov.sqlTriples,
		"sql_scenarios":               cov.sqlScen,
		"distinct_nontrivial":         cov.changed,
		"rule":                        "for every scenario (all permission expressions with <=2 leaves x 7 tuple graphs) the fault-free run issues N storage calls; every (k in 1..N) x {transient, persistent} x {generic, deadline-exceeded} is injected under the base schedule, and the transient fault additionally under every schedule with one deviation for a third of the scenarios as far as the time cap allows (all when thorough); non-trivial = the fault was actually hit and changed the outcome (error or different answer)",
		"fault_triples":               cov.triples,
		"faults_hit":                  cov.hit,
		"faults_changing_outcome":     cov.changed,
		"scenarios":                   cov.scenarios,
		"reordered_fault_runs":        cov.schedRuns,
		"batch_runs":                  cov.batchRuns,
		"exhaustive":                  cov.complete,
		"reorder_scenarios":           cov.reorderScen,
		"reorder_pass_complete":       reorderComplete,
	})
}

package sched

import (
	"fmt"
	"strings"

	"github.com/ory/keto/internal/namespace"
	"github.com/ory/keto/internal/namespace/ast"
	"github.com/ory/keto/verif/refsem"
)

// ---------------------------------------------------------------- expressions

// An expression over leaf kinds; index <-> expression is a bijection within E(k).
type Expr struct {
	Op   string // "leaf" | "not" | "or" | "and"
	Leaf int
	Kids []*Expr
}

// leaf kinds of the catalogue (namespace "n": plain relations a, b; permission p = the expression; permission q = includes b)
const (
	LIncA   = iota // this.related.a.includes(ctx.subject)
	LIncB          // this.related.b.includes(ctx.subject)
	LTrvAP         // this.related.a.traverse(x => x.permits.p(ctx))      (recursive)
	LTrvAB         // this.related.a.traverse(x => x.related.b.includes(ctx.subject))
	LPermQ         // this.permits.q(ctx)   with q = includes b
	LTrvBA         // this.related.b.traverse(x => x.related.a.includes(ctx.subject))
	LPermP         // this.permits.p(ctx)   (the permission refers to itself)
	NLeaf
)

var leafName = []string{"inc(a)", "inc(b)", "trv(a>p)", "trv(a>b)", "permits(q)", "trv(b>a)", "permits(p)"}

func (e *Expr) String() string {
	switch e.Op {
	case "leaf":
		return leafName[e.Leaf]
	case "not":
		return "!" + e.Kids[0].String()
	}
	s := make([]string, len(e.Kids))
	for i, k := range e.Kids {
		s[i] = k.String()
	}
	op := " || "
	if e.Op == "and" {
		op = " && "
	}
	return "(" + strings.Join(s, op) + ")"
}

func (e *Expr) leaves() int {
	if e.Op == "leaf" {
		return 1
	}
	n := 0
	for _, k := range e.Kids {
		n += k.leaves()
	}
	return n
}

func (e *Expr) hasNot() bool {
	if e.Op == "not" {
		return true
	}
	for _, k := range e.Kids {
		if k.hasNot() {
			return true
		}
	}
	return false
}

func (e *Expr) usesTraverse() bool {
	return e.usesLeaf(LTrvAP) || e.usesLeaf(LTrvAB) || e.usesLeaf(LTrvBA)
}

func (e *Expr) usesLeaf(l int) bool {
	if e.Op == "leaf" {
		return e.Leaf == l
	}
	for _, k := range e.Kids {
		if k.usesLeaf(l) {
			return true
		}
	}
	return false
}

// recursion through not: trv(a>p) below a `not`
func (e *Expr) recNeg(neg bool) bool {
	switch e.Op {
	case "leaf":
		return neg && (e.Leaf == LTrvAP || e.Leaf == LPermP)
	case "not":
		return e.Kids[0].recNeg(true)
	}
	for _, k := range e.Kids {
		if k.recNeg(neg) {
			return true
		}
	}
	return false
}

// exprs enumerates all expressions with exactly n leaves over the given leaf kinds.
func exprs(n int, leaves []int, memo map[int][]*Expr) []*Expr {
	if r, ok := memo[n]; ok {
		return r
	}
	var out []*Expr
	if n == 1 {
		for _, l := range leaves {
			lf := &Expr{Op: "leaf", Leaf: l}
			out = append(out, lf, &Expr{Op: "not", Kids: []*Expr{lf}})
		}
	} else {
		for i := 1; i < n; i++ {
			for _, l := range exprs(i, leaves, memo) {
				for _, r := range exprs(n-i, leaves, memo) {
					for _, op := range []string{"or", "and"} {
						b := &Expr{Op: op, Kids: []*Expr{l, r}}
						out = append(out, b, &Expr{Op: "not", Kids: []*Expr{b}})
					}
				}
			}
		}
	}
	memo[n] = out
	return out
}

func (e *Expr) child() ast.Child {
	switch e.Op {
	case "leaf":
		switch e.Leaf {
		case LIncA:
			return &ast.ComputedSubjectSet{Relation: "a"}
		case LIncB:
			return &ast.ComputedSubjectSet{Relation: "b"}
		case LTrvAP:
			return &ast.TupleToSubjectSet{Relation: "a", ComputedSubjectSetRelation: "p"}
		case LTrvAB:
			return &ast.TupleToSubjectSet{Relation: "a", ComputedSubjectSetRelation: "b"}
		case LPermQ:
			return &ast.ComputedSubjectSet{Relation: "q"}
		case LTrvBA:
			return &ast.TupleToSubjectSet{Relation: "b", ComputedSubjectSetRelation: "a"}
		case LPermP:
			return &ast.ComputedSubjectSet{Relation: "p"}
		}
	case "not":
		return &ast.InvertResult{Child: e.Kids[0].child()}
	case "or", "and":
		op := ast.OperatorOr
		if e.Op == "and" {
			op = ast.OperatorAnd
		}
		r := &ast.SubjectSetRewrite{Operation: op}
		for _, k := range e.Kids {
			r.Children = append(r.Children, k.child())
		}
		return r
	}
	panic("bad expr")
}

func (e *Expr) rewrite() *ast.SubjectSetRewrite {
	c := e.child()
	if r, ok := c.(*ast.SubjectSetRewrite); ok {
		return r
	}
	return &ast.SubjectSetRewrite{Operation: ast.OperatorOr, Children: ast.Children{c}}
}

// CfgRef names a configuration of the catalogue so that it can be written to a
// replay file and rebuilt in another process: expression #Idx among those with
// exactly N leaves over Leaves, plus typing and mode.
type CfgRef struct {
	Leaves []int
	N, Idx int
	Typed  int
	Strict bool
}

var exprMemo = map[string]map[int][]*Expr{}

func (r CfgRef) Resolve() *CfgSpec {
	k := fmt.Sprint(r.Leaves)
	if exprMemo[k] == nil {
		exprMemo[k] = map[int][]*Expr{}
	}
	c := mkCfg(exprs(r.N, r.Leaves, exprMemo[k])[r.Idx], r.Typed, r.Strict)
	c.Ref = r
	return c
}

// CfgSpec is one configuration of the catalogue.
type CfgSpec struct {
	Ref    CfgRef
	Name   string
	Expr   *Expr
	Typed  int // 0: untyped literal AST; 1: a has a SubjectSet<> type; 2: a has no SubjectSet<> type
	Strict bool
	NS     []*namespace.Namespace
	TupleRels []string // relations tuples may use
}

// mkCfg builds namespace "n" {a, b, p = expr, q = includes b}. typed selects the
// declared types (only relevant in strict mode / for OPL rendering).
func mkCfg(e *Expr, typed int, strict bool) *CfgSpec {
	a := ast.Relation{Name: "a"}
	b := ast.Relation{Name: "b"}
	trvA := e.usesLeaf(LTrvAP) || e.usesLeaf(LTrvAB)
	trvB := e.usesLeaf(LTrvBA)
	needC := false
	switch typed {
	case 1:
		if trvA {
			// every type of a traverse source must resolve to namespaces that declare the target
			// relation: SubjectSet<n,"c"> with c: n[] does (and is not self-referential)
			a.Types = []ast.RelationType{{Namespace: "n"}, {Namespace: "n", Relation: "c"}}
			needC = true
		} else {
			a.Types = []ast.RelationType{{Namespace: "User"}, {Namespace: "n", Relation: "b"}}
		}
		if trvB {
			b.Types = []ast.RelationType{{Namespace: "n"}}
		} else {
			b.Types = []ast.RelationType{{Namespace: "User"}}
		}
	case 2:
		if trvA {
			a.Types = []ast.RelationType{{Namespace: "n"}}
		} else {
			a.Types = []ast.RelationType{{Namespace: "User"}}
		}
		if trvB {
			b.Types = []ast.RelationType{{Namespace: "n"}}
		} else {
			b.Types = []ast.RelationType{{Namespace: "User"}, {Namespace: "n", Relation: "a"}}
		}
	}
	rels := []ast.Relation{a, b}
	if needC {
		rels = append(rels, ast.Relation{Name: "c", Types: []ast.RelationType{{Namespace: "n"}}})
	}
	rels = append(rels, ast.Relation{Name: "p", SubjectSetRewrite: e.rewrite()})
	if e.usesLeaf(LPermQ) {
		rels = append(rels, ast.Relation{Name: "q", SubjectSetRewrite: &ast.SubjectSetRewrite{Operation: ast.OperatorOr, Children: ast.Children{&ast.ComputedSubjectSet{Relation: "b"}}}})
	}
	c := &CfgSpec{Name: fmt.Sprintf("p=%s typed=%d strict=%v", e, typed, strict), Expr: e, Typed: typed, Strict: strict,
		NS: []*namespace.Namespace{{Name: "n", Relations: rels}}, TupleRels: []string{"a", "b"}}
	if typed != 0 {
		c.NS = append(c.NS, &namespace.Namespace{Name: "User"})
	}
	return c
}

// ---------------------------------------------------------------- tuples

func tid(obj, rel, id string) refsem.Tuple { return refsem.Tuple{NS: "n", Obj: obj, Rel: rel, ID: id} }
func tss(obj, rel, sobj, srel string) refsem.Tuple {
	return refsem.Tuple{NS: "n", Obj: obj, Rel: rel, Set: &refsem.SS{NS: "n", Obj: sobj, Rel: srel}}
}

// universe of tuples over objs x rels x subjects {u, sets objs#srels}
func universe(objs, rels, srels []string, users []string) []refsem.Tuple {
	var u []refsem.Tuple
	for _, o := range objs {
		for _, r := range rels {
			for _, us := range users {
				u = append(u, tid(o, r, us))
			}
			for _, so := range objs {
				for _, sr := range srels {
					u = append(u, tss(o, r, so, sr))
				}
			}
		}
	}
	return u
}

// combos calls f with every combination of k indices out of n (ascending).
func combos(n, k int, f func(ix []int) bool) {
	ix := make([]int, k)
	var rec func(start, d int) bool
	rec = func(start, d int) bool {
		if d == k {
			return f(ix)
		}
		for i := start; i < n; i++ {
			ix[d] = i
			if !rec(i+1, d+1) {
				return false
			}
		}
		return true
	}
	rec(0, 0)
}

// permutations of n elements (Heap's algorithm, deterministic order)
func perms(n int) [][]int {
	a := make([]int, n)
	for i := range a {
		a[i] = i
	}
	var out [][]int
	var rec func(k int)
	rec = func(k int) {
		if k == 1 {
			out = append(out, append([]int(nil), a...))
			return
		}
		for i := 0; i < k; i++ {
			rec(k - 1)
			if k%2 == 0 {
				a[i], a[k-1] = a[k-1], a[i]
			} else {
				a[0], a[k-1] = a[k-1], a[0]
			}
		}
	}
	if n == 0 {
		return [][]int{{}}
	}
	rec(n)
	return out
}

func tuplesStr(ts []refsem.Tuple) string {
	s := make([]string, len(ts))
	for i, t := range ts {
		s[i] = t.String()
	}
	return strings.Join(s, ", ")
}

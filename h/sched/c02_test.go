package sched

import (
	"context"
	"fmt"
	"testing"

	"github.com/ory/keto/internal/driver/config"

	"github.com/ory/keto/internal/check/checkgroup"
	"github.com/ory/keto/verif/ev"
	"github.com/ory/keto/verif/refsem"
	"github.com/ory/keto/verif/vsched"
)

// TestC02: depth and width limits fail closed; a request depth can only lower the global limit.
func TestC02(t *testing.T) {
	run := ev.New("C02", "exploration")
	shard, nshards, child := ev.Shard()
	if !child {
		cov := run.RunShards("TestC02", ev.Workers())
		run.Assume("'cut' is observed through the engine's own max-depth / max-width log lines",
			"reference = unbounded semantics of h/refsem; inputs with recursion through `not` are outside the domain",
			"engine instrumented and run under the deterministic base schedule, so Check_{r,g,w} is a function of the input")
		run.Finish(cov)
		return
	}
	deadline := ev.Deadline(200, 1500)
	maxG := 6
	leaves := []int{LIncA, LIncB, LTrvAP}
	if ev.Thorough() {
		leaves = []int{LIncA, LIncB, LTrvAP, LTrvAB, LPermQ}
	}
	cfgs := cfgCatalogue(2, leaves, 0, false)
	nBase := len(cfgs)
	// nested family: op1(x, op2(y, z)) and op1(op2(x, y), z) - a nested rewrite operand is charged one
	// more level of depth than its siblings, so it can be cut while they are not
	{
		nl := []int{LIncA, LIncB, LPermQ}
		lf := func(l int) *Expr { return &Expr{Op: "leaf", Leaf: l} }
		for _, op1 := range []string{"and", "or"} {
			for _, op2 := range []string{"and", "or"} {
				for _, x := range nl {
					for _, y := range nl {
						for _, z := range nl {
							in := &Expr{Op: op2, Kids: []*Expr{lf(y), lf(z)}}
							cfgs = append(cfgs, mkCfgRefless(&Expr{Op: op1, Kids: []*Expr{lf(x), in}}), mkCfgRefless(&Expr{Op: op1, Kids: []*Expr{in, lf(x)}}))
						}
					}
				}
			}
		}
	}
	worlds := map[[2]int]*World{}
	world := func(g, wd int) *World {
		k := [2]int{g, wd}
		if worlds[k] == nil {
			worlds[k] = NewWorld(t, WorldOpt{Namespaces: cfgs[0].NS, Depth: g, Width: wd})
		}
		return worlds[k]
	}
	var cov struct {
		evals, reconf, tooLarge, cutCases, failClosedChecked, equivChecked, widthEvals, widthCut int
		complete                                                             bool
	}
	cov.complete = true
	distinct := map[string]bool{}
	var cands []*Cand

	univ := universe([]string{"o1", "o2"}, []string{"a", "b"}, []string{"a", "b", "p", ""}, []string{"u"})
	var sets [][]refsem.Tuple
	enumTupleSets(univ, 2, func(ord int, ts []refsem.Tuple) { sets = append(sets, ts) })
	nSmall := len(sets)
	gs := graphs()
	for _, g := range graphOrder {
		sets = append(sets, gs[g])
	}
	// a 5-hop chain and a chain that ends in a permission: deep enough for every global depth used here
	sets = append(sets,
		[]refsem.Tuple{tss("o1", "a", "o2", "a"), tss("o2", "a", "o3", "a"), tss("o3", "a", "o4", "a"), tss("o4", "a", "o5", "a"), tid("o5", "a", "u")},
		[]refsem.Tuple{tss("o1", "b", "o2", "b"), tss("o2", "b", "o3", "p"), tss("o3", "a", "o4", "a"), tid("o4", "a", "u"), tid("o3", "b", "u")},
		[]refsem.Tuple{tss("o1", "a", "o2", ""), tss("o2", "a", "o3", ""), tss("o3", "a", "o4", ""), tid("o4", "b", "u"), tid("o4", "a", "u")},
	)
	queries := []refsem.Tuple{tid("o1", "p", "u"), tid("o1", "a", "u")}

	type cell struct {
		m   checkgroup.Membership
		err bool
		cut bool
	}
	n := 0
	for ci, cfg := range cfgs {
		if deadlinePassed(deadline) {
			cov.complete = false
			break
		}
		for g := 1; g <= maxG; g++ {
			world(g, 100).SetNamespaces(t, cfg.NS)
		}
		w0 := world(1, 100)
		for si, ts := range sets {
			if ci >= nBase && len(ts) > 1 && si < nSmall {
				continue // nested family: all sets of <=1 tuple plus the named graphs and chains
			}
			n++
			if n%nshards != shard {
				continue
			}
			for _, q := range queries {
				ref := refsem.Check(w0.Cfg, ts, q)
				if ref.Untouched > 0 || !ref.InDomain || ref.SchemaError {
					continue
				}
				// table[g][r+1] for r in -1..g+2
				table := map[[2]int]cell{}
				for g := 1; g <= maxG; g++ {
					w := world(g, 100)
					rows := w.Rows(ts)
					iq := w.Internal(q)
					for r := -1; r <= g+2; r++ {
						o := w.RunCheck(rows, iq, vsched.Config{FastBase: true}, RunOpt{ReqDepth: r})
						cov.evals++
						if o.X.Outcome == "horizon" {
							cov.tooLarge++ // recursive traverse with fan-out at depth 6: bounded but beyond the step horizon; not judged here (termination is C15)
							continue
						}
						if o.X.Outcome != "ok" {
							run.Violation("abnormal:"+o.X.Outcome, fmt.Sprintf("abnormal execution %s at g=%d r=%d on {%s | %s | %s}", o.X.Outcome, g, r, cfg.Name, tuplesStr(ts), q), nil)
							continue
						}
						c := cell{o.Res.Membership, o.Res.Err != nil, o.Cut}
						table[[2]int{g, r}] = c
						if o.Cut {
							cov.cutCases++
							k := fmt.Sprintf("%d|%d|%s", ci, si, q)
							if !distinct[k] {
								distinct[k] = true
							}
						}
						// (a) fail closed
						cov.failClosedChecked++
						if c.m == checkgroup.IsMember && !ref.Allowed && ci >= nBase {
							sig := "fail-open"
							if cfg.Expr.hasNot() && o.Cut {
								sig = "fail-open:cut-below-not"
							}
							run.Violation(sig, fmt.Sprintf("allowed with global depth %d, request depth %d (cut=%v) but the unbounded semantics deny: {%s | %s | q=%s}", g, r, o.Cut, cfg.Name, tuplesStr(ts), q),
								map[string]any{"opl": refsem.RenderOPL(cfg.NS), "tuples_in_row_order": tuplesStr(ts), "query": q.String(), "global": g, "request": r})
						} else if c.m == checkgroup.IsMember && !ref.Allowed && len(cands) < 200 {
							sig := "fail-open"
							if cfg.Expr.hasNot() && o.Cut {
								sig = "fail-open:cut-below-not"
							}
							cands = append(cands, &Cand{Cfg: cfg.Ref, Tuples: ts, Query: q, Depth: g, Width: 100, ReqDepth: r, Oracle: "fail-closed", Sig: sig,
								What: fmt.Sprintf("allowed with global depth %d, request depth %d (cut=%v) but the unbounded semantics deny: {%s | %s | q=%s}", g, r, o.Cut, cfg.Name, tuplesStr(ts), q)})
						}
					}
				}
				// (b) request depth only lowers: Check_{r,g} == Check_{0,eff(r,g)}
				for g := 1; g <= maxG; g++ {
					for r := -1; r <= g+2; r++ {
						eff := r
						if r <= 0 || r > g {
							eff = g
						}
						a, ok1 := table[[2]int{g, r}]
						b, ok2 := table[[2]int{eff, 0}]
						if !ok1 || !ok2 {
							continue
						}
						cov.equivChecked++
						if a.m != b.m || a.err != b.err {
							run.Violation("request-depth-not-equivalent-to-global", fmt.Sprintf("Check with global depth %d and request depth %d answers %v(err=%v), a server with global depth %d answers %v(err=%v): {%s | %s | q=%s}",
								g, r, a.m, a.err, eff, b.m, b.err, cfg.Name, tuplesStr(ts), q),
								map[string]any{"cfgref": cfg.Ref, "opl": refsem.RenderOPL(cfg.NS), "tuples_in_row_order": tuplesStr(ts), "query": q.String(), "global": g, "request": r, "effective": eff})
						}
					}
				}
			}
		}
	}
	if shard == 0 {
		run.Sample(map[string]any{"family": "depth", "config": cfgs[len(cfgs)/3].Name, "tuples": tuplesStr(sets[len(sets)-3]), "query": queries[0].String(), "grid": "global depth 1..6 x request depth -1..g+2"})
	}

	// reconfiguration: the limits are read from the live configuration, so lowering or raising
	// limit.max_read_depth at run time on ONE long-lived engine must behave like a server started
	// with the new value (start from non-initial states: serve a check, change the limit, check again)
	if shard == 0 {
		rw := NewWorld(t, WorldOpt{Namespaces: cfgs[0].NS, Depth: 3})
		chain := sets[len(sets)-3]
		for _, e := range []*Expr{{Op: "leaf", Leaf: LIncA}, {Op: "not", Kids: []*Expr{{Op: "leaf", Leaf: LIncA}}}, {Op: "or", Kids: []*Expr{{Op: "leaf", Leaf: LIncB}, {Op: "leaf", Leaf: LTrvAP}}}} {
			cfg := mkCfgRefless(e)
			rw.SetNamespaces(t, cfg.NS)
			for g := 1; g <= 4; g++ {
				world(g, 100).SetNamespaces(t, cfg.NS)
			}
			for _, ts := range [][]refsem.Tuple{chain, gs["chain"], gs["parents"]} {
				for _, q := range queries {
					for g1 := 1; g1 <= 4; g1++ {
						for g2 := 1; g2 <= 4; g2++ {
							if g1 == g2 {
								continue
							}
							setDepth := func(g int) {
								if err := rw.Reg.Config(context.Background()).Set(config.KeyLimitMaxReadDepth, g); err != nil {
									t.Fatalf("INFRA: set depth: %v", err)
								}
							}
							setDepth(g1)
							rw.RunCheck(rw.Rows(ts), rw.Internal(q), vsched.Config{FastBase: true}, RunOpt{}) // served under the old limit
							setDepth(g2)
							fresh := world(g2, 100)
							for r := -1; r <= g2+2; r++ {
								a := rw.RunCheck(rw.Rows(ts), rw.Internal(q), vsched.Config{FastBase: true}, RunOpt{ReqDepth: r})
								b := fresh.RunCheck(fresh.Rows(ts), fresh.Internal(q), vsched.Config{FastBase: true}, RunOpt{ReqDepth: r})
								cov.reconf++
								if a.X.Outcome == "ok" && b.X.Outcome == "ok" && (a.Res.Membership != b.Res.Membership || (a.Res.Err != nil) != (b.Res.Err != nil)) {
									run.Violation("reconfigured-limit-not-effective", fmt.Sprintf("after limit.max_read_depth was changed from %d to %d at run time, request depth %d answers %s; a server started with depth %d answers %s: {%s | %s | q=%s}",
										g1, g2, r, memb(a.Res), g2, memb(b.Res), cfg.Name, tuplesStr(ts), q),
										map[string]any{"opl": refsem.RenderOPL(cfg.NS), "tuples_in_row_order": tuplesStr(ts), "query": q.String(), "old_global": g1, "new_global": g2, "request": r})
								}
							}
						}
					}
				}
			}
		}
	}

	// width: fan-out f around the width limit w; the member sits behind the first / the last child
	wcfgs := []*CfgSpec{}
	for _, e := range []*Expr{
		{Op: "leaf", Leaf: LIncA},
		{Op: "not", Kids: []*Expr{{Op: "leaf", Leaf: LIncA}}},
		{Op: "and", Kids: []*Expr{{Op: "leaf", Leaf: LIncA}, {Op: "not", Kids: []*Expr{{Op: "leaf", Leaf: LIncB}}}}},
		{Op: "or", Kids: []*Expr{{Op: "leaf", Leaf: LIncB}, {Op: "leaf", Leaf: LTrvAB}}},
	} {
		wcfgs = append(wcfgs, mkCfgRefless(e))
	}
	for wi, wd := range []int{1, 2, 3, 4} {
		if wi%nshards != shard%4 || shard >= 4 {
			continue
		}
		w := world(6, wd)
		for _, cfg := range wcfgs {
			w.SetNamespaces(t, cfg.NS)
			for f := wd - 1; f <= wd+2; f++ {
				if f < 1 {
					continue
				}
				for member := -1; member < f; member++ { // -1: no member
					for _, viaRel := range []string{"a", "b"} {
						var ts []refsem.Tuple
						for i := 0; i < f; i++ {
							ts = append(ts, tss("o1", viaRel, fmt.Sprintf("c%d", i), "a"))
						}
						if member >= 0 {
							ts = append(ts, tss(fmt.Sprintf("c%d", member), "a", "d", "a"), tid("d", "a", "u"))
						}
						for _, q := range []refsem.Tuple{tid("o1", "p", "u"), tid("o1", viaRel, "u")} {
							ref := refsem.Check(w.Cfg, ts, q)
							if !ref.InDomain || ref.SchemaError {
								continue
							}
							o := w.RunCheck(w.Rows(ts), w.Internal(q), vsched.Config{FastBase: true}, RunOpt{})
							cov.widthEvals++
							if o.Cut {
								cov.widthCut++
							}
							if o.Res.Membership == checkgroup.IsMember && !ref.Allowed {
								sig := "fail-open:width"
								if cfg.Expr.hasNot() && o.Cut {
									sig = "fail-open:cut-below-not"
								}
								run.Violation(sig, fmt.Sprintf("allowed with width %d, fan-out %d (cut=%v) but the unbounded semantics deny: {%s | %s | q=%s}", wd, f, o.Cut, cfg.Name, tuplesStr(ts), q),
									map[string]any{"opl": refsem.RenderOPL(cfg.NS), "tuples_in_row_order": tuplesStr(ts), "query": q.String(), "width": wd})
							}
						}
					}
				}
			}
		}
	}
	attribute(run, "C02", cands)
	run.FinishPart(map[string]any{
		"evaluations":          cov.evals + cov.widthEvals,
		"distinct_nontrivial":  len(distinct) + cov.widthCut,
		"rule":                 "configs (<=2 leaves incl. `not`) x tuple sets (all sets of <=2 tuples + named graphs + 5-hop chains) x global depth 1..6 x request depth -1..g+2, plus fan-out w-1..w+2 around width w in 1..4; a case is non-trivial when the engine logged a depth/width cut for it (distinct (config, tuples, query) counted once)",
		"evaluations_cut":      cov.cutCases + cov.widthCut,
		"fail_closed_checked":  cov.failClosedChecked + cov.widthEvals,
		"request_vs_global_equivalences_checked": cov.equivChecked,
		"width_evaluations":    cov.widthEvals,
		"reconfiguration_evaluations": cov.reconf,
		"skipped_beyond_step_horizon": cov.tooLarge,
		"max_global_depth":     maxG,
		"max_configs":          len(cfgs),
		"exhaustive":           cov.complete,
	})
}

func mkCfgRefless(e *Expr) *CfgSpec { return mkCfg(e, 0, false) }

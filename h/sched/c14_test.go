package sched

import (
	"context"
	"encoding/json"
	"fmt"
	"os"
	"os/exec"
	"path/filepath"
	"regexp"
	"sort"
	"strings"
	"testing"
	"time"

	"github.com/ory/keto/internal/expand"
	"github.com/ory/keto/internal/relationtuple"
	"github.com/ory/keto/internal/x"
	"github.com/ory/keto/ketoapi"
	"github.com/ory/keto/verif/ev"
	"github.com/ory/keto/verif/refsem"
	"github.com/ory/keto/verif/vsched"
)

func treeStr(t *relationtuple.Tree) string {
	if t == nil {
		return "nil"
	}
	s := string(t.Type) + ":" + t.Subject.String()
	if len(t.Children) > 0 {
		cs := make([]string, len(t.Children))
		for i, c := range t.Children {
			cs[i] = treeStr(c)
		}
		s += "[" + strings.Join(cs, ",") + "]"
	}
	return s
}

// c14Alone: the answers one request gives when it runs alone, over all schedules to the bound.
type c14Alone struct {
	Complete bool
	Outcomes map[string]bool
}

type c14req struct {
	name string
	run  func(ctx context.Context) string
}

// TestC14: concurrent requests do not interfere with each other.
func TestC14(t *testing.T) {
	run := ev.New("C14", "model_checking")
	shard, nshards, child := ev.Shard()
	if !child {
		// passes 1 and 2 (see schedPasses) at deviation bound 1 - complete within the time cap, so every pair is
		// judged against complete alone sets - and, in the thorough tier, once more at bound 2 as far as the cap
		// allows (answers outside an INCOMPLETE alone set are not judged there)
		cov := c14SchedPasses(run, 1)
		cov["bound_1_exhaustive"] = cov["exhaustive"]
		if ev.Thorough() {
			cov2 := c14SchedPasses(run, 2)
			for k, v := range cov2 {
				switch k {
				case "exhaustive":
					cov["bound_2_exhaustive"] = v
					if ok, _ := v.(bool); !ok {
						cov["exhaustive"] = false
					}
				case "alone_outcome_sets_complete":
					cov["bound_2_alone_outcome_sets_complete"] = v
				case "max_deviation_bound":
					cov[k] = v
				default:
					a, aok := cov[k].(int)
					b, bok := v.(int)
					if aok && bok {
						cov[k] = a + b
					} else if _, have := cov[k]; !have {
						cov[k] = v
					}
				}
			}
		}
		// pass 3: the same property on the real REST / gRPC handlers over sqlite - pairs of read requests of one
		// network overlapping at every SQL statement boundary (h/api TestC14API, a child process)
		if bin := os.Getenv("VERIF_API_BIN"); bin != "" {
			covAPI := run.RunShardsBin(bin, filepath.Join(os.Getenv("VERIF_DIR"), "h", "api"), "TestC14API", 1)
			for k, v := range covAPI {
				cov[k] = v
			}
			if ok, _ := covAPI["api_pairs_exhaustive"].(bool); !ok {
				cov["exhaustive"] = false
			}
		} else {
			fmt.Println("INFRA-ERROR C14: API binary missing")
			os.Exit(2)
		}
		racePass(run, cov)
		run.Assume("schedule exploration: visible-operation granularity, sequentially consistent; storage calls of the in-memory store are scheduling points",
			"a request's reference outcome set is what the same request produces ALONE over all schedules to the same bound (so schedule dependence of a single check, finding KF-C01-1, is not blamed on interference)",
			"data races are invisible to a cooperative scheduler: the separate free-running -race pass (sqlite registry, REST and gRPC, mixed with writes) is a required, NON-exhaustive complement")
		run.Finish(cov)
		return
	}
	phase := os.Getenv("VERIF_C14_PHASE")
	deadline := ev.Deadline(250, 1100)
	if phase == "alone" {
		deadline = ev.Deadline(100, 600)
	}
	aloneOut := map[string]*c14Alone{}
	aloneIn := map[string]*c14Alone{}
	if phase == "pairs" {
		b, err := os.ReadFile(os.Getenv("VERIF_C14_ALONE") + ".json")
		if err != nil || json.Unmarshal(b, &aloneIn) != nil {
			fatalInfra("C14: alone sets unreadable: %v", err)
		}
	}
	bound := 1
	if os.Getenv("VERIF_C14_BOUND") == "2" {
		bound = 2
	} else if os.Getenv("VERIF_BUDGET_S") == "" {
		// the bound-1 passes run under the quick tier's caps in both tiers
		deadline = time.Now().Add(250 * time.Second)
		if phase == "alone" {
			deadline = time.Now().Add(100 * time.Second)
		}
	}
	// operand orders chosen so that no "cheaper first" reordering of the shared AST is a no-op
	andNot := &Expr{Op: "and", Kids: []*Expr{{Op: "not", Kids: []*Expr{{Op: "leaf", Leaf: LIncB}}}, {Op: "leaf", Leaf: LIncA}}}
	orTrv := &Expr{Op: "or", Kids: []*Expr{{Op: "leaf", Leaf: LTrvAP}, {Op: "leaf", Leaf: LIncB}}}
	var cov struct {
		pairs, cancelPairs, execs, trans, states, aloneExecs, skipped, divergences int
		complete                                                                   bool
	}
	cov.complete = true
	n := 0
	for _, e := range []*Expr{andNot, orTrv} {
		cfg := mkCfgRefless(e)
		w := NewWorld(t, WorldOpt{Namespaces: cfg.NS, Depth: 6})
		ts := []refsem.Tuple{
			// o1 -> g1 -> g2 -> g3 -> u and o2 -> g2: nested expansions put g2 / g3 into the visited set
			tss("o1", "a", "g1", "a"), tss("o2", "a", "g2", "a"), tss("g1", "a", "g2", "a"), tss("g2", "a", "g3", "a"), tid("g3", "a", "u"),
			tss("g3", "a", "g1", "a"),                      // cycle
			tid("o1", "b", "v"), tss("o3", "a", "o3", "a"), // decoy, self loop
			// a diamond: d -> d1 -> s, d -> d2 -> s (the shared node is reachable through two SIBLINGS)
			tss("d", "a", "d1", "a"), tss("d", "a", "d2", "a"), tss("d1", "a", "s", "a"), tss("d2", "a", "s", "a"), tid("s", "a", "w"),
		}
		rows := w.Rows(ts)
		exp := expand.NewEngine(&deps{RegistryDefault: w.Reg, ms: w.Store, names: w.Names})
		want := map[string]string{} // request name -> the reference answer (checks on plain relations only)
		chk := func(q refsem.Tuple) c14req {
			iq := w.Internal(q)
			name := "check " + q.String()
			if q.Rel != "p" {
				if ref := refsem.Check(w.Cfg, ts, q); ref.InDomain {
					want[name] = "denied"
					if ref.Allowed {
						want[name] = "allowed"
					}
				}
			}
			return c14req{name, func(ctx context.Context) string { return memb(w.Eng.CheckRelationTuple(ctx, iq, 0)) }}
		}
		u := "u"
		api := func(o string) *ketoapi.RelationTuple {
			return &ketoapi.RelationTuple{Namespace: "n", Object: o, Relation: "p", SubjectID: &u}
		}
		reqs := []c14req{
			chk(tid("o1", "a", "u")), // plain relation: the first expansion of the request consults the visited set
			chk(tid("o2", "a", "u")),
			chk(tid("o1", "p", "u")),
			chk(tid("g2", "a", "u")),
			// the same tuple as the first request under a request max-depth that cuts it short: two requests that
			// differ only in a per-request parameter must not be answered from one evaluation
			{"check n:o1#a@u max-depth=2", func(ctx context.Context) string {
				return memb(w.Eng.CheckRelationTuple(ctx, w.Internal(tid("o1", "a", "u")), 2))
			}},
			// ... and the entry point the API handlers use (CheckIsMember), unlimited and cut short
			{"ismember n:o1#a@u", func(ctx context.Context) string {
				ok, err := w.Eng.CheckIsMember(ctx, w.Internal(tid("o1", "a", "u")), 0)
				return fmt.Sprint(ok, " ", err)
			}},
			{"ismember n:o1#a@u max-depth=2", func(ctx context.Context) string {
				ok, err := w.Eng.CheckIsMember(ctx, w.Internal(tid("o1", "a", "u")), 2)
				return fmt.Sprint(ok, " ", err)
			}},
			{"batch [o1#p@u, o2#p@u]", func(ctx context.Context) string {
				res, err := w.Eng.BatchCheck(ctx, []*ketoapi.RelationTuple{api("o1"), api("o2")}, 0)
				if err != nil {
					return "err:" + err.Error()
				}
				s := ""
				for _, r := range res {
					s += memb(r) + ","
				}
				return s
			}},
			{"expand o1#a", func(ctx context.Context) string {
				tr, err := exp.BuildTree(ctx, &relationtuple.SubjectSet{Namespace: "n", Object: w.Names.ID("o1"), Relation: "a"}, 4)
				if err != nil {
					return "err:" + err.Error()
				}
				return treeStr(tr)
			}},
			{"expand d#a", func(ctx context.Context) string {
				tr, err := exp.BuildTree(ctx, &relationtuple.SubjectSet{Namespace: "n", Object: w.Names.ID("d"), Relation: "a"}, 4)
				if err != nil {
					return "err:" + err.Error()
				}
				return treeStr(tr)
			}},
		}
		cancelFirst := false // an environment thread cancels the FIRST request's context at any point
		exec := func(vc vsched.Config, rs []c14req, out []string) *vsched.Execution {
			w.Store.Reset(rows)
			w.Store.Visible = true
			return vsched.Run(vc, func() {
				var wg vsched.WaitGroup
				for i, r := range rs {
					i, r := i, r
					wg.Add(1)
					ctx, cancel := vsched.WithCancel(context.Background())
					if i == 0 && cancelFirst {
						vsched.GoEnv("canceller", func() { cancel() })
					}
					vsched.Go("request:"+r.name, func() {
						defer wg.Done()
						out[i] = r.run(ctx)
						cancel()
					})
				}
				wg.Wait()
			})
		}
		astBefore := relJSON(w.Cfg.Namespaces)
		// outcome sets of every request run alone, all schedules to the same bound
		alone := make([]map[string]bool, len(reqs))
		aloneOK := make([]bool, len(reqs))
		if phase == "alone" {
			for _, r := range reqs {
				r := r
				res := &c14Alone{Complete: true, Outcomes: map[string]bool{}}
				aloneOut[cfg.Name+"|"+r.name] = res
				out := make([]string, 1)
				ex := &vsched.Explore{Bound: bound, Deadline: deadline, Shard: shard, NShards: nshards}
				ex.Run(func(vc vsched.Config) *vsched.Execution { return exec(vc, []c14req{r}, out) },
					func(x *vsched.Execution) bool {
						if x.Outcome == "diverged" {
							cov.divergences++
							return true
						}
						if x.Outcome != "ok" {
							run.Violation("abnormal:"+x.Outcome, fmt.Sprintf("request %q alone: execution %s", r.name, x.Outcome), nil)
							return true
						}
						res.Outcomes[out[0]] = true
						return true
					})
				cov.aloneExecs += ex.Execs
				if !ex.Complete {
					cov.complete = false
					res.Complete = false
				}
				// a check on a plain relation (no rewrite involved, so none of the recorded findings apply)
				// must give the reference answer under every schedule
				if wa, ok := want[r.name]; ok {
					for got := range res.Outcomes {
						if got != wa {
							run.Violation("wrong-answer-alone:"+strings.Fields(r.name)[0], fmt.Sprintf("request %q answers %q on its own; the reference semantics say %q (config %s)", r.name, got, wa, cfg.Name), map[string]any{"config": cfg.Name, "request": r.name, "tuples_in_row_order": tuplesStr(ts)})
						}
					}
				}
			}
			continue
		}
		for i, r := range reqs {
			e := aloneIn[cfg.Name+"|"+r.name]
			if e == nil {
				fatalInfra("C14: no alone set for %s | %s", cfg.Name, r.name)
			}
			alone[i], aloneOK[i] = e.Outcomes, e.Complete
			if !e.Complete {
				// the reference set is not known to the bound: an answer outside it proves nothing
				cov.complete = false
			}
		}
		// state kept for one request must not survive it: the base-schedule answer of every request,
		// taken before anything else ran on this engine, must be what it answers after all the others ran
		firstAnswers := make([]string, len(reqs))
		for i, r := range reqs {
			out := make([]string, 1)
			exec(vsched.Config{FastBase: true}, []c14req{r}, out)
			firstAnswers[i] = out[0]
		}
		defer func(cfgName string) {
			for i, r := range reqs {
				out := make([]string, 1)
				exec(vsched.Config{FastBase: true}, []c14req{r}, out)
				if out[0] != firstAnswers[i] {
					run.Violation("state-survives-request:"+strings.Fields(r.name)[0], fmt.Sprintf("request %q answered %q when it was the first request on the engine and %q after other requests had run (config %s)", r.name, firstAnswers[i], out[0], cfgName), map[string]any{"config": cfgName, "request": r.name})
				}
			}
		}(cfg.Name)
		for i := 0; i < len(reqs); i++ {
			for j := i; j < len(reqs); j++ {
				pair := []c14req{reqs[i], reqs[j]}
				idx := []int{i, j}
				out := make([]string, 2)
				// load balancing as in C15: a pair whose base execution is long is explored by all worker
				// processes together (level-1 subtrees of the schedule tree), short ones are dealt whole
				probe := exec(vsched.Config{}, pair, out)
				eshard, enshards := 0, 1
				if probe.Steps > 150 {
					eshard, enshards = shard, nshards
				} else {
					n++
					if n%nshards != shard {
						continue
					}
				}
				if deadlinePassed(deadline) {
					cov.complete = false
					continue
				}
				if enshards == 1 || shard == 0 {
					cov.pairs++
				}
				reported := false
				ex := &vsched.Explore{Bound: bound, Count: true, Deadline: deadline, Shard: eshard, NShards: enshards}
				ex.Run(func(vc vsched.Config) *vsched.Execution { return exec(vc, pair, out) },
					func(x *vsched.Execution) bool {
						if reported {
							return true
						}
						rep := map[string]any{"config": cfg.Name, "opl": refsem.RenderOPL(cfg.NS), "tuples_in_row_order": tuplesStr(ts), "requests": []string{pair[0].name, pair[1].name}, "choices": x.Choices, "bound": bound}
						if x.Outcome == "diverged" {
							cov.divergences++
							return true
						}
						if x.Outcome != "ok" || len(x.Leaked) > 0 {
							reported = true
							run.Violation("abnormal:"+x.Outcome, fmt.Sprintf("requests %q || %q: execution %s, leaked %v", pair[0].name, pair[1].name, x.Outcome, x.Leaked), rep)
							return true
						}
						for k := 0; k < 2; k++ {
							if aloneOK[idx[k]] && !alone[idx[k]][out[k]] {
								reported = true
								var al []string
								for a := range alone[idx[k]] {
									al = append(al, a)
								}
								sort.Strings(al)
								run.Violation("interference:"+strings.Fields(pair[k].name)[0]+"-while-"+strings.Fields(pair[1-k].name)[0],
									fmt.Sprintf("request %q answered %q while %q ran concurrently; alone it answers %v (config %s)", pair[k].name, out[k], pair[1-k].name, al, cfg.Name), rep)
							}
						}
						return true
					})
				cov.execs += ex.Execs
				cov.trans += ex.Transitions
				cov.states += len(ex.States)
				if !ex.Complete {
					cov.complete = false
				}
				if cov.pairs == 1 && shard < 2 {
					run.Sample(map[string]any{"config": cfg.Name, "requests": []string{pair[0].name, pair[1].name}, "executions": ex.Execs, "bound": bound, "alone_outcomes": fmt.Sprint(alone[i], alone[j])})
				}
			}
		}

		// one request is cancelled at an arbitrary point while another runs: the other one's answer
		// must still be one it gives alone, and nothing may be left behind
		cancelFirst = true
		for i := 0; i < 3; i++ { // the cancelled request: one of the checks
			for j := 0; j < 3; j++ { // the bystander: a check
				n++
				if n%nshards != shard || deadlinePassed(deadline) {
					continue
				}
				pair := []c14req{reqs[i], reqs[j]}
				out := make([]string, 2)
				cov.cancelPairs++
				reported := false
				bo := 0
				if os.Getenv("VERIF_C14_BASEORDER") == "1" {
					bo = 1
				}
				ex := &vsched.Explore{Bound: bound, Deadline: deadline, BaseOrder: bo}
				ex.Run(func(vc vsched.Config) *vsched.Execution { return exec(vc, pair, out) },
					func(x *vsched.Execution) bool {
						if reported {
							return true
						}
						rep := map[string]any{"config": cfg.Name, "opl": refsem.RenderOPL(cfg.NS), "tuples_in_row_order": tuplesStr(ts), "requests": []string{pair[0].name + " (cancelled at some point)", pair[1].name}, "choices": x.Choices}
						if x.Outcome == "diverged" {
							cov.divergences++
							return true
						}
						if x.Outcome != "ok" || len(x.Leaked) > 0 {
							reported = true
							run.Violation("abnormal-with-cancel:"+x.Outcome, fmt.Sprintf("requests %q (cancelled) || %q: execution %s, leaked %v", pair[0].name, pair[1].name, x.Outcome, x.Leaked), rep)
						} else if aloneOK[j] && !alone[j][out[1]] {
							reported = true
							run.Violation("interference-after-cancel:"+strings.Fields(pair[1].name)[0], fmt.Sprintf("request %q answered %q while %q was cancelled concurrently; alone it answers %v (config %s)", pair[1].name, out[1], pair[0].name, alone[j], cfg.Name), rep)
						}
						return true
					})
				cov.execs += ex.Execs
				cov.trans += ex.Transitions
				if !ex.Complete {
					cov.complete = false
				}
			}
		}
		cancelFirst = false
		// ... and the same with the second request issued right AFTER the cancelled one returned (its
		// stragglers may still be running): whatever the cancelled request leaves behind must not
		// change the next request's answer
		for i := 0; i < 3; i++ {
			for j := 0; j < 3; j++ {
				n++
				if n%nshards != shard || deadlinePassed(deadline) {
					continue
				}
				a, b := reqs[i], reqs[j]
				var outB string
				cov.cancelPairs++
				reported := false
				for _, ord := range [][2]int{{0, 0}, {1, 0}, {0, 1}} {
					bo, so := ord[0], ord[1]
					ex := &vsched.Explore{Bound: bound, Deadline: deadline, BaseOrder: bo, SelectOrder: so}
					ex.Run(func(vc vsched.Config) *vsched.Execution {
						w.Store.Reset(rows)
						w.Store.Visible = true
						return vsched.Run(vc, func() {
							var wg vsched.WaitGroup
							wg.Add(1)
							ctx, cancel := vsched.WithCancel(context.Background())
							vsched.GoEnv("canceller", func() { cancel() })
							vsched.Go("request:"+a.name, func() {
								defer wg.Done()
								a.run(ctx)
								cancel()
							})
							wg.Wait()
							ctx2, cancel2 := vsched.WithCancel(context.Background())
							outB = b.run(ctx2)
							cancel2()
						})
					}, func(x *vsched.Execution) bool {
						if reported {
							return true
						}
						rep := map[string]any{"config": cfg.Name, "opl": refsem.RenderOPL(cfg.NS), "tuples_in_row_order": tuplesStr(ts), "requests": []string{a.name + " (cancelled at some point)", "then " + b.name}, "choices": x.Choices, "base_order": bo, "select_order": so}
						if x.Outcome == "diverged" {
							cov.divergences++
							return true
						}
						if x.Outcome != "ok" || len(x.Leaked) > 0 {
							reported = true
							run.Violation("abnormal-with-cancel:"+x.Outcome, fmt.Sprintf("request %q (cancelled) then %q: execution %s, leaked %v", a.name, b.name, x.Outcome, x.Leaked), rep)
						} else if aloneOK[j] && !alone[j][outB] {
							reported = true
							run.Violation("interference-after-cancel:"+strings.Fields(b.name)[0], fmt.Sprintf("request %q answered %q right after %q was cancelled; alone it answers %v (config %s)", b.name, outB, a.name, alone[j], cfg.Name), rep)
						}
						return true
					})
					cov.execs += ex.Execs
					cov.trans += ex.Transitions
					if !ex.Complete {
						cov.complete = false
					}
				}
			}
		}
		// a request whose context is cancelled BEFORE it is issued, while an identical request is in flight: it
		// must fail with the cancellation (it may not be answered from, or wait for, the other request)
		for i := 0; i < 3; i++ {
			n++
			if n%nshards != shard || deadlinePassed(deadline) {
				continue
			}
			a := reqs[i]
			var outA, outB string
			reported := false
			ex := &vsched.Explore{Bound: bound, Deadline: deadline}
			ex.Run(func(vc vsched.Config) *vsched.Execution {
				w.Store.Reset(rows)
				w.Store.Visible = true
				return vsched.Run(vc, func() {
					var wg vsched.WaitGroup
					wg.Add(2)
					ctxA, cancelA := vsched.WithCancel(context.Background())
					vsched.Go("request:"+a.name, func() {
						defer wg.Done()
						outA = a.run(ctxA)
						cancelA()
					})
					ctxB, cancelB := vsched.WithCancel(context.Background())
					cancelB()
					vsched.Go("request (context already cancelled):"+a.name, func() {
						defer wg.Done()
						outB = a.run(ctxB)
					})
					wg.Wait()
				})
			}, func(x *vsched.Execution) bool {
				if reported || x.Outcome == "diverged" {
					return true
				}
				rep := map[string]any{"config": cfg.Name, "opl": refsem.RenderOPL(cfg.NS), "tuples_in_row_order": tuplesStr(ts), "requests": []string{a.name, a.name + " (context cancelled before the call)"}, "choices": x.Choices}
				switch {
				case x.Outcome != "ok" || len(x.Leaked) > 0:
					reported = true
					run.Violation("abnormal-with-cancel:"+x.Outcome, fmt.Sprintf("request %q and its twin with an already cancelled context: execution %s, leaked %v", a.name, x.Outcome, x.Leaked), rep)
				case !strings.Contains(outB, "err"):
					reported = true
					run.Violation("cancelled-request-answered-from-another-request:"+strings.Fields(a.name)[0], fmt.Sprintf("request %q was issued with an already cancelled context while an identical request was in flight; it answered %q (no error); the other answered %q (config %s)", a.name, outB, outA, cfg.Name), rep)
				case aloneOK[i] && !alone[i][outA]:
					reported = true
					run.Violation("interference-after-cancel:"+strings.Fields(a.name)[0], fmt.Sprintf("request %q answered %q while its cancelled twin ran; alone it answers %v (config %s)", a.name, outA, alone[i], cfg.Name), rep)
				}
				return true
			})
			cov.execs += ex.Execs
			cov.trans += ex.Transitions
			cov.cancelPairs++
			if !ex.Complete {
				cov.complete = false
			}
		}
		// serving requests must not modify the shared namespace configuration
		if after := relJSON(w.Cfg.Namespaces); after != astBefore {
			run.Violation("shared-config-mutated-by-requests", fmt.Sprintf("the namespace AST served to all requests changed while requests ran (config %s): before %s after %s", cfg.Name, astBefore, after), map[string]any{"config": cfg.Name})
		}
	}
	// pagination cursors: several paginating listers share one relationtuple.ManagerWrapper (page size 1 given
	// at construction, with and without spare capacity in the option slice); each must receive exactly the rows
	// matching its own query, in order, whatever the interleaving
	if phase != "alone" && (shard == nshards-1 || nshards == 1) {
		c14Wrapper(t, run, bound, deadline, &cov.execs, &cov.trans, &cov.complete, &cov.divergences)
	}
	if phase == "alone" {
		b, _ := json.Marshal(aloneOut)
		if err := os.WriteFile(fmt.Sprintf("%s-%d.json", os.Getenv("VERIF_C14_ALONE"), shard), b, 0o644); err != nil {
			fatalInfra("C14: %v", err)
		}
	}
	if cov.divergences > 0 && run.Violations() == 0 {
		// nothing else explains the divergence: not decided
		fatalInfra("C14: %d schedule replays diverged and no oracle fired", cov.divergences)
	}
	run.FinishPart(map[string]any{
		"replay_divergences":              cov.divergences,
		"states":                          cov.states,
		"transitions":                     cov.trans,
		"traces_validated_against_impl":   cov.execs + cov.aloneExecs,
		"request_pairs":                   cov.pairs,
		"request_pairs_with_cancellation": cov.cancelPairs,
		"pair_executions":                 cov.execs,
		"alone_executions":                cov.aloneExecs,
		"max_deviation_bound":             bound,
		"exhaustive":                      cov.complete,
	})
}

// c14SchedPasses runs, at one deviation bound, pass 1 (the outcome set of every request run ALONE; all worker
// processes share each exploration) and pass 2 (pairs, judged against the merged sets).
func c14SchedPasses(run *ev.Run, bound int) map[string]any {
	dir := os.Getenv("VERIF_SCRATCH")
	if dir == "" {
		dir = os.TempDir()
	}
	os.Setenv("VERIF_C14_BOUND", fmt.Sprint(bound))
	os.Setenv("VERIF_C14_PHASE", "alone")
	os.Setenv("VERIF_C14_ALONE", filepath.Join(dir, fmt.Sprintf("c14-alone-b%d", bound)))
	covA := run.RunShards("TestC14", ev.Workers())
	merged := map[string]*c14Alone{}
	for i := 0; i < ev.Workers(); i++ {
		var part map[string]*c14Alone
		b, err := os.ReadFile(fmt.Sprintf("%s-%d.json", os.Getenv("VERIF_C14_ALONE"), i))
		if err != nil || json.Unmarshal(b, &part) != nil {
			fmt.Printf("INFRA-ERROR C14: alone-phase result of shard %d unreadable: %v\n", i, err)
			os.Exit(2)
		}
		os.Remove(fmt.Sprintf("%s-%d.json", os.Getenv("VERIF_C14_ALONE"), i))
		for k, v := range part {
			m := merged[k]
			if m == nil {
				m = &c14Alone{Complete: true, Outcomes: map[string]bool{}}
				merged[k] = m
			}
			m.Complete = m.Complete && v.Complete
			for o := range v.Outcomes {
				m.Outcomes[o] = true
			}
		}
	}
	// a request whose answer does not go through a permission rewrite (expand; the recorded finding KF-C01-1
	// makes checks through && / ! schedule dependent) has ONE answer alone, whatever the interleaving of the
	// goroutines it starts
	for k, m := range merged {
		if i := strings.Index(k, "|expand "); i >= 0 && len(m.Outcomes) > 1 {
			var outs []string
			for o := range m.Outcomes {
				outs = append(outs, o)
			}
			sort.Strings(outs)
			run.Violation("schedule-dependent-answer:expand", fmt.Sprintf("request %q alone, on unchanging data, answers differently under different schedules of its own goroutines (bound %d): %d different trees, e.g. %.200s | %.200s", k[i+1:], bound, len(outs), outs[0], outs[1]), map[string]any{"request": k, "outcomes": len(outs)})
		}
	}
	b, _ := json.Marshal(merged)
	if err := os.WriteFile(os.Getenv("VERIF_C14_ALONE")+".json", b, 0o644); err != nil {
		fmt.Printf("INFRA-ERROR C14: %v\n", err)
		os.Exit(2)
	}
	os.Setenv("VERIF_C14_PHASE", "pairs")
	cov := run.RunShards("TestC14", ev.Workers())
	os.Remove(os.Getenv("VERIF_C14_ALONE") + ".json")
	cov["alone_executions"] = covA["alone_executions"]
	cov["alone_outcome_sets_complete"] = covA["exhaustive"]
	for _, k := range []string{"replay_divergences"} {
		if a, ok := covA[k].(int); ok {
			if c, ok := cov[k].(int); ok {
				cov[k] = a + c
			}
		}
	}
	if tv, ok := cov["traces_validated_against_impl"].(int); ok {
		if av, ok := covA["alone_executions"].(int); ok {
			cov["traces_validated_against_impl"] = tv + av
		}
	}
	return cov
}

var raceTop = regexp.MustCompile(`(?m)^  (github\.com/ory/keto/\S+)\(.*\)$`)

// racePass runs the free-running -race binary and turns every distinct report into a violation
// whose signature is the pair of top-most keto frames of the two conflicting accesses.
func racePass(run *ev.Run, cov map[string]any) {
	bin := os.Getenv("VERIF_RACE_BIN")
	if bin == "" {
		fmt.Println("INFRA-ERROR race binary missing")
		os.Exit(2)
	}
	dir := os.Getenv("VERIF_SCRATCH")
	if dir == "" {
		dir = os.TempDir()
	}
	logp := filepath.Join(dir, "race-c14")
	cmd := exec.Command(bin, "-test.run", "^TestRacePass$", "-test.timeout", "0")
	cmd.Env = append(os.Environ(), "VERIF_RACE_RUN=1", "VERIF_SHARD=", "GORACE=halt_on_error=0 exitcode=0 log_path="+logp)
	outb, err := cmd.CombinedOutput()
	out := string(outb)
	reqs := 0
	if m := regexp.MustCompile(`RACEPASS requests=(\d+)`).FindStringSubmatch(out); m != nil {
		fmt.Sscanf(m[1], "%d", &reqs)
	}
	if reqs == 0 {
		fmt.Printf("INFRA-ERROR race pass did not complete (%v)\n%s\n", err, tail(out, 3000))
		os.Exit(2)
	}
	files, _ := filepath.Glob(logp + ".*")
	reports := 0
	seen := map[string]bool{}
	for _, f := range files {
		b, _ := os.ReadFile(f)
		os.Remove(f)
		for _, blk := range strings.Split(string(b), "==================") {
			if !strings.Contains(blk, "DATA RACE") {
				continue
			}
			reports++
			var tops []string
			for _, part := range strings.SplitN(strings.TrimSpace(blk), "\n\n", 3)[:2] {
				top := "?"
				for _, m := range raceTop.FindAllStringSubmatch(part, -1) {
					if !strings.Contains(m[1], "/verif/") {
						top = m[1]
						break
					}
				}
				tops = append(tops, top)
			}
			sort.Strings(tops)
			sig := "race:" + strings.Join(tops, "<->")
			if !seen[sig] {
				seen[sig] = true
				run.Violation(sig, "data race reported by the Go race detector in the free-running pass: "+strings.Join(tops, " <-> "), map[string]any{"report": tail(blk, 6000)})
			}
		}
	}
	cov["race_pass_requests"] = reqs
	cov["race_reports"] = reports
	cov["race_pass_exhaustive"] = false
}

func c14Wrapper(t *testing.T, run *ev.Run, bound int, deadline time.Time, execs, trans *int, complete *bool, divergences *int) {
	cfg := mkCfgRefless(&Expr{Op: "leaf", Leaf: LIncA})
	w := NewWorld(t, WorldOpt{Namespaces: cfg.NS, Depth: 5})
	ts := []refsem.Tuple{tid("o1", "a", "u1"), tid("o2", "a", "v1"), tid("o1", "a", "u2"), tid("o2", "a", "v2"), tid("o1", "a", "u3"), tid("o2", "a", "v3")}
	rows := w.Rows(ts)
	d := &deps{RegistryDefault: w.Reg, ms: w.Store, names: w.Names}
	lister := func(mw *relationtuple.ManagerWrapper, obj string) func(ctx context.Context) string {
		ns := "n"
		id := w.Names.ID(obj)
		return func(ctx context.Context) string {
			var got []string
			token := ""
			for page := 0; page < 10; page++ {
				res, next, err := mw.GetRelationTuples(ctx, &relationtuple.RelationQuery{Namespace: &ns, Object: &id}, x.WithToken(token))
				if err != nil {
					return "err:" + err.Error()
				}
				for _, r := range res {
					got = append(got, r.String())
				}
				if next == "" {
					return strings.Join(got, " ")
				}
				token = next
			}
			return "no end: " + strings.Join(got, " ")
		}
	}
	for _, spare := range []int{0, 2} {
		mk := func() *relationtuple.ManagerWrapper {
			opts := make([]x.PaginationOptionSetter, 1, 1+spare)
			opts[0] = x.WithSize(1)
			return relationtuple.NewManagerWrapper(nil, d, opts...)
		}
		var mw *relationtuple.ManagerWrapper
		objs := []string{"o1", "o2", "o1"}
		alone := map[string]string{}
		for _, o := range []string{"o1", "o2"} {
			w.Store.Reset(rows)
			mw = mk()
			var out string
			xe := vsched.Run(vsched.Config{FastBase: true}, func() { out = lister(mw, o)(context.Background()) })
			if xe.Outcome != "ok" {
				run.Violation("abnormal:"+xe.Outcome, "paginating lister alone through ManagerWrapper: "+xe.Outcome, nil)
				return
			}
			alone[o] = out
		}
		for _, k := range []int{2, 3} {
			out := make([]string, k)
			reported := false
			ex := &vsched.Explore{Bound: bound, Deadline: deadline}
			ex.Run(func(vc vsched.Config) *vsched.Execution {
				w.Store.Reset(rows)
				w.Store.Visible = true
				mw = mk()
				return vsched.Run(vc, func() {
					var wg vsched.WaitGroup
					for i := 0; i < k; i++ {
						i := i
						wg.Add(1)
						vsched.Go("lister:"+objs[i], func() {
							defer wg.Done()
							out[i] = lister(mw, objs[i])(context.Background())
						})
					}
					wg.Wait()
				})
			}, func(xe *vsched.Execution) bool {
				if xe.Outcome == "diverged" {
					*divergences++
					return true
				}
				if reported {
					return true
				}
				rep := map[string]any{"phase": "manager-wrapper", "listers": objs[:k], "spare_option_capacity": spare, "choices": xe.Choices}
				if xe.Outcome != "ok" {
					reported = true
					run.Violation("abnormal:"+xe.Outcome, fmt.Sprintf("%d paginating listers through one ManagerWrapper: execution %s", k, xe.Outcome), rep)
					return true
				}
				for i := 0; i < k; i++ {
					if out[i] != alone[objs[i]] {
						reported = true
						run.Violation("pagination-cursor-shared:manager-wrapper", fmt.Sprintf("lister %d (object %s) paging through a shared ManagerWrapper received %q while %d listers ran concurrently; alone it receives %q", i, objs[i], out[i], k, alone[objs[i]]), rep)
						break
					}
				}
				return true
			})
			*execs += ex.Execs
			*trans += ex.Transitions
			if !ex.Complete {
				*complete = false
			}
		}
	}
}

package sched

import (
	"encoding/json"
	"fmt"
	"os"
	"os/exec"
	"path/filepath"
	"testing"

	"github.com/ory/keto/internal/check/checkgroup"
	"github.com/ory/keto/verif/ev"
	"github.com/ory/keto/verif/refsem"
	"github.com/ory/keto/verif/vsched"
)

// Cand is a candidate violation, serialisable so that the counterfactual
// binary (path-local visited sets, see DESIGN.md known finding KF-C01-1) can
// re-explore exactly the same scenario.
type Cand struct {
	Cfg    CfgRef
	Tuples []refsem.Tuple // in row order
	Query  refsem.Tuple
	Bound  int
	Depth  int
	Width  int
	ReqDepth int
	Oracle string // "equals-ref" | "fail-closed"
	What   string
	Sig    string
	Choices []int
}

func (c *Cand) replay() map[string]any {
	cfg := c.Cfg.Resolve()
	return map[string]any{"cfgref": c.Cfg, "config": cfg.Name, "opl": refsem.RenderOPL(cfg.NS), "strict": c.Cfg.Strict,
		"tuples_in_row_order": tuplesStr(c.Tuples), "query": c.Query.String(), "bound": c.Bound, "choices": c.Choices,
		"global_depth": c.Depth, "width": c.Width, "request_depth": c.ReqDepth, "cand": c}
}

// judge explores cand's scenario to its bound on world w and returns "" if every
// execution satisfies the oracle, else a description of the first failure.
func judge(w *World, c *Cand) (string, []int) {
	rows := w.Rows(c.Tuples)
	q := w.Internal(c.Query)
	ref := refsem.Check(w.Cfg, c.Tuples, c.Query)
	bad := ""
	var choices []int
	e := &vsched.Explore{Bound: c.Bound}
	var last CheckOut
	e.Run(func(vc vsched.Config) *vsched.Execution {
		last = w.RunCheck(rows, q, vc, RunOpt{ReqDepth: c.ReqDepth})
		return last.X
	}, func(x *vsched.Execution) bool {
		if x.Outcome != "ok" {
			bad = "abnormal execution: " + x.Outcome
		} else if c.Oracle == "fail-closed" {
			if last.Res.Membership == checkgroup.IsMember && !ref.Allowed {
				bad = "allowed under a limit but denied by the unbounded semantics"
			}
		} else if !last.Cut {
			if last.Res.Err != nil {
				bad = "error without fault: " + last.Res.Err.Error()
			} else if (last.Res.Membership == checkgroup.IsMember) != ref.Allowed {
				bad = fmt.Sprintf("engine=%s reference allowed=%v", memb(last.Res), ref.Allowed)
			}
		}
		if bad != "" {
			choices = append([]int(nil), x.Choices...)
			return false
		}
		return true
	})
	return bad, choices
}

// attribute: candidates that hold under the counterfactual build are instances of the
// recorded finding; everything else (or no counterfactual available) is a new violation.
func attribute(run *ev.Run, prop string, cands []*Cand) {
	if len(cands) == 0 {
		return
	}
	verdict := make([]string, len(cands))
	for i := range verdict {
		verdict[i] = "cf-unavailable"
	}
	if bin := os.Getenv("VERIF_CF_BIN"); bin != "" {
		dir := os.Getenv("VERIF_SCRATCH")
		if dir == "" {
			dir = os.TempDir()
		}
		in := filepath.Join(dir, fmt.Sprintf("cf-in-%s-%d.json", prop, os.Getpid()))
		out := in + ".out"
		b, _ := json.Marshal(cands)
		_ = os.WriteFile(in, b, 0o644)
		cmd := exec.Command(bin, "-test.run", "^TestCFReplay$", "-test.timeout", "0")
		cmd.Env = append(os.Environ(), "VERIF_CF_IN="+in, "VERIF_CF_OUT="+out, "VERIF_SHARD=", "GOMAXPROCS=1")
		if o, err := cmd.CombinedOutput(); err != nil {
			fmt.Printf("INFRA-ERROR counterfactual replay failed: %v\n%s\n", err, tail(string(o), 3000))
			os.Exit(2)
		}
		ob, err := os.ReadFile(out)
		if err != nil || json.Unmarshal(ob, &verdict) != nil || len(verdict) != len(cands) {
			fmt.Printf("INFRA-ERROR counterfactual replay produced no verdicts\n")
			os.Exit(2)
		}
		os.Remove(in)
		os.Remove(out)
	}
	for i, c := range cands {
		rep := c.replay()
		rep["counterfactual_verdict"] = verdict[i]
		if verdict[i] == "" {
			run.Violation("KF-C01-1:holds-with-path-local-visited-sets", c.What, rep)
		} else {
			run.Violation(c.Sig, c.What+" [counterfactual: "+verdict[i]+"]", rep)
		}
	}
}

func tail(s string, n int) string {
	if len(s) > n {
		return s[len(s)-n:]
	}
	return s
}

// TestCFReplay runs inside the counterfactual binary.
func TestCFReplay(t *testing.T) {
	in := os.Getenv("VERIF_CF_IN")
	if in == "" {
		t.Skip("only used for attribution")
	}
	b, err := os.ReadFile(in)
	if err != nil {
		t.Fatal(err)
	}
	var cands []*Cand
	if err := json.Unmarshal(b, &cands); err != nil {
		t.Fatal(err)
	}
	verdict := make([]string, len(cands))
	worlds := map[string]*World{}
	for i, c := range cands {
		cfg := c.Cfg.Resolve()
		key := fmt.Sprintf("%v/%d/%d", c.Cfg.Strict, c.Depth, c.Width)
		if c.Cfg.Strict {
			key += cfg.Name
		}
		w := worlds[key]
		if w == nil {
			w = NewWorld(t, WorldOpt{Namespaces: cfg.NS, Strict: c.Cfg.Strict, Depth: c.Depth, Width: c.Width})
			worlds[key] = w
		}
		if !c.Cfg.Strict {
			w.SetNamespaces(t, cfg.NS)
		}
		verdict[i], _ = judge(w, c)
	}
	ob, _ := json.Marshal(verdict)
	if err := os.WriteFile(os.Getenv("VERIF_CF_OUT"), ob, 0o644); err != nil {
		t.Fatal(err)
	}
}

// enumTupleSets calls f for every set of at most n tuples from u (ascending index order), with its ordinal.
func enumTupleSets(u []refsem.Tuple, n int, f func(ord int, ts []refsem.Tuple)) {
	ord := 0
	for k := 0; k <= n; k++ {
		combos(len(u), k, func(ix []int) bool {
			ts := make([]refsem.Tuple, k)
			for i, j := range ix {
				ts[i] = u[j]
			}
			f(ord, ts)
			ord++
			return true
		})
	}
}

// Global depth for C01: large enough that no acyclic input of the enumerated sizes is cut (cut
// cases are counted and left to C02), small enough that recursive-traverse cycles, which the
// engine only stops by the depth budget, stay cheap.
const c01Depth = 12

// TestC01: check decisions equal the relationship-graph semantics.
func TestC01(t *testing.T) {
	run := ev.New("C01", "model_checking")
	shard, nshards, child := ev.Shard()
	if !child {
		cov := run.RunShards("TestC01", ev.Workers())
		run.Assume("limits not binding is observed through the engine's own 'reached max-depth' / 'too many results' log lines (global depth 12, width 100)",
			"domain: tuples use declared relations; no recursion through `not`; reference = least fixpoint stratified over the SCCs of the atom dependency graph (h/refsem)",
			"input enumeration runs the instrumented engine under the deterministic base schedule; schedule exploration is deviation-bounded",
			"strict-mode configurations reach keto as OPL text (fully parenthesised) and the namespaces keto serves are what the reference evaluates")
		run.Finish(cov)
		return
	}
	deadline := ev.Deadline(240, 1500)
	leaves := []int{LIncA, LIncB, LTrvAP}
	nT := 3
	if ev.Thorough() {
		leaves = []int{LIncA, LIncB, LTrvAP, LTrvAB, LPermQ}
	}
	var cov struct {
		cases, judged, nontrivial, cut, outOfDomain, unconnected, allowed, denied int
		sExecs, sTrans, sStates, sScen, sHeavy                                  int
		strictCases, maxThreads, sqlCases, sqlCalls                              int
		complete                                                                 bool
	}
	cov.complete = true
	var cands []*Cand
	distinct := map[string]bool{}

	univ := universe([]string{"o1", "o2"}, []string{"a", "b"}, []string{"a", "b", "p", ""}, []string{"u"})
	queries := []refsem.Tuple{tid("o1", "p", "u"), tid("o1", "a", "u"), tss("o1", "p", "o2", "a")}

	runCase := func(w *World, cfg *CfgSpec, ts []refsem.Tuple, q refsem.Tuple) {
		ref := refsem.Check(w.Cfg, ts, q)
		cov.cases++
		switch {
		case ref.Untouched > 0:
			cov.unconnected++
			return
		case !ref.InDomain || ref.SchemaError:
			cov.outOfDomain++
			return
		}
		orders := [][]int{nil}
		if len(ts) > 1 {
			if ev.Thorough() {
				orders = perms(len(ts))
			} else {
				rev := make([]int, len(ts))
				for i := range rev {
					rev[i] = len(ts) - 1 - i
				}
				orders = [][]int{nil, rev}
			}
		}
		for _, ord := range orders {
			rowsT := ts
			if ord != nil {
				rowsT = make([]refsem.Tuple, len(ts))
				for i, j := range ord {
					rowsT[i] = ts[j]
				}
			}
			// iterative deepening: an execution that was not cut at global depth d is, step for
			// step, the execution at any larger depth, so the cheapest uncut run is the verdict
			o := w.RunCheck(w.Rows(rowsT), w.Internal(q), vsched.Config{FastBase: true}, RunOpt{ReqDepth: 4})
			// (an input whose dependency graph has a cycle through a rewrite edge is cut at every
			// depth - the engine has no cycle detection there - so deepening it only burns time)
			if o.Cut && !ref.RewriteCycle {
				o = w.RunCheck(w.Rows(rowsT), w.Internal(q), vsched.Config{FastBase: true}, RunOpt{ReqDepth: 8})
			}
			if o.Cut && !ref.RewriteCycle && ev.Thorough() {
				o = w.RunCheck(w.Rows(rowsT), w.Internal(q), vsched.Config{FastBase: true}, RunOpt{})
			}
			cov.judged++
			if o.X.NThreads > cov.maxThreads {
				cov.maxThreads = o.X.NThreads
			}
			if o.Cut {
				cov.cut++
				continue
			}
			if ref.Atoms >= 2 {
				k := fmt.Sprintf("%s|%s|%s", cfg.Name, tuplesStr(rowsT), q)
				if !distinct[k] {
					distinct[k] = true
					cov.nontrivial++
				}
			}
			if ref.Allowed {
				cov.allowed++
			} else {
				cov.denied++
			}
			bad := ""
			sig := ""
			switch {
			case o.X.Outcome != "ok":
				bad, sig = "abnormal execution: "+o.X.Outcome, "abnormal:"+o.X.Outcome
			case o.Res.Err != nil:
				bad, sig = "error without any fault: "+o.Res.Err.Error(), "error-without-fault"
			case (o.Res.Membership == checkgroup.IsMember) != ref.Allowed:
				bad = fmt.Sprintf("engine=%s reference allowed=%v", memb(o.Res), ref.Allowed)
				if ref.Allowed {
					sig = "false-deny"
				} else {
					sig = "false-allow"
				}
			}
			if bad != "" && len(cands) < 300 {
				cands = append(cands, &Cand{Cfg: cfg.Ref, Tuples: rowsT, Query: q, Bound: 0, Depth: w.Depth, Width: w.Width, ReqDepth: 8, Oracle: "equals-ref",
					Sig: sig, What: fmt.Sprintf("%s on {%s | %s | q=%s} (base schedule)", bad, cfg.Name, tuplesStr(rowsT), q)})
			}
		}
	}

	// (A) input enumeration, default mode: configs x tuple sets (<= nT tuples, query-connected) x queries x row orders
	w := NewWorld(t, WorldOpt{Namespaces: mkCfg(&Expr{Op: "leaf", Leaf: LIncA}, 0, false).NS, Depth: c01Depth})
	cfgs := cfgCatalogue(2, leaves, 0, false)
	for _, cfg := range cfgs {
		if deadlinePassed(deadline) {
			cov.complete = false
			break
		}
		w.SetNamespaces(t, cfg.NS)
		enumTupleSets(univ, nT, func(ord int, ts []refsem.Tuple) {
			if ord%nshards != shard {
				return
			}
			for _, q := range queries {
				runCase(w, cfg, ts, q)
			}
			if len(ts) > 0 && len(ts) < nT { // multiset: duplicate the first tuple
				dup := append([]refsem.Tuple{ts[0]}, ts...)
				runCase(w, cfg, dup, queries[0])
			}
		})
	}
	if shard == 0 {
		run.Sample(map[string]any{"family": "input enumeration (base schedule)", "config": cfgs[len(cfgs)/2].Name, "tuples": tuplesStr([]refsem.Tuple{univ[3], univ[11], univ[20]}), "query": queries[0].String()})
	}

	// (A') strict mode (typed namespaces rendered to OPL): one registry per configuration
	strictCfgs := append(cfgCatalogue(2, []int{LIncA, LIncB, LTrvAP}, 1, true), cfgCatalogue(2, []int{LIncA, LIncB}, 2, true)...)
	for i, cfg := range strictCfgs {
		if i%nshards != shard {
			continue
		}
		if deadlinePassed(deadline) {
			cov.complete = false
			break
		}
		sw := NewWorld(t, WorldOpt{Namespaces: cfg.NS, Strict: true, Depth: c01Depth})
		before := cov.judged
		enumTupleSets(univ, 2, func(ord int, ts []refsem.Tuple) {
			for _, q := range queries[:2] {
				runCase(sw, cfg, ts, q)
			}
		})
		cov.strictCases += cov.judged - before
	}

	// (B) the same engine over the REAL SQL persister and traverser (storage calls are atomic steps),
	// row order forced through shard_id; the answer must equal both the reference and the answer over
	// the in-memory store, and both stores must have served the same number of calls - this is what
	// binds the in-memory stand-in used by all schedule exploration to the SQL implementation.
	sqlCfgs := cfgCatalogue(2, []int{LIncA, LTrvAP}, 0, false)
	for ci, cfg := range sqlCfgs {
		if deadlinePassed(deadline) {
			cov.complete = false
			break
		}
		w.SetNamespaces(t, cfg.NS)
		enumTupleSets(univ, nT, func(ord int, ts []refsem.Tuple) {
			if (ord+ci)%nshards != shard {
				return
			}
			for _, q := range queries[:2] {
				ref := refsem.Check(w.Cfg, ts, q)
				if ref.Untouched > 0 || !ref.InDomain || ref.SchemaError || ref.RewriteCycle {
					continue
				}
				rows := w.Rows(ts)
				mo := w.RunCheck(rows, w.Internal(q), vsched.Config{FastBase: true}, RunOpt{ReqDepth: 8})
				so := w.RunCheckSQL(t, rows, w.Internal(q), vsched.Config{FastBase: true}, 8)
				cov.sqlCases++
				cov.sqlCalls += so.Calls
				if mo.Cut || so.Cut {
					continue
				}
				what := ""
				switch {
				case so.Res.Err != nil:
					what = "SQL-backed check failed without fault: " + so.Res.Err.Error()
				case so.Res.Membership != mo.Res.Membership:
					what = fmt.Sprintf("SQL-backed engine=%s, in-memory engine=%s (reference allowed=%v)", memb(so.Res), memb(mo.Res), ref.Allowed)
				case so.Calls != mo.Calls:
					what = fmt.Sprintf("SQL store served %d calls, in-memory store %d for the same check", so.Calls, mo.Calls)
				}
				if what != "" {
					sig := "sql-vs-memstore"
					if (so.Res.Membership == checkgroup.IsMember) != ref.Allowed && so.Res.Err == nil {
						sig = "sql-backed-wrong-decision"
					}
					run.Violation(sig, fmt.Sprintf("%s on {%s | %s | q=%s}", what, cfg.Name, tuplesStr(ts), q), map[string]any{"cfgref": cfg.Ref, "opl": refsem.RenderOPL(cfg.NS), "tuples_in_row_order": tuplesStr(ts), "query": q.String()})
				}
			}
		})
	}

	// (C) schedule exploration: every schedule up to the deviation bound on the scenario catalogue
	bound := 1
	if ev.Thorough() {
		bound = 2
	}
	scns := sCatalogue(2, []int{LIncA, LIncB, LTrvAP})
	light := 0
	var lastCfg *CfgSpec
	for _, sc := range scns {
		if deadlinePassed(deadline) {
			cov.complete = false
			break
		}
		if sc.Cfg != lastCfg {
			w.SetNamespaces(t, sc.Cfg.NS)
			lastCfg = sc.Cfg
		}
		ref := refsem.Check(w.Cfg, sc.Tuples, sc.Query)
		if !ref.InDomain || ref.SchemaError {
			continue
		}
		rows := w.Rows(sc.Tuples)
		q := w.Internal(sc.Query)
		probe := w.RunCheck(rows, q, vsched.Config{}, RunOpt{ReqDepth: 5})
		heavy := probe.X.Steps > 400
		es, en := 0, 1
		if heavy {
			es, en = shard, nshards
			cov.sHeavy++
		} else {
			light++
			if light%nshards != shard {
				continue
			}
		}
		if !heavy || shard == 0 {
			cov.sScen++
		}
		e := &vsched.Explore{Bound: bound, Count: true, Deadline: deadline, Shard: es, NShards: en}
		var last CheckOut
		outcomes := map[string]int{}
		var badX *vsched.Execution
		bad := ""
		e.Run(func(vc vsched.Config) *vsched.Execution {
			last = w.RunCheck(rows, q, vc, RunOpt{ReqDepth: 5})
			return last.X
		}, func(x *vsched.Execution) bool {
			if diverged(x, sc.String()) || last.Cut {
				return true
			}
			outcomes[memb(last.Res)]++
			if bad == "" {
				switch {
				case x.Outcome != "ok":
					bad = "abnormal execution: " + x.Outcome
				case last.Res.Err != nil:
					bad = "error without any fault: " + last.Res.Err.Error()
				case (last.Res.Membership == checkgroup.IsMember) != ref.Allowed:
					bad = fmt.Sprintf("engine=%s reference allowed=%v", memb(last.Res), ref.Allowed)
				}
				if bad != "" {
					badX = x
				}
			}
			return true
		})
		cov.sExecs += e.Execs
		cov.sTrans += e.Transitions
		cov.sStates += len(e.States)
		if !e.Complete {
			cov.complete = false
		}
		if bad != "" && len(cands) < 400 {
			sig := "false-allow"
			if ref.Allowed {
				sig = "false-deny"
			}
			if len(outcomes) > 1 {
				sig = "schedule-dependent:" + sig
			}
			cands = append(cands, &Cand{Cfg: sc.Cfg.Ref, Tuples: sc.Tuples, Query: sc.Query, Bound: bound, Depth: w.Depth, Width: w.Width, ReqDepth: 5, Oracle: "equals-ref", Sig: sig,
				Choices: badX.Choices, What: fmt.Sprintf("%s on %s; outcomes over %d schedules: %v", bad, sc, e.Execs, outcomes)})
		}
		if cov.sScen <= 1 && shard < 2 {
			run.Sample(map[string]any{"family": "schedule exploration", "scenario": sc.Replay(), "executions": e.Execs, "bound": bound, "outcomes": outcomes})
		}
	}

	attribute(run, "C01", cands)
	run.FinishPart(map[string]any{
		"states":                        cov.sStates + cov.judged,
		"transitions":                   cov.sTrans + cov.judged,
		"traces_validated_against_impl": cov.sExecs + cov.judged,
		"input_cases":                   cov.cases,
		"input_cases_judged":            cov.judged,
		"input_cases_distinct_nontrivial": cov.nontrivial,
		"input_cases_cut_by_limits":     cov.cut,
		"input_cases_out_of_domain":     cov.outOfDomain,
		"input_cases_not_query_connected": cov.unconnected,
		"strict_mode_cases":             cov.strictCases,
		"sql_backed_cases":              cov.sqlCases,
		"store_calls_cross_checked":     cov.sqlCalls,
		"ref_allowed":                   cov.allowed,
		"ref_denied":                    cov.denied,
		"schedule_scenarios":            cov.sScen,
		"schedule_executions":           cov.sExecs,
		"schedule_states":               cov.sStates,
		"max_deviation_bound":           bound,
		"max_tuples":                    nT,
		"max_threads":                   cov.maxThreads,
		"max_configs":                   len(cfgs) + len(strictCfgs),
		"exhaustive":                    cov.complete,
	})
}

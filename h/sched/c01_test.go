package sched

import (
	"context"

	"encoding/json"
	"fmt"
	"github.com/ory/keto/internal/namespace"
	"github.com/ory/keto/internal/namespace/ast"
	"os"
	"os/exec"
	"path/filepath"
	"testing"

	"github.com/ory/keto/internal/check/checkgroup"
	"github.com/ory/keto/verif/ev"
	"github.com/ory/keto/verif/refsem"
	"github.com/ory/keto/verif/vsched"
)

// Cand is a candidate violation, serialisable so that the counterfactual
// binary (path-local visited sets, see DESIGN.md known finding KF-C01-1) can
// re-explore exactly the same scenario.
type Cand struct {
	Cfg      CfgRef
	Tuples   []refsem.Tuple // in row order
	Query    refsem.Tuple
	Bound    int
	Depth    int
	Width    int
	ReqDepth int
	PageSize int    // listing page size of the in-memory store (0 = 100)
	Oracle   string // "equals-ref" | "fail-closed"
	What     string
	Sig      string
	Choices  []int
}

func (c *Cand) replay() map[string]any {
	cfg := c.Cfg.Resolve()
	return map[string]any{"cfgref": c.Cfg, "config": cfg.Name, "opl": refsem.RenderOPL(cfg.NS), "strict": c.Cfg.Strict,
		"tuples_in_row_order": tuplesStr(c.Tuples), "query": c.Query.String(), "bound": c.Bound, "choices": c.Choices,
		"global_depth": c.Depth, "width": c.Width, "request_depth": c.ReqDepth, "page_size": c.PageSize, "cand": c}
}

// judge explores cand's scenario to its bound on world w and returns "" if every
// execution satisfies the oracle, else a description of the first failure.
func judge(w *World, c *Cand) (string, []int) {
	rows := w.Rows(c.Tuples)
	q := w.Internal(c.Query)
	ref := refsem.Check(w.Cfg, c.Tuples, c.Query)
	bad := ""
	var choices []int
	e := &vsched.Explore{Bound: c.Bound}
	var last CheckOut
	e.Run(func(vc vsched.Config) *vsched.Execution {
		last = w.RunCheck(rows, q, vc, RunOpt{ReqDepth: c.ReqDepth, PageSize: c.PageSize})
		return last.X
	}, func(x *vsched.Execution) bool {
		if x.Outcome != "ok" {
			bad = "abnormal execution: " + x.Outcome
		} else if c.Oracle == "fail-closed" {
			if last.Res.Membership == checkgroup.IsMember && !ref.Allowed {
				bad = "allowed under a limit but denied by the unbounded semantics"
			}
		} else if !last.Cut {
			if last.Res.Err != nil {
				bad = "error without fault: " + last.Res.Err.Error()
			} else if (last.Res.Membership == checkgroup.IsMember) != ref.Allowed {
				bad = fmt.Sprintf("engine=%s reference allowed=%v", memb(last.Res), ref.Allowed)
			}
		}
		if bad != "" {
			choices = append([]int(nil), x.Choices...)
			return false
		}
		return true
	})
	return bad, choices
}

// attribute: candidates that hold under the counterfactual build are instances of the
// recorded finding; everything else (or no counterfactual available) is a new violation.
func attribute(run *ev.Run, prop string, cands []*Cand) {
	if len(cands) == 0 {
		return
	}
	verdict := make([]string, len(cands))
	for i := range verdict {
		verdict[i] = "cf-unavailable"
	}
	if bin := os.Getenv("VERIF_CF_BIN"); bin != "" {
		dir := os.Getenv("VERIF_SCRATCH")
		if dir == "" {
			dir = os.TempDir()
		}
		in := filepath.Join(dir, fmt.Sprintf("cf-in-%s-%d.json", prop, os.Getpid()))
		out := in + ".out"
		b, _ := json.Marshal(cands)
		_ = os.WriteFile(in, b, 0o644)
		cmd := exec.Command(bin, "-test.run", "^TestCFReplay$", "-test.timeout", "0")
		cmd.Env = append(os.Environ(), "VERIF_CF_IN="+in, "VERIF_CF_OUT="+out, "VERIF_SHARD=", "GOMAXPROCS=1")
		if o, err := cmd.CombinedOutput(); err != nil {
			fmt.Printf("INFRA-ERROR counterfactual replay failed: %v\n%s\n", err, tail(string(o), 3000))
			os.Exit(2)
		}
		ob, err := os.ReadFile(out)
		if err != nil || json.Unmarshal(ob, &verdict) != nil || len(verdict) != len(cands) {
			fmt.Printf("INFRA-ERROR counterfactual replay produced no verdicts\n")
			os.Exit(2)
		}
		os.Remove(in)
		os.Remove(out)
	}
	// a candidate the counterfactual explains is the RECORDED finding only if the same input also fails on the
	// engine as it was when the finding was recorded (known_findings.json reference_commit); one that passes
	// there is a new violation of the same class
	refVerdict := make([]string, len(cands))
	for i := range refVerdict {
		refVerdict[i] = "ref-unavailable"
	}
	if bin := os.Getenv("VERIF_REF_BIN"); bin != "" {
		dir := os.Getenv("VERIF_SCRATCH")
		if dir == "" {
			dir = os.TempDir()
		}
		in := filepath.Join(dir, fmt.Sprintf("ref-in-%s-%d.json", prop, os.Getpid()))
		out := in + ".out"
		b, _ := json.Marshal(cands)
		_ = os.WriteFile(in, b, 0o644)
		cmd := exec.Command(bin, "-test.run", "^TestCFReplay$", "-test.timeout", "0")
		cmd.Env = append(os.Environ(), "VERIF_CF_IN="+in, "VERIF_CF_OUT="+out, "VERIF_SHARD=", "GOMAXPROCS=1")
		if o, err := cmd.CombinedOutput(); err != nil {
			fmt.Printf("INFRA-ERROR reference replay failed: %v\n%s\n", err, tail(string(o), 3000))
			os.Exit(2)
		}
		ob, err := os.ReadFile(out)
		if err != nil || json.Unmarshal(ob, &refVerdict) != nil || len(refVerdict) != len(cands) {
			fmt.Printf("INFRA-ERROR reference replay produced no verdicts\n")
			os.Exit(2)
		}
		os.Remove(in)
		os.Remove(out)
	}
	for i, c := range cands {
		rep := c.replay()
		rep["counterfactual_verdict"] = verdict[i]
		rep["reference_tree_verdict"] = refVerdict[i]
		if verdict[i] == "" && refVerdict[i] == "" {
			run.Violation(c.Sig+":not-on-the-reference-tree", c.What+" [the same input satisfies the oracle on the engine of the reference commit: not the recorded finding]", rep)
		} else if verdict[i] == "" {
			run.Violation("KF-C01-1:holds-with-path-local-visited-sets", c.What, rep)
		} else {
			run.Violation(c.Sig, c.What+" [counterfactual: "+verdict[i]+"]", rep)
		}
	}
}

func tail(s string, n int) string {
	if len(s) > n {
		return s[len(s)-n:]
	}
	return s
}

// TestCFReplay runs inside the counterfactual binary.
func TestCFReplay(t *testing.T) {
	in := os.Getenv("VERIF_CF_IN")
	if in == "" {
		t.Skip("only used for attribution")
	}
	b, err := os.ReadFile(in)
	if err != nil {
		t.Fatal(err)
	}
	var cands []*Cand
	if err := json.Unmarshal(b, &cands); err != nil {
		t.Fatal(err)
	}
	verdict := make([]string, len(cands))
	worlds := map[string]*World{}
	for i, c := range cands {
		cfg := c.Cfg.Resolve()
		key := fmt.Sprintf("%v/%d/%d", c.Cfg.Strict, c.Depth, c.Width)
		if c.Cfg.Strict {
			key += cfg.Name
		}
		w := worlds[key]
		if w == nil {
			w = NewWorld(t, WorldOpt{Namespaces: cfg.NS, Strict: c.Cfg.Strict, Depth: c.Depth, Width: c.Width})
			worlds[key] = w
		}
		if !c.Cfg.Strict {
			w.SetNamespaces(t, cfg.NS)
		}
		verdict[i], _ = judge(w, c)
	}
	ob, _ := json.Marshal(verdict)
	if err := os.WriteFile(os.Getenv("VERIF_CF_OUT"), ob, 0o644); err != nil {
		t.Fatal(err)
	}
}

// enumTupleSets calls f for every set of at most n tuples from u (ascending index order), with its ordinal.
func enumTupleSets(u []refsem.Tuple, n int, f func(ord int, ts []refsem.Tuple)) {
	ord := 0
	for k := 0; k <= n; k++ {
		combos(len(u), k, func(ix []int) bool {
			ts := make([]refsem.Tuple, k)
			for i, j := range ix {
				ts[i] = u[j]
			}
			f(ord, ts)
			ord++
			return true
		})
	}
}

// Global depth for C01: large enough that no acyclic input of the enumerated sizes is cut (cut
// cases are counted and left to C02), small enough that recursive-traverse cycles, which the
// engine only stops by the depth budget, stay cheap.
const c01Depth = 12

// TestC01: check decisions equal the relationship-graph semantics.
func TestC01(t *testing.T) {
	run := ev.New("C01", "model_checking")
	shard, nshards, child := ev.Shard()
	if !child {
		cov := run.RunShards("TestC01", ev.Workers())
		run.Assume("limits not binding is observed through the engine's own 'reached max-depth' / 'too many results' log lines (global depth 12, width 100)",
			"domain: tuples use declared relations; no recursion through `not`; reference = least fixpoint stratified over the SCCs of the atom dependency graph (h/refsem)",
			"input enumeration runs the instrumented engine under the deterministic base schedule; schedule exploration is deviation-bounded",
			"strict-mode configurations reach keto as OPL text (fully parenthesised) and the namespaces keto serves are what the reference evaluates")
		run.Finish(cov)
		return
	}
	deadline := ev.Deadline(240, 1500)
	leaves := []int{LIncA, LIncB, LTrvAP}
	nT := 3
	if ev.Thorough() {
		leaves = []int{LIncA, LIncB, LTrvAP, LTrvAB, LPermQ}
	}
	var cov struct {
		cases, judged, nontrivial, cut, outOfDomain, unconnected, allowed, denied                                 int
		sExecs, sTrans, sStates, sScen, sHeavy                                                                    int
		strictCases, maxThreads, sqlCases, sqlCalls, wideCases, chainCases, chainPrograms, pagedCases, twoNSCases int
		complete                                                                                                  bool
	}
	cov.complete = true
	var cands []*Cand
	distinct := map[string]bool{}

	univ := universe([]string{"o1", "o2"}, []string{"a", "b"}, []string{"a", "b", "p", ""}, []string{"u"})
	queries := []refsem.Tuple{tid("o1", "p", "u"), tid("o1", "a", "u"), tss("o1", "p", "o2", "a")}

	runCase := func(w *World, cfg *CfgSpec, ts []refsem.Tuple, q refsem.Tuple) {
		ref := refsem.Check(w.Cfg, ts, q)
		cov.cases++
		switch {
		case ref.Untouched > 0:
			cov.unconnected++
			return
		case !ref.InDomain || ref.SchemaError:
			cov.outOfDomain++
			return
		}
		orders := [][]int{nil}
		if len(ts) > 1 {
			if ev.Thorough() {
				orders = perms(len(ts))
			} else {
				rev := make([]int, len(ts))
				for i := range rev {
					rev[i] = len(ts) - 1 - i
				}
				orders = [][]int{nil, rev}
			}
		}
		// listings are paged: with page size 1 every traverse over two rows of one relation needs a second page
		pageSizes := []int{0}
		if len(ts) >= 2 && cfg.Expr.usesTraverse() {
			pageSizes = []int{0, 1}
		}
		for _, ps := range pageSizes {
			for _, ord := range orders {
				rowsT := ts
				if ord != nil {
					rowsT = make([]refsem.Tuple, len(ts))
					for i, j := range ord {
						rowsT[i] = ts[j]
					}
				}
				// iterative deepening: an execution that was not cut at global depth d is, step for
				// step, the execution at any larger depth, so the cheapest uncut run is the verdict
				usedDepth := 4 // the request depth of the run that is judged (a replay must use the same one)
				o := w.RunCheck(w.Rows(rowsT), w.Internal(q), vsched.Config{FastBase: true}, RunOpt{ReqDepth: 4, PageSize: ps})
				// (an input whose dependency graph has a cycle through a rewrite edge is cut at every
				// depth - the engine has no cycle detection there - so deepening it only burns time)
				if o.Cut && !ref.RewriteCycle {
					o = w.RunCheck(w.Rows(rowsT), w.Internal(q), vsched.Config{FastBase: true}, RunOpt{ReqDepth: 8, PageSize: ps})
					usedDepth = 8
				}
				if o.Cut && !ref.RewriteCycle && ev.Thorough() {
					o = w.RunCheck(w.Rows(rowsT), w.Internal(q), vsched.Config{FastBase: true}, RunOpt{PageSize: ps})
					usedDepth = 0 // (the global limit)
				}
				if ps != 0 {
					cov.pagedCases++
				}
				cov.judged++
				if o.X.NThreads > cov.maxThreads {
					cov.maxThreads = o.X.NThreads
				}
				if o.Cut {
					cov.cut++
					continue
				}
				if ref.Atoms >= 2 {
					k := fmt.Sprintf("%s|%s|%s", cfg.Name, tuplesStr(rowsT), q)
					if !distinct[k] {
						distinct[k] = true
						cov.nontrivial++
					}
				}
				if ref.Allowed {
					cov.allowed++
				} else {
					cov.denied++
				}
				bad := ""
				sig := ""
				switch {
				case o.X.Outcome != "ok":
					bad, sig = "abnormal execution: "+o.X.Outcome, "abnormal:"+o.X.Outcome
				case o.Res.Err != nil:
					bad, sig = "error without any fault: "+o.Res.Err.Error(), "error-without-fault"
				case (o.Res.Membership == checkgroup.IsMember) != ref.Allowed:
					bad = fmt.Sprintf("engine=%s reference allowed=%v", memb(o.Res), ref.Allowed)
					if ref.Allowed {
						sig = "false-deny"
					} else {
						sig = "false-allow"
					}
				}
				if bad != "" && len(cands) < 300 {
					cands = append(cands, &Cand{Cfg: cfg.Ref, Tuples: rowsT, Query: q, Bound: 0, Depth: w.Depth, Width: w.Width, ReqDepth: usedDepth, PageSize: ps, Oracle: "equals-ref",
						Sig: sig, What: fmt.Sprintf("%s on {%s | %s | q=%s} (base schedule, listing page size %d)", bad, cfg.Name, tuplesStr(rowsT), q, map[bool]int{true: 100, false: ps}[ps == 0])})
				}
			}
		}
	}

	// (A) input enumeration, default mode: configs x tuple sets (<= nT tuples, query-connected) x queries x row orders
	w := NewWorld(t, WorldOpt{Namespaces: mkCfg(&Expr{Op: "leaf", Leaf: LIncA}, 0, false).NS, Depth: c01Depth})
	cfgs := cfgCatalogue(2, leaves, 0, false)
	for _, cfg := range cfgs {
		if deadlinePassed(deadline) {
			cov.complete = false
			break
		}
		w.SetNamespaces(t, cfg.NS)
		enumTupleSets(univ, nT, func(ord int, ts []refsem.Tuple) {
			if ord%nshards != shard {
				return
			}
			for _, q := range queries {
				runCase(w, cfg, ts, q)
			}
			if len(ts) > 0 && len(ts) < nT { // multiset: duplicate the first tuple
				dup := append([]refsem.Tuple{ts[0]}, ts...)
				runCase(w, cfg, dup, queries[0])
			}
		})
	}
	if shard == 0 {
		run.Sample(map[string]any{"family": "input enumeration (base schedule)", "config": cfgs[len(cfgs)/2].Name, "tuples": tuplesStr([]refsem.Tuple{univ[3], univ[11], univ[20]}), "query": queries[0].String()})
	}

	// (A') strict mode (typed namespaces rendered to OPL): one registry per configuration
	strictCfgs := append(cfgCatalogue(2, []int{LIncA, LIncB, LTrvAP}, 1, true), cfgCatalogue(2, []int{LIncA, LIncB}, 2, true)...)
	for i, cfg := range strictCfgs {
		if i%nshards != shard {
			continue
		}
		if deadlinePassed(deadline) {
			cov.complete = false
			break
		}
		sw := NewWorld(t, WorldOpt{Namespaces: cfg.NS, Strict: true, Depth: c01Depth})
		before := cov.judged
		enumTupleSets(univ, 2, func(ord int, ts []refsem.Tuple) {
			for _, q := range queries[:2] {
				runCase(sw, cfg, ts, q)
			}
		})
		cov.strictCases += cov.judged - before
	}

	// (A'') operator chains as TEXT: every || / && tree over 3 and 4 different relations, with no or one negated
	// leaf, written with the parentheses TypeScript needs and no others; the engine's decision on every
	// assignment of direct tuples must be the value of the tree (end to end through the OPL parser)
	cov.chainCases, cov.chainPrograms = c01Chains(t, run, shard, nshards)

	// (A3) two namespaces: the same object names and the same relation exist in namespaces n and m; a subject
	// set is identified by namespace, object AND relation. Every root-connected set of <= 4 tuples over the nodes
	// n:o1, m:o1, n:o2, m:o2 (relation a, one user), both row orders, against the reference.
	cov.twoNSCases = c01TwoNamespaces(t, run, shard, nshards)

	// (B) the same engine over the REAL SQL persister and traverser (storage calls are atomic steps),
	// row order forced through shard_id; the answer must equal both the reference and the answer over
	// the in-memory store, and both stores must have served the same number of calls - this is what
	// binds the in-memory stand-in used by all schedule exploration to the SQL implementation.
	sqlCfgs := cfgCatalogue(2, []int{LIncA, LTrvAP}, 0, false)
	for ci, cfg := range sqlCfgs {
		if deadlinePassed(deadline) {
			cov.complete = false
			break
		}
		w.SetNamespaces(t, cfg.NS)
		enumTupleSets(univ, nT, func(ord int, ts []refsem.Tuple) {
			if (ord+ci)%nshards != shard {
				return
			}
			// (requests whose subject is a subject set, with and without a relation: the SQL builders treat the
			// empty relation of a subject set as a value, not as "any")
			for _, q := range []refsem.Tuple{queries[0], queries[1], tss("o1", "a", "o2", ""), tss("o1", "a", "o2", "a")} {
				ref := refsem.Check(w.Cfg, ts, q)
				if ref.Untouched > 0 || !ref.InDomain || ref.SchemaError || ref.RewriteCycle {
					continue
				}
				rows := w.Rows(ts)
				mo := w.RunCheck(rows, w.Internal(q), vsched.Config{FastBase: true}, RunOpt{ReqDepth: 8})
				so := w.RunCheckSQL(t, rows, w.Internal(q), vsched.Config{FastBase: true}, 8)
				cov.sqlCases++
				cov.sqlCalls += so.Calls
				if mo.Cut || so.Cut {
					continue
				}
				what := ""
				switch {
				case so.Res.Err != nil:
					what = "SQL-backed check failed without fault: " + so.Res.Err.Error()
				case so.Res.Membership != mo.Res.Membership:
					what = fmt.Sprintf("SQL-backed engine=%s, in-memory engine=%s (reference allowed=%v)", memb(so.Res), memb(mo.Res), ref.Allowed)
				case so.Calls != mo.Calls:
					what = fmt.Sprintf("SQL store served %d calls, in-memory store %d for the same check", so.Calls, mo.Calls)
				}
				if what != "" {
					sig := "sql-vs-memstore"
					if (so.Res.Membership == checkgroup.IsMember) != ref.Allowed && so.Res.Err == nil {
						sig = "sql-backed-wrong-decision"
					}
					run.Violation(sig, fmt.Sprintf("%s on {%s | %s | q=%s}", what, cfg.Name, tuplesStr(ts), q), map[string]any{"cfgref": cfg.Ref, "opl": refsem.RenderOPL(cfg.NS), "tuples_in_row_order": tuplesStr(ts), "query": q.String()})
				}
			}
		})
	}

	// (B') wide nodes: the SQL traverser pages the subject sets of one object#relation by 1000 rows. N subject
	// sets for N around one and two pages; the subject is a member of none, or of exactly the K-th in storage
	// order, for every K around the page seams (thorough: every K). The traversal must list every subject set
	// once up to and including the K-th, and the check must be allowed iff there is a K.
	{
		w.SetNamespaces(t, sqlCfgs[0].NS)
		type wide struct{ N, K int }
		var wides []wide
		for _, N := range []int{999, 1000, 1001, 2000, 2001, 2002} {
			wides = append(wides, wide{N, 0})
			for _, K := range []int{1, 2, 998, 999, 1000, 1001, 1002, 1003, 1999, 2000, 2001, 2002} {
				if K <= N {
					wides = append(wides, wide{N, K})
				}
			}
		}
		if ev.Thorough() {
			for _, N := range []int{1001, 2002} {
				for K := 1; K <= N; K++ {
					wides = append(wides, wide{N, K})
				}
			}
		}
		gname := func(j int) string { return fmt.Sprintf("g%04d", j) }
		for i, c := range wides {
			if i%nshards != shard {
				continue
			}
			if deadlinePassed(deadline) {
				cov.complete = false
				break
			}
			ts := make([]refsem.Tuple, 0, c.N+1)
			for j := 1; j <= c.N; j++ {
				ts = append(ts, tss("o1", "a", gname(j), "a"))
			}
			if c.K > 0 {
				ts = append(ts, tid(gname(c.K), "a", "u"))
			}
			q := tid("o1", "a", "u")
			rows := w.Rows(ts)
			so := w.RunCheckSQL(t, rows, w.Internal(q), vsched.Config{FastBase: true}, 8)
			cov.sqlCases++
			cov.wideCases++
			rep := map[string]any{"family": "wide-node", "subject_sets": c.N, "member_of_position": c.K, "query": q.String()}
			if so.Res.Err != nil || (so.Res.Membership == checkgroup.IsMember) != (c.K > 0) {
				run.Violation("sql-backed-wrong-decision:wide-node", fmt.Sprintf("o1#a has %d subject sets g0001#a..; u is a member of %s only: SQL-backed check of o1#a@u answers %s (err %v)", c.N, map[bool]string{true: "the one at storage position " + fmt.Sprint(c.K), false: "none"}[c.K > 0], memb(so.Res), so.Res.Err), rep)
				continue
			}
			res, err := w.Reg.Traverser().TraverseSubjectSetExpansion(context.Background(), w.Internal(q))
			wantLen := c.N
			if c.K > 0 {
				wantLen = c.K
			}
			bad := ""
			seenObj := map[string]bool{}
			for j, r := range res {
				if r.To == nil || r.To.Object != w.Names.ID(gname(j+1)) {
					bad = fmt.Sprintf("entry %d is not the subject set at storage position %d", j+1, j+1)
					break
				}
				seenObj[r.To.Object.String()] = true
				if r.Found != (c.K > 0 && j+1 == c.K) {
					bad = fmt.Sprintf("entry %d has found=%v", j+1, r.Found)
					break
				}
			}
			if bad == "" && (err != nil || len(res) != wantLen) {
				bad = fmt.Sprintf("%d entries (err %v), want %d", len(res), err, wantLen)
			}
			if bad != "" {
				run.Violation("sql-traverser-page-seam", fmt.Sprintf("TraverseSubjectSetExpansion over %d subject sets (member: position %d): %s", c.N, c.K, bad), rep)
			}
		}
	}

	// (C) schedule exploration: every schedule up to the deviation bound on the scenario catalogue
	bound := 1
	if ev.Thorough() {
		bound = 2
	}
	scns := sCatalogue(2, []int{LIncA, LIncB, LTrvAP})
	light := 0
	var lastCfg *CfgSpec
	for _, sc := range scns {
		if deadlinePassed(deadline) {
			cov.complete = false
			break
		}
		if sc.Cfg != lastCfg {
			w.SetNamespaces(t, sc.Cfg.NS)
			lastCfg = sc.Cfg
		}
		ref := refsem.Check(w.Cfg, sc.Tuples, sc.Query)
		if !ref.InDomain || ref.SchemaError {
			continue
		}
		rows := w.Rows(sc.Tuples)
		q := w.Internal(sc.Query)
		probe := w.RunCheck(rows, q, vsched.Config{}, RunOpt{ReqDepth: 5})
		heavy := probe.X.Steps > 400
		es, en := 0, 1
		if heavy {
			es, en = shard, nshards
			cov.sHeavy++
		} else {
			light++
			if light%nshards != shard {
				continue
			}
		}
		if !heavy || shard == 0 {
			cov.sScen++
		}
		e := &vsched.Explore{Bound: bound, Count: true, Deadline: deadline, Shard: es, NShards: en}
		var last CheckOut
		outcomes := map[string]int{}
		var badX *vsched.Execution
		bad := ""
		e.Run(func(vc vsched.Config) *vsched.Execution {
			last = w.RunCheck(rows, q, vc, RunOpt{ReqDepth: 5})
			return last.X
		}, func(x *vsched.Execution) bool {
			if diverged(x, sc.String()) || last.Cut {
				return true
			}
			outcomes[memb(last.Res)]++
			if bad == "" {
				switch {
				case x.Outcome != "ok":
					bad = "abnormal execution: " + x.Outcome
				case last.Res.Err != nil:
					bad = "error without any fault: " + last.Res.Err.Error()
				case (last.Res.Membership == checkgroup.IsMember) != ref.Allowed:
					bad = fmt.Sprintf("engine=%s reference allowed=%v", memb(last.Res), ref.Allowed)
				}
				if bad != "" {
					badX = x
				}
			}
			return true
		})
		cov.sExecs += e.Execs
		cov.sTrans += e.Transitions
		cov.sStates += len(e.States)
		if !e.Complete {
			cov.complete = false
		}
		if bad != "" && len(cands) < 400 {
			sig := "false-allow"
			if ref.Allowed {
				sig = "false-deny"
			}
			if len(outcomes) > 1 {
				sig = "schedule-dependent:" + sig
			}
			cands = append(cands, &Cand{Cfg: sc.Cfg.Ref, Tuples: sc.Tuples, Query: sc.Query, Bound: bound, Depth: w.Depth, Width: w.Width, ReqDepth: 5, Oracle: "equals-ref", Sig: sig,
				Choices: badX.Choices, What: fmt.Sprintf("%s on %s; outcomes over %d schedules: %v", bad, sc, e.Execs, outcomes)})
		}
		if cov.sScen <= 1 && shard < 2 {
			run.Sample(map[string]any{"family": "schedule exploration", "scenario": sc.Replay(), "executions": e.Execs, "bound": bound, "outcomes": outcomes})
		}
	}

	attribute(run, "C01", cands)
	run.FinishPart(map[string]any{
		"states":                          cov.sStates + cov.judged,
		"transitions":                     cov.sTrans + cov.judged,
		"traces_validated_against_impl":   cov.sExecs + cov.judged,
		"input_cases":                     cov.cases,
		"input_cases_judged":              cov.judged,
		"input_cases_distinct_nontrivial": cov.nontrivial,
		"input_cases_cut_by_limits":       cov.cut,
		"input_cases_out_of_domain":       cov.outOfDomain,
		"input_cases_not_query_connected": cov.unconnected,
		"strict_mode_cases":               cov.strictCases,
		"sql_backed_cases":                cov.sqlCases,
		"sql_wide_node_cases":             cov.wideCases,
		"input_cases_with_page_size_1":    cov.pagedCases,
		"two_namespace_cases":             cov.twoNSCases,
		"opl_text_chain_programs":         cov.chainPrograms,
		"opl_text_chain_cases":            cov.chainCases,
		"store_calls_cross_checked":       cov.sqlCalls,
		"ref_allowed":                     cov.allowed,
		"ref_denied":                      cov.denied,
		"schedule_scenarios":              cov.sScen,
		"schedule_executions":             cov.sExecs,
		"schedule_states":                 cov.sStates,
		"max_deviation_bound":             bound,
		"max_tuples":                      nT,
		"max_threads":                     cov.maxThreads,
		"max_configs":                     len(cfgs) + len(strictCfgs),
		"exhaustive":                      cov.complete,
	})
}

// ---- operator chains as OPL text ------------------------------------------------------------------------

type ctree struct {
	op   string // "" (leaf) | "||" | "&&"
	l, r *ctree
	leaf int
	neg  bool
}

func ctrees(lo, hi int) []*ctree {
	if hi-lo == 1 {
		return []*ctree{{leaf: lo}}
	}
	var out []*ctree
	for m := lo + 1; m < hi; m++ {
		for _, l := range ctrees(lo, m) {
			for _, r := range ctrees(m, hi) {
				for _, op := range []string{"||", "&&"} {
					out = append(out, &ctree{op: op, l: l, r: r})
				}
			}
		}
	}
	return out
}

func (t *ctree) eval(a []bool) bool {
	switch t.op {
	case "":
		return a[t.leaf] != t.neg
	case "||":
		return t.l.eval(a) || t.r.eval(a)
	}
	return t.l.eval(a) && t.r.eval(a)
}

// text: minimal parentheses (&& binds tighter than ||; equal operators need none)
func (t *ctree) text(parent string, negLeaf int) string {
	if t.op == "" {
		s := fmt.Sprintf("this.related.%c.includes(ctx.subject)", 'a'+t.leaf)
		if t.leaf == negLeaf {
			s = "!" + s
		}
		return s
	}
	s := t.l.text(t.op, negLeaf) + " " + t.op + " " + t.r.text(t.op, negLeaf)
	if parent == "&&" && t.op == "||" {
		s = "(" + s + ")"
	}
	return s
}

func (t *ctree) setNeg(negLeaf int) {
	if t.op == "" {
		t.neg = t.leaf == negLeaf
		return
	}
	t.l.setNeg(negLeaf)
	t.r.setNeg(negLeaf)
}

func c01Chains(t *testing.T, run *ev.Run, shard, nshards int) (cases, programs int) {
	seen := map[string]bool{}
	idx := 0
	for _, n := range []int{3, 4} {
		for _, tr := range ctrees(0, n) {
			for negLeaf := -1; negLeaf < n; negLeaf++ {
				expr := tr.text("", negLeaf)
				if seen[expr] {
					continue // (a || b) || c and a || (b || c) are the same text and the same function
				}
				seen[expr] = true
				idx++
				if idx%nshards != shard {
					continue
				}
				tr.setNeg(negLeaf)
				rels := ""
				var astRels []ast.Relation
				for i := 0; i < n; i++ {
					rels += fmt.Sprintf("    %c: U[]\n", 'a'+i)
					astRels = append(astRels, ast.Relation{Name: string(rune('a' + i))})
				}
				opl := "import { Namespace, Context } from \"@ory/keto-namespace-types\"\n\nclass U implements Namespace {}\n\nclass n implements Namespace {\n  related: {\n" + rels + "  }\n  permits = {\n    p: (ctx: Context): boolean => " + expr + ",\n  }\n}\n"
				nss := []*namespace.Namespace{{Name: "U"}, {Name: "n", Relations: astRels}}
				w := NewWorld(t, WorldOpt{Namespaces: nss, OPL: opl, Depth: 50}) // (nested operators consume depth)
				programs++
				for m := 0; m < 1<<n; m++ {
					a := make([]bool, n)
					var ts []refsem.Tuple
					for i := 0; i < n; i++ {
						if m>>i&1 == 1 {
							a[i] = true
							ts = append(ts, tid("o", string(rune('a'+i)), "u"))
						}
					}
					o := w.RunCheck(w.Rows(ts), w.Internal(tid("o", "p", "u")), vsched.Config{FastBase: true}, RunOpt{})
					cases++
					want := tr.eval(a)
					if o.Cut {
						continue // answers cut short by a limit are C02's subject
					}
					if o.X.Outcome != "ok" || o.Res.Err != nil || (o.Res.Membership == checkgroup.IsMember) != want {
						run.Violation("opl-text-chain:decision-differs-from-typescript-reading", fmt.Sprintf("permission p = %s with direct tuples %s: check o#p@u answers %s (err %v, %s); the expression evaluates to %v", expr, tuplesStr(ts), memb(o.Res), o.Res.Err, o.X.Outcome, want), map[string]any{"family": "opl-text-chain", "expression": expr, "opl": opl, "tuples": tuplesStr(ts)})
						break
					}
				}
			}
		}
	}
	return cases, programs
}

func c01TwoNamespaces(t *testing.T, run *ev.Run, shard, nshards int) int {
	if shard != 2%nshards {
		return 0
	}
	nss := []*namespace.Namespace{{Name: "n", Relations: []ast.Relation{{Name: "a"}}}, {Name: "m", Relations: []ast.Relation{{Name: "a"}}}}
	w := NewWorld(t, WorldOpt{Namespaces: nss, Depth: 8})
	type node struct{ ns, obj string }
	nodes := []node{{"n", "o1"}, {"m", "o1"}, {"n", "o2"}, {"m", "o2"}}
	var univ []refsem.Tuple
	for _, src := range nodes {
		univ = append(univ, refsem.Tuple{NS: src.ns, Obj: src.obj, Rel: "a", ID: "u"})
		for _, dst := range nodes {
			univ = append(univ, refsem.Tuple{NS: src.ns, Obj: src.obj, Rel: "a", Set: &refsem.SS{NS: dst.ns, Obj: dst.obj, Rel: "a"}})
		}
	}
	q := refsem.Tuple{NS: "n", Obj: "o1", Rel: "a", ID: "u"}
	cases := 0
	reported := false
	try := func(ts []refsem.Tuple) {
		ref := refsem.Check(w.Cfg, ts, q)
		if !ref.InDomain || ref.Untouched > 0 {
			return // not connected to the query / outside the reference's domain
		}
		for _, rev := range []bool{false, true} {
			rows := ts
			if rev {
				rows = make([]refsem.Tuple, len(ts))
				for i := range ts {
					rows[len(ts)-1-i] = ts[i]
				}
			}
			o := w.RunCheck(w.Rows(rows), w.Internal(q), vsched.Config{FastBase: true}, RunOpt{})
			cases++
			if o.Cut || reported {
				continue
			}
			if o.X.Outcome != "ok" || o.Res.Err != nil || (o.Res.Membership == checkgroup.IsMember) != ref.Allowed {
				reported = true
				run.Violation("two-namespaces:decision-differs-from-reference", fmt.Sprintf("rows %s: check %s answers %s (err %v, %s), the reference says allowed=%v", tuplesStr(rows), q, memb(o.Res), o.Res.Err, o.X.Outcome, ref.Allowed), map[string]any{"family": "two-namespaces", "tuples_in_row_order": tuplesStr(rows), "query": q.String()})
			}
			if len(ts) < 2 {
				break
			}
		}
	}
	n := len(univ)
	for a := 0; a < n; a++ {
		try([]refsem.Tuple{univ[a]})
		for b := a + 1; b < n; b++ {
			try([]refsem.Tuple{univ[a], univ[b]})
			for c := b + 1; c < n; c++ {
				try([]refsem.Tuple{univ[a], univ[b], univ[c]})
				// (four tuples: a membership found on the first hop never needs the visited set)
				for d := c + 1; d < n; d++ {
					try([]refsem.Tuple{univ[a], univ[b], univ[c], univ[d]})
				}
			}
		}
	}
	return cases
}

package sched

import (
	"context"
	"encoding/json"
	"fmt"
	"testing"

	"github.com/ory/keto/internal/driver/config"
	"github.com/ory/keto/internal/namespace"
	"github.com/ory/keto/internal/namespace/ast"
	"github.com/ory/keto/verif/refsem"
)

// Scn is one closed scenario: configuration, stored rows (in row order), query.
type Scn struct {
	Cfg    *CfgSpec
	Graph  string
	Tuples []refsem.Tuple
	Query  refsem.Tuple
	Bound2 bool
}

func (s *Scn) String() string {
	return fmt.Sprintf("{%s | %s: %s | q=%s}", s.Cfg.Name, s.Graph, tuplesStr(s.Tuples), s.Query)
}

func (s *Scn) Replay() map[string]any {
	return map[string]any{"cfgref": s.Cfg.Ref, "tuples": s.Tuples, "q": s.Query, "config": s.Cfg.Name, "opl": refsem.RenderOPL(s.Cfg.NS), "strict": s.Cfg.Strict, "tuples_in_row_order": tuplesStr(s.Tuples), "query": s.Query.String()}
}

// graphs: small tuple sets that force the mechanisms named in the anchors
// (subject-set indirection, cycles, traverse with parent cycle, two operands
// meeting at a common subject set below an enclosing expansion, duplicates).
func graphs() map[string][]refsem.Tuple {
	return map[string][]refsem.Tuple{
		"direct":   {tid("o1", "a", "u"), tid("o1", "b", "u")},
		"chain":    {tss("o1", "a", "o2", "a"), tid("o2", "a", "u"), tid("o1", "b", "v")},
		"cycle":    {tss("o1", "a", "o2", "a"), tss("o2", "a", "o1", "a"), tid("o1", "b", "u")},
		"parents":  {tss("o1", "a", "o2", ""), tid("o2", "b", "u"), tss("o2", "a", "o1", "")},
		"shared":   {tss("o1", "a", "o2", "p"), tss("o1", "b", "o1", "a"), tss("o1", "b", "o1", "p")},
		"deepdup":  {tss("o1", "a", "o2", "b"), tss("o1", "b", "o2", "b"), tss("o2", "b", "o3", "a"), tid("o3", "a", "u"), tid("o3", "a", "u")},
		"none":     {tid("o2", "a", "u"), tid("o1", "b", "v")},
		// two parents under the traversed relation; the subject is reachable only through the FIRST
		// parent and there only through a subject-set indirection (pagination with page size 1 needs it too)
		"twoparents": {tss("o1", "a", "o2", ""), tss("o1", "a", "o3", ""), tss("o2", "b", "g1", "b"), tss("o2", "p", "g1", "b"), tid("g1", "b", "u")},
		// ... and only through the SECOND parent (the deciding row sits on the second listing page)
		"twoparents2": {tss("o1", "a", "o3", ""), tss("o1", "a", "o2", ""), tss("o2", "b", "g1", "b"), tss("o2", "p", "g1", "b"), tid("g1", "b", "u")},
	}
}

var graphOrder = []string{"direct", "chain", "cycle", "parents", "shared", "deepdup", "none", "twoparents", "twoparents2"}

// sCatalogue: every expression with <= k leaves over the leaf kinds x graphs x queries, default mode
// (untyped literal namespaces), without recursion through `not`.
func sCatalogue(k int, leaves []int) []*Scn { return sCatalogueOpt(k, leaves, false) }

// withRecNeg also includes permissions that recurse through `!` (no defined meaning, but a check on
// them must still terminate and release its goroutines)
func sCatalogueOpt(k int, leaves []int, withRecNeg bool) []*Scn {
	gs := graphs()
	var out []*Scn
	for _, cfg := range cfgCatalogueOpt(k, leaves, 0, false, withRecNeg) {
		for _, gname := range graphOrder {
			out = append(out, &Scn{Cfg: cfg, Graph: gname, Tuples: gs[gname], Query: tid("o1", "p", "u")})
			if gname == "shared" {
				out = append(out, &Scn{Cfg: cfg, Graph: gname, Tuples: gs[gname], Query: tid("o1", "b", "u")})
			}
		}
	}
	return out
}

// cfgCatalogue: every expression with <= k leaves over the leaf kinds, without recursion through `not`.
func cfgCatalogue(k int, leaves []int, typed int, strict bool) []*CfgSpec {
	return cfgCatalogueOpt(k, leaves, typed, strict, false)
}

func cfgCatalogueOpt(k int, leaves []int, typed int, strict bool, withRecNeg bool) []*CfgSpec {
	var out []*CfgSpec
	for n := 1; n <= k; n++ {
		ref := CfgRef{Leaves: leaves, N: n, Typed: typed, Strict: strict}
		cnt := len(exprs(n, leaves, memoFor(leaves)))
		for i := 0; i < cnt; i++ {
			ref.Idx = i
			c := ref.Resolve()
			if c.Expr.recNeg(false) && !withRecNeg {
				continue
			}
			out = append(out, c)
		}
	}
	return out
}

func memoFor(leaves []int) map[int][]*Expr {
	k := fmt.Sprint(leaves)
	if exprMemo[k] == nil {
		exprMemo[k] = map[int][]*Expr{}
	}
	return exprMemo[k]
}

// SetNamespaces swaps the literal namespaces of a (non-strict) world at run time.
func (w *World) SetNamespaces(t testing.TB, nss []*namespace.Namespace) {
	ctx := context.Background()
	if err := w.Reg.Config(ctx).Set(config.KeyNamespaces, nss); err != nil {
		t.Fatalf("INFRA: set namespaces: %v", err)
	}
	nm, err := w.Reg.Config(ctx).NamespaceManager()
	if err != nil {
		t.Fatalf("INFRA: namespace manager: %v", err)
	}
	got, err := nm.Namespaces(ctx)
	if err != nil || len(got) != len(nss) {
		t.Fatalf("INFRA: served namespaces %d != %d (%v)", len(got), len(nss), err)
	}
	w.Cfg = &refsem.Config{Namespaces: got, Strict: false}
	if relJSON(got) != relJSON(nss) {
		t.Fatalf("INFRA: served namespaces differ from configured ones:\n%s\n%s", relJSON(got), relJSON(nss))
	}
}

func relJSON(nss []*namespace.Namespace) string {
	type nsj struct {
		Name      string
		Relations []ast.Relation
	}
	var out []nsj
	for _, n := range nss {
		out = append(out, nsj{n.Name, n.Relations})
	}
	b, _ := json.Marshal(out)
	return string(b)
}

package sched

import (
	"encoding/json"
	"fmt"
	"os"
	"testing"

	"github.com/ory/keto/verif/memstore"
	"github.com/ory/keto/verif/refsem"
	"github.com/ory/keto/verif/vsched"
)

// TestSchedReplay re-runs exactly one recorded execution (./check Cxx quick --replay <file>) and
// prints its operation trace: configuration, rows in row order, query, limits, fault plan and the
// scheduler's choice list come from the replay file.
func TestSchedReplay(t *testing.T) {
	path := os.Getenv("VERIF_REPLAY")
	if path == "" {
		t.Skip("used by ./check --replay")
	}
	b, err := os.ReadFile(path)
	if err != nil {
		t.Fatal(err)
	}
	var doc struct {
		Property  string
		Signature string
		What      string
		Replay    struct {
			Cfgref       *CfgRef
			Tuples       []refsem.Tuple
			Q            *refsem.Tuple
			Cand         *Cand
			Choices      []int
			Mode         string
			FailCall     int  `json:"fail_call"`
			Persistent   bool `json:"persistent"`
			GlobalDepth  int  `json:"global_depth"`
			RequestDepth int  `json:"request_depth"`
			SelectOrder  int  `json:"select_order"`
			PageSize     int  `json:"page_size"`
		}
	}
	if err := json.Unmarshal(b, &doc); err != nil {
		t.Fatal(err)
	}
	r := doc.Replay
	if r.Cand != nil {
		r.Cfgref, r.Tuples, r.Q, r.Choices = &r.Cand.Cfg, r.Cand.Tuples, &r.Cand.Query, r.Cand.Choices
		r.GlobalDepth, r.RequestDepth = r.Cand.Depth, r.Cand.ReqDepth
	}
	if r.Cfgref == nil || r.Q == nil {
		fmt.Printf("REPLAY: %s has no replayable scenario (signature %s): %s\n", path, doc.Signature, doc.What)
		return
	}
	cfg := r.Cfgref.Resolve()
	depth := r.GlobalDepth
	if depth == 0 {
		depth = 5
	}
	w := NewWorld(t, WorldOpt{Namespaces: cfg.NS, Strict: cfg.Strict, Depth: depth})
	ro := RunOpt{ReqDepth: r.RequestDepth}
	if r.FailCall > 0 {
		ro.Fault = memstore.FaultPlan{At: r.FailCall, Persistent: r.Persistent}
	}
	if r.Mode == "cancel" || r.Mode == "hang-after-cancel" {
		ro.Canceller, ro.HangAfterCancel = true, true
	}
	if r.Mode == "cancelled-then-again" {
		ro.Canceller, ro.Again = true, true
	}
	ro.PageSize = r.PageSize
	ref := refsem.Check(w.Cfg, r.Tuples, *r.Q)
	o := w.RunCheck(w.Rows(r.Tuples), w.Internal(*r.Q), vsched.Config{Prefix: r.Choices, Trace: true, SelectOrder: r.SelectOrder}, ro)
	fmt.Printf("REPLAY property=%s signature=%s\n  %s\n  config: %s\n  rows: %s\n  query: %s\n", doc.Property, doc.Signature, doc.What, cfg.Name, tuplesStr(r.Tuples), r.Q)
	fmt.Printf("  reference: allowed=%v in-domain=%v\n  engine: %s cut=%v outcome=%s leaked=%v store-calls=%d\n", ref.Allowed, ref.InDomain, memb(o.Res), o.Cut, o.X.Outcome, o.X.Leaked, o.Calls)
	fmt.Print(o.X.TraceString())
}

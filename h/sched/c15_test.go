package sched

import (
	"context"
	"encoding/json"
	"fmt"
	"os"
	"os/exec"
	"runtime/debug"
	"strings"
	"sync"
	"syscall"
	"testing"

	"github.com/ory/keto/verif/ev"
	"github.com/ory/keto/verif/memstore"
	"github.com/ory/keto/verif/vsched"
)

// leakSig: structural signature of a leaked goroutine = where it was spawned
// and what it is blocked on (operation kind only; channel names vary).
func leakSig(x *vsched.Execution) string {
	var s []string
	seen := map[string]bool{}
	for _, l := range x.Leaked {
		// "<id>@<site>:<op> ..." -> "<site>:<opkind>"
		at := strings.Index(l, "@")
		rest := l[at+1:]
		f := strings.Fields(rest)
		k := f[0]
		if !seen[k] {
			seen[k] = true
			s = append(s, k)
		}
	}
	return strings.Join(s, ",")
}

// TestC15: every check terminates, honours cancellation and releases its goroutines.
func TestC15(t *testing.T) {
	run := ev.New("C15", "model_checking")
	shard, nshards, child := ev.Shard()
	if !child {
		// self-referential permissions can recurse while the check is still being constructed (no
		// scheduling point, unbounded memory): try each such configuration in a throw-away child
		// process first; the workers do not explore configurations whose probe died
		var bad []string
		{
			leaves := []int{LIncA, LTrvAP, LPermP}
			if ev.Thorough() {
				leaves = []int{LIncA, LIncB, LTrvAP, LTrvAB, LPermQ, LPermP}
			}
			var cfgs []*CfgSpec
			for _, c := range cfgCatalogueOpt(2, leaves, 0, false, true) {
				if c.Expr.usesLeaf(LPermP) {
					cfgs = append(cfgs, c)
				}
			}
			res := make([]bool, len(cfgs))
			var wg sync.WaitGroup
			sem := make(chan struct{}, ev.Workers())
			for i, c := range cfgs {
				wg.Add(1)
				go func(i int, c *CfgSpec) {
					defer wg.Done()
					sem <- struct{}{}
					res[i] = probeConfig(c)
					<-sem
				}(i, c)
			}
			wg.Wait()
			for i, c := range cfgs {
				if !res[i] {
					bad = append(bad, c.Name)
					run.Violation("unbounded-recursion-while-constructing-the-check", fmt.Sprintf("a check under %s makes the process die or stall without reaching a scheduling point (self-referential permission)", c.Name), map[string]any{"cfgref": c.Ref, "config": c.Name})
				}
			}
			os.Setenv("VERIF_C15_SKIP", strings.Join(bad, "\n"))
			defer func(n int) { fmt.Printf("[c15] %d self-referential configurations probed, %d died\n", n, len(bad)) }(len(cfgs))
		}
		cov := run.RunShards("TestC15", ev.Workers())
		run.Assume("schedules explored at visible-operation granularity (channel, select, mutex, spawn, cancel, storage call); sequentially consistent",
			"storage = in-memory stand-in bound to the SQL persister by the C01 conformance comparison",
			"termination is judged by the scheduler (quiescence / deadlock / step horizon), never by wall-clock time")
		run.Finish(cov)
		return
	}
	bound := 1
	k := 2
	deadline := ev.Deadline(330, 1500)
	leaves := []int{LIncA, LTrvAP, LPermP}
	if ev.Thorough() {
		leaves = []int{LIncA, LIncB, LTrvAP, LTrvAB, LPermQ, LPermP}
	}
	// termination is demanded of every accepted configuration, also those without a defined meaning
	scns := sCatalogueOpt(k, leaves, true)
	if ev.Thorough() {
		// second pass: the quick catalogue again at deviation bound 2 (as far as the time cap allows)
		for _, sc := range sCatalogue(k, []int{LIncA, LIncB, LTrvAP}) {
			c := *sc
			c.Bound2 = true
			scns = append(scns, &c)
		}
	}
	gdepth := 4 // small global depth keeps recursive-traverse / self-reference cycles small (keto's default is 5)
	if ev.Thorough() {
		gdepth = 5
	}
	w := NewWorld(t, WorldOpt{Namespaces: scns[0].Cfg.NS, Depth: gdepth})
	var lastCfg *CfgSpec
	skip := map[string]bool{}
	for _, n := range strings.Split(os.Getenv("VERIF_C15_SKIP"), "\n") {
		skip[n] = true
	}
	cov := struct {

		scenarios, heavy, bound2, execs, trans, states, faultRuns, hangRuns, maxThreads, maxCalls, leaks, cancelledRuns, againRuns, pageRuns int
		complete                                                                                         bool
		outcomes                                                                                         map[string]int
	}{complete: true, outcomes: map[string]int{}}

	oracle := func(sc *Scn, what string, o CheckOut, plan map[string]any) {
		x := o.X
		if x.Outcome == "diverged" {
			fatalInfra("schedule replay diverged in %s", sc)
		}
		cov.outcomes[memb(o.Res)]++
		rep := sc.Replay()
		rep["mode"] = what
		rep["choices"] = x.Choices
		rep["global_depth"] = gdepth
		for k, v := range plan {
			rep[k] = v
		}
		switch {
		case x.Outcome == "deadlock":
			run.Violation("hang:"+leakSig(x), fmt.Sprintf("check never returns (%s) in %s; blocked: %v", what, sc, x.Leaked), rep)
		case x.Outcome == "horizon":
			run.Violation("horizon", fmt.Sprintf("check exceeds %d scheduling steps (%s) in %s", x.Steps, what, sc), rep)
		case x.Outcome == "panic":
			run.Violation("panic", fmt.Sprintf("panic (%s) in %s: %s", what, sc, x.PanicMsg), rep)
		case len(x.Leaked) > 0:
			cov.leaks++
			run.Violation("leak:"+leakSig(x), fmt.Sprintf("goroutines remain after the check returned and its context was released (%s) in %s: %v", what, sc, x.Leaked), rep)
		}
		if o.Calls > cov.maxCalls {
			cov.maxCalls = o.Calls
		}
	}

	light := 0
	for _, sc := range scns {
		if deadlinePassed(deadline) {
			cov.complete = false
			break
		}
		if sc.Cfg != lastCfg {
			if skip[sc.Cfg.Name] {
				continue
			}
			w.SetNamespaces(t, sc.Cfg.NS)
			lastCfg = sc.Cfg
		}
		rows := w.Rows(sc.Tuples)
		q := w.Internal(sc.Query)
		// load balancing: a scenario whose base execution is long is explored by all worker
		// processes together (each takes its share of the level-1 subtrees of the schedule
		// tree); short ones are dealt round-robin.
		probe := w.RunCheck(rows, q, vsched.Config{}, RunOpt{Canceller: true, HangAfterCancel: true})
		heavy := probe.X.Steps > 400 || sc.Bound2
		eshard, enshards := 0, 1
		if heavy {
			eshard, enshards = shard, nshards
			cov.heavy++
		} else {
			light++
			if light%nshards != shard {
				continue
			}
		}
		if !heavy || shard == 0 {
			cov.scenarios++
		}
		// (i) all schedules to the deviation bound, with a canceller whose cancel() lands at every point
		b := bound
		if sc.Bound2 {
			b = 2
			cov.bound2++
		}
		e := &vsched.Explore{Bound: b, Count: true, Deadline: deadline, Shard: eshard, NShards: enshards}
		var last CheckOut
		e.Run(func(c vsched.Config) *vsched.Execution {
			// (iv) hung storage: after the cancel, storage calls whose own context is not cancelled never complete
			last = w.RunCheck(rows, q, c, RunOpt{Canceller: true, HangAfterCancel: true})
			return last.X
		}, func(x *vsched.Execution) bool {
			if last.Res.Err != nil {
				cov.cancelledRuns++
			}
			oracle(sc, "cancel", last, nil)
			return true
		})
		cov.execs += e.Execs
		cov.trans += e.Transitions
		cov.states += len(e.States)
		if e.MaxThreads > cov.maxThreads {
			cov.maxThreads = e.MaxThreads
		}
		if !e.Complete {
			cov.complete = false
		}
		// (v) a later check after a cancelled one: whatever the cancelled check leaves behind (pooled objects,
		// stragglers) must not keep the next check - fresh context, nobody cancels it - from returning
		// (scenarios with short executions: the long ones repeat the same operators on longer chains)
		if !sc.Bound2 && !heavy && (ev.Thorough() || (light/nshards)%6 == 0) { // quick: every sixth of them
			// (both canonical picks among the ready cases of a select: after the cancel, "result is there" and
			// "context is done" are ready together, and Go picks at random)
			for _, so := range []int{0, 1} {
				ae := &vsched.Explore{Bound: bound, Deadline: deadline, Shard: eshard, NShards: enshards, SelectOrder: so}
				ae.Run(func(c vsched.Config) *vsched.Execution {
					last = w.RunCheck(rows, q, c, RunOpt{Canceller: true, Again: true})
					return last.X
				}, func(x *vsched.Execution) bool {
					cov.againRuns++
					oracle(sc, "cancelled-then-again", last, map[string]any{"select_order": so})
					if x.Outcome == "ok" && last.Res2.Err != nil {
						rep := sc.Replay()
						rep["mode"], rep["choices"], rep["global_depth"], rep["select_order"] = "cancelled-then-again", x.Choices, gdepth, so
						run.Violation("later-check-fails-after-cancelled-check", fmt.Sprintf("a check issued after a cancelled check returned fails although nobody cancelled it: %v in %s", last.Res2.Err, sc), rep)
					}
					return true
				})
				cov.execs += ae.Execs
				cov.trans += ae.Transitions
				if !ae.Complete {
					cov.complete = false
				}
			}
		}
		if sc.Bound2 || (heavy && shard != 0) {
			continue
		}
		// (vi) listings paged one row at a time: every traverse over two parents needs several pages; the number
		// of storage operations stays bounded (step horizon) also then, and with a failing call at every position
		if sc.Cfg.Expr.usesTraverse() {
			pb := w.RunCheck(rows, q, vsched.Config{}, RunOpt{PageSize: 1})
			cov.pageRuns++
			oracle(sc, "page-size-1", pb, map[string]any{"page_size": 1})
			if pb.X.Outcome == "ok" {
				for pos := 1; pos <= pb.Calls; pos++ {
					plan := memstore.FaultPlan{At: pos}
					last = w.RunCheck(rows, q, vsched.Config{}, RunOpt{Fault: plan, PageSize: 1})
					cov.pageRuns++
					oracle(sc, "page-size-1-fault", last, map[string]any{"fail_call": pos, "page_size": 1})
				}
			}
		}
		if cov.scenarios <= 2 && shard < 2 {
			run.Sample(map[string]any{"scenario": sc.Replay(), "explored": fmt.Sprintf("%d executions, bound %d, canceller thread", e.Execs, b)})
		}
		// (ii) every failing storage-call position x {transient, persistent}, base schedule (+ bound 1 when thorough)
		base := w.RunCheck(rows, q, vsched.Config{}, RunOpt{})
		n := base.Calls
		for pos := 1; pos <= n; pos++ {
			for _, pers := range []bool{false, true} {
				plan := memstore.FaultPlan{At: pos, Persistent: pers}
				fb := 0
				if ev.Thorough() {
					fb = 1
				}
				fe := &vsched.Explore{Bound: fb, Deadline: deadline}
				fe.Run(func(c vsched.Config) *vsched.Execution {
					last = w.RunCheck(rows, q, c, RunOpt{Fault: plan})
					return last.X
				}, func(x *vsched.Execution) bool {
					cov.faultRuns++
					oracle(sc, "fault", last, map[string]any{"fail_call": pos, "persistent": pers})
					return true
				})
				cov.execs += fe.Execs
				cov.trans += fe.Transitions
			}
		}
		// (iv') thorough: the same exploration with storage that completes normally after the cancel
		if ev.Thorough() {
			he := &vsched.Explore{Bound: 1, Deadline: deadline}
			he.Run(func(c vsched.Config) *vsched.Execution {
				last = w.RunCheck(rows, q, c, RunOpt{Canceller: true})
				return last.X
			}, func(x *vsched.Execution) bool {
				cov.hangRuns++
				oracle(sc, "cancel-storage-completes", last, nil)
				return true
			})
			cov.execs += he.Execs
			cov.trans += he.Transitions
		}
	}
	_ = context.Background
	run.FinishPart(map[string]any{
		"states":                        cov.states,
		"transitions":                   cov.trans,
		"traces_validated_against_impl": cov.execs,
		"scenarios":                     cov.scenarios,
		"scenarios_at_bound_2":          cov.bound2,
		"max_scenarios_split_across_workers": cov.heavy,
		"executions":                    cov.execs,
		"fault_runs":                    cov.faultRuns,
		"cancel_runs_storage_completing": cov.hangRuns,
		"cancelled_runs":                cov.cancelledRuns,
		"cancelled_then_again_runs":     cov.againRuns,
		"page_size_1_runs":              cov.pageRuns,
		"max_threads":                   cov.maxThreads,
		"max_store_calls":               cov.maxCalls,
		"deviation_bound":               bound,
		"leaf_bound":                    k,
		"exhaustive":                    cov.complete,
		"max_catalogue_size":            len(scns),
		"max_global_depth":              gdepth,
	})
}


// probeConfig runs one base-schedule check per graph under cfg in a child process with a small stack
// and address-space limit; false if the child does not finish.
func probeConfig(cfg *CfgSpec) bool {
	b, _ := json.Marshal(cfg.Ref)
	cmd := exec.Command(os.Args[0], "-test.run", "^TestC15Probe$", "-test.timeout", "60s")
	cmd.Env = append(os.Environ(), "VERIF_PROBE_CFG="+string(b), "VERIF_SHARD=", "GOMAXPROCS=1")
	out, err := cmd.CombinedOutput()
	return err == nil && strings.Contains(string(out), "PROBE-OK")
}

func TestC15Probe(t *testing.T) {
	js := os.Getenv("VERIF_PROBE_CFG")
	if js == "" {
		t.Skip("child of TestC15")
	}
	debug.SetMaxStack(64 << 20)
	var lim syscall.Rlimit
	lim.Cur, lim.Max = 3<<30, 3<<30
	_ = syscall.Setrlimit(syscall.RLIMIT_AS, &lim)
	var ref CfgRef
	if err := json.Unmarshal([]byte(js), &ref); err != nil {
		t.Fatal(err)
	}
	cfg := ref.Resolve()
	w := NewWorld(t, WorldOpt{Namespaces: cfg.NS, Depth: 5})
	for _, g := range graphOrder {
		w.RunCheck(w.Rows(graphs()[g]), w.Internal(tid("o1", "p", "u")), vsched.Config{FastBase: true}, RunOpt{})
	}
	fmt.Println("PROBE-OK")
}

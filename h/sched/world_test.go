package sched

import (
	"context"
	"encoding/base64"
	"fmt"
	"io"
	"os"
	"strings"
	"sync"
	"testing"
	"time"

	"github.com/gofrs/uuid"
	"github.com/sirupsen/logrus"

	"github.com/ory/keto/internal/check"
	"github.com/ory/keto/internal/check/checkgroup"
	"github.com/ory/keto/internal/driver"
	"github.com/ory/keto/internal/driver/config"
	"github.com/ory/keto/internal/namespace"
	"github.com/ory/keto/internal/persistence"
	"github.com/ory/keto/internal/relationtuple"
	"github.com/ory/keto/internal/x"
	"github.com/ory/keto/verif/memstore"
	"github.com/ory/keto/verif/refsem"
	"github.com/ory/keto/verif/vsched"
)

// cutHook records whether the engine logged that it cut the evaluation short
// (the observable definition of "a limit was binding").
type cutHook struct {
	mu    sync.Mutex
	depth int
	width int
}

func (h *cutHook) Levels() []logrus.Level { return []logrus.Level{logrus.DebugLevel} }
func (h *cutHook) Fire(e *logrus.Entry) error {
	h.mu.Lock()
	defer h.mu.Unlock()
	if strings.Contains(e.Message, "reached max-depth") {
		h.depth++
	} else if strings.Contains(e.Message, "too many results") {
		h.width++
	}
	return nil
}
func (h *cutHook) reset()    { h.mu.Lock(); h.depth, h.width = 0, 0; h.mu.Unlock() }
func (h *cutHook) cut() bool { h.mu.Lock(); defer h.mu.Unlock(); return h.depth+h.width > 0 }

type nullFormatter struct{}

func (nullFormatter) Format(*logrus.Entry) ([]byte, error) { return nil, nil }

// deps is the real registry (config, namespace manager, logger, tracer) with
// storage replaced by the in-memory store.
type deps struct {
	*driver.RegistryDefault
	ms     *memstore.Store
	names  *memstore.Names
	mapper *relationtuple.Mapper
	ro     *relationtuple.Mapper
}

func (d *deps) RelationTupleManager() relationtuple.Manager    { return d.ms }
func (d *deps) Traverser() relationtuple.Traverser             { return d.ms }
func (d *deps) MappingManager() relationtuple.MappingManager   { return d.names }
func (d *deps) Mapper() *relationtuple.Mapper                  { return d.mapper }
func (d *deps) ReadOnlyMapper() *relationtuple.Mapper          { return d.ro }
func (d *deps) Persister() persistence.Persister               { return d.RegistryDefault.Persister() }
func (d *deps) Config(ctx context.Context) *config.Config      { return d.RegistryDefault.Config(ctx) }
func (d *deps) NetworkID(ctx context.Context) uuid.UUID        { return uuid.Nil }

type World struct {
	Reg   *driver.RegistryDefault
	Store *memstore.Store
	Names *memstore.Names
	Eng   *check.Engine
	SQLEng *check.Engine
	Cut   *cutHook
	Cfg   *refsem.Config
	Depth, Width int
}

type WorldOpt struct {
	Namespaces []*namespace.Namespace
	Strict     bool
	OPL        string // when set (or Strict), namespaces come from this OPL text
	Depth      int
	Width      int
}

func NewWorld(t testing.TB, o WorldOpt) *World {
	if o.Depth == 0 {
		o.Depth = 50
	}
	if o.Width == 0 {
		o.Width = 100
	}
	opts := []driver.TestRegistryOption{
		driver.WithLogLevel("debug"),
		driver.WithConfig(config.KeyLimitMaxReadDepth, o.Depth),
		driver.WithConfig(config.KeyLimitMaxReadWidth, o.Width),
	}
	if o.Strict || o.OPL != "" {
		opl := o.OPL
		if opl == "" {
			opl = refsem.RenderOPL(o.Namespaces)
		}
		// base64:// locations are decoded locally and not watched (a file:// location costs one
		// inotify instance per registry, and the sandbox allows 128)
		opts = append(opts, driver.WithConfig(config.KeyNamespaces+".location", "base64://"+base64.StdEncoding.EncodeToString([]byte(opl))))
		if o.Strict {
			opts = append(opts, driver.WithConfig(config.KeyNamespacesExperimentalStrictMode, true))
		}
	} else {
		opts = append(opts, driver.WithNamespaces(o.Namespaces))
	}
	reg := driver.NewSqliteTestRegistry(t, false, opts...)
	reg.Logger().Logger.SetOutput(io.Discard)
	reg.Logger().Logger.SetFormatter(nullFormatter{})
	reg.Logger().Logger.SetLevel(logrus.DebugLevel)
	hook := &cutHook{}
	reg.Logger().Logger.AddHook(hook)
	w := &World{Reg: reg, Names: memstore.NewNames(), Cut: hook, Depth: o.Depth, Width: o.Width}
	w.Store = memstore.New(reg)
	d := &deps{RegistryDefault: reg, ms: w.Store, names: w.Names}
	d.mapper = &relationtuple.Mapper{D: d}
	d.ro = &relationtuple.Mapper{D: d, ReadOnly: true}
	w.Eng = check.NewEngine(d)
	w.SQLEng = check.NewEngine(reg)
	// the namespaces keto actually serves (after parsing, for OPL) are what the reference uses
	nm, err := reg.Config(context.Background()).NamespaceManager()
	if err != nil {
		t.Fatalf("namespace manager: %v", err)
	}
	nss, err := nm.Namespaces(context.Background())
	if err != nil {
		t.Fatalf("namespaces: %v", err)
	}
	if len(nss) != len(o.Namespaces) {
		t.Fatalf("INFRA: keto serves %d namespaces, configured %d (strict=%v)\n%s", len(nss), len(o.Namespaces), o.Strict, refsem.RenderOPL(o.Namespaces))
	}
	if reg.Config(context.Background()).StrictMode() != o.Strict {
		t.Fatalf("INFRA: strict mode not applied")
	}
	w.Cfg = &refsem.Config{Namespaces: o.Namespaces, Strict: o.Strict}
	return w
}

func (w *World) internalSubject(t refsem.Tuple) relationtuple.Subject {
	if t.Set != nil {
		return &relationtuple.SubjectSet{Namespace: t.Set.NS, Object: w.Names.ID(t.Set.Obj), Relation: t.Set.Rel}
	}
	return &relationtuple.SubjectID{ID: w.Names.ID(t.ID)}
}

func (w *World) Internal(t refsem.Tuple) *relationtuple.RelationTuple {
	return &relationtuple.RelationTuple{Namespace: t.NS, Object: w.Names.ID(t.Obj), Relation: t.Rel, Subject: w.internalSubject(t)}
}

func (w *World) Rows(ts []refsem.Tuple) []*relationtuple.RelationTuple {
	out := make([]*relationtuple.RelationTuple, len(ts))
	for i, t := range ts {
		out[i] = w.Internal(t)
	}
	return out
}

type CheckOut struct {
	X      *vsched.Execution
	Res    checkgroup.Result
	Res2   checkgroup.Result // RunOpt.Again
	Cut    bool
	Calls  int
	Faults int
}

func memb(r checkgroup.Result) string {
	s := "unknown"
	switch r.Membership {
	case checkgroup.IsMember:
		s = "allowed"
	case checkgroup.NotMember:
		s = "denied"
	}
	if r.Err != nil {
		s += "+err"
	}
	return s
}

type RunOpt struct {
	ReqDepth   int
	Fault      memstore.FaultPlan
	Canceller  bool // an environment thread that cancels the request context at any point
	HangAfterCancel bool
	Visible    bool
	PageSize   int // page size of the in-memory store's listings (0 = 100 as in SQL)
	Again      bool // after the (possibly cancelled) check returned and its context was released, the same check is
	// issued once more with a fresh context that nobody cancels (CheckOut.Res2)
}

// RunCheck executes one check of q on rows under the scheduler with the given choice prefix.
func (w *World) RunCheck(rows []*relationtuple.RelationTuple, q *relationtuple.RelationTuple, vc vsched.Config, ro RunOpt) CheckOut {
	w.Store.Reset(rows)
	w.Store.PageSize = 100
	if ro.PageSize > 0 {
		w.Store.PageSize = ro.PageSize
	}
	w.Store.Fault = ro.Fault
	w.Store.Visible = ro.Visible || ro.Canceller
	w.Cut.reset()
	var out CheckOut
	cancelled := false
	if ro.HangAfterCancel {
		w.Store.Hang = func() bool { return cancelled }
	}
	out.X = vsched.Run(vc, func() {
		ctx, cancel := vsched.WithCancel(context.Background())
		if ro.Canceller {
			vsched.GoEnv("canceller", func() { cancel(); cancelled = true })
		}
		out.Res = w.Eng.CheckRelationTuple(ctx, q, ro.ReqDepth)
		cancel() // release the request context
		if ro.Again {
			ctx2, cancel2 := vsched.WithCancel(context.Background())
			out.Res2 = w.Eng.CheckRelationTuple(ctx2, q, ro.ReqDepth)
			cancel2()
		}
	})
	out.Cut = w.Cut.cut()
	out.Calls = w.Store.Calls
	out.Faults = w.Store.Faulted
	return out
}

func fatalInfra(format string, a ...any) {
	fmt.Printf("INFRA-ERROR "+format+"\n", a...)
	os.Exit(2)
}

func deadlinePassed(d time.Time) bool { return !d.IsZero() && time.Now().After(d) }

// ---------------------------------------------------------------- SQL-backed runs

type countingDeps struct {
	*driver.RegistryDefault
	calls *int
}

type countingManager struct {
	relationtuple.Manager
	calls *int
}

func (m countingManager) GetRelationTuples(ctx context.Context, q *relationtuple.RelationQuery, o ...x.PaginationOptionSetter) ([]*relationtuple.RelationTuple, string, error) {
	*m.calls++
	return m.Manager.GetRelationTuples(ctx, q, o...)
}
func (m countingManager) ExistsRelationTuples(ctx context.Context, q *relationtuple.RelationQuery) (bool, error) {
	*m.calls++
	return m.Manager.ExistsRelationTuples(ctx, q)
}

type countingTraverser struct {
	relationtuple.Traverser
	calls *int
}

func (m countingTraverser) TraverseSubjectSetExpansion(ctx context.Context, t *relationtuple.RelationTuple) ([]*relationtuple.TraversalResult, error) {
	*m.calls++
	return m.Traverser.TraverseSubjectSetExpansion(ctx, t)
}
func (m countingTraverser) TraverseSubjectSetRewrite(ctx context.Context, t *relationtuple.RelationTuple, c []string) ([]*relationtuple.TraversalResult, error) {
	*m.calls++
	return m.Traverser.TraverseSubjectSetRewrite(ctx, t, c)
}

func (d *countingDeps) RelationTupleManager() relationtuple.Manager {
	return countingManager{d.RegistryDefault.RelationTupleManager(), d.calls}
}
func (d *countingDeps) Traverser() relationtuple.Traverser {
	return countingTraverser{d.RegistryDefault.Traverser(), d.calls}
}

// LoadSQL replaces the stored relationships of the registry's database by rows, with shard_ids
// ascending in row order (shard_id is the order of every listing and traversal).
func (w *World) LoadSQL(t testing.TB, rows []*relationtuple.RelationTuple) {
	ctx := context.Background()
	c := w.Reg.Persister().Connection(ctx)
	if err := c.RawQuery("DELETE FROM keto_relation_tuples").Exec(); err != nil {
		t.Fatalf("INFRA: truncate: %v", err)
	}
	nid := w.Reg.Persister().NetworkID(ctx)
	for i, r := range rows {
		shard := uuid.FromStringOrNil(fmt.Sprintf("00000000-0000-4000-8000-%012d", i+1))
		var sid, ssn, sso, ssr any
		switch s := r.Subject.(type) {
		case *relationtuple.SubjectID:
			sid = s.ID
		case *relationtuple.SubjectSet:
			ssn, sso, ssr = s.Namespace, s.Object, s.Relation
		}
		if err := c.RawQuery("INSERT INTO keto_relation_tuples (shard_id, nid, namespace, object, relation, subject_id, subject_set_namespace, subject_set_object, subject_set_relation, commit_time) VALUES (?, ?, ?, ?, ?, ?, ?, ?, ?, ?)",
			shard, nid, r.Namespace, r.Object, r.Relation, sid, ssn, sso, ssr, time.Now()).Exec(); err != nil {
			t.Fatalf("INFRA: insert: %v", err)
		}
	}
}

// RunCheckSQL runs the instrumented engine over the real SQL persister and traverser.
func (w *World) RunCheckSQL(t testing.TB, rows []*relationtuple.RelationTuple, q *relationtuple.RelationTuple, vc vsched.Config, reqDepth int) CheckOut {
	w.LoadSQL(t, rows)
	w.Cut.reset()
	var out CheckOut
	calls := 0
	eng := check.NewEngine(&countingDeps{w.Reg, &calls})
	out.X = vsched.Run(vc, func() {
		ctx, cancel := vsched.WithCancel(context.Background())
		out.Res = eng.CheckRelationTuple(ctx, q, reqDepth)
		cancel()
	})
	out.Cut = w.Cut.cut()
	out.Calls = calls
	return out
}

// diverged: replaying a recorded choice prefix led to a different set of alternatives. The explorer's
// premise (an execution is a function of its choices) does not hold for the code under test - e.g.
// state survives from one execution to the next, or the code takes decisions from an uncontrolled
// source. That is "not decided" (exit 2), never a property verdict.
func diverged(x *vsched.Execution, where string) bool {
	if x.Outcome != "diverged" {
		return false
	}
	fatalInfra("schedule replay diverged in %s: executions are not a function of the scheduler's choices (state surviving an execution, or an uncontrolled source of nondeterminism)", where)
	return true
}

// Package refsem holds the reference models the checks compare keto against.
// They are written from the documentation (Zanzibar semantics, OPL docs,
// config.schema.json's description of strict mode), share no code with keto and
// are kept boring on purpose.
package refsem

import (
	"fmt"
	"sort"

	"github.com/ory/keto/internal/namespace"
	"github.com/ory/keto/internal/namespace/ast"
)

type SS struct{ NS, Obj, Rel string }

func (s SS) String() string { return fmt.Sprintf("%s:%s#%s", s.NS, s.Obj, s.Rel) }

// Tuple: subject is either ID (Set == nil) or Set.
type Tuple struct {
	NS, Obj, Rel string
	ID           string
	Set          *SS
}

func (t Tuple) Subject() string {
	if t.Set != nil {
		return "(" + t.Set.String() + ")"
	}
	return t.ID
}

func (t Tuple) String() string {
	return fmt.Sprintf("%s:%s#%s@%s", t.NS, t.Obj, t.Rel, t.Subject())
}

type Config struct {
	Namespaces []*namespace.Namespace
	Strict     bool
}

func (c *Config) relation(ns, rel string) (declaredNS bool, r *ast.Relation, undeclared bool) {
	for _, n := range c.Namespaces {
		if n.Name != ns {
			continue
		}
		if len(n.Relations) == 0 {
			return true, nil, false
		}
		for i := range n.Relations {
			if n.Relations[i].Name == rel {
				return true, &n.Relations[i], false
			}
		}
		return true, nil, true
	}
	return false, nil, false
}

type atom = SS

type edge struct {
	to  atom
	neg bool
	rw  bool // derived from a rewrite (includes / traverse / permits), not from a subject-set tuple
}

type sem struct {
	cfg     *Config
	tuples  []Tuple
	q       Tuple // subject of q is the fixed subject
	deps    map[atom][]edge
	order   []atom
	val     map[atom]bool
	schemaE bool
	read    map[atom]bool // (ns,obj,rel) groups of stored tuples the evaluation looks at
}

func sameSubject(t Tuple, q Tuple) bool {
	if (t.Set == nil) != (q.Set == nil) {
		return false
	}
	if t.Set == nil {
		return t.ID == q.ID
	}
	return *t.Set == *q.Set
}

func (s *sem) direct(a atom) bool {
	for _, t := range s.tuples {
		if t.NS == a.NS && t.Obj == a.Obj && t.Rel == a.Rel && sameSubject(t, s.q) {
			return true
		}
	}
	return false
}

// xAllowed: may membership be inherited through subject-set tuples of this relation?
func (s *sem) xAllowed(a atom) bool {
	if !s.cfg.Strict {
		return true
	}
	_, r, _ := s.cfg.relation(a.NS, a.Rel)
	if r == nil {
		return true
	}
	for _, t := range r.Types {
		if t.Relation != "" {
			return true
		}
	}
	return false
}

func (s *sem) directAllowed(a atom) bool {
	if !s.cfg.Strict {
		return true
	}
	_, r, _ := s.cfg.relation(a.NS, a.Rel)
	return r == nil || r.SubjectSetRewrite == nil
}

// collect the dependency edges of the rewrite expression e evaluated at (ns,obj)
func (s *sem) rewriteDeps(e ast.Child, ns, obj string, neg bool, out *[]edge) {
	switch c := e.(type) {
	case *ast.ComputedSubjectSet:
		*out = append(*out, edge{atom{ns, obj, c.Relation}, neg, true})
	case *ast.TupleToSubjectSet:
		s.read[atom{ns, obj, c.Relation}] = true
		for _, t := range s.tuples {
			if t.NS == ns && t.Obj == obj && t.Rel == c.Relation && t.Set != nil {
				*out = append(*out, edge{atom{t.Set.NS, t.Set.Obj, c.ComputedSubjectSetRelation}, neg, true})
			}
		}
	case *ast.InvertResult:
		s.rewriteDeps(c.Child, ns, obj, true, out)
	case *ast.SubjectSetRewrite:
		for _, ch := range c.Children {
			s.rewriteDeps(ch, ns, obj, neg, out)
		}
	}
}

func (s *sem) depsOf(a atom) []edge {
	var out []edge
	if a.Rel == "" {
		return nil
	}
	if s.xAllowed(a) {
		for _, t := range s.tuples {
			if t.NS == a.NS && t.Obj == a.Obj && t.Rel == a.Rel && t.Set != nil {
				out = append(out, edge{atom(*t.Set), false, false})
			}
		}
	}
	_, r, undeclared := s.cfg.relation(a.NS, a.Rel)
	if undeclared {
		s.schemaE = true
	}
	if r != nil && r.SubjectSetRewrite != nil {
		s.rewriteDeps(r.SubjectSetRewrite, a.NS, a.Obj, false, &out)
	}
	return out
}

func (s *sem) eval(e ast.Child, ns, obj string) bool {
	switch c := e.(type) {
	case *ast.ComputedSubjectSet:
		return s.val[atom{ns, obj, c.Relation}]
	case *ast.TupleToSubjectSet:
		for _, t := range s.tuples {
			if t.NS == ns && t.Obj == obj && t.Rel == c.Relation && t.Set != nil {
				if s.val[atom{t.Set.NS, t.Set.Obj, c.ComputedSubjectSetRelation}] {
					return true
				}
			}
		}
		return false
	case *ast.InvertResult:
		return !s.eval(c.Child, ns, obj)
	case *ast.SubjectSetRewrite:
		if len(c.Children) == 0 {
			return false
		}
		if c.Operation == ast.OperatorAnd {
			for _, ch := range c.Children {
				if !s.eval(ch, ns, obj) {
					return false
				}
			}
			return true
		}
		for _, ch := range c.Children {
			if s.eval(ch, ns, obj) {
				return true
			}
		}
		return false
	}
	return false
}

func (s *sem) step(a atom) bool {
	if a.Rel == "" {
		return false
	}
	if s.directAllowed(a) && s.direct(a) {
		return true
	}
	if s.xAllowed(a) {
		for _, t := range s.tuples {
			if t.NS == a.NS && t.Obj == a.Obj && t.Rel == a.Rel && t.Set != nil {
				// the queried subject may itself be this subject set: that is the direct rule above
				if s.val[atom(*t.Set)] {
					return true
				}
			}
		}
	}
	_, r, _ := s.cfg.relation(a.NS, a.Rel)
	if r != nil && r.SubjectSetRewrite != nil {
		return s.eval(r.SubjectSetRewrite, a.NS, a.Obj)
	}
	return false
}

// Result of the reference semantics for one query.
type Result struct {
	Allowed     bool
	InDomain    bool // false: recursion through `not` (no defined meaning)
	SchemaError bool // some reachable (namespace, relation) is not declared by a namespace that declares relations
	Atoms       int
	NegEdges    int
	MaxChain    int // longest dependency chain from the query (a lower bound for the depth the engine needs)
	RewriteCycle bool // a dependency cycle that passes through a rewrite edge: the engine has no cycle detection there and recurses until the depth budget is used up
	Untouched   int // stored tuples whose (namespace, object, relation) the evaluation never looks at
}

// Check evaluates q = (ns, obj, rel, subject) on tuples under cfg.
func Check(cfg *Config, tuples []Tuple, q Tuple) Result {
	s := &sem{cfg: cfg, tuples: tuples, q: q, deps: map[atom][]edge{}, val: map[atom]bool{}, read: map[atom]bool{}}
	root := atom{q.NS, q.Obj, q.Rel}
	// reachable atoms
	stack := []atom{root}
	seen := map[atom]bool{root: true}
	var atoms []atom
	neg := 0
	for len(stack) > 0 {
		a := stack[len(stack)-1]
		stack = stack[:len(stack)-1]
		atoms = append(atoms, a)
		ds := s.depsOf(a)
		s.deps[a] = ds
		for _, d := range ds {
			if d.neg {
				neg++
			}
			if !seen[d.to] {
				seen[d.to] = true
				stack = append(stack, d.to)
			}
		}
	}
	sort.Slice(atoms, func(i, j int) bool { return atoms[i].String() < atoms[j].String() })
	// Tarjan SCCs, emitted dependencies-first
	index := map[atom]int{}
	low := map[atom]int{}
	on := map[atom]bool{}
	comp := map[atom]int{}
	var st []atom
	var sccs [][]atom
	n := 0
	var strong func(a atom)
	strong = func(a atom) {
		index[a] = n
		low[a] = n
		n++
		st = append(st, a)
		on[a] = true
		for _, d := range s.deps[a] {
			if _, ok := index[d.to]; !ok {
				strong(d.to)
				if low[d.to] < low[a] {
					low[a] = low[d.to]
				}
			} else if on[d.to] && index[d.to] < low[a] {
				low[a] = index[d.to]
			}
		}
		if low[a] == index[a] {
			var c []atom
			for {
				b := st[len(st)-1]
				st = st[:len(st)-1]
				on[b] = false
				comp[b] = len(sccs)
				c = append(c, b)
				if b == a {
					break
				}
			}
			sccs = append(sccs, c)
		}
	}
	for _, a := range atoms {
		if _, ok := index[a]; !ok {
			strong(a)
		}
	}
	res := Result{InDomain: true, Atoms: len(atoms), NegEdges: neg, SchemaError: s.schemaE}
	for _, a := range atoms {
		s.read[a] = true
	}
	for _, t := range tuples {
		if !s.read[atom{t.NS, t.Obj, t.Rel}] {
			res.Untouched++
		}
	}
	for a, ds := range s.deps {
		for _, d := range ds {
			if d.neg && comp[a] == comp[d.to] {
				res.InDomain = false
			}
			if d.rw && comp[a] == comp[d.to] {
				res.RewriteCycle = true
			}
		}
	}
	if !res.InDomain {
		return res
	}
	for _, c := range sccs {
		for changed := true; changed; {
			changed = false
			for _, a := range c {
				if !s.val[a] && s.step(a) {
					s.val[a] = true
					changed = true
				}
			}
		}
	}
	res.Allowed = s.val[root]
	// longest simple-ish chain: depth of the condensation DAG weighted by SCC size
	depth := make([]int, len(sccs))
	for i, c := range sccs { // dependencies-first order
		d := 0
		for _, a := range c {
			for _, e := range s.deps[a] {
				if comp[e.to] != i && depth[comp[e.to]] > d {
					d = depth[comp[e.to]]
				}
			}
		}
		depth[i] = d + len(c)
	}
	res.MaxChain = depth[comp[root]]
	return res
}

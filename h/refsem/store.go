// RefStore — the reference model of keto's relationship store: one multiset
// of API-level relation tuples per network. Written independently of keto
// (only the plain data types of package ketoapi are used).
package refsem

import (
	"fmt"
	"sort"
	"strings"

	"github.com/ory/keto/ketoapi"
)

// TupleKey is an unambiguous rendering of a tuple (every field %q-quoted, so
// separators inside names cannot collide): "ns":"obj"#"rel"@"id" or
// "ns":"obj"#"rel"@("ns":"obj"#"rel").
type TupleKey string

// Key renders t. A tuple with neither subject renders with "@<none>", one with
// both renders the subject id form followed by the set (never stored).
func Key(t *ketoapi.RelationTuple) TupleKey {
	var b strings.Builder
	fmt.Fprintf(&b, "%q:%q#%q@", t.Namespace, t.Object, t.Relation)
	switch {
	case t.SubjectID == nil && t.SubjectSet == nil:
		b.WriteString("<none>")
	default:
		if t.SubjectID != nil {
			fmt.Fprintf(&b, "%q", *t.SubjectID)
		}
		if t.SubjectSet != nil {
			fmt.Fprintf(&b, "(%q:%q#%q)", t.SubjectSet.Namespace, t.SubjectSet.Object, t.SubjectSet.Relation)
		}
	}
	return TupleKey(b.String())
}

// Matches reports whether t matches q: an absent query field is a wildcard, a
// present one must be equal; a subject id only matches subject ids, a subject
// set only subject sets (all three fields).
func Matches(t *ketoapi.RelationTuple, q *ketoapi.RelationQuery) bool {
	if q == nil {
		return true
	}
	if q.Namespace != nil && *q.Namespace != t.Namespace {
		return false
	}
	if q.Object != nil && *q.Object != t.Object {
		return false
	}
	if q.Relation != nil && *q.Relation != t.Relation {
		return false
	}
	if q.SubjectID != nil {
		if t.SubjectID == nil || *t.SubjectID != *q.SubjectID {
			return false
		}
	}
	if q.SubjectSet != nil {
		if t.SubjectSet == nil || *t.SubjectSet != *q.SubjectSet {
			return false
		}
	}
	return true
}

func cloneTuple(t *ketoapi.RelationTuple) *ketoapi.RelationTuple {
	c := &ketoapi.RelationTuple{Namespace: t.Namespace, Object: t.Object, Relation: t.Relation}
	if t.SubjectID != nil {
		s := *t.SubjectID
		c.SubjectID = &s
	}
	if t.SubjectSet != nil {
		s := *t.SubjectSet
		c.SubjectSet = &s
	}
	return c
}

type entry struct {
	t *ketoapi.RelationTuple
	n int
}

// RefStore is a per-network multiset of tuples.
type RefStore struct {
	nets map[string]map[TupleKey]*entry
}

func NewRefStore() *RefStore { return &RefStore{nets: map[string]map[TupleKey]*entry{}} }

func (s *RefStore) net(n string) map[TupleKey]*entry {
	m := s.nets[n]
	if m == nil {
		m = map[TupleKey]*entry{}
		s.nets[n] = m
	}
	return m
}

// Insert adds one copy of t to network net.
func (s *RefStore) Insert(net string, t *ketoapi.RelationTuple) {
	m := s.net(net)
	k := Key(t)
	if e := m[k]; e != nil {
		e.n++
		return
	}
	m[k] = &entry{t: cloneTuple(t), n: 1}
}

// Delete removes ALL copies equal to t; it returns how many were removed.
func (s *RefStore) Delete(net string, t *ketoapi.RelationTuple) int {
	m := s.net(net)
	k := Key(t)
	e := m[k]
	if e == nil {
		return 0
	}
	delete(m, k)
	return e.n
}

// DeleteByQuery removes all copies of all tuples matching q.
func (s *RefStore) DeleteByQuery(net string, q *ketoapi.RelationQuery) int {
	m := s.net(net)
	n := 0
	for k, e := range m {
		if Matches(e.t, q) {
			n += e.n
			delete(m, k)
		}
	}
	return n
}

// Match returns the multiset {t in net | t matches q} as key -> multiplicity.
func (s *RefStore) Match(net string, q *ketoapi.RelationQuery) map[TupleKey]int {
	out := map[TupleKey]int{}
	for k, e := range s.net(net) {
		if Matches(e.t, q) {
			out[k] = e.n
		}
	}
	return out
}

// Count is the multiplicity of t in net.
func (s *RefStore) Count(net string, t *ketoapi.RelationTuple) int {
	if e := s.net(net)[Key(t)]; e != nil {
		return e.n
	}
	return 0
}

// Len is the number of stored copies in net.
func (s *RefStore) Len(net string) int {
	n := 0
	for _, e := range s.net(net) {
		n += e.n
	}
	return n
}

// Distinct returns the distinct tuples of net sorted by key.
func (s *RefStore) Distinct(net string) []*ketoapi.RelationTuple {
	m := s.net(net)
	keys := make([]string, 0, len(m))
	for k := range m {
		keys = append(keys, string(k))
	}
	sort.Strings(keys)
	out := make([]*ketoapi.RelationTuple, len(keys))
	for i, k := range keys {
		out[i] = cloneTuple(m[TupleKey(k)].t)
	}
	return out
}

// Tuples returns every copy (sorted by key, copies adjacent).
func (s *RefStore) Tuples(net string) []*ketoapi.RelationTuple {
	var out []*ketoapi.RelationTuple
	for _, t := range s.Distinct(net) {
		for i := 0; i < s.Count(net, t); i++ {
			out = append(out, cloneTuple(t))
		}
	}
	return out
}

// Networks lists the networks that have ever been touched, sorted.
func (s *RefStore) Networks() []string {
	var out []string
	for n := range s.nets {
		out = append(out, n)
	}
	sort.Strings(out)
	return out
}

// Clone is a deep copy.
func (s *RefStore) Clone() *RefStore {
	c := NewRefStore()
	for n, m := range s.nets {
		cm := c.net(n)
		for k, e := range m {
			cm[k] = &entry{t: cloneTuple(e.t), n: e.n}
		}
	}
	return c
}

// Canon is the canonical state string of net with multiplicities capped at
// capN (capN <= 0: uncapped): sorted "key*n" joined by '\n'.
func (s *RefStore) Canon(net string, capN int) string {
	m := s.net(net)
	parts := make([]string, 0, len(m))
	for k, e := range m {
		n := e.n
		if capN > 0 && n > capN {
			n = capN
		}
		parts = append(parts, fmt.Sprintf("%s*%d", k, n))
	}
	sort.Strings(parts)
	return strings.Join(parts, "\n")
}

// MultisetOf builds key -> multiplicity from a list of tuples.
func MultisetOf(ts []*ketoapi.RelationTuple) map[TupleKey]int {
	out := map[TupleKey]int{}
	for _, t := range ts {
		out[Key(t)]++
	}
	return out
}

// DiffMultiset describes the difference got vs want ("" if equal as multisets).
// With setOnly the multiplicities are ignored (only the supports are compared).
func DiffMultiset(got, want map[TupleKey]int, setOnly bool) string {
	var d []string
	for k, w := range want {
		g := got[k]
		if g == 0 || (!setOnly && g != w) {
			d = append(d, fmt.Sprintf("%s: got %d want %d", k, g, w))
		}
	}
	for k, g := range got {
		if _, ok := want[k]; !ok {
			d = append(d, fmt.Sprintf("%s: got %d want 0", k, g))
		}
	}
	sort.Strings(d)
	return strings.Join(d, "; ")
}

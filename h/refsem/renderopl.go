package refsem

import (
	"fmt"
	"strings"

	"github.com/ory/keto/internal/namespace"
	"github.com/ory/keto/internal/namespace/ast"
)

// RenderOPL writes namespaces as OPL text with fully parenthesised permission
// expressions (so that the result does not depend on the parser's operator
// precedence, which is C10's subject).
func RenderOPL(nss []*namespace.Namespace) string {
	var sb strings.Builder
	sb.WriteString("import { Namespace, SubjectSet, Context } from \"@ory/keto-namespace-types\"\n\n")
	find := func(ns, rel string) *ast.Relation {
		for _, n := range nss {
			if n.Name == ns {
				for i := range n.Relations {
					if n.Relations[i].Name == rel {
						return &n.Relations[i]
					}
				}
			}
		}
		return nil
	}
	for _, n := range nss {
		fmt.Fprintf(&sb, "class %s implements Namespace {\n", n.Name)
		var rel, perm []ast.Relation
		for _, r := range n.Relations {
			if r.SubjectSetRewrite != nil {
				perm = append(perm, r)
			} else {
				rel = append(rel, r)
			}
		}
		if len(rel) > 0 {
			sb.WriteString("  related: {\n")
			for _, r := range rel {
				var ts []string
				for _, t := range r.Types {
					if t.Relation == "" {
						ts = append(ts, t.Namespace)
					} else {
						ts = append(ts, fmt.Sprintf("SubjectSet<%s, %q>", t.Namespace, t.Relation))
					}
				}
				switch len(ts) {
				case 0:
					// OPL needs a type; an untyped relation cannot be rendered
					ts = []string{n.Name}
					fallthrough
				case 1:
					fmt.Fprintf(&sb, "    %s: %s[]\n", r.Name, ts[0])
				default:
					fmt.Fprintf(&sb, "    %s: (%s)[]\n", r.Name, strings.Join(ts, " | "))
				}
			}
			sb.WriteString("  }\n")
		}
		if len(perm) > 0 {
			sb.WriteString("  permits = {\n")
			for _, p := range perm {
				fmt.Fprintf(&sb, "    %s: (ctx: Context): boolean => %s,\n", p.Name, renderExpr(p.SubjectSetRewrite, n.Name, find, true))
			}
			sb.WriteString("  }\n")
		}
		sb.WriteString("}\n\n")
	}
	return sb.String()
}

func renderExpr(e ast.Child, ns string, find func(ns, rel string) *ast.Relation, top bool) string {
	switch c := e.(type) {
	case *ast.ComputedSubjectSet:
		if r := find(ns, c.Relation); r != nil && r.SubjectSetRewrite != nil {
			return fmt.Sprintf("this.permits.%s(ctx)", c.Relation)
		}
		return fmt.Sprintf("this.related.%s.includes(ctx.subject)", c.Relation)
	case *ast.TupleToSubjectSet:
		target := ns
		if r := find(ns, c.Relation); r != nil && len(r.Types) > 0 {
			target = r.Types[0].Namespace
		}
		if r := find(target, c.ComputedSubjectSetRelation); r != nil && r.SubjectSetRewrite != nil {
			return fmt.Sprintf("this.related.%s.traverse((x) => x.permits.%s(ctx))", c.Relation, c.ComputedSubjectSetRelation)
		}
		return fmt.Sprintf("this.related.%s.traverse((x) => x.related.%s.includes(ctx.subject))", c.Relation, c.ComputedSubjectSetRelation)
	case *ast.InvertResult:
		return "!(" + renderExpr(c.Child, ns, find, false) + ")"
	case *ast.SubjectSetRewrite:
		op := " || "
		if c.Operation == ast.OperatorAnd {
			op = " && "
		}
		parts := make([]string, len(c.Children))
		for i, ch := range c.Children {
			parts[i] = renderExpr(ch, ns, find, false)
		}
		s := strings.Join(parts, op)
		if len(parts) > 1 || !top {
			s = "(" + s + ")"
		}
		return s
	}
	return "/*?*/"
}

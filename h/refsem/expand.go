// RefExpand — the reference model for expand over rewrite-free namespaces:
// plain graph reachability over subject-set edges. Written independently of
// keto (only the plain data types of package ketoapi are used).
//
// Nodes are subjects (subject ids and subject sets); a stored tuple
// ns:obj#rel@subject is an edge from the subject set (ns:obj#rel) to subject.
package refsem

import (
	"fmt"
	"sort"

	"github.com/ory/keto/ketoapi"
)

// SubjectKey is an unambiguous rendering of a subject: "id" for a subject id,
// ("ns":"obj"#"rel") for a subject set (the subject part of a TupleKey).
type SubjectKey string

func SubjectIDKey(id string) SubjectKey { return SubjectKey(fmt.Sprintf("%q", id)) }

func SubjectSetKey(ns, obj, rel string) SubjectKey {
	return SubjectKey(fmt.Sprintf("(%q:%q#%q)", ns, obj, rel))
}

func (k SubjectKey) IsSet() bool { return len(k) > 0 && k[0] == '(' }

// SourceKey is the subject set a tuple hangs off; TargetKey its subject.
func SourceKey(t *ketoapi.RelationTuple) SubjectKey {
	return SubjectSetKey(t.Namespace, t.Object, t.Relation)
}

func TargetKey(t *ketoapi.RelationTuple) SubjectKey {
	if t.SubjectSet != nil {
		return SubjectSetKey(t.SubjectSet.Namespace, t.SubjectSet.Object, t.SubjectSet.Relation)
	}
	if t.SubjectID != nil {
		return SubjectIDKey(*t.SubjectID)
	}
	return ""
}

// ExpandGraph is the edge multiset of a tuple multiset.
type ExpandGraph struct {
	out map[SubjectKey][]SubjectKey // with multiplicity, in the order given
	in  map[SubjectKey][]SubjectKey
}

func NewExpandGraph(ts []*ketoapi.RelationTuple) *ExpandGraph {
	g := &ExpandGraph{out: map[SubjectKey][]SubjectKey{}, in: map[SubjectKey][]SubjectKey{}}
	for _, t := range ts {
		s, d := SourceKey(t), TargetKey(t)
		g.out[s] = append(g.out[s], d)
		g.in[d] = append(g.in[d], s)
	}
	return g
}

// Out returns the subjects of the tuples of set s (with multiplicity).
func (g *ExpandGraph) Out(s SubjectKey) []SubjectKey { return g.out[s] }

// In returns the subject sets that have a tuple with subject x.
func (g *ExpandGraph) In(x SubjectKey) []SubjectKey { return g.in[x] }

// HasEdge reports whether the tuple s@x is stored.
func (g *ExpandGraph) HasEdge(s, x SubjectKey) bool {
	for _, d := range g.out[s] {
		if d == x {
			return true
		}
	}
	return false
}

// Sets returns every subject set that occurs as the source or as the subject
// of a tuple, sorted.
func (g *ExpandGraph) Sets() []SubjectKey {
	seen := map[SubjectKey]bool{}
	for s, ds := range g.out {
		seen[s] = true
		for _, d := range ds {
			if d.IsSet() {
				seen[d] = true
			}
		}
	}
	out := make([]SubjectKey, 0, len(seen))
	for s := range seen {
		out = append(out, s)
	}
	sort.Slice(out, func(i, j int) bool { return out[i] < out[j] })
	return out
}

// Dist is the breadth-first distance (number of tuples on a shortest chain)
// from root to every reachable subject; root itself has distance 0.
func (g *ExpandGraph) Dist(root SubjectKey) map[SubjectKey]int {
	dist := map[SubjectKey]int{root: 0}
	queue := []SubjectKey{root}
	for len(queue) > 0 {
		s := queue[0]
		queue = queue[1:]
		for _, d := range g.out[s] {
			if _, ok := dist[d]; !ok {
				dist[d] = dist[s] + 1
				queue = append(queue, d)
			}
		}
	}
	return dist
}

// Reach is the set of subjects reachable from root by one or more tuples
// (root is a member only if it lies on a cycle).
func (g *ExpandGraph) Reach(root SubjectKey) map[SubjectKey]bool {
	out := map[SubjectKey]bool{}
	stack := []SubjectKey{root}
	for len(stack) > 0 {
		s := stack[len(stack)-1]
		stack = stack[:len(stack)-1]
		for _, d := range g.out[s] {
			if !out[d] {
				out[d] = true
				stack = append(stack, d)
			}
		}
	}
	return out
}

// Within returns the subjects at distance 1..maxDist from root.
func (g *ExpandGraph) Within(root SubjectKey, maxDist int) map[SubjectKey]bool {
	out := map[SubjectKey]bool{}
	for x, d := range g.Dist(root) {
		if d >= 1 && d <= maxDist {
			out[x] = true
		}
	}
	return out
}

// WalkLengths reports for every subject x the set of lengths n <= maxLen for
// which a chain of exactly n tuples leads from root to x (chains may repeat
// subjects). lengths[x][n] == true.
func (g *ExpandGraph) WalkLengths(root SubjectKey, maxLen int) map[SubjectKey]map[int]bool {
	out := map[SubjectKey]map[int]bool{root: {0: true}}
	frontier := map[SubjectKey]bool{root: true}
	for n := 1; n <= maxLen; n++ {
		next := map[SubjectKey]bool{}
		for s := range frontier {
			for _, d := range g.out[s] {
				next[d] = true
			}
		}
		for d := range next {
			if out[d] == nil {
				out[d] = map[int]bool{}
			}
			out[d][n] = true
		}
		frontier = next
	}
	return out
}

// SubjectIDs filters the subject ids out of a subject set.
func SubjectIDs(m map[SubjectKey]bool) []SubjectKey {
	var out []SubjectKey
	for k := range m {
		if !k.IsSet() {
			out = append(out, k)
		}
	}
	sort.Slice(out, func(i, j int) bool { return out[i] < out[j] })
	return out
}

// Package opl holds the checks on the Ory Permission Language front end:
// C10 (meaning of expressions / spelling variants), C11 (type-check vs. run
// time), C12 (totality and linear work of the parser).
//
// This file is "RefOPL": an abstract model of OPL documents with a renderer
// over the spelling variants, and an independent evaluator for the boolean
// skeleton of a *rendered text* with TypeScript precedence. Nothing in here
// uses keto's lexer or parser.
package opl

import (
	"fmt"
	"runtime"
	"sort"
	"strings"
	"sync"
	"sync/atomic"

	"github.com/ory/keto/internal/namespace"
	"github.com/ory/keto/internal/namespace/ast"
)

// ---------------------------------------------------------------------------
// abstract documents

type LeafKind int

const (
	LIncludes    LeafKind = iota // this.related.R.includes(ctx.subject)
	LPermits                     // this.permits.R(ctx)
	LTravRelated                 // this.related.R.traverse((p) => p.related.V.includes(ctx.subject))
	LTravPermits                 // this.related.R.traverse((p) => p.permits.V(ctx))
)

// Expr is a boolean expression over leaves. Op: 'a' atom, '!' not (operand L), '&', '|'.
type Expr struct {
	Op   byte
	Kind LeafKind
	Rel  string
	Via  string
	L, R *Expr
}

func Atom(k LeafKind, rel, via string) *Expr { return &Expr{Op: 'a', Kind: k, Rel: rel, Via: via} }
func Not(e *Expr) *Expr                      { return &Expr{Op: '!', L: e} }
func Bin(op byte, l, r *Expr) *Expr          { return &Expr{Op: op, L: l, R: r} }

type TypeRef struct{ NS, Rel string } // Rel != "" : SubjectSet<NS, Rel>

type RelDecl struct {
	Name  string
	Types []TypeRef
}
type PermDecl struct {
	Name string
	Expr *Expr
}
type NSDecl struct {
	Name  string
	Rels  []RelDecl
	Perms []PermDecl
}
type Prog struct{ NS []NSDecl }

// ---------------------------------------------------------------------------
// tokens of a rendered document

// reference kinds (for C11's single-reference mutations)
const (
	RefNone      = iota
	RefTypeNS    // namespace in a relation type (X[] or first argument of SubjectSet)
	RefTypeSSRel // R of SubjectSet<T,R>
	RefIncludes  // R in this.related.R.includes(...)
	RefPermits   // P in this.permits.P(ctx)
	RefTravRel   // R in this.related.R.traverse(...)
	RefTravVia   // V in p.related.V.includes / p.permits.V(ctx)
)

var refKindName = map[int]string{RefTypeNS: "type-namespace", RefTypeSSRel: "subjectset-relation", RefIncludes: "includes-relation",
	RefPermits: "permits-permission", RefTravRel: "traverse-relation", RefTravVia: "traverse-computed-relation"}

type Tok struct {
	S     string // spelling (string literals include their quotes)
	Ref   int    // reference kind
	Owner string // namespace the reference occurs in
	NL    bool   // a line break follows in the pretty layouts
	Body  int    // >0: token belongs to the body of the Body-th permission of the document
	Leaf  int    // >0: token belongs to the Leaf-th leaf expression / type expression (smallest enclosing construct)
}

// Style selects one spelling of everything the language leaves open.
type Style struct {
	ArrayGeneric bool // Array<T> instead of T[]
	Access       int  // 0 dot, 1 ["x"], 2 ['x']  (property access on related / permits)
	CtxType      bool // (ctx: Context)
	BoolType     bool // ): boolean =>
	QuoteNames   int  // declared relation / permission names: 0 bare, 1 "x", 2 'x'
	SSQuote      int  // R of SubjectSet<T,R>: 0 "r", 1 'r'
	RelSep       int  // after a relation declaration: 0 line break, 1 ',', 2 ';'
	TrailComma   bool // ',' after the last permission
	ClassSep     bool // ';' after the related block and after the permits block
	LambdaParen  bool // (p) => instead of p =>
	TravComma    bool // trailing ',' after the lambda inside traverse( ... ,)
	Import       bool // leading import line
	Paren        int  // expression layout, see renderExpr
	DeclOrder    int  // bit 1: the permits block precedes the related block; bit 2: permissions in reverse order (forward references)
}

const (
	ParenMixed     = iota // parentheses where the operator changes or under '!': what a careful author writes
	ParenFull             // every compound operand parenthesised
	ParenMinimal          // only what TypeScript precedence requires
	ParenRedundant        // ParenFull plus a redundant pair around every operand, atoms included
)

var parenName = []string{"mixed", "full", "minimal", "redundant"}

type docBuilder struct {
	st    Style
	toks  []Tok
	owner string
	body  int
	leaf  int
	leafN int
}

func (b *docBuilder) t(s ...string) {
	for _, x := range s {
		b.toks = append(b.toks, Tok{S: x, Body: b.body, Leaf: b.leaf, Owner: b.owner})
	}
}
func (b *docBuilder) ref(s string, kind int) {
	b.toks = append(b.toks, Tok{S: s, Ref: kind, Body: b.body, Leaf: b.leaf, Owner: b.owner})
}
func (b *docBuilder) nl() {
	if len(b.toks) > 0 {
		b.toks[len(b.toks)-1].NL = true
	}
}
func quote(s string, q int) string {
	switch q {
	case 1:
		return `"` + s + `"`
	case 2:
		return `'` + s + `'`
	}
	return s
}

// access renders ".name" or ["name"].
func (b *docBuilder) access(name string, kind int) {
	if b.st.Access == 0 {
		b.t(".")
		b.ref(name, kind)
		return
	}
	b.t("[")
	b.ref(quote(name, b.st.Access), kind)
	b.t("]")
}

func (b *docBuilder) typeRef(t TypeRef) {
	if t.Rel == "" {
		b.ref(t.NS, RefTypeNS)
		return
	}
	b.t("SubjectSet", "<")
	b.ref(t.NS, RefTypeNS)
	b.t(",")
	b.ref(quote(t.Rel, b.st.SSQuote+1), RefTypeSSRel)
	b.t(">")
}

func (b *docBuilder) relType(ts []TypeRef) {
	b.leafN++
	b.leaf = b.leafN
	defer func() { b.leaf = 0 }()
	union := func() {
		for i, t := range ts {
			if i > 0 {
				b.t("|")
			}
			b.typeRef(t)
		}
	}
	if b.st.ArrayGeneric {
		b.t("Array", "<")
		union()
		b.t(">")
		return
	}
	if len(ts) > 1 {
		b.t("(")
		union()
		b.t(")")
	} else {
		union()
	}
	b.t("[", "]")
}

func (b *docBuilder) atom(e *Expr) {
	b.leafN++
	b.leaf = b.leafN
	defer func() { b.leaf = 0 }()
	switch e.Kind {
	case LIncludes:
		b.t("this", ".", "related")
		b.access(e.Rel, RefIncludes)
		b.t(".", "includes", "(", "ctx", ".", "subject", ")")
	case LPermits:
		b.t("this", ".", "permits")
		b.access(e.Rel, RefPermits)
		b.t("(", "ctx", ")")
	case LTravRelated, LTravPermits:
		b.t("this", ".", "related")
		b.access(e.Rel, RefTravRel)
		b.t(".", "traverse", "(")
		if b.st.LambdaParen {
			b.t("(", "p", ")")
		} else {
			b.t("p")
		}
		b.t("=>", "p", ".")
		if e.Kind == LTravRelated {
			b.t("related")
			b.access(e.Via, RefTravVia)
			b.t(".", "includes", "(", "ctx", ".", "subject", ")")
		} else {
			b.t("permits")
			b.access(e.Via, RefTravVia)
			b.t("(", "ctx", ")")
		}
		if b.st.TravComma && e.Kind == LTravRelated {
			// the only documented occurrence of a trailing comma in a call (spec example, prettier layout)
			b.t(",")
		}
		b.t(")")
	}
}

func prec(op byte) int {
	switch op {
	case '|':
		return 1
	case '&':
		return 2
	case '!':
		return 3
	}
	return 4
}

// renderExpr emits e as an operand of a parent with operator `parent`
// (0 at the top).
func (b *docBuilder) renderExpr(e *Expr, parent byte) {
	wrap := func(n int, f func()) {
		for i := 0; i < n; i++ {
			b.t("(")
		}
		f()
		for i := 0; i < n; i++ {
			b.t(")")
		}
	}
	inner := func() {
		switch e.Op {
		case 'a':
			b.atom(e)
		case '!':
			b.t("!")
			b.renderExpr(e.L, '!')
		default:
			b.renderExpr(e.L, e.Op)
			if e.Op == '&' {
				b.t("&&")
			} else {
				b.t("||")
			}
			b.renderExpr(e.R, e.Op)
		}
	}
	n := 0
	binary := e.Op == '&' || e.Op == '|'
	switch b.st.Paren {
	case ParenMixed:
		if binary && parent != 0 && parent != e.Op {
			n = 1
		}
	case ParenFull:
		if parent != 0 && e.Op != 'a' && (binary || parent == '!') {
			n = 1
		}
	case ParenMinimal:
		if binary && parent != 0 && prec(e.Op) < prec(parent) {
			n = 1
		}
	case ParenRedundant:
		n = 1
		if binary {
			n = 2
		}
	}
	wrap(n, inner)
}

// Tokens renders the document as a token list.
func (p *Prog) Tokens(st Style) []Tok {
	b := &docBuilder{st: st}
	if st.Import {
		b.t("import", "{", "Namespace", ",", "SubjectSet", ",", "Context", "}", "from", `"@ory/keto-namespace-types"`)
		b.nl()
	}
	for _, ns := range p.NS {
		b.owner = ns.Name
		b.t("class", ns.Name, "implements", "Namespace", "{")
		b.nl()
		perms := ns.Perms
		if st.DeclOrder&2 != 0 {
			perms = make([]PermDecl, len(ns.Perms))
			for i, pm := range ns.Perms {
				perms[len(ns.Perms)-1-i] = pm
			}
		}
		emitRelated := func() {
			if len(ns.Rels) > 0 {
				b.t("related", ":", "{")
				b.nl()
				for _, r := range ns.Rels {
					b.t(quote(r.Name, st.QuoteNames), ":")
					b.relType(r.Types)
					switch st.RelSep {
					case 1:
						b.t(",")
					case 2:
						b.t(";")
					}
					b.nl()
				}
				b.t("}")
				if st.ClassSep {
					b.t(";")
				}
				b.nl()
			}
		}
		emitPermits := func() {
			if len(ns.Perms) > 0 {
				b.t("permits", "=", "{")
				b.nl()
				for i, pm := range perms {
					b.t(quote(pm.Name, st.QuoteNames), ":", "(", "ctx")
					if st.CtxType {
						b.t(":", "Context")
					}
					b.t(")")
					if st.BoolType {
						b.t(":", "boolean")
					}
					b.t("=>")
					b.body++
					cur := b.body
					mark := len(b.toks)
					b.renderExpr(pm.Expr, 0)
					for k := mark; k < len(b.toks); k++ {
						b.toks[k].Body = cur
					}
					if i < len(perms)-1 || st.TrailComma {
						b.t(",")
					}
					b.nl()
				}
				b.t("}")
				if st.ClassSep {
					b.t(";")
				}
				b.nl()
			}
		}
		if st.DeclOrder&1 != 0 {
			emitPermits()
			emitRelated()
		} else {
			emitRelated()
			emitPermits()
		}
		b.t("}")
		b.nl()
	}
	return b.toks
}

func wordish(s string) bool {
	c := s[0]
	return c == '_' || (c >= 'a' && c <= 'z') || (c >= 'A' && c <= 'Z') || (c >= '0' && c <= '9')
}

// Layout: how tokens are joined.
const (
	LayoutPretty        = iota // conventional spacing, line breaks + indentation at NL
	LayoutCompact              // no white space except between two word tokens and at NL marks that stand for a separator
	LayoutBlockComments        // pretty, and a /* c */ between every two tokens
	LayoutDocComments          // pretty, and a /** c */ between every two tokens
	LayoutLineComments         // a // c comment and a line break after every token
	LayoutSpaced               // a blank between every two tokens
)

var layoutName = []string{"pretty", "compact", "block-comment-everywhere", "doc-comment-everywhere", "line-comment-everywhere", "blank-between-all-tokens"}

var spaceBefore = map[string]bool{"&&": true, "||": true, "=>": true, "=": true, "|": true, "{": true, "}": true}
var spaceAfter = map[string]bool{"&&": true, "||": true, "=>": true, "=": true, "|": true, ",": true, ":": true, "{": true, ";": true}

func prettyGap(a, b string) bool {
	return spaceBefore[b] || spaceAfter[a] || (wordish(a) && wordish(b))
}

// Span is the place of a token in the joined text (1-based line, 1-based column of its first byte).
type Span struct{ Off, Len, Line, Col int }

// Join renders a token list. gap >= 0 additionally inserts `extra` after token number gap.
func Join(toks []Tok, layout int, gap int, extra string) (string, []Span) {
	var sb strings.Builder
	spans := make([]Span, len(toks))
	line, lineStart := 1, 0
	depth := 0
	indent := func(i int) string { // pretty layouts: indentation by brace depth; never column 1 inside a class
		d := depth
		if i+1 < len(toks) && toks[i+1].S == "}" {
			d--
		}
		if d < 0 {
			d = 0
		}
		return "\n" + strings.Repeat("  ", d)
	}
	write := func(s string) {
		for i := 0; i < len(s); i++ {
			if s[i] == '\n' {
				line++
				lineStart = sb.Len() + i + 1
			}
		}
		sb.WriteString(s)
	}
	for i, t := range toks {
		spans[i] = Span{Off: sb.Len(), Len: len(t.S), Line: line, Col: sb.Len() - lineStart + 1}
		write(t.S)
		if t.S == "{" {
			depth++
		} else if t.S == "}" {
			depth--
		}
		if i == gap {
			write(extra)
		}
		last := i == len(toks)-1
		switch layout {
		case LayoutPretty:
			if t.NL {
				write(indent(i))
			} else if !last && prettyGap(t.S, toks[i+1].S) {
				write(" ")
			}
		case LayoutSpaced:
			if t.NL {
				write("\n  ")
			} else if !last {
				write(" ")
			}
		case LayoutCompact:
			if t.NL {
				write("\n")
			} else if !last && wordish(t.S) && wordish(toks[i+1].S) {
				write(" ")
			}
		case LayoutBlockComments:
			write(" /* c */ ")
			if t.NL {
				write("\n  ")
			}
		case LayoutDocComments:
			write(" /** c */ ")
			if t.NL {
				write("\n  ")
			}
		case LayoutLineComments:
			write(" // c\n  ")
		}
	}
	return sb.String(), spans
}

// Render is Tokens + Join in the pretty layout.
func (p *Prog) Render(st Style) string {
	s, _ := Join(p.Tokens(st), LayoutPretty, -1, "")
	return s
}

// bodyText returns the text of the n-th permission body (n >= 1).
func bodyText(text string, toks []Tok, spans []Span, n int) string {
	first, last := -1, -1
	for i, t := range toks {
		if t.Body == n {
			if first < 0 {
				first = i
			}
			last = i
		}
	}
	if first < 0 {
		return ""
	}
	return text[spans[first].Off : spans[last].Off+spans[last].Len]
}

// ---------------------------------------------------------------------------
// the source AST a document denotes, in keto's types

func (e *Expr) child() ast.Child {
	switch e.Op {
	case 'a':
		switch e.Kind {
		case LIncludes, LPermits:
			return &ast.ComputedSubjectSet{Relation: e.Rel}
		default:
			return &ast.TupleToSubjectSet{Relation: e.Rel, ComputedSubjectSetRelation: e.Via}
		}
	case '!':
		return &ast.InvertResult{Child: e.L.child()}
	}
	op := ast.OperatorOr
	if e.Op == '&' {
		op = ast.OperatorAnd
	}
	return &ast.SubjectSetRewrite{Operation: op, Children: ast.Children{e.L.child(), e.R.child()}}
}

func (p *Prog) Denotes() []namespace.Namespace {
	var out []namespace.Namespace
	for _, ns := range p.NS {
		n := namespace.Namespace{Name: ns.Name}
		for _, r := range ns.Rels {
			rel := ast.Relation{Name: r.Name}
			for _, t := range r.Types {
				rel.Types = append(rel.Types, ast.RelationType{Namespace: t.NS, Relation: t.Rel})
			}
			n.Relations = append(n.Relations, rel)
		}
		for _, pm := range ns.Perms {
			n.Relations = append(n.Relations, ast.Relation{Name: pm.Name, SubjectSetRewrite: pm.Expr.child().AsRewrite()})
		}
		out = append(out, n)
	}
	return out
}

// normChild is a canonical string of a rewrite "up to flattening of
// associative operators": a rewrite with one child is that child, children
// with the parent's operator are spliced in. A nil anywhere yields "<nil>".
func normChild(c ast.Child) string {
	switch x := c.(type) {
	case nil:
		return "<nil>"
	case *ast.ComputedSubjectSet:
		if x == nil {
			return "<nil>"
		}
		return "c(" + x.Relation + ")"
	case *ast.TupleToSubjectSet:
		if x == nil {
			return "<nil>"
		}
		return "t(" + x.Relation + "," + x.ComputedSubjectSetRelation + ")"
	case *ast.InvertResult:
		if x == nil {
			return "<nil>"
		}
		return "!" + normChild(x.Child)
	case *ast.SubjectSetRewrite:
		if x == nil {
			return "<nil>"
		}
		op, kids := flat(x)
		if len(kids) == 1 {
			return kids[0]
		}
		return op + "(" + strings.Join(kids, ",") + ")"
	}
	return fmt.Sprintf("<unknown %T>", c)
}

func flat(x *ast.SubjectSetRewrite) (string, []string) {
	op := "or"
	if x.Operation == ast.OperatorAnd {
		op = "and"
	} else if x.Operation != ast.OperatorOr {
		op = fmt.Sprintf("op%d", int(x.Operation))
	}
	var kids []string
	for _, ch := range x.Children {
		if r, ok := ch.(*ast.SubjectSetRewrite); ok && r != nil {
			cop, ck := flat(r)
			if len(ck) == 1 {
				kids = append(kids, ck[0])
				continue
			}
			if cop == op {
				kids = append(kids, ck...)
				continue
			}
			kids = append(kids, cop+"("+strings.Join(ck, ",")+")")
			continue
		}
		kids = append(kids, normChild(ch))
	}
	return op, kids
}

// normNamespacesUnordered: like normNamespaces with the relations of every namespace sorted by name
// (declaration order inside a class is not part of what a document denotes).
func normNamespacesUnordered(nss []namespace.Namespace) string {
	cp := make([]namespace.Namespace, len(nss))
	for i, n := range nss {
		cp[i] = n
		cp[i].Relations = append([]ast.Relation(nil), n.Relations...)
		sort.Slice(cp[i].Relations, func(a, b int) bool { return cp[i].Relations[a].Name < cp[i].Relations[b].Name })
	}
	return normNamespaces(cp)
}

func normNamespaces(nss []namespace.Namespace) string {
	var sb strings.Builder
	for _, n := range nss {
		sb.WriteString("ns " + n.Name + "{")
		for _, r := range n.Relations {
			sb.WriteString(r.Name + ":")
			for _, t := range r.Types {
				sb.WriteString(t.Namespace + "#" + t.Relation + "|")
			}
			if r.SubjectSetRewrite != nil {
				sb.WriteString("=" + normChild(r.SubjectSetRewrite))
			}
			sb.WriteString(";")
		}
		sb.WriteString("}")
	}
	return sb.String()
}

// ---------------------------------------------------------------------------
// truth tables. Atoms are free booleans; a table over k atoms is a bit mask
// over the 2^k assignments (k <= 5).

type atomTable struct {
	byAST  map[string]int // "c:rel" / "t:rel:via" -> atom number
	byText map[string]int // atom source text without white space -> atom number
	n      int
}

func atomMask(i, n int) uint32 {
	var m uint32
	for row := 0; row < 1<<n; row++ {
		if row>>i&1 == 1 {
			m |= 1 << row
		}
	}
	return m
}
func fullMask(n int) uint32 { return uint32(1)<<(1<<n) - 1 }

// astTable evaluates a parsed rewrite; ok=false when it contains something that is not an atom of the table / nil.
func astTable(c ast.Child, at *atomTable) (m uint32, ok bool) {
	full := fullMask(at.n)
	switch x := c.(type) {
	case *ast.ComputedSubjectSet:
		if x == nil {
			return 0, false
		}
		i, found := at.byAST["c:"+x.Relation]
		return atomMask(i, at.n), found
	case *ast.TupleToSubjectSet:
		if x == nil {
			return 0, false
		}
		i, found := at.byAST["t:"+x.Relation+":"+x.ComputedSubjectSetRelation]
		return atomMask(i, at.n), found
	case *ast.InvertResult:
		if x == nil {
			return 0, false
		}
		m, ok := astTable(x.Child, at)
		return ^m & full, ok
	case *ast.SubjectSetRewrite:
		if x == nil {
			return 0, false
		}
		var acc uint32
		switch x.Operation {
		case ast.OperatorOr:
			acc = 0
		case ast.OperatorAnd:
			acc = full
		default:
			return 0, false
		}
		if len(x.Children) == 0 {
			return 0, false
		}
		for _, ch := range x.Children {
			m, ok := astTable(ch, at)
			if !ok {
				return 0, false
			}
			if x.Operation == ast.OperatorOr {
				acc |= m
			} else {
				acc &= m
			}
		}
		return acc, true
	}
	return 0, false
}

// ---------------------------------------------------------------------------
// RefOPL (ii): evaluator of the boolean skeleton of a permission body given as
// TEXT. Own scanner: white space and comments are skipped; "(" ")" "!" "&&"
// "||" are operators; anything starting with `this` is an atom that ends at
// the parenthesis closing its (outermost) call.

type skTok struct {
	kind byte // '(' ')' '!' '&' '|' 'a'
	atom int
}

func skeleton(body string, at *atomTable) ([]skTok, error) {
	var out []skTok
	i := 0
	for i < len(body) {
		c := body[i]
		switch {
		case c == ' ' || c == '\n' || c == '\t' || c == '\r':
			i++
		case strings.HasPrefix(body[i:], "//"):
			j := strings.IndexByte(body[i:], '\n')
			if j < 0 {
				i = len(body)
			} else {
				i += j + 1
			}
		case strings.HasPrefix(body[i:], "/*"):
			j := strings.Index(body[i+2:], "*/")
			if j < 0 {
				return nil, fmt.Errorf("unclosed comment")
			}
			i += 2 + j + 2
		case c == '(' || c == ')' || c == '!':
			out = append(out, skTok{kind: c})
			i++
		case strings.HasPrefix(body[i:], "&&"):
			out = append(out, skTok{kind: '&'})
			i += 2
		case strings.HasPrefix(body[i:], "||"):
			out = append(out, skTok{kind: '|'})
			i += 2
		case strings.HasPrefix(body[i:], "this"):
			var key strings.Builder
			depth, seen := 0, false
			j := i
		atom:
			for j < len(body) {
				d := body[j]
				switch {
				case d == ' ' || d == '\n' || d == '\t' || d == '\r':
					j++
					continue
				case strings.HasPrefix(body[j:], "//"):
					k := strings.IndexByte(body[j:], '\n')
					if k < 0 {
						j = len(body)
					} else {
						j += k + 1
					}
					continue
				case strings.HasPrefix(body[j:], "/*"):
					k := strings.Index(body[j+2:], "*/")
					if k < 0 {
						return nil, fmt.Errorf("unclosed comment")
					}
					j += 2 + k + 2
					continue
				case d == '"' || d == '\'':
					k := strings.IndexByte(body[j+1:], d)
					if k < 0 {
						return nil, fmt.Errorf("unclosed string")
					}
					key.WriteString(body[j : j+k+2])
					j += k + 2
					continue
				case d == '(':
					depth++
					seen = true
				case d == ')':
					depth--
				}
				key.WriteByte(d)
				j++
				if seen && depth == 0 {
					break atom
				}
			}
			if !seen || depth != 0 {
				return nil, fmt.Errorf("unterminated atom at %d", i)
			}
			n, ok := at.byText[canonAtomText(key.String())]
			if !ok {
				return nil, fmt.Errorf("unknown atom %q", key.String())
			}
			out = append(out, skTok{kind: 'a', atom: n})
			i = j
		default:
			return nil, fmt.Errorf("unexpected byte %q at %d", c, i)
		}
	}
	return out, nil
}

// canonAtomText removes the spelling differences that do not change which
// atom is meant: ["x"] / ['x'] -> .x, (p) => -> p =>, trailing comma in traverse.
func canonAtomText(s string) string {
	r := strings.NewReplacer(`["`, ".", `"]`, "", `['`, ".", `']`, "", "(p)=>", "p=>", ",)", ")")
	return r.Replace(s)
}

type skInfo struct {
	table    uint32 // TypeScript meaning
	flat     uint32 // meaning if && and || had the same precedence, left associative (the recorded defect's reading)
	mixed    bool   // some parenthesis-free operator sequence contains both && and ||
	maxNest  int    // deepest nesting of '(' and '!' around an atom
	adjNot   bool   // a '!' directly applied to a '!'
	atoms    int
	binaries int
}

type skParser struct {
	toks []skTok
	pos  int
	n    int
	info *skInfo
	err  error
}

func (p *skParser) peek() byte {
	if p.pos < len(p.toks) {
		return p.toks[p.pos].kind
	}
	return 0
}

// precedence climbing: or := and { "||" and } ; and := unary { "&&" unary } ; unary := "!" unary | "(" or ")" | atom
func (p *skParser) or(depth int) (uint32, bool) {
	v, hadAnd := p.and(depth)
	anyAnd, ors := hadAnd, 0
	for p.peek() == '|' && p.err == nil {
		p.pos++
		ors++
		p.info.binaries++
		w, a := p.and(depth)
		anyAnd = anyAnd || a
		v |= w
	}
	if ors > 0 && anyAnd {
		p.info.mixed = true
	}
	return v, false
}

func (p *skParser) and(depth int) (uint32, bool) {
	v := p.unary(depth)
	had := false
	for p.peek() == '&' && p.err == nil {
		p.pos++
		had = true
		p.info.binaries++
		v &= p.unary(depth)
	}
	return v, had
}

func (p *skParser) unary(depth int) uint32 {
	if p.err != nil {
		return 0
	}
	switch p.peek() {
	case '!':
		p.pos++
		if p.peek() == '!' {
			p.info.adjNot = true
		}
		return ^p.unary(depth+1) & fullMask(p.n)
	case '(':
		p.pos++
		v, _ := p.or(depth + 1)
		if p.peek() != ')' {
			p.err = fmt.Errorf("expected ) at token %d", p.pos)
			return 0
		}
		p.pos++
		return v
	case 'a':
		t := p.toks[p.pos]
		p.pos++
		p.info.atoms++
		if depth > p.info.maxNest {
			p.info.maxNest = depth
		}
		return atomMask(t.atom, p.n)
	}
	p.err = fmt.Errorf("expected an operand at token %d", p.pos)
	return 0
}

// flatEval: same token string, && and || folded left to right with equal precedence.
func (p *skParser) flatExpr() uint32 {
	v := p.flatUnary()
	for (p.peek() == '&' || p.peek() == '|') && p.err == nil {
		op := p.peek()
		p.pos++
		w := p.flatUnary()
		if op == '&' {
			v &= w
		} else {
			v |= w
		}
	}
	return v
}
func (p *skParser) flatUnary() uint32 {
	if p.err != nil {
		return 0
	}
	switch p.peek() {
	case '!':
		p.pos++
		return ^p.flatUnary() & fullMask(p.n)
	case '(':
		p.pos++
		v := p.flatExpr()
		if p.peek() != ')' {
			p.err = fmt.Errorf("expected )")
			return 0
		}
		p.pos++
		return v
	case 'a':
		t := p.toks[p.pos]
		p.pos++
		return atomMask(t.atom, p.n)
	}
	p.err = fmt.Errorf("expected an operand")
	return 0
}

// RefEval is the TypeScript reading of a permission body.
func RefEval(body string, at *atomTable) (*skInfo, error) {
	toks, err := skeleton(body, at)
	if err != nil {
		return nil, err
	}
	info := &skInfo{}
	p := &skParser{toks: toks, n: at.n, info: info}
	info.table, _ = p.or(0)
	if p.err == nil && p.pos != len(toks) {
		p.err = fmt.Errorf("trailing tokens at %d", p.pos)
	}
	if p.err != nil {
		return nil, p.err
	}
	q := &skParser{toks: toks, n: at.n, info: &skInfo{}}
	info.flat = q.flatExpr()
	if q.err != nil || q.pos != len(toks) {
		return nil, fmt.Errorf("flat evaluation failed")
	}
	return info, nil
}

// exprTable evaluates the abstract expression directly (used to cross-check RefEval against the model).
func exprTable(e *Expr, at *atomTable) uint32 {
	switch e.Op {
	case 'a':
		return atomMask(at.byAST[e.astKey()], at.n)
	case '!':
		return ^exprTable(e.L, at) & fullMask(at.n)
	case '&':
		return exprTable(e.L, at) & exprTable(e.R, at)
	}
	return exprTable(e.L, at) | exprTable(e.R, at)
}

func (e *Expr) astKey() string {
	if e.Kind == LIncludes || e.Kind == LPermits {
		return "c:" + e.Rel
	}
	return "t:" + e.Rel + ":" + e.Via
}

func (e *Expr) atomText() string {
	switch e.Kind {
	case LIncludes:
		return "this.related." + e.Rel + ".includes(ctx.subject)"
	case LPermits:
		return "this.permits." + e.Rel + "(ctx)"
	case LTravRelated:
		return "this.related." + e.Rel + ".traverse(p=>p.related." + e.Via + ".includes(ctx.subject))"
	}
	return "this.related." + e.Rel + ".traverse(p=>p.permits." + e.Via + "(ctx))"
}

func (e *Expr) atoms(out *[]*Expr) {
	switch e.Op {
	case 'a':
		*out = append(*out, e)
	case '!':
		e.L.atoms(out)
	default:
		e.L.atoms(out)
		e.R.atoms(out)
	}
}

func newAtomTable(e *Expr) *atomTable {
	var as []*Expr
	e.atoms(&as)
	at := &atomTable{byAST: map[string]int{}, byText: map[string]int{}}
	for _, a := range as {
		if _, ok := at.byAST[a.astKey()]; ok {
			continue
		}
		at.byAST[a.astKey()] = at.n
		at.byText[a.atomText()] = at.n
		at.n++
	}
	return at
}

func (e *Expr) String() string {
	switch e.Op {
	case 'a':
		return e.atomText()
	case '!':
		return "!(" + e.L.String() + ")"
	case '&':
		return "(" + e.L.String() + " && " + e.R.String() + ")"
	}
	return "(" + e.L.String() + " || " + e.R.String() + ")"
}

// ---------------------------------------------------------------------------
// helpers shared by the checks

func parallel(n int, f func(i int)) {
	var wg sync.WaitGroup
	var next atomic.Int64
	w := runtime.NumCPU()
	if w > n {
		w = n
	}
	if w < 1 {
		w = 1
	}
	const chunk = 64
	for k := 0; k < w; k++ {
		wg.Add(1)
		go func() {
			defer wg.Done()
			for {
				lo := int(next.Add(chunk) - chunk)
				if lo >= n {
					return
				}
				hi := lo + chunk
				if hi > n {
					hi = n
				}
				for i := lo; i < hi; i++ {
					f(i)
				}
			}
		}()
	}
	wg.Wait()
}

func pow(b, n int) int {
	r := 1
	for i := 0; i < n; i++ {
		r *= b
	}
	return r
}

func sortedKeys[V any](m map[string]V) []string {
	ks := make([]string, 0, len(m))
	for k := range m {
		ks = append(ks, k)
	}
	sort.Strings(ks)
	return ks
}

func clip(s string, n int) string {
	if len(s) <= n {
		return s
	}
	return s[:n] + fmt.Sprintf("…(+%d bytes)", len(s)-n)
}

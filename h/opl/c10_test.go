// C10 — OPL permission expressions mean what the same TypeScript means.
//
// Bounded-exhaustive:
//
//	(T) every boolean expression tree with <= K binary operators over distinct
//	    atoms, every placement of up to two '!' on every root-to-leaf path (a
//	    node may carry 0, 1 or 2), atoms realised by the four leaf kinds
//	    (rotated over the atom positions), each rendered in four parenthesis
//	    layouts; oracle: Parse has no errors and the truth table of the parsed
//	    rewrite equals the table RefOPL computes from the rendered TEXT.
//	(N) nesting of '(' and '!(' up to the documented limit.
//	(V) the full product of spelling variants on two documents; oracle: no
//	    errors and relations / types / rewrites equal the source AST up to
//	    flattening of associative operators.
package opl

import (
	"encoding/json"
	"fmt"
	"os"
	"runtime"
	"runtime/debug"
	"sort"
	"strings"
	"sync"
	"sync/atomic"
	"testing"

	"github.com/ory/keto/internal/namespace/ast"
	"github.com/ory/keto/internal/schema"
	"github.com/ory/keto/verif/ev"
)

// ---- violation aggregation: one report per signature, smallest instance ----

type vioInst struct {
	sig, what string
	replay    any
	size      int
	count     int
}
type vioAgg struct {
	mu sync.Mutex
	m  map[string]*vioInst
}

func newAgg() *vioAgg { return &vioAgg{m: map[string]*vioInst{}} }
func (a *vioAgg) add(sig, what string, size int, replay any) {
	a.mu.Lock()
	defer a.mu.Unlock()
	v := a.m[sig]
	if v == nil {
		a.m[sig] = &vioInst{sig: sig, what: what, replay: replay, size: size, count: 1}
		return
	}
	v.count++
	if size < v.size || (size == v.size && what < v.what) {
		v.what, v.replay, v.size = what, replay, size
	}
}
func (a *vioAgg) report(run *ev.Run) map[string]int {
	counts := map[string]int{}
	for _, sig := range sortedKeys(a.m) {
		v := a.m[sig]
		counts[sig] = v.count
		run.Violation(sig, fmt.Sprintf("%s  [%d instance(s) of this signature; the smallest is shown]", v.what, v.count), v.replay)
	}
	return counts
}

// ---- tree enumeration ----

type shape struct{ l, r *shape } // nil children: leaf

var shapeMemo = map[int][]*shape{}

func shapesOf(k int) []*shape {
	if s, ok := shapeMemo[k]; ok {
		return s
	}
	var out []*shape
	if k == 0 {
		out = []*shape{{}}
	} else {
		for i := 0; i < k; i++ {
			for _, l := range shapesOf(i) {
				for _, r := range shapesOf(k - 1 - i) {
					out = append(out, &shape{l, r})
				}
			}
		}
	}
	shapeMemo[k] = out
	return out
}

type treeFamily struct {
	k      int
	shapes []*shape
	per    int // cases per shape: 2^k * 3^(2k+1) * 4
	lo     int // first global index
}

const leafKinds = 4

func c10Atom(i, shift int) *Expr {
	switch LeafKind((i + shift) % leafKinds) {
	case LIncludes:
		return Atom(LIncludes, fmt.Sprintf("r%d", i), "")
	case LPermits:
		return Atom(LPermits, fmt.Sprintf("q%d", i), "")
	case LTravRelated:
		return Atom(LTravRelated, fmt.Sprintf("t%d", i), "m")
	}
	return Atom(LTravPermits, fmt.Sprintf("t%d", i), "w")
}

// build returns the expression of case (shape, ops, nots, shift) or nil when a
// root-to-leaf path would carry more than two '!'.
func buildTree(sh *shape, ops int, nots []int, shift int) *Expr {
	node, leaf, opi := 0, 0, 0
	var rec func(s *shape, onPath int) *Expr
	rec = func(s *shape, onPath int) *Expr {
		n := nots[node]
		node++
		onPath += n
		if onPath > 2 {
			return nil
		}
		var e *Expr
		if s.l == nil {
			e = c10Atom(leaf, shift)
			leaf++
		} else {
			op := byte('|')
			if ops>>opi&1 == 1 {
				op = '&'
			}
			opi++
			l := rec(s.l, onPath)
			if l == nil {
				return nil
			}
			r := rec(s.r, onPath)
			if r == nil {
				return nil
			}
			e = Bin(op, l, r)
		}
		for i := 0; i < n; i++ {
			e = Not(e)
		}
		return e
	}
	return rec(sh, 0)
}

func c10Prelude() string {
	var sb strings.Builder
	sb.WriteString("class N implements Namespace {\n  related: {\n")
	for i := 0; i < 5; i++ {
		fmt.Fprintf(&sb, "    r%d: N[]\n    t%d: N[]\n", i, i)
	}
	sb.WriteString("    m: N[]\n  }\n  permits = {\n")
	for i := 0; i < 5; i++ {
		fmt.Fprintf(&sb, "    q%d: (ctx) => this.related.r%d.includes(ctx.subject),\n", i, i)
	}
	sb.WriteString("    w: (ctx) => this.related.m.includes(ctx.subject),\n    x: (ctx: Context): boolean => ")
	return sb.String()
}

const c10Postlude = ",\n  }\n}\n"

// the documented limit: limits.go says "maximum number of nested '(' and '!'" = 10.
const nestJudged = 9 // weaker reading: 10 nested is where keto already refuses; <= 9 must be accepted

type c10Counters struct {
	evals, accepted, overLimit, nontrivial atomic.Int64
}

// judgeBody parses prelude+body and compares meanings. model may be nil (nesting family).
func c10JudgeBody(agg *vioAgg, cnt *c10Counters, prelude, body string, at *atomTable, want uint32, haveWant bool, replay map[string]any) {
	cnt.evals.Add(1)
	info, err := RefEval(body, at)
	if err != nil {
		panic(fmt.Sprintf("INFRA-ERROR RefOPL cannot read its own rendering %q: %v", body, err))
	}
	if haveWant && info.table != want {
		panic(fmt.Sprintf("INFRA-ERROR renderer/RefOPL disagree with the model on %q: %x vs %x", body, info.table, want))
	}
	doc := prelude + body + c10Postlude
	replay["doc"] = doc
	replay["body"] = body
	nss, errs := schema.Parse(doc)
	if len(errs) > 0 {
		if info.maxNest > nestJudged {
			cnt.overLimit.Add(1)
			return
		}
		sig := "rejected:other"
		if info.adjNot {
			sig = "rejected:not-applied-directly-to-not"
		}
		agg.add(sig, fmt.Sprintf("documented expression rejected: `%s` -> %s", body, errs[0].ToAPI().Message), len(body), replay)
		return
	}
	cnt.accepted.Add(1)
	var rw *ast.SubjectSetRewrite
	for _, n := range nss {
		if n.Name == "N" {
			for i := range n.Relations {
				if n.Relations[i].Name == "x" {
					rw = n.Relations[i].SubjectSetRewrite
				}
			}
		}
	}
	if rw == nil {
		agg.add("accepted-but-permission-missing", fmt.Sprintf("no errors, but permission x is absent from the result: `%s`", body), len(body), replay)
		return
	}
	got, ok := astTable(rw, at)
	if !ok {
		agg.add("ast:not-an-expression-over-the-source-atoms", fmt.Sprintf("`%s` parsed to %s", body, normChild(rw)), len(body), replay)
		return
	}
	if got == info.table {
		return
	}
	sig := "meaning:other"
	switch {
	case info.mixed && got == info.flat:
		sig = "precedence:mixed-and-or-without-parens"
	case info.mixed:
		sig = "meaning:mixed-and-or-without-parens-but-not-left-to-right"
	}
	replay["parsed"] = normChild(rw)
	replay["table_parsed"] = fmt.Sprintf("%0*b", 1<<at.n, got)
	replay["table_typescript"] = fmt.Sprintf("%0*b", 1<<at.n, info.table)
	agg.add(sig, fmt.Sprintf("`%s` parsed as %s: truth table %0*b, TypeScript %0*b (rows = assignments of the atoms in order of appearance)",
		body, normChild(rw), 1<<at.n, got, 1<<at.n, info.table), len(body), replay)
}

func renderBody(e *Expr, paren int) string {
	b := &docBuilder{st: Style{Paren: paren, LambdaParen: true}}
	b.renderExpr(e, 0)
	s, _ := Join(b.toks, LayoutPretty, -1, "")
	return s
}

// ---- spelling variants ----

func specExampleProg() *Prog {
	ss := TypeRef{"Group", "members"}
	return &Prog{NS: []NSDecl{
		{Name: "User", Rels: []RelDecl{{"manager", []TypeRef{{"User", ""}}}}},
		{Name: "Group", Rels: []RelDecl{{"members", []TypeRef{{"User", ""}, {"Group", ""}}}}},
		{Name: "Folder",
			Rels:  []RelDecl{{"parents", []TypeRef{{"File", ""}}}, {"viewers", []TypeRef{{"User", ""}, ss}}},
			Perms: []PermDecl{{"view", Atom(LIncludes, "viewers", "")}}},
		{Name: "File",
			Rels: []RelDecl{{"parents", []TypeRef{{"File", ""}, {"Folder", ""}}}, {"viewers", []TypeRef{{"User", ""}, ss}},
				{"owners", []TypeRef{{"User", ""}, ss}}, {"siblings", []TypeRef{{"File", ""}}}},
			Perms: []PermDecl{
				{"view", Bin('|', Bin('|', Bin('|', Atom(LTravRelated, "parents", "viewers"), Atom(LTravPermits, "parents", "view")),
					Atom(LIncludes, "viewers", "")), Atom(LIncludes, "owners", ""))},
				{"edit", Atom(LIncludes, "owners", "")},
				{"rename", Atom(LTravPermits, "siblings", "edit")},
			}},
	}}
}

func secondProg() *Prog {
	ss := TypeRef{"Group", "members"}
	banned := Atom(LIncludes, "banned", "")
	return &Prog{NS: []NSDecl{
		{Name: "User"},
		{Name: "Group", Rels: []RelDecl{{"members", []TypeRef{{"User", ""}, {"Group", ""}}}}},
		{Name: "Doc",
			Rels: []RelDecl{{"owners", []TypeRef{{"User", ""}, ss}}, {"parents", []TypeRef{{"Doc", ""}}},
				{"editors", []TypeRef{ss}}, {"banned", []TypeRef{{"User", ""}}}},
			Perms: []PermDecl{
				{"edit", Bin('|', Atom(LIncludes, "owners", ""), Atom(LIncludes, "editors", ""))},
				{"view", Bin('&', Bin('|', Atom(LPermits, "edit", ""), Atom(LTravPermits, "parents", "view")), Not(banned))},
				{"share", Bin('&', Not(Bin('|', banned, Not(Atom(LPermits, "view", "")))), Atom(LTravRelated, "parents", "owners"))},
				{"del", Not(Atom(LPermits, "view", ""))},
			}},
	}}
}

type styleDim struct {
	name string
	n    int
	set  func(*Style, int)
}

var styleDims = []styleDim{
	{"array", 2, func(s *Style, v int) { s.ArrayGeneric = v == 1 }},
	{"access", 3, func(s *Style, v int) { s.Access = v }},
	{"ctx-type", 2, func(s *Style, v int) { s.CtxType = v == 1 }},
	{"boolean", 2, func(s *Style, v int) { s.BoolType = v == 1 }},
	{"quoted-names", 3, func(s *Style, v int) { s.QuoteNames = v }},
	{"subjectset-quote", 2, func(s *Style, v int) { s.SSQuote = v }},
	{"relation-separator", 3, func(s *Style, v int) { s.RelSep = v }},
	{"trailing-comma", 2, func(s *Style, v int) { s.TrailComma = v == 1 }},
	{"class-separator", 2, func(s *Style, v int) { s.ClassSep = v == 1 }},
	{"lambda-paren", 2, func(s *Style, v int) { s.LambdaParen = v == 1 }},
	{"traverse-trailing-comma", 2, func(s *Style, v int) { s.TravComma = v == 1 }},
	{"import", 2, func(s *Style, v int) { s.Import = v == 1 }},
}

func styleOf(i int) (Style, int) {
	var st Style
	for _, d := range styleDims {
		d.set(&st, i%d.n)
		i /= d.n
	}
	return st, i // remaining = layout
}

func styleCount() int {
	n := 1
	for _, d := range styleDims {
		n *= d.n
	}
	return n
}

func TestC10(t *testing.T) {
	run := ev.New("C10", "exploration")
	agg := newAgg()
	var cnt c10Counters
	K := 3
	if ev.Thorough() {
		K = 4
	}
	prelude := c10Prelude()

	// sanity: the fixed part of the tree documents is accepted
	if _, errs := schema.Parse(prelude + "this.related.r0.includes(ctx.subject)" + c10Postlude); len(errs) > 0 {
		run.Violation("rejected:other", "base document of the expression family rejected: "+errs[0].ToAPI().Message, map[string]any{"doc": prelude})
	}

	// ---- (T) trees
	var fams []treeFamily
	total := 0
	for k := 0; k <= K; k++ {
		f := treeFamily{k: k, shapes: shapesOf(k), per: pow(2, k) * pow(3, 2*k+1) * leafKinds, lo: total}
		total += len(f.shapes) * f.per
		fams = append(fams, f)
	}
	decode := func(i int) (*Expr, map[string]any) {
		for fi := len(fams) - 1; fi >= 0; fi-- {
			f := fams[fi]
			if i < f.lo {
				continue
			}
			j := i - f.lo
			sh := f.shapes[j/f.per]
			j %= f.per
			shift := j % leafKinds
			j /= leafKinds
			ops := j % pow(2, f.k)
			j /= pow(2, f.k)
			nots := make([]int, 2*f.k+1)
			for n := range nots {
				nots[n] = j % 3
				j /= 3
			}
			return buildTree(sh, ops, nots, shift), map[string]any{"family": "tree", "index": i, "operators": f.k}
		}
		return nil, nil
	}
	var trees, voidIdx atomic.Int64
	var perParen [4]atomic.Int64
	oneTree := func(i int) {
		e, rp := decode(i)
		if e == nil {
			voidIdx.Add(1)
			return
		}
		trees.Add(1)
		if _, rp0 := decode(i); rp0["operators"].(int) >= 2 || strings.Contains(e.String(), "!") {
			cnt.nontrivial.Add(1) // counted once per tree; trees are pairwise distinct by construction
		}
		at := newAtomTable(e)
		want := exprTable(e, at)
		for paren := 0; paren < 4; paren++ {
			body := renderBody(e, paren)
			r := map[string]any{"layout": parenName[paren]}
			for k, v := range rp {
				r[k] = v
			}
			perParen[paren].Add(1)
			c10JudgeBody(agg, &cnt, prelude, body, at, want, true, r)
		}
	}
	if rf := os.Getenv("VERIF_REPLAY"); rf != "" {
		var rec struct {
			Replay map[string]any `json:"replay"`
		}
		b, err := os.ReadFile(rf)
		if err != nil || json.Unmarshal(b, &rec) != nil {
			t.Fatalf("INFRA-ERROR cannot read replay %s", rf)
		}
		if doc, ok := rec.Replay["doc"].(string); ok {
			nss, errs := schema.Parse(doc)
			fmt.Printf("  replay document:\n%s\n  errors: %d\n", doc, len(errs))
			for _, e := range errs {
				fmt.Printf("  %s\n", e.ToAPI().Message)
			}
			for _, n := range nss {
				for _, r := range n.Relations {
					if r.SubjectSetRewrite != nil {
						fmt.Printf("  %s.%s = %s\n", n.Name, r.Name, normChild(r.SubjectSetRewrite))
					}
				}
			}
		}
		if idx, ok := rec.Replay["index"].(float64); ok && rec.Replay["family"] == "tree" {
			oneTree(int(idx))
		}
		agg.report(run)
		return
	}
	parallel(total, oneTree)
	for _, i := range []int{3, fams[1].lo + 5, fams[len(fams)-1].lo + 12345} {
		if e, _ := decode(i % total); e != nil {
			run.Sample(map[string]any{"family": "tree", "index": i % total, "minimal": renderBody(e, ParenMinimal), "full": renderBody(e, ParenFull), "redundant": renderBody(e, ParenRedundant)})
		}
	}

	// ---- (N) nesting: every sequence of "(" and "!(" of length <= 9 around `a` and around `a && b`
	a0, a1 := c10Atom(0, 0), c10Atom(1, 0)
	inner := []*Expr{a0, Bin('&', a0, a1)}
	var nestCases atomic.Int64
	parallel(2*(pow(2, 10)-1), func(i int) {
		e := inner[i%2]
		code := i/2 + 1 // 1-prefixed bit string: the bits after the leading 1 are the wrappers
		at := newAtomTable(e)
		body := renderBody(e, ParenMinimal)
		want := exprTable(e, at)
		for code > 1 {
			if code&1 == 1 {
				body = "!(" + body + ")"
				want = ^want & fullMask(at.n)
			} else {
				body = "(" + body + ")"
			}
			code >>= 1
		}
		nestCases.Add(1)
		c10JudgeBody(agg, &cnt, prelude, body, at, want, true, map[string]any{"family": "nesting", "index": i})
	})
	run.Sample(map[string]any{"family": "nesting", "body": "!((!(" + renderBody(a0, 0) + ")))"})

	// ---- (V) spelling variants
	var variants, variantSkipped, gapCases atomic.Int64
	progs := []*Prog{specExampleProg(), secondProg()}
	progName := []string{"spec-example", "second-document"}
	nStyles := styleCount()
	for pi, prog := range progs {
		want := normNamespaces(prog.Denotes())
		judge := func(text string, what map[string]any) {
			cnt.evals.Add(1)
			nss, errs := schema.Parse(text)
			what["doc"] = text
			what["document"] = progName[pi]
			if len(errs) > 0 {
				agg.add(fmt.Sprintf("variant-rejected:%v", what["class"]), fmt.Sprintf("%s in spelling %v rejected: %s", progName[pi], what["style"], errs[0].ToAPI().Message), len(text), what)
				return
			}
			cnt.accepted.Add(1)
			cnt.nontrivial.Add(1)
			if got := normNamespaces(nss); got != want {
				what["parsed"], what["source"] = got, want
				agg.add(fmt.Sprintf("variant-misread:%v", what["class"]), fmt.Sprintf("%s in spelling %v denotes %s but parsed to %s", progName[pi], what["style"], want, got), len(text), what)
			}
		}
		parallel(nStyles*len(layoutName), func(i int) {
			st, layout := styleOf(i)
			if st.ArrayGeneric && st.RelSep == 1 {
				// `r: Array<T>,` occurs in no documented example and keto refuses it: not demanded (see Assume)
				variantSkipped.Add(1)
				return
			}
			toks := prog.Tokens(st)
			text, _ := Join(toks, layout, -1, "")
			variants.Add(1)
			judge(text, map[string]any{"class": "style-product", "style": fmt.Sprintf("%+v layout=%s", st, layoutName[layout]), "index": i})
		})
		// a single comment in every gap of the plain rendering, each comment kind
		st := Style{CtxType: true, BoolType: true, TrailComma: true, LambdaParen: true, SSQuote: 0}
		toks := prog.Tokens(st)
		// every shape a comment's ends can take: empty, stars and slashes next to the delimiters, a comment opener
		// inside a comment, a line comment holding block delimiters, a line comment at the end of a line only
		comments := []string{" /* c */ ", " /** c\n * d */ ", " // c\n ",
			" /**/ ", " /***/ ", " /****/ ", " /** c **/ ", " /*** c ***/ ", " /* * */ ", " /* / */ ", " /*/ c */ ", " /* c /*/ ", " /* /* c */ ", " /* // */ ",
			" //\n ", " /// c\n ", " // */ c\n ", " // /* c\n ", " /* c */ /* d */ ", " /* c */ // d\n "}
		parallel(len(toks)*len(comments), func(i int) {
			g, c := i/len(comments), comments[i%len(comments)]
			text, _ := Join(toks, LayoutPretty, g, c)
			gapCases.Add(1)
			judge(text, map[string]any{"class": "comment-in-gap", "style": fmt.Sprintf("comment %q after token %d (%q)", c, g, toks[g].S), "index": i})
		})
		// declaration order: the permits block before the related block, and permissions in reverse order
		// (so that this.permits.X / this.related.R refer to something declared LATER in the class)
		for do := 1; do <= 3; do++ {
			for _, layout := range []int{LayoutPretty} {
				st := Style{CtxType: true, BoolType: true, LambdaParen: true, DeclOrder: do}
				text, _ := Join(prog.Tokens(st), layout, -1, "")
				variants.Add(1)
				cnt.evals.Add(1)
				nss, errs := schema.Parse(text)
				what := map[string]any{"class": "declaration-order", "style": fmt.Sprintf("decl-order=%d", do), "doc": text, "document": progName[pi]}
				if len(errs) > 0 {
					agg.add("variant-rejected:declaration-order", fmt.Sprintf("%s with declaration order %d (forward references) rejected: %s", progName[pi], do, errs[0].ToAPI().Message), len(text), what)
					continue
				}
				cnt.accepted.Add(1)
				if got, w := normNamespacesUnordered(nss), normNamespacesUnordered(prog.Denotes()); got != w {
					agg.add("variant-misread:declaration-order", fmt.Sprintf("%s with declaration order %d denotes %s but parsed to %s", progName[pi], do, w, got), len(text), what)
				}
			}
		}
		if pi == 1 {
			st2, _ := styleOf(1 + 3*2 + 2*3*2*2*2) // Array<>, ['x'] access, quoted names
			tx, _ := Join(prog.Tokens(st2), LayoutCompact, -1, "")
			run.Sample(map[string]any{"family": "variants", "document": progName[pi], "text": tx})
		}
	}

	// identifier shapes and union shapes: a small program whose names are, one role at a time, identifiers that
	// start with a keyword and go on with '_' or a digit, contain digits and underscores, or only resemble a
	// keyword; and relation types that name a namespace both plainly and through a SubjectSet, in both orders and
	// both array spellings. Each must parse to what it denotes.
	shapeCases := 0
	{
		idents := []string{"this_doc", "class_members", "ctx_owner", "implements_policy", "this1", "class2", "ctx_", "implements9", "_this", "x_y", "_", "a1", "A_B_C", "thisDoc", "classes", "contexts", "implementsX", "Namespace_", "related_", "permits1"}
		base := [5]string{"Usr", "Obj", "rel1", "rel2", "perm"}
		mk := func(n [5]string, types []TypeRef) *Prog {
			return &Prog{NS: []NSDecl{
				{Name: n[0]},
				{Name: n[1],
					Rels:  []RelDecl{{n[2], types}, {n[3], []TypeRef{{n[1], ""}}}},
					Perms: []PermDecl{{n[4], Bin('|', Atom(LIncludes, n[2], ""), Atom(LTravPermits, n[3], n[4]))}}},
			}}
		}
		try := func(prog *Prog, st Style, class, what string) {
			text, _ := Join(prog.Tokens(st), LayoutPretty, -1, "")
			shapeCases++
			cnt.evals.Add(1)
			nss, errs := schema.Parse(text)
			info := map[string]any{"class": class, "style": what, "doc": text}
			if len(errs) > 0 {
				agg.add("variant-rejected:"+class, fmt.Sprintf("a valid document (%s) is rejected: %s", what, errs[0].ToAPI().Message), len(text), info)
				return
			}
			cnt.accepted.Add(1)
			if got, w := normNamespacesUnordered(nss), normNamespacesUnordered(prog.Denotes()); got != w {
				agg.add("variant-misread:"+class, fmt.Sprintf("a document (%s) denotes %s but parsed to %s", what, w, got), len(text), info)
			}
		}
		plain := Style{CtxType: true, BoolType: true, LambdaParen: true}
		for role := 0; role < 5; role++ {
			for _, id := range idents {
				n := base
				n[role] = id
				try(mk(n, []TypeRef{{n[0], ""}}), plain, "identifier-shape", fmt.Sprintf("%s as the name of role %d (0 subject namespace, 1 object namespace, 2-3 relations, 4 permission)", id, role))
			}
		}
		unions := [][]TypeRef{
			{{"Usr", ""}, {"Obj", ""}, {"Obj", "rel2"}},
			{{"Obj", "rel2"}, {"Obj", ""}, {"Usr", ""}},
			{{"Obj", ""}, {"Obj", "rel2"}},
			{{"Obj", "rel2"}, {"Obj", ""}},
			{{"Obj", "rel2"}, {"Obj", "rel1"}},
			{{"Usr", ""}, {"Obj", "rel1"}, {"Obj", ""}, {"Obj", "rel2"}},
		}
		for ui, u := range unions {
			for _, generic := range []bool{false, true} {
				st := plain
				st.ArrayGeneric = generic
				try(mk(base, u), st, "union-shape", fmt.Sprintf("union #%d %v, Array<> spelling=%v", ui, u, generic))
			}
		}
	}

	// a parse result denotes its source for as long as the caller holds it: the namespaces returned for document a
	// are compared with their own rendering after document b was parsed (every ordered pair of documents, single
	// OS thread, no garbage collection in between, so that whatever Parse recycles is what the next Parse gets)
	lifetimePairs := 0
	{
		var docs []string
		for _, prog := range []*Prog{specExampleProg(), secondProg()} {
			for _, st := range []Style{{CtxType: true, BoolType: true, LambdaParen: true}, {CtxType: true, BoolType: true, LambdaParen: true, DeclOrder: 1}} {
				tx, _ := Join(prog.Tokens(st), LayoutPretty, -1, "")
				docs = append(docs, tx)
			}
		}
		docs = append(docs, "class X implements Namespace {}", "class Y implements Namespace {}\nclass Z implements Namespace { related: { r: Y[] } }", "class {")
		oldP := runtime.GOMAXPROCS(1)
		gc := debug.SetGCPercent(-1)
		reported := false
		for a := 0; a < len(docs) && !reported; a++ {
			for b := 0; b < len(docs) && !reported; b++ {
				nsA, _ := schema.Parse(docs[a])
				before := normNamespacesUnordered(nsA)
				_, _ = schema.Parse(docs[b])
				lifetimePairs++
				if after := normNamespacesUnordered(nsA); after != before {
					reported = true
					run.Violation("result-lifetime:namespaces-of-an-earlier-parse-changed", fmt.Sprintf("the namespaces returned by Parse(document %d) read %s; after Parse(document %d) ran, the SAME returned value reads %s", a, before, b, after), map[string]any{"first": docs[a], "second": docs[b]})
				}
			}
		}
		debug.SetGCPercent(gc)
		runtime.GOMAXPROCS(oldP)
	}

	counts := agg.report(run)
	run.Assume(
		"documented grammar = docs/ory_permission_language_spec.md read together with its examples, contrib/rewrites-example and the typings: `related: {` and `traverse` (the EBNF's `related = {` / `transitive` are not demanded)",
		"nesting: limits.go documents 'maximum number of nested ( and ! = 10'; keto refuses the 10th level, so only nesting <= 9 must be accepted (10 is not judged, > 10 may be refused); an accepted expression must still mean the right thing at any depth",
		"spellings left out of the must-accept set because no documented example shows them: `r: Array<T>,` (comma after a generic array type; keto rejects it, `;` and line break are accepted), a trailing comma after a `p.permits.x(ctx)` lambda (keto rejects it; after `p.related.x.includes(ctx.subject)` it is in the spec example and demanded), bracket access on `this` itself, `;` between permissions, non-identifier strings as quoted names",
		"truth tables treat the atoms as free booleans; atoms are distinct so the table determines the boolean structure",
		"the end-to-end engine part of C10 is not in this check",
	)
	sigs := map[string]any{}
	for k, v := range counts {
		sigs[k] = v
	}
	var dims []string
	for _, d := range styleDims {
		dims = append(dims, fmt.Sprintf("%s:%d", d.name, d.n))
	}
	sort.Strings(dims)
	run.Finish(map[string]any{
		"evaluations":         int(cnt.evals.Load()),
		"distinct_nontrivial": int(cnt.nontrivial.Load()),
		"rule": "every (tree shape x operator assignment x '!' placement with <=2 per path x leaf-kind rotation) with <= max_binary_operators, each in 4 parenthesis layouts; every '(' / '!(' wrapper string of length <= 9; full product of the spelling dimensions x 5 layouts on 2 documents + one comment in every token gap. " +
			"distinct_nontrivial counts (a) trees (pairwise distinct by construction, each judged in 4 layouts) with >= 2 binary operators or a '!', plus (b) accepted spelling variants (pairwise distinct texts: every style dimension changes the text of both documents) compared against the source AST",
		"max_binary_operators":             K,
		"tree_indices":                     total,
		"tree_indices_void":                int(voidIdx.Load()),
		"trees":                            int(trees.Load()),
		"tree_renderings":                  int(perParen[0].Load() + perParen[1].Load() + perParen[2].Load() + perParen[3].Load()),
		"nesting_cases":                    int(nestCases.Load()),
		"spelling_variants":                int(variants.Load()),
		"spelling_not_demanded":            int(variantSkipped.Load()),
		"comment_gap_cases":                int(gapCases.Load()),
		"result_lifetime_pairs":            lifetimePairs,
		"identifier_and_union_shape_cases": shapeCases,
		"accepted":                         int(cnt.accepted.Load()),
		"beyond_nesting_limit":             int(cnt.overLimit.Load()),
		"style_dimensions":                 dims,
		"layouts":                          layoutName,
		"paren_layouts":                    parenName,
		"violations_by_signature":          sigs,
		"exhaustive":                       true,
	})
}

// C12 — the OPL parser is total and does linear work.
//
// Work is counted in "ticks": the driver builds this package in variant
// "ticks", where /verif/tools/vticks has inserted a call verifTick() at every
// function entry and loop-body start of package internal/schema (the counter
// lives in /verif/h/added/internal/schema/zz_verif_ticks.go). The counter is a
// plain process-wide int64, so tick-measuring enumeration runs sequentially;
// for throughput the check re-executes its own test binary as W shard
// processes (index i belongs to shard i mod W) and merges their reports.
package opl

import (
	"bytes"
	"context"
	"encoding/binary"
	"encoding/json"
	"fmt"
	"io"
	"net/http"
	"net/http/httptest"
	"os"
	"os/exec"
	"path/filepath"
	"runtime"
	"sort"
	"strconv"
	"strings"
	"sync"
	"sync/atomic"
	"syscall"
	"testing"
	"time"

	"github.com/julienschmidt/httprouter"
	"google.golang.org/protobuf/proto"

	"github.com/ory/keto/internal/driver"
	"github.com/ory/keto/internal/namespace"
	"github.com/ory/keto/internal/namespace/ast"
	"github.com/ory/keto/internal/schema"
	"github.com/ory/keto/internal/x"
	"github.com/ory/keto/ketoapi"
	oplpb "github.com/ory/keto/proto/ory/keto/opl/v1alpha1"
	"github.com/ory/keto/verif/ev"
)

// ---- calibrated constants (see the final report / evidence "calibration") ----
//
// Measured on the unchanged tree over every enumerated input of families
// (i)-(iii) (quick and thorough tiers): max ticks on inputs of <= 2 bytes and
// max ticks/byte on inputs of >= 8 bytes; the bound below keeps >= 4x headroom
// over both.
const (
	tickC  = 100 // ticks per input byte   (observed maximum 24.25 on inputs of >= 8 bytes, quick and thorough)
	tickC0 = 500 // constant part          (observed maximum 64 on inputs of <= 2 bytes)
	// "Parse returns": a Parse still running after tickCapFactor times its
	// linear bound plus tickCapBase ticks is reported as non-terminating (a step
	// count, not a wall-clock limit). The quadratic families found on the
	// unchanged tree stay below 10x their linear bound at n = 2^16.
	tickCapFactor = 100
	tickCapBase   = int64(2e8)
	ratioLimit    = 2.5
)

// ---- inputs ----

var c12Alphabet = []string{"{", "}", "(", ")", "[", "]", "<", ">", ":", ".", ",", ";", "|", "=", "!", "&", "\"", "'", "/", "*", "\n", "a", "1", "\xc3", "\xa9"}

var c12Tokens = []string{
	"class", "implements", "this", "ctx",
	"&&", "||", "!", "=", "=>", ".", ":", ",", ";", "|",
	"(", ")", "{", "}", "[", "]", "<", ">",
	"x", "related", "permits", "Namespace", "includes", "traverse", "subject", "Array", "SubjectSet", "Context", "boolean",
	`"s"`, `'s'`, "/*c*/", "//c\n",
	`"u`, `'u`, "/*u", "#",
}

var c12Seps = []string{" ", "", "\n"}

var c12Contexts = []string{
	"",
	"class A implements Namespace { ",
	"class A implements Namespace { related: { ",
	"class A implements Namespace { related: { r: A[] } permits = { p: (ctx) => ",
	"class A implements Namespace { related: { r: A[] } permits = { p: (ctx) => this.related.r.traverse((x) => ",
}

type c12Family struct {
	name     string
	n        int                // number of cases
	gen      func(i int) string // index -> input
	handler  func(i int) bool   // also compared through the REST / gRPC handlers
	distinct bool               // inputs of this family are pairwise distinct and distinct from the other "distinct" families
}

func digits(i, base, n int, out []int) {
	for k := 0; k < n; k++ {
		out[k] = i % base
		i /= base
	}
}

// strings of length exactly l over alphabet a in context c: index space a^l
func overAlphabet(name string, alpha []string, l int, ctx string, handler bool, distinct bool, sep string) c12Family {
	base := len(alpha)
	return c12Family{name: name, n: pow(base, l), handler: func(int) bool { return handler }, distinct: distinct, gen: func(i int) string {
		ix := make([]int, l)
		digits(i, base, l, ix)
		var sb strings.Builder
		sb.WriteString(ctx)
		for k, d := range ix {
			if k > 0 {
				sb.WriteString(sep)
			}
			sb.WriteString(alpha[d])
		}
		return sb.String()
	}}
}

// own tokenizer for the corpus documents (white space kept in .pre)
type srcTok struct{ pre, s string }

func tokenize(src string) (toks []srcTok, tail string) {
	i := 0
	for {
		j := i
		for j < len(src) && strings.ContainsRune(" \t\r\n", rune(src[j])) {
			j++
		}
		pre := src[i:j]
		if j >= len(src) {
			return toks, pre
		}
		k := j
		c := src[j]
		switch {
		case strings.HasPrefix(src[j:], "//"):
			for k < len(src) && src[k] != '\n' {
				k++
			}
		case strings.HasPrefix(src[j:], "/*"):
			e := strings.Index(src[j+2:], "*/")
			if e < 0 {
				k = len(src)
			} else {
				k = j + 2 + e + 2
			}
		case c == '"' || c == '\'' || c == '`':
			k = j + 1
			for k < len(src) && src[k] != c && src[k] != '\n' {
				k++
			}
			if k < len(src) && src[k] == c {
				k++
			}
		case c == '_' || c >= 'a' && c <= 'z' || c >= 'A' && c <= 'Z' || c >= '0' && c <= '9':
			for k < len(src) && (src[k] == '_' || src[k] >= 'a' && src[k] <= 'z' || src[k] >= 'A' && src[k] <= 'Z' || src[k] >= '0' && src[k] <= '9') {
				k++
			}
		case strings.HasPrefix(src[j:], "=>") || strings.HasPrefix(src[j:], "&&") || strings.HasPrefix(src[j:], "||"):
			k = j + 2
		default:
			k = j + 1
			for k < len(src) && src[k]&0xC0 == 0x80 { // keep a multi-byte rune together
				k++
			}
		}
		toks = append(toks, srcTok{pre, src[j:k]})
		i = k
	}
}

func editFamily(name, src string, handlerEvery int) c12Family {
	toks, tail := tokenize(src)
	per := 2 + len(c12Tokens) // delete, duplicate, replace by each spelling
	return c12Family{name: name, n: len(toks)*per + 1, handler: func(i int) bool { return i%handlerEvery == 0 }, gen: func(i int) string {
		if i == len(toks)*per {
			return src
		}
		at, ed := i/per, i%per
		var sb strings.Builder
		for k, t := range toks {
			sb.WriteString(t.pre)
			if k != at {
				sb.WriteString(t.s)
				continue
			}
			switch {
			case ed == 0: // delete
			case ed == 1:
				sb.WriteString(t.s + " " + t.s)
			default:
				sb.WriteString(c12Tokens[ed-2])
			}
		}
		sb.WriteString(tail)
		return sb.String()
	}}
}

func specExampleText() (string, error) {
	b, err := os.ReadFile("/repo/docs/ory_permission_language_spec.md")
	if err != nil {
		return "", err
	}
	s := string(b)
	i := strings.LastIndex(s, "```ts")
	if i < 0 {
		return "", fmt.Errorf("no ```ts block in the spec")
	}
	s = s[i+len("```ts"):]
	j := strings.Index(s, "```")
	if j < 0 {
		return "", fmt.Errorf("unterminated ```ts block in the spec")
	}
	return s[:j], nil
}

type corpusDoc struct{ name, text string }

func loadCorpus() (docs []corpusDoc, seeds []corpusDoc, err error) {
	spec, err := specExampleText()
	if err != nil {
		return nil, nil, err
	}
	docs = append(docs, corpusDoc{"docs/spec-example", spec})
	for _, p := range []string{"contrib/rewrites-example/namespaces.keto.ts", "internal/check/testfixtures/project_opl.ts", "contrib/namespace-type-lib/test.ts"} {
		b, err := os.ReadFile(filepath.Join("/repo", p))
		if err != nil {
			return nil, nil, err
		}
		docs = append(docs, corpusDoc{p, string(b)})
	}
	// go-fuzz corpus files of the package: `go test fuzz v1\nstring("...")`
	fz, _ := filepath.Glob("/repo/internal/schema/testdata/fuzz/FuzzParser/*")
	sort.Strings(fz)
	for _, p := range fz {
		b, err := os.ReadFile(p)
		if err != nil {
			return nil, nil, err
		}
		for _, l := range strings.Split(string(b), "\n") {
			if strings.HasPrefix(l, "string(") && strings.HasSuffix(l, ")") {
				if s, err := strconv.Unquote(l[len("string(") : len(l)-1]); err == nil {
					docs = append(docs, corpusDoc{"testdata/" + filepath.Base(p)[:8], s})
				}
			}
		}
	}
	sd, _ := filepath.Glob("/repo/.fuzzer/fuzz_parser_seeds/*")
	sort.Strings(sd)
	for _, p := range sd {
		b, err := os.ReadFile(p)
		if err != nil {
			return nil, nil, err
		}
		seeds = append(seeds, corpusDoc{"seed/" + filepath.Base(p)[:8], string(b)})
	}
	return docs, seeds, nil
}

func c12Families(thorough bool) ([]c12Family, error) {
	var fs []c12Family
	// (i) all byte strings of length <= 2, in every context
	allBytes := make([]string, 256)
	for i := range allBytes {
		allBytes[i] = string([]byte{byte(i)})
	}
	for ci, ctx := range c12Contexts {
		for l := 0; l <= 2; l++ {
			fs = append(fs, overAlphabet(fmt.Sprintf("bytes/len%d/ctx%d", l, ci), allBytes, l, ctx, ci == 0 || l < 2, false, ""))
		}
	}
	// (i) all strings over the 25-byte alphabet
	maxAlpha := 4
	if thorough {
		maxAlpha = 5
	}
	for ci, ctx := range c12Contexts {
		for l := 3; l <= maxAlpha; l++ {
			if l == 5 && ci != 0 && ci != 3 {
				continue
			}
			fs = append(fs, overAlphabet(fmt.Sprintf("alphabet/len%d/ctx%d", l, ci), c12Alphabet, l, ctx, l <= 3 && ci == 0, false, ""))
		}
	}
	// (ii) token sequences under three separators
	maxTok := 4
	if thorough {
		maxTok = 5
	}
	for l := 1; l <= maxTok; l++ {
		for si, sep := range c12Seps {
			for ci, ctx := range c12Contexts {
				if l == 5 && !(si == 0 && (ci == 0 || ci == 3)) {
					continue // the deepest level only blank-separated, bare and inside a permission
				}
				if l == 4 && !thorough && si != 0 && ci != 0 && ci != 3 {
					continue
				}
				fs = append(fs, overAlphabet(fmt.Sprintf("tokens/len%d/sep%d/ctx%d", l, si, ci), c12Tokens, l, ctx, l <= 2, si == 0, sep))
			}
		}
	}
	// (iii) single-edit neighbourhoods
	docs, seeds, err := loadCorpus()
	if err != nil {
		return nil, err
	}
	for _, d := range docs {
		fs = append(fs, editFamily("edits/"+d.name, d.text, 5))
	}
	if thorough {
		for _, d := range seeds {
			fs = append(fs, editFamily("edits/"+d.name, d.text, 1<<30))
		}
	} else {
		sd := seeds
		fs = append(fs, c12Family{name: "seeds", n: len(sd), handler: func(int) bool { return true }, gen: func(i int) string { return sd[i].text }})
	}
	return fs, nil
}

// ---- pathological families (iv) ----

type geoFamily struct {
	name string
	gen  func(n int) string
}

func rep(s string, n int) string { return strings.Repeat(s, n) }

func geoFamilies() []geoFamily {
	const P = "class A implements Namespace { related: { r: A[] } permits = { p: (ctx) => "
	const A = "this.related.r.includes(ctx.subject)"
	const E = " } }"
	many := func(n int, f func(i int) string) string {
		var sb strings.Builder
		for i := 0; i < n; i++ {
			sb.WriteString(f(i))
		}
		return sb.String()
	}
	return []geoFamily{
		{"open-parens", func(n int) string { return P + rep("(", n) + A + rep(")", n) + E }},
		{"nots", func(n int) string { return P + rep("!", n) + A + E }},
		{"not-parens", func(n int) string { return P + rep("!(", n) + A + rep(")", n) + E }},
		{"or-chain", func(n int) string { return P + A + rep(" || "+A, n) + E }},
		{"alternating-chain", func(n int) string { return P + A + rep(" || "+A+" && "+A, n/2) + E }},
		{"paren-groups", func(n int) string { return P + "(" + A + ")" + rep(" && ("+A+" || "+A+")", n) + E }},
		{"nested-array", func(n int) string {
			return "class A implements Namespace { related: { r: " + rep("Array<", n) + "A" + rep(">", n) + " } }"
		}},
		{"nested-subjectset", func(n int) string {
			return "class A implements Namespace { related: { r: " + rep("SubjectSet<", n) + "A" + rep(", \"r\">", n) + "[] } }"
		}},
		{"wide-union", func(n int) string {
			return "class A implements Namespace { related: { r: (A" + rep(" | A", n) + ")[] } }"
		}},
		{"long-block-comment", func(n int) string { return "/*" + rep("x", n) + "*/ class A implements Namespace {}" }},
		{"long-unclosed-comment", func(n int) string { return "class A implements Namespace {} /*" + rep("x\n", n/2) }},
		{"long-line-comment", func(n int) string { return "//" + rep("x", n) + "\nclass A implements Namespace {}" }},
		{"many-comments", func(n int) string { return rep("/*c*/ //d\n", n) + "class A implements Namespace {}" }},
		{"long-string", func(n int) string { return "class '" + rep("x", n) + "' implements Namespace {}" }},
		{"long-unclosed-string", func(n int) string { return "class \"" + rep("x", n) }},
		{"long-identifier", func(n int) string { return "class " + rep("x", n) + " implements Namespace {}" }},
		{"white-space", func(n int) string { return rep(" \n\t", n) + "class A implements Namespace {}" + rep("\n", n) }},
		{"semicolons", func(n int) string {
			return "class A implements Namespace { " + rep(";", n) + " related: { " + rep(";", n) + " } }"
		}},
		{"ignored-top-level-tokens", func(n int) string { return rep("( x ! ", n) + "class A implements Namespace {}" }},
		{"non-ascii", func(n int) string { return "class A implements Namespace {} // " + rep("é", n) + "\n\xff" }},
		{"n-empty-classes", func(n int) string {
			return many(n, func(i int) string { return fmt.Sprintf("class C%d implements Namespace {}\n", i) })
		}},
		{"n-classes-each-with-a-typed-relation", func(n int) string {
			return many(n, func(i int) string {
				return fmt.Sprintf("class C%d implements Namespace { related: { r: C%d[] } }\n", i, i)
			})
		}},
		{"n-relations", func(n int) string {
			return "class A implements Namespace { related: {\n" + many(n, func(i int) string { return fmt.Sprintf(" r%d: A[]\n", i) }) + "} }"
		}},
		{"n-permissions-each-referencing-a-relation", func(n int) string {
			return "class A implements Namespace { related: {\n" + many(n, func(i int) string { return fmt.Sprintf(" r%d: A[]\n", i) }) + "}\n permits = {\n" +
				many(n, func(i int) string {
					return fmt.Sprintf(" p%d: (ctx) => this.related.r%d.includes(ctx.subject),\n", i, i)
				}) + "} }"
		}},
		{"n-type-errors", func(n int) string {
			return "class A implements Namespace { related: {\n" + many(n, func(i int) string { return fmt.Sprintf(" r%d: Z%d[]\n", i, i) }) + "} }"
		}},
		{"n-reference-errors-in-one-expression", func(n int) string {
			return "class A implements Namespace { permits = { p: (ctx) => this.permits.z(ctx)" + rep(" || this.permits.z(ctx)", n) + " } }"
		}},
		{"subjectset-chain", func(n int) string {
			return "class A implements Namespace { related: {\n" + many(n, func(i int) string { return fmt.Sprintf(" r%d: SubjectSet<A, \"r%d\">[]\n", i, (i+1)%n) }) +
				"}\n permits = { p: (ctx) => this.related.r0.traverse((x) => x.related.r0.includes(ctx.subject)) } }"
		}},
		{"n-traversals-over-a-union-of-subjectsets", func(n int) string {
			return "class A implements Namespace { related: { r: (SubjectSet<A, \"r\"> | SubjectSet<A, \"r\">)[] } permits = {\n" +
				many(n/64+1, func(i int) string {
					return fmt.Sprintf(" p%d: (ctx) => this.related.r.traverse((x) => x.related.r.includes(ctx.subject)),\n", i)
				}) + rep(" ", n) + "} }"
		}},
	}
}

// ---- oracles on one input ----

type c12Vio struct {
	Sig    string `json:"sig"`
	What   string `json:"what"`
	Size   int    `json:"size"`
	Count  int    `json:"count"`
	Input  string `json:"input"`
	Family string `json:"family"`
	Index  int    `json:"index"`
}

type c12Report struct {
	Shard        int                `json:"shard"`
	Evals        map[string]int64   `json:"evals"`
	Nontrivial   int64              `json:"nontrivial"`
	DistinctNT   int64              `json:"distinct_nontrivial"`
	Handler      int64              `json:"handler"`
	Vios         map[string]*c12Vio `json:"vios"`
	MaxPerByte   float64            `json:"max_ticks_per_byte"`
	MaxPerByteIn string             `json:"max_ticks_per_byte_input"`
	MaxSmall     int64              `json:"max_ticks_small"`
	MaxUtil      float64            `json:"max_bound_utilisation"`
	MaxUtilIn    string             `json:"max_bound_utilisation_input"`
	Cut          bool               `json:"cut"`
	Frontier     map[string]int     `json:"frontier,omitempty"`
	Ticks        int64              `json:"ticks"`
	Errors       int64              `json:"errors_checked"`
	Accepted     int64              `json:"accepted"`
}

func (r *c12Report) vio(sig, what, family string, index int, input string) {
	v := r.Vios[sig]
	if v == nil {
		r.Vios[sig] = &c12Vio{Sig: sig, What: what, Size: len(input), Count: 1, Input: input, Family: family, Index: index}
		return
	}
	v.Count++
	if len(input) < v.Size {
		v.What, v.Size, v.Input, v.Family, v.Index = what, len(input), input, family, index
	}
}

// current case, for the watchdog
var (
	c12CurStart atomic.Int64 // VerifTicks at the start of the running Parse, -1 when idle
	c12CurMu    sync.Mutex
	c12CurInput string
	c12CurWhere string
)

type parseOut struct {
	nss    []namespace.Namespace
	errs   []*schema.ParseError
	ticks  int64
	panicV any
}

// crash journal: a fatal error inside Parse (stack overflow, out of memory, runtime throw) cannot be recovered,
// so the input about to be parsed is first copied into a shared memory-mapped file that survives the process.
var c12Journal []byte

const c12JournalSize = 1 << 20

func openJournal(path string) {
	f, err := os.OpenFile(path, os.O_RDWR|os.O_CREATE|os.O_TRUNC, 0o644)
	if err != nil {
		return
	}
	defer f.Close()
	if f.Truncate(c12JournalSize) != nil {
		return
	}
	if m, err := syscall.Mmap(int(f.Fd()), 0, c12JournalSize, syscall.PROT_READ|syscall.PROT_WRITE, syscall.MAP_SHARED); err == nil {
		c12Journal = m
	}
}

func journal(where, s string) {
	if c12Journal == nil {
		return
	}
	binary.LittleEndian.PutUint32(c12Journal[0:], 0) // entry invalid while it is rewritten
	w := where
	if len(w) > 200 {
		w = w[:200]
	}
	in := s
	if len(in) > c12JournalSize-512 {
		in = in[:c12JournalSize-512]
	}
	binary.LittleEndian.PutUint32(c12Journal[8:], uint32(len(w)))
	binary.LittleEndian.PutUint32(c12Journal[12:], uint32(len(in)))
	binary.LittleEndian.PutUint32(c12Journal[16:], uint32(len(s)))
	copy(c12Journal[32:], w)
	copy(c12Journal[32+len(w):], in)
	binary.LittleEndian.PutUint32(c12Journal[0:], 1)
}

func journalDone() {
	if c12Journal != nil {
		binary.LittleEndian.PutUint32(c12Journal[0:], 0)
	}
}

// readJournal: the input a dead process was parsing (ok=false: it was not inside Parse)
func readJournal(path string) (where, input string, full int, ok bool) {
	b, err := os.ReadFile(path)
	if err != nil || len(b) < 32 || binary.LittleEndian.Uint32(b[0:]) != 1 {
		return "", "", 0, false
	}
	lw, li := int(binary.LittleEndian.Uint32(b[8:])), int(binary.LittleEndian.Uint32(b[12:]))
	if 32+lw+li > len(b) {
		return "", "", 0, false
	}
	return string(b[32 : 32+lw]), string(b[32+lw : 32+lw+li]), int(binary.LittleEndian.Uint32(b[16:])), true
}

func tickedParse(where, s string) (o parseOut) {
	journal(where, s)
	defer journalDone()
	c12CurMu.Lock()
	c12CurInput, c12CurWhere = s, where
	c12CurMu.Unlock()
	t0 := schema.VerifTicks
	c12CurStart.Store(t0)
	defer func() {
		c12CurStart.Store(-1)
		o.ticks = schema.VerifTicks - t0
		if r := recover(); r != nil {
			o.panicV = r
		}
	}()
	o.nss, o.errs = schema.Parse(s)
	return
}

func nilChild(c ast.Child) bool {
	switch x := c.(type) {
	case nil:
		return true
	case *ast.ComputedSubjectSet:
		return x == nil
	case *ast.TupleToSubjectSet:
		return x == nil
	case *ast.InvertResult:
		return x == nil || nilChild(x.Child)
	case *ast.SubjectSetRewrite:
		if x == nil {
			return true
		}
		for _, ch := range x.Children {
			if nilChild(ch) {
				return true
			}
		}
	}
	return false
}

// wellFormed: what "a list of namespaces" must at least be for the engine to
// consume it: no nil node inside a rewrite, and it can be serialised.
func wellFormed(nss []namespace.Namespace) string {
	for _, n := range nss {
		for _, r := range n.Relations {
			if r.SubjectSetRewrite != nil && nilChild(r.SubjectSetRewrite) {
				return "nil-node-in-rewrite"
			}
		}
	}
	if err := safeCall(func() error { _, err := json.Marshal(nss); return err }); err != nil {
		return "not-serialisable"
	}
	return ""
}

func safeCall(f func() error) (err error) {
	defer func() {
		if r := recover(); r != nil {
			err = fmt.Errorf("panic: %v", r)
		}
	}()
	return f()
}

type handlers struct {
	router *x.OPLSyntaxRouter
	h      *schema.Handler
}

func newHandlers(t testing.TB) *handlers {
	reg := driver.NewSqliteTestRegistry(t, false, driver.WithLogLevel("panic"))
	h := schema.NewHandler(reg)
	r := &x.OPLSyntaxRouter{Router: httprouter.New()}
	h.RegisterSyntaxRoutes(r)
	return &handlers{router: r, h: h}
}

// judge applies every oracle except the doubling ratio. maxRender bounds how
// many errors are rendered (all when <= 0).
func (rep *c12Report) judge(hs *handlers, family string, index int, s string, viaHandlers bool, bound bool, maxRender int) parseOut {
	o := tickedParse(family, s)
	rep.Evals[strings.SplitN(family, "/", 2)[0]]++
	rep.Ticks += o.ticks
	if o.panicV != nil {
		rep.vio("panic:parse", fmt.Sprintf("Parse panicked: %v on %s", o.panicV, strconv.QuoteToASCII(clip(s, 200))), family, index, s)
		return o
	}
	if len(o.errs) > 0 || len(o.nss) > 0 {
		rep.Nontrivial++
	}
	if len(o.errs) == 0 {
		rep.Accepted++
		if bad := wellFormed(o.nss); bad != "" {
			rep.vio("malformed-namespaces:"+bad, fmt.Sprintf("no errors, but the namespaces are not well-formed (%s) for %s", bad, strconv.QuoteToASCII(clip(s, 200))), family, index, s)
		}
	}
	lines := strings.Count(s, "\n") + 1
	var apis []*ketoapi.ParseError
	var pbs []*oplpb.ParseError
	for i, e := range o.errs {
		if maxRender > 0 && i >= maxRender && i < len(o.errs)-1 {
			continue
		}
		rep.Errors++
		if e == nil {
			rep.vio("nil-error", "nil entry in the error list for "+strconv.QuoteToASCII(clip(s, 200)), family, index, s)
			continue
		}
		var api *ketoapi.ParseError
		var pb *oplpb.ParseError
		if err := safeCall(func() error {
			if e.Error() == "" {
				return fmt.Errorf("empty Error()")
			}
			api = e.ToAPI()
			pb = e.ToProto()
			if api == nil || pb == nil || pb.Start == nil || pb.End == nil {
				return fmt.Errorf("nil rendering")
			}
			return nil
		}); err != nil {
			rep.vio("render:"+strings.SplitN(err.Error(), ":", 2)[0], fmt.Sprintf("rendering error %d failed: %v for %s", i, err, strconv.QuoteToASCII(clip(s, 200))), family, index, s)
			continue
		}
		apis, pbs = append(apis, api), append(pbs, pb)
		st, en := api.Start, api.End
		switch {
		case st.Line < 1:
			rep.vio("position:start-line-below-1", fmt.Sprintf("error %q at %d:%d-%d:%d in %s", api.Message, st.Line, st.Col, en.Line, en.Col, strconv.QuoteToASCII(clip(s, 200))), family, index, s)
		case st.Line > en.Line:
			rep.vio("position:end-line-before-start-line", fmt.Sprintf("error %q at %d:%d-%d:%d in %s", api.Message, st.Line, st.Col, en.Line, en.Col, strconv.QuoteToASCII(clip(s, 200))), family, index, s)
		case en.Line > lines+1:
			rep.vio("position:line-beyond-input", fmt.Sprintf("error %q at %d:%d-%d:%d, input has %d lines: %s", api.Message, st.Line, st.Col, en.Line, en.Col, lines, strconv.QuoteToASCII(clip(s, 200))), family, index, s)
		case st.Line == en.Line && st.Col > en.Col:
			rep.vio("position:end-column-before-start-column", fmt.Sprintf("error %q at %d:%d-%d:%d in %s", api.Message, st.Line, st.Col, en.Line, en.Col, strconv.QuoteToASCII(clip(s, 200))), family, index, s)
		}
		if int(pb.Start.Line) != st.Line || int(pb.Start.Column) != st.Col || int(pb.End.Line) != en.Line || int(pb.End.Column) != en.Col || pb.Message != api.Message {
			rep.vio("render:api-and-proto-differ", fmt.Sprintf("ToAPI %+v vs ToProto %v for %s", api, pb, strconv.QuoteToASCII(clip(s, 200))), family, index, s)
		}
	}
	if bound {
		limit := int64(tickC)*int64(len(s)) + tickC0
		if o.ticks > limit {
			rep.vio("ticks-bound:"+strings.SplitN(family, "/", 2)[0], fmt.Sprintf("%d ticks for %d bytes (> %d*len+%d): %s", o.ticks, len(s), tickC, tickC0, strconv.QuoteToASCII(clip(s, 200))), family, index, s)
		}
		if u := float64(o.ticks) / float64(limit); u > rep.MaxUtil {
			rep.MaxUtil, rep.MaxUtilIn = u, clip(s, 120)
		}
		if len(s) <= 2 && o.ticks > rep.MaxSmall {
			rep.MaxSmall = o.ticks
		}
		if len(s) >= 8 {
			if pb := float64(o.ticks) / float64(len(s)); pb > rep.MaxPerByte {
				rep.MaxPerByte, rep.MaxPerByteIn = pb, clip(s, 120)
			}
		}
	}
	if viaHandlers && hs != nil && (maxRender <= 0 || len(o.errs) <= maxRender) {
		rep.Handler++
		// REST; the body arrives in one piece, one byte per read, or seven bytes per read (what the network does
		// with a request is not the sender's choice)
		for _, chunk := range []int{0, 1, 7} {
			if chunk > 0 && len(s) <= chunk {
				continue
			}
			chunk := chunk
			if err := safeCall(func() error {
				rec := httptest.NewRecorder()
				req := httptest.NewRequest(http.MethodPost, schema.RouteBase, bytes.NewReader([]byte(s)))
				if chunk > 0 {
					req = httptest.NewRequest(http.MethodPost, schema.RouteBase, &c12ChunkReader{s: s, n: chunk})
					req.ContentLength = int64(len(s))
				}
				hs.router.ServeHTTP(rec, req)
				if rec.Code != http.StatusOK {
					return fmt.Errorf("status %d", rec.Code)
				}
				var resp ketoapi.CheckOPLSyntaxResponse
				if err := json.Unmarshal(rec.Body.Bytes(), &resp); err != nil {
					return fmt.Errorf("body is not JSON: %v", err)
				}
				if len(resp.Errors) != len(apis) {
					return fmt.Errorf("%d errors, Parse gave %d", len(resp.Errors), len(apis))
				}
				for i := range apis {
					if resp.Errors[i] == nil || *resp.Errors[i] != *apis[i] {
						return fmt.Errorf("error %d is %+v, Parse gave %+v", i, resp.Errors[i], apis[i])
					}
				}
				return nil
			}); err != nil {
				sig, how := "handler:rest-differs", ""
				if chunk > 0 {
					sig, how = "handler:rest-differs:body-in-pieces", fmt.Sprintf(" (body delivered %d byte(s) per read)", chunk)
				}
				rep.vio(sig, fmt.Sprintf("POST %s%s: %v for %s", schema.RouteBase, how, err, strconv.QuoteToASCII(clip(s, 200))), family, index, s)
			}
		}
		// gRPC (handler method + the wire form of its response)
		if err := safeCall(func() error {
			resp, err := hs.h.Check(context.Background(), &oplpb.CheckRequest{Content: []byte(s)})
			if err != nil {
				return err
			}
			wire, err := proto.Marshal(resp)
			if err != nil {
				return fmt.Errorf("response cannot be marshalled: %v", err)
			}
			var back oplpb.CheckResponse
			if err := proto.Unmarshal(wire, &back); err != nil {
				return fmt.Errorf("response cannot be unmarshalled: %v", err)
			}
			if len(back.ParseErrors) != len(pbs) {
				return fmt.Errorf("%d errors, Parse gave %d", len(back.ParseErrors), len(pbs))
			}
			for i := range pbs {
				if !proto.Equal(back.ParseErrors[i], pbs[i]) {
					return fmt.Errorf("error %d is %v, Parse gave %v", i, back.ParseErrors[i], pbs[i])
				}
			}
			return nil
		}); err != nil {
			rep.vio("handler:grpc-differs", fmt.Sprintf("SyntaxService.Check: %v for %s", err, strconv.QuoteToASCII(clip(s, 200))), family, index, s)
		}
	}
	return o
}

// parseGoroutineBlocked returns the wait state ("chan send", "select", ...) of the goroutine that
// is inside schema.Parse if it is parked, else "".
func parseGoroutineBlocked() string {
	buf := make([]byte, 4<<20)
	n := runtime.Stack(buf, true)
	for _, g := range strings.Split(string(buf[:n]), "\n\n") {
		if !strings.Contains(g, "internal/schema.Parse(") && !strings.Contains(g, "internal/schema.(*parser).parse(") {
			continue
		}
		head := g[:strings.IndexByte(g+"\n", '\n')]
		for _, st := range []string{"chan send", "chan receive", "select", "semacquire", "sync.Mutex.Lock", "sync.Cond.Wait", "sync.WaitGroup.Wait"} {
			if strings.Contains(head, "["+st) {
				return st
			}
		}
	}
	return ""
}

var onBlocked = func(where, input, state string) {}

func startWatchdog(onCap func(where, input string, ticks int64)) {
	go func() {
		var lastTicks int64 = -1
		stuckSince := time.Now()
		for {
			time.Sleep(200 * time.Millisecond)
			t0 := c12CurStart.Load()
			now := schema.VerifTicks
			if t0 < 0 {
				lastTicks, stuckSince = -1, time.Now()
				continue
			}
			c12CurMu.Lock()
			w, in := c12CurWhere, c12CurInput
			c12CurMu.Unlock()
			if now-t0 > tickCapFactor*(int64(tickC)*int64(len(in))+tickC0)+tickCapBase {
				onCap(w, in, now-t0)
			}
			if now != lastTicks {
				lastTicks, stuckSince = now, time.Now()
			} else if time.Since(stuckSince) > 20*time.Second && parseGoroutineBlocked() != "" {
				// Parse is sequential and its lexer channel is private to the call: a goroutine that is
				// inside schema.Parse, has executed no instrumented step for 20 s and is parked on a
				// channel / lock can never be woken - the parse does not terminate
				onBlocked(w, in, parseGoroutineBlocked())
			} else if time.Since(stuckSince) > 120*time.Second {
				// not an oracle: the machinery cannot decide a blocked Parse
				c12CurMu.Lock()
				fmt.Printf("INFRA-ERROR watchdog: Parse made no tick for 120 s in %s on %s\n", c12CurWhere, strconv.QuoteToASCII(clip(c12CurInput, 300)))
				c12CurMu.Unlock()
				os.Exit(2)
			}
		}
	}()
}

func c12Shard(t *testing.T, shard, of int, outPath string) {
	openJournal(outPath + ".journal")
	rep := &c12Report{Shard: shard, Evals: map[string]int64{}, Vios: map[string]*c12Vio{}, Frontier: map[string]int{}}
	write := func() {
		b, _ := json.Marshal(rep)
		if err := os.WriteFile(outPath, b, 0o644); err != nil {
			fmt.Printf("INFRA-ERROR shard %d cannot write its report: %v\n", shard, err)
			os.Exit(2)
		}
	}
	onBlocked = func(where, input, state string) {
		rep.vio("nontermination:blocked-forever", fmt.Sprintf("Parse is parked in state [%s] and has made no step for 20 s on %d bytes: %s", state, len(input), strconv.QuoteToASCII(clip(input, 200))), where, -1, input)
		rep.Cut = true
		write()
		os.Exit(0)
	}
	startWatchdog(func(where, input string, ticks int64) {
		rep.vio("nontermination:tick-cap", fmt.Sprintf("Parse still running after %d ticks on %d bytes: %s", ticks, len(input), strconv.QuoteToASCII(clip(input, 200))), where, -1, input)
		rep.Cut = true
		write()
		os.Exit(0)
	})
	fams, err := c12Families(ev.Thorough())
	if err != nil {
		fmt.Printf("INFRA-ERROR corpus: %v\n", err)
		os.Exit(2)
	}
	hs := newHandlers(t)
	deadline := ev.Deadline(150, 1500)
	steps := 0
	for _, f := range fams {
		done := 0
		for i := shard; i < f.n; i += of {
			if steps++; steps&0xff == 0 && time.Now().After(deadline) {
				rep.Cut = true
				break
			}
			s := f.gen(i)
			nt0 := rep.Nontrivial
			rep.judge(hs, f.name, i, s, f.handler(i), true, 0)
			if f.distinct && rep.Nontrivial > nt0 {
				rep.DistinctNT++
			}
			done++
		}
		rep.Frontier[f.name] = done
		if rep.Cut {
			break
		}
	}
	if !rep.Cut {
		rep.Frontier = nil
	}
	write()
}

func TestC12(t *testing.T) {
	if sh := os.Getenv("VERIF_C12_SHARD"); sh != "" {
		var shard, of int
		fmt.Sscanf(sh, "%d/%d", &shard, &of)
		c12Shard(t, shard, of, os.Getenv("VERIF_C12_OUT"))
		return
	}
	scratch0 := os.Getenv("VERIF_SCRATCH")
	if os.Getenv("VERIF_C12_MAIN") == "" && os.Getenv("VERIF_REPLAY") == "" && scratch0 != "" {
		// supervisor: the check proper runs in a child, so that a fatal error inside Parse in THAT process
		// (the geometric families and the pair families run there) is reported with its input as well
		exe, err := os.Executable()
		if err != nil {
			t.Fatalf("INFRA-ERROR %v", err)
		}
		jp := filepath.Join(scratch0, "c12-main.journal")
		cmd := exec.Command(exe, "-test.run", "^TestC12$", "-test.count", "1", "-test.timeout", "0")
		cmd.Env = append(os.Environ(), "VERIF_C12_MAIN="+jp)
		var tailBuf bytes.Buffer
		cmd.Stdout = io.MultiWriter(os.Stdout, &tailBuf)
		cmd.Stderr = cmd.Stdout
		err = cmd.Run()
		code := 0
		if ee, ok := err.(*exec.ExitError); ok {
			code = ee.ExitCode()
		} else if err != nil {
			t.Fatalf("INFRA-ERROR %v", err)
		}
		if where, input, full, ok := readJournal(jp); ok && code != 0 && code != 1 {
			run := ev.New("C12", "exploration")
			run.Violation("process-death-in-parse", fmt.Sprintf("the process died inside Parse (exit status %d) on %d bytes (%s): %s", code, full, where, strconv.QuoteToASCII(clip(input, 300))), map[string]any{"family": where, "input": clip(input, 8192)})
			run.Finish(map[string]any{"evaluations": 0, "distinct_nontrivial": 0, "rule": "the checking process died; see the violation", "exhaustive": false})
			return
		}
		if code != 0 {
			os.Exit(code)
		}
		return
	}
	if jp := os.Getenv("VERIF_C12_MAIN"); jp != "" {
		openJournal(jp)
	}
	run := ev.New("C12", "exploration")
	onBlocked = func(where, input, state string) {
		run.Violation("nontermination:blocked-forever", fmt.Sprintf("Parse is parked in state [%s] and has made no step for 20 s on %d bytes (%s): %s", state, len(input), where, strconv.QuoteToASCII(clip(input, 200))), map[string]any{"family": where, "input": clip(input, 4096)})
		os.Exit(1)
	}
	startWatchdog(func(where, input string, ticks int64) {
		run.Violation("nontermination:tick-cap", fmt.Sprintf("Parse still running after %d ticks on %d bytes (%s): %s", ticks, len(input), where, strconv.QuoteToASCII(clip(input, 200))), map[string]any{"family": where, "input": clip(input, 4096)})
		os.Exit(1)
	})
	// the build must be the instrumented one
	before := schema.VerifTicks
	tickedParse("sanity", "class A implements Namespace {}")
	if schema.VerifTicks == before {
		fmt.Println("INFRA-ERROR ticks not instrumented: build this package through `/verif/check C12` (variant ticks)")
		t.Fatal("ticks not instrumented")
	}
	if rf := os.Getenv("VERIF_REPLAY"); rf != "" {
		var rec struct {
			Replay c12Vio `json:"replay"`
		}
		b, err := os.ReadFile(rf)
		if err != nil || json.Unmarshal(b, &rec) != nil {
			t.Fatalf("INFRA-ERROR cannot read replay %s", rf)
		}
		rep := &c12Report{Evals: map[string]int64{}, Vios: map[string]*c12Vio{}}
		if strings.HasPrefix(rec.Replay.Family, "geo/") { // large inputs are stored clipped: regenerate
			for _, g := range geoFamilies() {
				if "geo/"+g.name == rec.Replay.Family && rec.Replay.Index > 0 {
					rec.Replay.Input = g.gen(rec.Replay.Index)
				}
			}
		}
		o := rep.judge(newHandlers(t), rec.Replay.Family, rec.Replay.Index, rec.Replay.Input, true, !strings.HasPrefix(rec.Replay.Family, "geo/"), 3)
		fmt.Printf("  replay input (%d bytes): %s\n  ticks=%d errors=%d namespaces=%d\n", len(rec.Replay.Input), strconv.QuoteToASCII(clip(rec.Replay.Input, 400)), o.ticks, len(o.errs), len(o.nss))
		for _, v := range rep.Vios {
			run.Violation(v.Sig, v.What, v)
		}
		return
	}

	W := ev.Workers()
	exe, err := os.Executable()
	if err != nil {
		t.Fatalf("INFRA-ERROR %v", err)
	}
	scratch := os.Getenv("VERIF_SCRATCH")
	if scratch == "" {
		scratch, err = os.MkdirTemp("/dev/shm", "verif-c12-")
		if err != nil {
			t.Fatalf("INFRA-ERROR %v", err)
		}
		defer os.RemoveAll(scratch)
	}
	type child struct {
		cmd *exec.Cmd
		out string
		log *bytes.Buffer
	}
	var kids []child
	for s := 0; s < W; s++ {
		out := filepath.Join(scratch, fmt.Sprintf("c12-shard-%d.json", s))
		cmd := exec.Command(exe, "-test.run", "^TestC12$", "-test.count", "1", "-test.timeout", "0")
		cmd.Env = append(os.Environ(), fmt.Sprintf("VERIF_C12_SHARD=%d/%d", s, W), "VERIF_C12_OUT="+out, "GOMAXPROCS=2")
		lg := &bytes.Buffer{}
		cmd.Stdout, cmd.Stderr = lg, lg
		if err := cmd.Start(); err != nil {
			t.Fatalf("INFRA-ERROR cannot start shard: %v", err)
		}
		kids = append(kids, child{cmd, out, lg})
	}

	// (iv) geometric families, in this process while the shards run
	total := &c12Report{Evals: map[string]int64{}, Vios: map[string]*c12Vio{}}
	hs := newHandlers(t)
	maxExp := 14
	if ev.Thorough() {
		maxExp = 16
	}
	famTicks := map[string]map[string]int64{}
	famRatio := map[string]float64{}
	var renderRatio float64
	for _, g := range geoFamilies() {
		tk := map[string]int64{}
		var prev int64
		worst := 0.0
		var worstN int
		for e := 6; e <= maxExp; e++ {
			n := 1 << e
			s := g.gen(n)
			o := total.judge(hs, "geo/"+g.name, n, s, e <= 9, false, 3)
			tk[fmt.Sprintf("n=2^%d len=%d", e, len(s))] = o.ticks
			if e > 8 && prev > 0 { // doubling ratio from 2^8 on (below, the constant part dominates)
				if r := float64(o.ticks) / float64(prev); r > worst {
					worst, worstN = r, n
				}
			}
			prev = o.ticks
			if g.name == "n-type-errors" && e == 11 {
				// observation only: work of rendering all errors (what the endpoints do), n=2^10 vs 2^11
				rt := func(src string) int64 {
					_, errs := schema.Parse(src)
					t0 := schema.VerifTicks
					for _, pe := range errs {
						pe.ToAPI()
					}
					return schema.VerifTicks - t0
				}
				a, b := rt(g.gen(1<<10)), rt(s)
				if a > 0 {
					renderRatio = float64(b) / float64(a)
				}
			}
		}
		famTicks[g.name] = tk
		famRatio[g.name] = float64(int(worst*1000)) / 1000
		if worst > ratioLimit {
			s := g.gen(worstN)
			total.vio("nonlinear:"+g.name, fmt.Sprintf("ticks(2n)/ticks(n) = %.2f at 2n=%d (limit %.1f); ticks by size: %v", worst, worstN, ratioLimit, tk), "geo/"+g.name, worstN, clip(s, 2048))
		}
	}
	run.Sample(map[string]any{"family": "geo/open-parens", "n": 64, "input": clip(geoFamilies()[0].gen(64), 160)})

	// collect the shards
	reports := 0
	for _, k := range kids {
		err := k.cmd.Wait()
		b, rerr := os.ReadFile(k.out)
		if rerr != nil {
			// the shard died without a report: a crash outside recover (e.g. stack overflow / fatal error) is a finding, but needs its input
			tail := k.log.String()
			if where, input, full, ok := readJournal(k.out + ".journal"); ok {
				why := "fatal error"
				for _, l := range strings.Split(tail, "\n") {
					if strings.HasPrefix(l, "fatal error:") || strings.HasPrefix(l, "runtime: goroutine stack exceeds") {
						why = l
						break
					}
				}
				total.vio("process-death-in-parse", fmt.Sprintf("the process died inside Parse (%s) on %d bytes: %s", why, full, strconv.QuoteToASCII(clip(input, 300))), where, -1, input)
				total.Cut = true
				continue
			}
			if len(tail) > 3000 {
				tail = tail[len(tail)-3000:]
			}
			fmt.Printf("INFRA-ERROR shard exited without a report (%v); tail of its output:\n%s\n", err, tail)
			t.Fatal("shard failed")
		}
		var r c12Report
		if err := json.Unmarshal(b, &r); err != nil {
			t.Fatalf("INFRA-ERROR bad shard report: %v", err)
		}
		reports++
		for f, n := range r.Evals {
			total.Evals[f] += n
		}
		total.Nontrivial += r.Nontrivial
		total.DistinctNT += r.DistinctNT
		total.Handler += r.Handler
		total.Ticks += r.Ticks
		total.Errors += r.Errors
		total.Accepted += r.Accepted
		if r.MaxPerByte > total.MaxPerByte {
			total.MaxPerByte, total.MaxPerByteIn = r.MaxPerByte, r.MaxPerByteIn
		}
		if r.MaxSmall > total.MaxSmall {
			total.MaxSmall = r.MaxSmall
		}
		if r.MaxUtil > total.MaxUtil {
			total.MaxUtil, total.MaxUtilIn = r.MaxUtil, r.MaxUtilIn
		}
		total.Cut = total.Cut || r.Cut
		for sig, v := range r.Vios {
			if have := total.Vios[sig]; have == nil {
				total.Vios[sig] = v
			} else {
				have.Count += v.Count
				if v.Size < have.Size {
					have.What, have.Size, have.Input, have.Family, have.Index = v.What, v.Size, v.Input, v.Family, v.Index
				}
			}
		}
		if r.Cut && r.Frontier != nil && total.Frontier == nil {
			total.Frontier = r.Frontier
		}
	}
	sigs := map[string]any{}
	for _, sig := range sortedKeys(total.Vios) {
		v := total.Vios[sig]
		sigs[sig] = v.Count
		v.Input = clip(v.Input, 8192)
		run.Violation(sig, fmt.Sprintf("%s  [%d instance(s); smallest shown; family %s index %d]", v.What, v.Count, v.Family, v.Index), v)
	}
	fams, _ := c12Families(ev.Thorough())
	famSizes := map[string]int{}
	for _, f := range fams {
		parts := strings.Split(f.name, "/")
		if len(parts) > 2 {
			parts = parts[:2]
		}
		if parts[0] == "edits" {
			parts = parts[:1]
		}
		famSizes[strings.Join(parts, "/")] += f.n
	}
	for _, i := range []int{5, 77777} {
		f := fams[len(fams)/2]
		run.Sample(map[string]any{"family": f.name, "index": i % f.n, "input": f.gen(i % f.n)})
	}
	run.Sample(map[string]any{"family": fams[20].name, "index": 1234 % fams[20].n, "input": strconv.QuoteToASCII(fams[20].gen(1234 % fams[20].n))})
	evals := 0
	for _, n := range total.Evals {
		evals += int(n)
	}
	// reported errors must stay valid after Parse has returned: every ordered pair (a, b) of erroneous
	// documents - parse a, render its errors, parse b, render a's errors again: same rendering, and
	// the positions still lie inside a (an error value that points into state shared with later
	// parses would now describe b)
	outlive := 0
	{
		docs := []string{
			"class", "class A", "class A implements", "class A implements Namespace {", "class A implements Namespace { related: { r: Nope[] } }",
			"class A implements Namespace {\n  related: {\n    r: A[]\n  }\n  permits = {\n    p: (ctx) => this.related.zz.includes(ctx.subject),\n  }\n}",
			"\n\n\n\nclass B implements Namespace { permits = { p: (ctx) => ( } }", "/* unterminated", "\"unterminated string", "class A implements Namespace {}\n\n\n\n\n\n\n\n\n\n\n\n)",
			"import { Namespace } from \"x\"\nclass A implements Namespace { related: { a: SubjectSet<A, \"nope\">[] } }", "@",
		}
		render := func(errs []*schema.ParseError) string {
			var sb strings.Builder
			for _, e := range errs {
				a := e.ToAPI()
				fmt.Fprintf(&sb, "%d:%d-%d:%d %s | %s\n", a.Start.Line, a.Start.Col, a.End.Line, a.End.Col, a.Message, e.Error())
			}
			return sb.String()
		}
		for _, a := range docs {
			for _, b := range docs {
				outlive++
				_, ea := schema.Parse(a)
				r1 := render(ea)
				schema.Parse(b)
				r2 := render(ea)
				lines := strings.Count(a, "\n") + 1
				bad := ""
				if r1 != r2 {
					bad = fmt.Sprintf("the errors of document a render differently after another document was parsed: first %q then %q", clip(r1, 300), clip(r2, 300))
				}
				for _, e := range ea {
					if p := e.ToAPI(); p.Start.Line < 1 || p.End.Line > lines+1 || p.Start.Line > p.End.Line {
						bad = fmt.Sprintf("after another document was parsed an error of document a has position %d:%d-%d:%d outside its %d lines", p.Start.Line, p.Start.Col, p.End.Line, p.End.Col, lines)
					}
				}
				if bad != "" {
					run.Violation("errors-do-not-outlive-parse", bad+"; a="+strconv.QuoteToASCII(clip(a, 120))+" b="+strconv.QuoteToASCII(clip(b, 120)), map[string]any{"a": a, "b": b})
					break
				}
			}
		}
	}
	evals += outlive
	run.Assume(
		"ticks count function entries and loop-body starts of package internal/schema only; work hidden inside library calls (fmt.Sprintf(\"%q\", rest-of-input) in the lexer's error path, strings.Split in Error()) is not counted",
		"the linear bound is judged for Parse itself; the cost of rendering the errors (ToAPI/ToProto walk the input once per error) is reported as an observation (endpoint_render_doubling_ratio), not judged, because the statement asks linear time of parsing",
		"positions: 1 <= start.line <= end.line <= lines+1 with lines = number of line breaks + 1; columns only ordered when on the same line (no claim about 0- or 1-based columns)",
		"'a list of namespaces' is read as: no nil node inside a rewrite and JSON-serialisable; empty names are not judged",
		"REST and gRPC are exercised in-process: the registered REST route through its router, SyntaxService.Check as a method call plus a protobuf wire round trip of its response",
		"under VERIF_MUTANT the mutated file replaces the instrumented copy and contributes no ticks (bounds can only get looser)",
	)
	run.Finish(map[string]any{
		"error_lifetime_pairs": outlive,
		"evaluations":          evals,
		"distinct_nontrivial":  int(total.DistinctNT),
		"rule": "index->input bijections: every byte string of length <= 2 and every string of length <= L over a 25-byte alphabet (every delimiter, both quotes, / * newline, a letter, a digit, the two bytes of U+00E9 which are each invalid UTF-8 on their own), each in 5 parser contexts; every sequence of <= T of 41 token spellings (22 fixed tokens, identifiers incl. the words the parser looks for, strings, comments, unterminated string/comment, an illegal character) under 3 separators in the contexts; every single-token delete/duplicate/replace-by-each-spelling edit of the corpus documents; 28 geometric families. " +
			"distinct_nontrivial is counted conservatively: only blank-separated token sequences (pairwise distinct texts, since no spelling contains a blank and the context prefixes differ) for which the parser produced at least one error or one namespace",
		"alphabet_max_len":               map[bool]int{false: 4, true: 5}[ev.Thorough()],
		"token_max_len":                  map[bool]int{false: 4, true: 5}[ev.Thorough()],
		"token_spellings":                len(c12Tokens),
		"contexts":                       c12Contexts,
		"family_sizes":                   famSizes,
		"evaluations_by_family":          total.Evals,
		"nontrivial_all":                 int(total.Nontrivial),
		"accepted_inputs":                int(total.Accepted),
		"errors_rendered":                int(total.Errors),
		"handler_comparisons":            int(total.Handler),
		"ticks_total":                    total.Ticks,
		"shards":                         reports,
		"calibration":                    map[string]any{"c_ticks_per_byte": tickC, "c0": tickC0, "observed_max_ticks_per_byte_len_ge_8": total.MaxPerByte, "observed_at": total.MaxPerByteIn, "observed_max_ticks_len_le_2": total.MaxSmall, "max_bound_utilisation": total.MaxUtil, "max_bound_utilisation_at": total.MaxUtilIn},
		"geo_max_n":                      1 << maxExp,
		"geo_doubling_ratio":             famRatio,
		"geo_ticks":                      famTicks,
		"endpoint_render_doubling_ratio": renderRatio,
		"violations_by_signature":        sigs,
		"frontier":                       total.Frontier,
		"exhaustive":                     !total.Cut,
	})
}

type c12ChunkReader struct {
	s string
	n int
}

func (c *c12ChunkReader) Read(p []byte) (int, error) {
	if len(c.s) == 0 {
		return 0, io.EOF
	}
	n := c.n
	if n > len(c.s) {
		n = len(c.s)
	}
	if n > len(p) {
		n = len(p)
	}
	copy(p, c.s[:n])
	c.s = c.s[n:]
	return n, nil
}

// C11 — a configuration that type-checks cannot fail at check time; a
// reference to an undeclared name is rejected at the offending token.
//
// Bounded-exhaustive over small OPL programs (index -> program bijection):
// <= NMax namespaces A,B,C; per namespace <= 2 relations (r1,r2) and <= 2
// permissions (p1,p2); at most S declarations in total; relation types from
// {X[], SubjectSet<X,m>[] with m declared in X, unions of two}; permissions a
// leaf, a negated leaf, or a binary of two leaves (all four leaf kinds).
//
// For every program accepted by schema.Parse:
//
//	(a) converse: each reference token replaced by an undeclared name must give
//	    >= 1 error, positioned at that token;
//	(b) run time: the real check engine (sqlite in-memory registry, the OPL
//	    loaded through namespaces.location=base64://..., max_read_depth raised, see c11Depth),
//	    every conforming tuple set of <= T tuples over one object per
//	    namespace, every query on a declared (namespace, relation) for every
//	    subject occurring in the set plus a fresh one, default and strict mode:
//	    Result.Err must not be a schema error.
//
// The engine runs free (uninstrumented): only "a schema error was returned" is
// judged, never allowed/denied. Enumeration is sharded over worker processes
// (one registry each); a shard waits for the goroutines of a check to wind
// down before it changes the stored tuples.
package opl

import (
	"bytes"
	"context"
	"encoding/base64"
	"encoding/json"
	"errors"
	"fmt"
	"os"
	"os/exec"
	"path/filepath"
	"runtime"
	"sort"
	"strings"
	"sync/atomic"
	"testing"
	"time"

	"github.com/gofrs/uuid"
	"github.com/ory/herodot"

	"github.com/ory/keto/internal/driver"
	"github.com/ory/keto/internal/relationtuple"
	"github.com/ory/keto/internal/schema"
	"github.com/ory/keto/verif/ev"
)

// max_read_depth for the engine: the default (5) would cut most chains; with
// one object per namespace a check can reach at most 3*4 distinct
// (namespace, relation) nodes and a tuple set has <= 3 tuples (each hop over a
// tuple costs one level, computed subject sets cost none), so 8 levels reach
// every lookup that <= 3 tuples can lead to, while two self-loop tuples under
// two traversals already cost 2^depth sub-checks (50 would not terminate in
// practice).
const c11Depth = 8

// machinery limits (never oracles): a shard gives up with INFRA-ERROR when a
// check has this many goroutines alive (unbounded eager recursion looks like
// this; legitimate fan-out of 3^depth sub-checks stays well below), and a
// single check is abandoned (counted, not judged) after c11CheckTimeout.
const (
	c11MaxGoroutines = 250000
	c11CheckTimeout  = 60 * time.Second
)

var (
	c11NS    = []string{"A", "B", "C"}
	c11Rels  = []string{"r1", "r2"}
	c11Perms = []string{"p1", "p2"}
)

type c11Bounds struct {
	NMax      int // namespaces
	S         int // total declarations
	Unions    int // 0 none, 1 unions with at least one plain member, 2 all unions of two
	Binary    int // binaries of two distinct leaves a,b: 0 none; 1: a&&b, a||b; 2: + !a&&b, a&&!b; 3: + !a||b, a||!b
	MaxTuples int
}

type c11Shape struct {
	nr, np   []int
	typeOpts [][]TypeRef
	exprOpts [][]*Expr // per namespace
	radices  []int
	count    int
	lo       int
}

func c11Shapes(b c11Bounds) []*c11Shape {
	var out []*c11Shape
	lo := 0
	for n := 1; n <= b.NMax; n++ {
		cur := make([][2]int, n)
		var rec func(i, used int)
		rec = func(i, used int) {
			if i == n {
				sh := &c11Shape{}
				for _, c := range cur {
					sh.nr = append(sh.nr, c[0])
					sh.np = append(sh.np, c[1])
				}
				sh.build(b)
				sh.lo = lo
				lo += sh.count
				out = append(out, sh)
				return
			}
			for r := 0; r <= 2; r++ {
				for p := 0; p <= 2; p++ {
					if used+r+p <= b.S {
						cur[i] = [2]int{r, p}
						rec(i+1, used+r+p)
					}
				}
			}
		}
		rec(0, 0)
	}
	return out
}

func (sh *c11Shape) declared(x int) []string {
	var d []string
	d = append(d, c11Rels[:sh.nr[x]]...)
	d = append(d, c11Perms[:sh.np[x]]...)
	return d
}

func (sh *c11Shape) build(b c11Bounds) {
	n := len(sh.nr)
	var singles []TypeRef
	for x := 0; x < n; x++ {
		singles = append(singles, TypeRef{c11NS[x], ""})
	}
	for x := 0; x < n; x++ {
		for _, m := range sh.declared(x) {
			singles = append(singles, TypeRef{c11NS[x], m})
		}
	}
	for _, s := range singles {
		sh.typeOpts = append(sh.typeOpts, []TypeRef{s})
	}
	if b.Unions > 0 {
		for i := range singles {
			for j := i + 1; j < len(singles); j++ {
				if b.Unions == 1 && singles[i].Rel != "" && singles[j].Rel != "" {
					continue
				}
				sh.typeOpts = append(sh.typeOpts, []TypeRef{singles[i], singles[j]})
			}
		}
	}
	// names declared anywhere, in a fixed order
	any := map[string]bool{}
	for x := 0; x < n; x++ {
		for _, m := range sh.declared(x) {
			any[m] = true
		}
	}
	var all []string
	for _, m := range append(append([]string{}, c11Rels...), c11Perms...) {
		if any[m] {
			all = append(all, m)
		}
	}
	sh.exprOpts = make([][]*Expr, n)
	for x := 0; x < n; x++ {
		var leaves []*Expr
		for _, r := range c11Rels[:sh.nr[x]] {
			leaves = append(leaves, Atom(LIncludes, r, ""))
		}
		for _, p := range c11Perms[:sh.np[x]] {
			leaves = append(leaves, Atom(LPermits, p, ""))
		}
		for _, r := range c11Rels[:sh.nr[x]] {
			for _, m := range all {
				if m[0] == 'r' {
					leaves = append(leaves, Atom(LTravRelated, r, m))
				} else {
					leaves = append(leaves, Atom(LTravPermits, r, m))
				}
			}
		}
		var opts []*Expr
		for _, l := range leaves {
			opts = append(opts, l, Not(l))
		}
		for i := range leaves {
			for j := i + 1; j < len(leaves) && b.Binary > 0; j++ {
				opts = append(opts, Bin('&', leaves[i], leaves[j]), Bin('|', leaves[i], leaves[j]))
				if b.Binary >= 2 {
					opts = append(opts, Bin('&', Not(leaves[i]), leaves[j]), Bin('&', leaves[i], Not(leaves[j])))
				}
				if b.Binary >= 3 {
					opts = append(opts, Bin('|', Not(leaves[i]), leaves[j]), Bin('|', leaves[i], Not(leaves[j])))
				}
			}
		}
		sh.exprOpts[x] = opts
	}
	sh.count = 1
	for x := 0; x < n; x++ {
		for i := 0; i < sh.nr[x]; i++ {
			sh.radices = append(sh.radices, len(sh.typeOpts))
		}
		for i := 0; i < sh.np[x]; i++ {
			sh.radices = append(sh.radices, len(sh.exprOpts[x]))
		}
	}
	for _, r := range sh.radices {
		sh.count *= r
	}
}

func (sh *c11Shape) prog(local int) *Prog {
	p := &Prog{}
	slot := 0
	for x := range sh.nr {
		ns := NSDecl{Name: c11NS[x]}
		for i := 0; i < sh.nr[x]; i++ {
			r := sh.radices[slot]
			ns.Rels = append(ns.Rels, RelDecl{c11Rels[i], sh.typeOpts[local%r]})
			local /= r
			slot++
		}
		for i := 0; i < sh.np[x]; i++ {
			r := sh.radices[slot]
			ns.Perms = append(ns.Perms, PermDecl{c11Perms[i], sh.exprOpts[x][local%r]})
			local /= r
			slot++
		}
		p.NS = append(p.NS, ns)
	}
	return p
}

// canonical representative of a program up to renaming of namespaces
func progKey(p *Prog, perm []int) string {
	name := map[string]string{}
	for i, ns := range p.NS {
		name[ns.Name] = c11NS[perm[i]]
	}
	parts := make([]string, len(p.NS))
	for i, ns := range p.NS {
		var sb strings.Builder
		sb.WriteString(name[ns.Name] + "{")
		for _, r := range ns.Rels {
			sb.WriteString(r.Name + ":")
			for _, t := range r.Types {
				sb.WriteString(name[t.NS] + "#" + t.Rel + "|")
			}
			sb.WriteString(";")
		}
		for _, pm := range ns.Perms {
			sb.WriteString(pm.Name + "=" + pm.Expr.String() + ";")
		}
		sb.WriteString("}")
		parts[perm[i]] = sb.String()
	}
	return strings.Join(parts, "")
}

func permutations(n int) [][]int {
	if n == 1 {
		return [][]int{{0}}
	}
	var out [][]int
	for _, p := range permutations(n - 1) {
		for pos := 0; pos <= len(p); pos++ {
			q := append(append(append([]int{}, p[:pos]...), n-1), p[pos:]...)
			out = append(out, q)
		}
	}
	return out
}

var permMemo = map[int][][]int{1: permutations(1), 2: permutations(2), 3: permutations(3)}

func isCanonical(p *Prog) bool {
	id := make([]int, len(p.NS))
	for i := range id {
		id[i] = i
	}
	own := progKey(p, id)
	for _, pm := range permMemo[len(p.NS)] {
		if progKey(p, pm) < own {
			return false
		}
	}
	return true
}

// hasIdlePart: a namespace without declarations that no type mentions, or a
// relation that no permission leaf and no SubjectSet type mentions. The
// program then behaves like the smaller program without that part on every
// other query (that program is enumerated too), and queries on an unmentioned
// relation cannot reach a rewrite.
func hasIdleNamespace(p *Prog) bool {
	for _, ns := range p.NS {
		for _, r := range ns.Rels {
			mentioned := false
			for _, pm := range ns.Perms {
				var as []*Expr
				pm.Expr.atoms(&as)
				for _, a := range as {
					if a.Kind != LPermits && a.Rel == r.Name {
						mentioned = true
					}
				}
			}
			for _, other := range p.NS {
				for _, r2 := range other.Rels {
					for _, t := range r2.Types {
						if t.NS == ns.Name && t.Rel == r.Name {
							mentioned = true
						}
					}
				}
				// p.related.<r>.includes(...) inside a traverse that can land here
				for _, pm := range other.Perms {
					var as []*Expr
					pm.Expr.atoms(&as)
					for _, a := range as {
						if a.Kind == LTravRelated && a.Via == r.Name {
							mentioned = true
						}
					}
				}
			}
			if !mentioned {
				return true
			}
		}
	}
	if len(p.NS) == 1 {
		return false
	}
	used := map[string]bool{}
	for _, ns := range p.NS {
		for _, r := range ns.Rels {
			for _, t := range r.Types {
				used[t.NS] = true
			}
		}
	}
	for _, ns := range p.NS {
		if len(ns.Rels)+len(ns.Perms) == 0 && !used[ns.Name] {
			return true
		}
	}
	return false
}

// hasEagerCycle: keto builds the check of a `this.permits.Q(ctx)` leaf eagerly
// and without consuming depth when the leaf is a direct child of an AND node
// or stands under '!' directly below the permission's top rewrite
// (check/rewrites.go: only an OR of computed subject sets is deferred; the
// parser wraps the LEFT operand of a binary in a rewrite of its own, which
// costs one level). With the parser's tree shapes this means: `!q`, `a && q`,
// `a && !q`, `!q || a`, `a || !q` -- but not `q && a`, `!q && a`, `q || a`.
// A cycle of such edges among the permissions of a namespace never finishes
// building (unbounded recursion and goroutines; the process dies) -- reported
// separately as a termination defect; such programs cannot be run and are
// counted. If this model is wrong for an edited tree the runaway guard in
// c11Shard ends the run with INFRA-ERROR instead of hanging.
func hasEagerCycle(p *Prog) bool {
	for _, ns := range p.NS {
		edges := map[string]map[string]bool{}
		for _, pm := range ns.Perms {
			edges[pm.Name] = map[string]bool{}
			add := func(e *Expr) {
				if e.Op == '!' {
					e = e.L
				}
				if e.Op == 'a' && e.Kind == LPermits {
					edges[pm.Name][e.Rel] = true
				}
			}
			switch e := pm.Expr; e.Op {
			case '!':
				add(e)
			case '&':
				add(e.R)
			case '|':
				if e.L.Op == '!' {
					add(e.L)
				}
				if e.R.Op == '!' {
					add(e.R)
				}
			}
		}
		for range ns.Perms { // transitive closure over <= 2 nodes
			for a, m := range edges {
				for b := range m {
					for c := range edges[b] {
						edges[a][c] = true
					}
				}
			}
		}
		for a, m := range edges {
			if m[a] {
				return true
			}
		}
	}
	return false
}

// ---- report ----

type c11Vio struct {
	Sig    string         `json:"sig"`
	What   string         `json:"what"`
	Size   int            `json:"size"`
	Count  int            `json:"count"`
	Replay map[string]any `json:"replay"`
}

// c11DocPrograms: programs whose namespaces declare DIFFERENT relations, with union-typed traversed relations.
func c11DocPrograms() []*Prog {
	unionTrav := &Prog{NS: []NSDecl{
		{Name: "U"},
		{Name: "A",
			Rels:  []RelDecl{{"ra", []TypeRef{{"U", ""}}}, {"par", []TypeRef{{"A", ""}, {"B", ""}}}},
			Perms: []PermDecl{{"v", Bin('|', Atom(LIncludes, "ra", ""), Atom(LTravPermits, "par", "v"))}}},
		{Name: "B",
			Rels:  []RelDecl{{"rb", []TypeRef{{"U", ""}}}},
			Perms: []PermDecl{{"v", Atom(LIncludes, "rb", "")}}},
	}}
	unionTrav2 := &Prog{NS: []NSDecl{
		{Name: "U"},
		{Name: "B",
			Rels:  []RelDecl{{"rb", []TypeRef{{"U", ""}}}, {"up", []TypeRef{{"B", ""}}}},
			Perms: []PermDecl{{"v", Bin('&', Atom(LIncludes, "rb", ""), Not(Atom(LTravPermits, "up", "v")))}}},
		{Name: "A",
			Rels:  []RelDecl{{"ra", []TypeRef{{"U", ""}}}, {"par", []TypeRef{{"B", ""}, {"A", ""}}}},
			Perms: []PermDecl{{"v", Bin('&', Not(Atom(LIncludes, "ra", "")), Atom(LTravPermits, "par", "v"))}, {"w", Atom(LTravRelated, "par", "rb2")}}},
	}}
	// rb2 must exist in both members of the union for the second program to type-check
	unionTrav2.NS[1].Rels = append(unionTrav2.NS[1].Rels, RelDecl{"rb2", []TypeRef{{"U", ""}}})
	unionTrav2.NS[2].Rels = append(unionTrav2.NS[2].Rels, RelDecl{"rb2", []TypeRef{{"U", ""}}})
	return []*Prog{specExampleProg(), secondProg(), unionTrav, unionTrav2}
}

type c11Report struct {
	DocPrograms                       int `json:"doc_programs"`
	Programs, Accepted, Rejected      int64
	Mutations, MutationsRejectedOK    int64
	EnginePrograms, TupleSets, Checks int64
	EagerCycle                        int64
	EagerCycleSample                  string
	Unstable                          int64
	UnstableSample                    string
	Abandoned                         int64
	AbandonedSample                   string
	NonTrivial                        int64
	SchemaErrors, OtherErrors         int64
	Unsettled, WriteRetries           int64
	OtherErrorSample                  string
	Vios                              map[string]*c11Vio
	Cut                               bool
	Done                              int // indices completed by this shard
	Samples                           []map[string]any
}

func (r *c11Report) vio(sig, what string, size int, replay map[string]any) {
	v := r.Vios[sig]
	if v == nil {
		r.Vios[sig] = &c11Vio{Sig: sig, What: what, Size: size, Count: 1, Replay: replay}
		return
	}
	v.Count++
	if size < v.Size || (size == v.Size && what < v.What) {
		v.What, v.Size, v.Replay = what, size, replay
	}
}

// ---- converse part ----

func mutateTok(t Tok) Tok {
	name := "zz"
	if t.Ref == RefTypeNS {
		name = "Zz"
	}
	switch t.S[0] {
	case '"':
		t.S = `"` + name + `"`
	case '\'':
		t.S = `'` + name + `'`
	default:
		t.S = name
	}
	return t
}

func overlaps(aLo, aHi, bLo, bHi int) bool { return aLo <= bHi && bLo <= aHi }

func c11Parse(text string) (errs []*schema.ParseError, panicked any) {
	defer func() { panicked = recover() }()
	_, errs = schema.Parse(text)
	return
}

func relHasSubjectSetType(p *Prog, ns, rel string) bool {
	for _, n := range p.NS {
		if n.Name != ns {
			continue
		}
		for _, r := range n.Rels {
			if r.Name == rel {
				for _, t := range r.Types {
					if t.Rel != "" {
						return true
					}
				}
			}
		}
	}
	return false
}

func (r *c11Report) converse(index int, p *Prog, toks []Tok) {
	for ti, t := range toks {
		if t.Ref == RefNone {
			continue
		}
		mt := append([]Tok{}, toks...)
		mt[ti] = mutateTok(t)
		text, spans := Join(mt, LayoutPretty, -1, "")
		r.Mutations++
		kind := refKindName[t.Ref]
		replay := map[string]any{"part": "converse", "program_index": index, "token": ti, "kind": kind, "doc": text}
		errs, panicked := c11Parse(text)
		if panicked != nil {
			r.vio("parse:panic", fmt.Sprintf("Parse panicked (%v) on\n%s", panicked, ind(text)), len(text), replay)
			continue
		}
		if len(errs) == 0 {
			if t.Ref == RefTravVia {
				// structural subclass: the traversed relation of this leaf is declared with a SubjectSet<T,R> member type
				for _, o := range toks {
					if o.Leaf == t.Leaf && o.Ref == RefTravRel && relHasSubjectSetType(p, t.Owner, strings.Trim(o.S, `"'`)) {
						kind += ":over-subjectset-typed-relation"
					}
				}
			}
			r.vio("converse:accepted:"+kind, fmt.Sprintf("reference to the undeclared name %s (%s, token %d) is accepted without error:\n%s", mt[ti].S, kind, ti, ind(text)), len(text), replay)
			continue
		}
		sp := spans[ti]
		// the smallest enclosing construct (leaf expression / relation type) on the token's line
		cLo, cHi := sp.Col, sp.Col+sp.Len-1
		for k, o := range mt {
			if o.Leaf == t.Leaf && t.Leaf != 0 && spans[k].Line == sp.Line {
				if spans[k].Col < cLo {
					cLo = spans[k].Col
				}
				if e := spans[k].Col + spans[k].Len - 1; e > cHi {
					cHi = e
				}
			}
		}
		atToken, inConstruct := false, false
		var where []string
		for _, e := range errs {
			a := e.ToAPI()
			where = append(where, fmt.Sprintf("%d:%d-%d:%d %q", a.Start.Line, a.Start.Col, a.End.Line, a.End.Col, a.Message))
			if a.Start.Line != sp.Line || a.End.Line != sp.Line {
				continue
			}
			// columns may be 0- or 1-based: accept either reading (one column of slack on both sides)
			if overlaps(a.Start.Col, a.End.Col, sp.Col-1, sp.Col+sp.Len) {
				atToken = true
			}
			if overlaps(a.Start.Col, a.End.Col, cLo-1, cHi+1) {
				inConstruct = true
			}
		}
		switch {
		case atToken:
			r.MutationsRejectedOK++
		case inConstruct:
			r.vio("converse:error-points-at-another-token-of-the-construct:"+kind,
				fmt.Sprintf("undeclared %s %s at %d:%d is rejected, but no error span touches that token (errors: %s):\n%s", kind, mt[ti].S, sp.Line, sp.Col, strings.Join(where, "; "), ind(text)), len(text), replay)
		default:
			r.vio("converse:error-position-off:"+kind,
				fmt.Sprintf("undeclared %s %s at %d:%d is rejected, but every error is positioned outside its construct (errors: %s):\n%s", kind, mt[ti].S, sp.Line, sp.Col, strings.Join(where, "; "), ind(text)), len(text), replay)
		}
	}
}

// ---- run-time part ----

type c11Engine struct {
	t      testing.TB
	reg    *driver.RegistryDefault
	ctx    context.Context
	baseG  int
	sets   int
	report *c11Report
}

func newC11Engine(t testing.TB, rep *c11Report) *c11Engine {
	e := &c11Engine{t: t, ctx: context.Background(), report: rep}
	e.fresh()
	return e
}

// fresh replaces the registry (new in-memory database). configx keeps every
// Set() as one more provider and reloads all of them on each call, so the cost
// of loading a program grows with the number of programs a registry has seen.
func (e *c11Engine) fresh() {
	if e.reg != nil {
		_ = e.reg.Persister().Connection(e.ctx).Close()
	}
	e.reg = driver.NewSqliteTestRegistry(e.t, false, driver.WithConfig("limit.max_read_depth", c11Depth), driver.WithLogLevel("panic"))
	e.reg.Logger().Logger.SetOutput(new(bytes.Buffer)) // parse/namespace log lines are not wanted
	e.sets = 0
}

func (e *c11Engine) configure(opl string, strict bool, wantNS int) error {
	if e.sets >= 24 {
		e.fresh()
	}
	e.sets++
	err := e.reg.Config(e.ctx).Set("namespaces", map[string]any{
		"location":                 "base64://" + base64.StdEncoding.EncodeToString([]byte(opl)),
		"experimental_strict_mode": strict,
	})
	if err != nil {
		return err
	}
	nm, err := e.reg.Config(e.ctx).NamespaceManager()
	if err != nil {
		return err
	}
	nss, err := nm.Namespaces(e.ctx)
	if err != nil {
		return err
	}
	if len(nss) != wantNS || e.reg.Config(e.ctx).StrictMode() != strict || e.reg.Config(e.ctx).MaxReadDepth() != c11Depth {
		return fmt.Errorf("configuration did not take: %d namespaces (want %d), strict=%v", len(nss), wantNS, e.reg.Config(e.ctx).StrictMode())
	}
	return nil
}

func oid(ns string) uuid.UUID { return uuid.NewV5(uuid.Nil, ns+":o") }

var freshSubject = &relationtuple.SubjectID{ID: uuid.NewV5(uuid.Nil, "u")}

type c11Tuple struct {
	NS, Rel string
	Sub     TypeRef // subject set Sub.NS:o#Sub.Rel
}

func (t c11Tuple) String() string {
	return fmt.Sprintf("%s:o#%s@(%s:o#%s)", t.NS, t.Rel, t.Sub.NS, t.Sub.Rel)
}
func (t c11Tuple) internal() *relationtuple.RelationTuple {
	return &relationtuple.RelationTuple{Namespace: t.NS, Object: oid(t.NS), Relation: t.Rel,
		Subject: &relationtuple.SubjectSet{Namespace: t.Sub.NS, Object: oid(t.Sub.NS), Relation: t.Sub.Rel}}
}

func (e *c11Engine) settle() {
	for i := 0; i < 400; i++ {
		if runtime.NumGoroutine() <= e.baseG {
			return
		}
		runtime.Gosched()
		if i > 20 {
			time.Sleep(50 * time.Microsecond) // waiting for wind-down only; never decides a verdict
		}
	}
	e.report.Unsettled++
	e.baseG = runtime.NumGoroutine() // leaked goroutines (C15's subject) must not stall every later case
}

func (e *c11Engine) retry(f func() error) error {
	var err error
	for i := 0; i < 50; i++ {
		if err = f(); err == nil {
			return nil
		}
		e.report.WriteRetries++
		time.Sleep(time.Millisecond)
	}
	return err
}

func schemaErrorClass(err error) string {
	if err == nil {
		return ""
	}
	var he *herodot.DefaultError
	if errors.As(err, &he) {
		switch {
		case strings.Contains(he.Reason(), "does not exist"):
			return "relation-does-not-exist"
		case he.StatusCode() == 400:
			return "malformed-request"
		case he.StatusCode() == 404:
			return "not-found"
		}
	}
	if strings.Contains(err.Error(), "not implemented") {
		return "not-implemented"
	}
	return ""
}

// structural class of a schema error found with program p and tuples ts: the
// recorded defect is "a traverse over relation R evaluates its computed
// relation on the namespace of a SubjectSet<T,m>-typed subject, T itself does
// not declare it".
func c11Signature(p *Prog, ts []c11Tuple, class string) string {
	decl := map[string]map[string]bool{}
	for _, ns := range p.NS {
		decl[ns.Name] = map[string]bool{}
		for _, r := range ns.Rels {
			decl[ns.Name][r.Name] = true
		}
		for _, pm := range ns.Perms {
			decl[ns.Name][pm.Name] = true
		}
	}
	for _, ns := range p.NS {
		for _, pm := range ns.Perms {
			var as []*Expr
			pm.Expr.atoms(&as)
			for _, a := range as {
				if a.Kind != LTravRelated && a.Kind != LTravPermits {
					continue
				}
				for _, t := range ts {
					if t.NS == ns.Name && t.Rel == a.Rel && t.Sub.Rel != "" && !decl[t.Sub.NS][a.Via] {
						return "schema-error:traverse-over-subjectset-typed-relation"
					}
				}
			}
		}
	}
	return "schema-error:" + class
}

func (e *c11Engine) runProgram(index int, p *Prog, text string, maxTuples int) error {
	rep := e.report
	var universe []c11Tuple
	type q struct{ NS, Rel string }
	var queries []q
	for _, ns := range p.NS {
		for _, r := range ns.Rels {
			queries = append(queries, q{ns.Name, r.Name})
			for _, t := range r.Types {
				universe = append(universe, c11Tuple{ns.Name, r.Name, t})
			}
		}
		for _, pm := range ns.Perms {
			queries = append(queries, q{ns.Name, pm.Name})
		}
	}
	if len(queries) == 0 {
		return nil
	}
	// all subsets of the universe with <= maxTuples members, in a fixed order
	var sets [][]c11Tuple
	var rec func(start int, cur []c11Tuple)
	rec = func(start int, cur []c11Tuple) {
		sets = append(sets, append([]c11Tuple{}, cur...))
		if len(cur) == maxTuples {
			return
		}
		for i := start; i < len(universe); i++ {
			rec(i+1, append(cur, universe[i]))
		}
	}
	rec(0, nil)
	rep.EnginePrograms++
	nontrivial := false
	for _, strict := range []bool{false, true} {
		if err := e.configure(text, strict, len(p.NS)); err != nil {
			return err
		}
		for _, set := range sets {
			rep.TupleSets++
			if len(set) > 0 {
				its := make([]*relationtuple.RelationTuple, len(set))
				for i, t := range set {
					its[i] = t.internal()
				}
				if err := e.retry(func() error { return e.reg.RelationTupleManager().WriteRelationTuples(e.ctx, its...) }); err != nil {
					return fmt.Errorf("write tuples: %w", err)
				}
			}
			subjects := []relationtuple.Subject{freshSubject}
			subjNames := []string{"u"}
			seen := map[string]bool{}
			for _, t := range set {
				k := t.Sub.NS + "#" + t.Sub.Rel
				if !seen[k] {
					seen[k] = true
					subjects = append(subjects, t.internal().Subject)
					subjNames = append(subjNames, fmt.Sprintf("(%s:o#%s)", t.Sub.NS, t.Sub.Rel))
				}
			}
			for _, qu := range queries {
				for si, sub := range subjects {
					rep.Checks++
					e.baseG = runtime.NumGoroutine()
					c11Current.Store(&c11Case{text, fmt.Sprint(set), fmt.Sprintf("%s:o#%s@%s strict=%v", qu.NS, qu.Rel, subjNames[si], strict)})
					cctx, cancel := context.WithTimeout(e.ctx, c11CheckTimeout)
					res := e.reg.PermissionEngine().CheckRelationTuple(cctx, &relationtuple.RelationTuple{Namespace: qu.NS, Object: oid(qu.NS), Relation: qu.Rel, Subject: sub}, 0)
					timedOut := cctx.Err() != nil
					cancel()
					e.settle()
					if timedOut {
						rep.Abandoned++
						if rep.AbandonedSample == "" {
							rep.AbandonedSample = fmt.Sprintf("check %s:o#%s@%s (strict=%v), tuples %v, program:\n%s", qu.NS, qu.Rel, subjNames[si], strict, set, text)
						}
						continue
					}
					if res.Err == nil {
						continue
					}
					class := schemaErrorClass(res.Err)
					if class == "" {
						rep.OtherErrors++
						if rep.OtherErrorSample == "" {
							rep.OtherErrorSample = fmt.Sprintf("%v on %s", res.Err, text)
						}
						continue
					}
					rep.SchemaErrors++
					var tnames []string
					// the engine runs free: a candidate counts only if it reproduces 5/5
					again := 1
					for k := 0; k < 4; k++ {
						e.baseG = runtime.NumGoroutine()
						r2 := e.reg.PermissionEngine().CheckRelationTuple(e.ctx, &relationtuple.RelationTuple{Namespace: qu.NS, Object: oid(qu.NS), Relation: qu.Rel, Subject: sub}, 0)
						e.settle()
						if schemaErrorClass(r2.Err) == class {
							again++
						}
					}
					if again < 5 {
						rep.Unstable++
						if rep.UnstableSample == "" || len(text) < len(rep.UnstableSample) {
							rep.UnstableSample = fmt.Sprintf("schema error in %d of 5 runs: check %s:o#%s@%s (strict=%v), tuples %v, program:\n%s", again, qu.NS, qu.Rel, subjNames[si], strict, set, text)
						}
						continue
					}
					for _, t := range set {
						tnames = append(tnames, t.String())
					}
					mode := map[bool]string{false: "default", true: "strict"}[strict]
					query := fmt.Sprintf("%s:o#%s@%s", qu.NS, qu.Rel, subjNames[si])
					sig := c11Signature(p, set, class)
					rep.vio(sig, fmt.Sprintf("accepted program, conforming tuples {%s}, check %s (%s mode) fails with a schema error: %v [%s]\n%s",
						strings.Join(tnames, ", "), query, mode, res.Err, herodotReason(res.Err), ind(text)),
						len(text)+100*len(set)+10*si,
						map[string]any{"part": "runtime", "program_index": index, "doc": text, "tuples": tnames, "query": query, "mode": mode, "error": res.Err.Error() + ": " + herodotReason(res.Err)})
				}
			}
			if len(set) > 0 {
				nontrivial = true
				if err := e.retry(func() error {
					return e.reg.RelationTupleManager().DeleteAllRelationTuples(e.ctx, &relationtuple.RelationQuery{})
				}); err != nil {
					return fmt.Errorf("delete tuples: %w", err)
				}
			}
		}
	}
	if nontrivial {
		rep.NonTrivial++
	}
	return nil
}

type c11Case struct{ doc, tuples, query string }

var c11Current atomic.Pointer[c11Case]

// ind indents a document so that every line of a multi-line report starts with blanks (the driver echoes such lines).
func ind(doc string) string {
	return "    " + strings.ReplaceAll(strings.TrimRight(doc, "\n "), "\n", "\n    ") + "\n  "
}

func herodotReason(err error) string {
	var he *herodot.DefaultError
	if errors.As(err, &he) {
		return he.Reason()
	}
	return ""
}

func c11BoundsFor(thorough bool) []c11Bounds {
	if e := os.Getenv("VERIF_C11_BOUNDS"); e != "" { // calibration aid: "n,S,U,B,T;..."
		var out []c11Bounds
		for _, part := range strings.Split(e, ";") {
			var b c11Bounds
			fmt.Sscanf(part, "%d,%d,%d,%d,%d", &b.NMax, &b.S, &b.Unions, &b.Binary, &b.MaxTuples)
			out = append(out, b)
		}
		return out
	}
	if thorough {
		return []c11Bounds{
			{NMax: 3, S: 4, Unions: 0, Binary: 0, MaxTuples: 3},
			{NMax: 2, S: 3, Unions: 2, Binary: 1, MaxTuples: 3},
			{NMax: 3, S: 3, Unions: 1, Binary: 2, MaxTuples: 2},
		}
	}
	return []c11Bounds{
		{NMax: 2, S: 4, Unions: 0, Binary: 0, MaxTuples: 2},
		{NMax: 3, S: 3, Unions: 1, Binary: 0, MaxTuples: 2},
		{NMax: 2, S: 3, Unions: 0, Binary: 1, MaxTuples: 2},
	}
}

type c11Space struct {
	b      c11Bounds
	shapes []*c11Shape
	total  int
	lo     int
}

func c11Spaces(thorough bool) ([]*c11Space, int) {
	var out []*c11Space
	lo := 0
	for _, b := range c11BoundsFor(thorough) {
		sp := &c11Space{b: b, shapes: c11Shapes(b), lo: lo}
		for _, sh := range sp.shapes {
			sp.total += sh.count
		}
		lo += sp.total
		out = append(out, sp)
	}
	return out, lo
}

func c11Decode(spaces []*c11Space, i int) (*Prog, c11Bounds) {
	for si := len(spaces) - 1; si >= 0; si-- {
		sp := spaces[si]
		if i < sp.lo {
			continue
		}
		j := i - sp.lo
		k := sort.Search(len(sp.shapes), func(k int) bool { return sp.shapes[k].lo+sp.shapes[k].count > j })
		return sp.shapes[k].prog(j - sp.shapes[k].lo), sp.b
	}
	return nil, c11Bounds{}
}

var c11Style = Style{CtxType: true, LambdaParen: true, TrailComma: true, Paren: ParenMixed}

func c11Shard(t *testing.T, shard, of int, outPath string) {
	rep := &c11Report{Vios: map[string]*c11Vio{}}
	eng := newC11Engine(t, rep)
	spaces, total := c11Spaces(ev.Thorough())
	deadline := ev.Deadline(285, 1500)
	go func() { // runaway guard (machinery, not an oracle): a check that spawns goroutines without bound cannot be decided here
		for {
			time.Sleep(20 * time.Millisecond)
			if n := runtime.NumGoroutine(); n > c11MaxGoroutines {
				c := c11Current.Load()
				fmt.Printf("INFRA-ERROR C11 runaway check: %d goroutines alive during %s with tuples %s on\n%s\n", n, c.query, c.tuples, c.doc)
				os.Exit(3)
			}
		}
	}()
	countOnly := os.Getenv("VERIF_C11_COUNT") != ""
	seenSpace := map[int]bool{}
	// documentation-shaped programs first (the grammar below gives every namespace the SAME relation
	// names; here namespaces declare different relations and a traversed relation is a union of
	// namespaces, as in the docs' File/Folder example): all conforming tuple sets of <= 3 tuples
	if extra := c11DocPrograms(); !countOnly {
		for k, p := range extra {
			if k%of != shard {
				continue
			}
			toks := p.Tokens(c11Style)
			text, _ := Join(toks, LayoutPretty, -1, "")
			if errs, panicked := c11Parse(text); panicked != nil || len(errs) > 0 {
				fmt.Printf("INFRA-ERROR C11 documentation-shaped program %d is not accepted: %v %v\n%s\n", k, panicked, errs, text)
				os.Exit(2)
			}
			rep.DocPrograms++
			if err := eng.runProgram(-1-k, p, text, 3); err != nil {
				fmt.Printf("INFRA-ERROR C11 shard %d, documentation-shaped program %d: %v\n%s\n", shard, k, err, text)
				os.Exit(2)
			}
		}
	}
	for i := 0; i < total; i++ {
		// pseudo-random but fixed assignment of indices to shards (i mod W correlates with the first slot's option and unbalances the shards)
		if int((uint32(i)*2654435761)>>12)%of != shard {
			continue
		}
		if time.Now().After(deadline) {
			rep.Cut = true
			break
		}
		p, b := c11Decode(spaces, i)
		rep.Programs++
		toks := p.Tokens(c11Style)
		text, _ := Join(toks, LayoutPretty, -1, "")
		errs, panicked := c11Parse(text)
		if panicked != nil {
			rep.vio("parse:panic", fmt.Sprintf("Parse panicked (%v) on\n%s", panicked, ind(text)), len(text), map[string]any{"part": "parse", "program_index": i, "doc": text})
			rep.Done++
			continue
		}
		if len(errs) > 0 {
			rep.Rejected++
			rep.Done++
			continue
		}
		rep.Accepted++
		if !countOnly {
			rep.converse(i, p, toks)
		}
		// the same program may occur in several of the (overlapping) spaces and under several namings: run the engine on one representative
		if !hasIdleNamespace(p) && isCanonical(p) && !c11InEarlierSpace(spaces, p, i) {
			if hasEagerCycle(p) {
				rep.EagerCycle++
				if rep.EagerCycleSample == "" || len(text) < len(rep.EagerCycleSample) {
					rep.EagerCycleSample = text
				}
			} else if countOnly {
				rep.EnginePrograms++
			} else if err := eng.runProgram(i, p, text, b.MaxTuples); err != nil {
				fmt.Printf("INFRA-ERROR C11 shard %d, program %d: %v\n%s\n", shard, i, err, text)
				os.Exit(2)
			}
			if k := len(p.NS)*10 + b.S; !seenSpace[k] && len(rep.Samples) < 3 && len(text) > 150 {
				seenSpace[k] = true
				rep.Samples = append(rep.Samples, map[string]any{"program_index": i, "doc": text})
			}
		}
		rep.Done++
	}
	b, _ := json.Marshal(rep)
	if err := os.WriteFile(outPath, b, 0o644); err != nil {
		fmt.Printf("INFRA-ERROR shard %d cannot write its report: %v\n", shard, err)
		os.Exit(2)
	}
}

// c11InEarlierSpace: the spaces overlap (a program of few declarations without
// unions and binaries is in all of them); the engine part runs it where it
// occurs first. Membership is decided from the program's own features.
func c11InEarlierSpace(spaces []*c11Space, p *Prog, index int) bool {
	size, unions, binary := 0, 0, 0
	for _, ns := range p.NS {
		size += len(ns.Rels) + len(ns.Perms)
		for _, r := range ns.Rels {
			if len(r.Types) > 1 {
				u := 1
				if r.Types[0].Rel != "" && r.Types[1].Rel != "" {
					u = 2
				}
				if u > unions {
					unions = u
				}
			}
		}
		for _, pm := range ns.Perms {
			if e := pm.Expr; e.Op == '&' || e.Op == '|' {
				lvl := 1
				if e.L.Op == '!' || e.R.Op == '!' {
					lvl = 2
					if e.Op == '|' {
						lvl = 3
					}
				}
				if lvl > binary {
					binary = lvl
				}
			}
		}
	}
	for _, sp := range spaces {
		if index < sp.lo+sp.total {
			return false // this is the space the index belongs to
		}
		if len(p.NS) <= sp.b.NMax && size <= sp.b.S && unions <= sp.b.Unions && binary <= sp.b.Binary {
			return true
		}
	}
	return false
}

func TestC11(t *testing.T) {
	if sh := os.Getenv("VERIF_C11_SHARD"); sh != "" {
		var shard, of int
		fmt.Sscanf(sh, "%d/%d", &shard, &of)
		c11Shard(t, shard, of, os.Getenv("VERIF_C11_OUT"))
		return
	}
	run := ev.New("C11", "exploration")
	spaces, total := c11Spaces(ev.Thorough())

	if rf := os.Getenv("VERIF_REPLAY"); rf != "" {
		var rec struct {
			Replay map[string]any `json:"replay"`
		}
		b, err := os.ReadFile(rf)
		if err != nil || json.Unmarshal(b, &rec) != nil {
			t.Fatalf("INFRA-ERROR cannot read replay %s", rf)
		}
		idx := int(rec.Replay["program_index"].(float64))
		p, bd := c11Decode(spaces, idx)
		rep := &c11Report{Vios: map[string]*c11Vio{}}
		toks := p.Tokens(c11Style)
		text, _ := Join(toks, LayoutPretty, -1, "")
		fmt.Printf("  replay program %d:\n%s\n", idx, text)
		if rec.Replay["part"] == "converse" {
			rep.converse(idx, p, toks)
		} else {
			eng := newC11Engine(t, rep)
			if err := eng.runProgram(idx, p, text, bd.MaxTuples); err != nil {
				t.Fatalf("INFRA-ERROR %v", err)
			}
		}
		for _, sig := range sortedKeys(rep.Vios) {
			v := rep.Vios[sig]
			run.Violation(v.Sig, v.What, v.Replay)
		}
		return
	}

	W := ev.Workers()
	exe, err := os.Executable()
	if err != nil {
		t.Fatalf("INFRA-ERROR %v", err)
	}
	scratch := os.Getenv("VERIF_SCRATCH")
	if scratch == "" {
		scratch, err = os.MkdirTemp("/dev/shm", "verif-c11-")
		if err != nil {
			t.Fatalf("INFRA-ERROR %v", err)
		}
		defer os.RemoveAll(scratch)
	}
	type child struct {
		cmd *exec.Cmd
		out string
		log *bytes.Buffer
	}
	var kids []child
	for s := 0; s < W; s++ {
		out := filepath.Join(scratch, fmt.Sprintf("c11-shard-%d.json", s))
		cmd := exec.Command(exe, "-test.run", "^TestC11$", "-test.count", "1", "-test.timeout", "0")
		cmd.Env = append(os.Environ(), fmt.Sprintf("VERIF_C11_SHARD=%d/%d", s, W), "VERIF_C11_OUT="+out, "GOMAXPROCS=2", "TMPDIR="+scratch)
		lg := &bytes.Buffer{}
		cmd.Stdout, cmd.Stderr = lg, lg
		if err := cmd.Start(); err != nil {
			t.Fatalf("INFRA-ERROR cannot start shard: %v", err)
		}
		kids = append(kids, child{cmd, out, lg})
	}
	tot := &c11Report{Vios: map[string]*c11Vio{}}
	for _, k := range kids {
		werr := k.cmd.Wait()
		b, rerr := os.ReadFile(k.out)
		if rerr != nil {
			tail := k.log.String()
			if i := strings.Index(tail, "INFRA-ERROR"); i >= 0 {
				tail = tail[i:]
			}
			if len(tail) > 3000 {
				tail = tail[len(tail)-3000:]
			}
			fmt.Printf("INFRA-ERROR C11 shard exited without a report (%v):\n%s\n", werr, tail)
			t.Fatal("shard failed")
		}
		var r c11Report
		if err := json.Unmarshal(b, &r); err != nil {
			t.Fatalf("INFRA-ERROR bad shard report: %v", err)
		}
		tot.Programs += r.Programs
		tot.Accepted += r.Accepted
		tot.Rejected += r.Rejected
		tot.Mutations += r.Mutations
		tot.MutationsRejectedOK += r.MutationsRejectedOK
		tot.EnginePrograms += r.EnginePrograms
		tot.TupleSets += r.TupleSets
		tot.Checks += r.Checks
		tot.NonTrivial += r.NonTrivial
		tot.SchemaErrors += r.SchemaErrors
		tot.OtherErrors += r.OtherErrors
		tot.Unsettled += r.Unsettled
		tot.Unstable += r.Unstable
		if r.UnstableSample != "" && (tot.UnstableSample == "" || len(r.UnstableSample) < len(tot.UnstableSample)) {
			tot.UnstableSample = r.UnstableSample
		}
		tot.Abandoned += r.Abandoned
		if tot.AbandonedSample == "" {
			tot.AbandonedSample = r.AbandonedSample
		}
		tot.EagerCycle += r.EagerCycle
		if r.EagerCycleSample != "" && (tot.EagerCycleSample == "" || len(r.EagerCycleSample) < len(tot.EagerCycleSample)) {
			tot.EagerCycleSample = r.EagerCycleSample
		}
		tot.WriteRetries += r.WriteRetries
		tot.Done += r.Done
		tot.Cut = tot.Cut || r.Cut
		if tot.OtherErrorSample == "" {
			tot.OtherErrorSample = r.OtherErrorSample
		}
		if len(tot.Samples) < 4 {
			tot.Samples = append(tot.Samples, r.Samples...)
		}
		for sig, v := range r.Vios {
			if have := tot.Vios[sig]; have == nil {
				tot.Vios[sig] = v
			} else {
				have.Count += v.Count
				if v.Size < have.Size || (v.Size == have.Size && v.What < have.What) {
					have.What, have.Size, have.Replay = v.What, v.Size, v.Replay
				}
			}
		}
	}
	if tot.Unstable > 0 {
		fmt.Printf("[c11] note: %d schema-error candidates did not reproduce 5/5 on the free-running engine and are not reported, e.g. %s\n", tot.Unstable, strings.ReplaceAll(clip(tot.UnstableSample, 900), "\n", "\n    "))
	}
	if tot.OtherErrors > 0 {
		fmt.Printf("[c11] note: %d checks returned an error that is not a schema error (not judged), e.g. %s\n", tot.OtherErrors, clip(tot.OtherErrorSample, 400))
	}
	sigs := map[string]any{}
	for _, sig := range sortedKeys(tot.Vios) {
		v := tot.Vios[sig]
		sigs[sig] = v.Count
		run.Violation(v.Sig, fmt.Sprintf("%s  [%d instance(s) of this signature; the smallest is shown]", v.What, v.Count), v.Replay)
	}
	for _, s := range tot.Samples {
		run.Sample(s)
	}
	var bounds []map[string]any
	for _, sp := range spaces {
		bounds = append(bounds, map[string]any{"namespaces": sp.b.NMax, "declarations": sp.b.S, "unions": sp.b.Unions, "binary_permission_level": sp.b.Binary, "max_tuples": sp.b.MaxTuples, "programs": sp.total})
	}
	run.Assume(
		"conforming tuple = (N:o, r, subject set X:o#m) where X[] (m empty) or SubjectSet<X,m> is one of r's declared types; one object per namespace; query subjects are the subject sets occurring in the tuple set plus one fresh subject id",
		"schema error = Result.Err carrying herodot ErrBadRequest (\"relation ... does not exist\" / malformed), ErrNotFound, or \"not implemented\"; any other error is counted (other_errors) and not judged; allowed/denied is never judged here",
		"accepted programs in which `this.permits.X(ctx)` leaves in eager position (under '!', or right operand of '&&') form a cycle among the permissions of one namespace are not run: keto builds those checks eagerly without consuming depth and never returns (counted as programs_not_run_eager_permission_cycle; this is a termination defect, not a schema error)",
		fmt.Sprintf("limit.max_read_depth = %d (a tuple set has <= 3 tuples and only a hop over a tuple consumes depth; a larger limit only multiplies revisits of the same nodes: two self-loop tuples under two traversals cost 2^depth sub-checks)", c11Depth),
		"the engine runs free; each (program, mode, tuple set, query) is run once, and a schema error is reported only if the same check returns it in 5 of 5 runs (others are counted as unstable_candidates); whether a schema error surfaces can depend on which sibling check answers first, so the check is conservative (may miss, cannot invent)",
		"converse: 'pointing at the offending token' is read as: some error lies on the token's line and its column span touches the token, with one column of slack on both sides (0- vs 1-based columns are not distinguished)",
		"programs that differ only by a renaming of namespaces are run through the engine once (one representative); programs with a namespace without declarations that no type mentions, or with a relation that no permission leaf and no SubjectSet type mentions, are not run through the engine (the smaller program without that part is enumerated); the parser part runs on every program",
		"relations are referenced only through the documented forms: `p.related.x.includes` for relation names, `p.permits.x(ctx)` for permission names",
	)
	run.Finish(map[string]any{
		"evaluations":         int(tot.Programs + tot.Mutations + tot.Checks),
		"distinct_nontrivial": int(tot.NonTrivial),
		"rule": "union of the program spaces listed under bounds (index -> program bijection; shapes x type options x permission options); every program is parsed; every accepted program gets every single-reference mutation; one representative per namespace-renaming class additionally runs on the engine with every tuple set of <= max_tuples conforming tuples x every declared (namespace, relation) x subjects x {default, strict}. " +
			"distinct_nontrivial = number of distinct accepted representative programs (pairwise non-isomorphic) that were run on the engine with at least one non-empty tuple set",
		"bounds":                                  bounds,
		"program_indices":                         total,
		"programs_parsed":                         int(tot.Programs),
		"programs_accepted":                       int(tot.Accepted),
		"programs_rejected":                       int(tot.Rejected),
		"mutations":                               int(tot.Mutations),
		"mutations_rejected_at_token":             int(tot.MutationsRejectedOK),
		"engine_programs":                         int(tot.EnginePrograms),
		"tuple_sets":                              int(tot.TupleSets),
		"checks":                                  int(tot.Checks),
		"schema_errors":                           int(tot.SchemaErrors),
		"other_errors":                            int(tot.OtherErrors),
		"abandoned_checks":                        int(tot.Abandoned),
		"abandoned_check_example":                 tot.AbandonedSample,
		"unstable_candidates":                     int(tot.Unstable),
		"unstable_candidate_example":              tot.UnstableSample,
		"unsettled_goroutine_waits":               int(tot.Unsettled),
		"programs_not_run_eager_permission_cycle": int(tot.EagerCycle),
		"eager_permission_cycle_example":          tot.EagerCycleSample,
		"storage_retries":                         int(tot.WriteRetries),
		"violations_by_signature":                 sigs,
		"frontier_indices_done":                   tot.Done,
		"exhaustive":                              !tot.Cut && tot.Abandoned == 0,
	})
}

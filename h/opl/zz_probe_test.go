package opl

import (
	"fmt"
	"testing"
	"runtime"
	"time"

	"github.com/ory/keto/internal/relationtuple"
)

func TestProbe3(t *testing.T) {
	rep := &c11Report{Vios: map[string]*c11Vio{}}
	eng := newC11Engine(t, rep)
	opl := `class A implements Namespace { related: { r1: A[]
 r2: A[] }
 permits = { p1: (ctx) => this.related.r1.traverse((x) => x.related.r2.includes(ctx.subject)) } }`
	t0 := time.Now()
	for i := 0; i < 20; i++ {
		if err := eng.configure(opl, i%2 == 0, 1); err != nil {
			t.Fatal(err)
		}
	}
	fmt.Println("configure", time.Since(t0)/20)
	tp := c11Tuple{"A", "r1", TypeRef{"A", ""}}
	t0 = time.Now()
	for i := 0; i < 100; i++ {
		eng.reg.RelationTupleManager().WriteRelationTuples(eng.ctx, tp.internal())
		eng.reg.RelationTupleManager().DeleteAllRelationTuples(eng.ctx, &relationtuple.RelationQuery{})
	}
	fmt.Println("write+delete", time.Since(t0)/100)
	eng.reg.RelationTupleManager().WriteRelationTuples(eng.ctx, tp.internal())
	q := &relationtuple.RelationTuple{Namespace: "A", Object: oid("A"), Relation: "p1", Subject: freshSubject}
	t0 = time.Now()
	for i := 0; i < 1000; i++ {
		eng.reg.PermissionEngine().CheckRelationTuple(eng.ctx, q, 0)
	}
	fmt.Println("check nosettle", time.Since(t0)/1000, runtime.NumGoroutine())
	t0 = time.Now()
	for i := 0; i < 1000; i++ {
		eng.baseG = runtime.NumGoroutine()
		eng.reg.PermissionEngine().CheckRelationTuple(eng.ctx, q, 0)
		eng.settle()
	}
	fmt.Println("check settle", time.Since(t0)/1000, runtime.NumGoroutine(), rep.Unsettled)
}

package opl

import (
	"fmt"
	"testing"
	"runtime"
	"time"
	"context"

	"github.com/ory/keto/internal/relationtuple"
)

func TestProbe3(t *testing.T) {
	rep := &c11Report{Vios: map[string]*c11Vio{}}
	eng := newC11Engine(t, rep)
	opl := `class A implements Namespace {
  related: {
    r1: (SubjectSet<A, "p1"> | SubjectSet<A, "p2">)[]
  }
  permits = {
    p1: (ctx: Context) => this.related.r1.includes(ctx.subject) && !this.permits.p2(ctx),
    p2: (ctx: Context) => this.permits.p1(ctx) || this.related.r1.traverse((p) => p.permits.p1(ctx)),
  }
}`
	if err := eng.configure(opl, false, 1); err != nil {
		t.Fatal(err)
	}
	a := c11Tuple{"A", "r1", TypeRef{"A", "p1"}}
	b := c11Tuple{"A", "r1", TypeRef{"A", "p2"}}
	eng.reg.RelationTupleManager().WriteRelationTuples(eng.ctx, a.internal(), b.internal())
	max := 0
	go func() {
		for {
			time.Sleep(50 * time.Millisecond)
			if n := runtime.NumGoroutine(); n > max { max = n }
		}
	}()
	t0 := time.Now()
	cctx, cancel := context.WithTimeout(eng.ctx, 60*time.Second)
	res := eng.reg.PermissionEngine().CheckRelationTuple(cctx, &relationtuple.RelationTuple{Namespace: "A", Object: oid("A"), Relation: "p2", Subject: freshSubject}, 0)
	cancel()
	fmt.Println("RESULT", res.Membership, res.Err, time.Since(t0), "max goroutines", max)
}

//go:build sqlite

// C13 — no request crashes a handler; malformed requests are client errors.
// Bounded-exhaustive exploration of request shapes on keto's real routers and
// gRPC servers (sqlite registry, OPL configuration of C08, seeded store):
//
//	families  one per REST route / gRPC method (c13_rest_test.go, c13_grpc_test.go).
//	          A family has ordered fields, each with a list of choices
//	          {absent, null, empty, valid, unknown, wrong JSON type, negative, huge,
//	          oversized (1 MiB), array with null element, duplicate key, ...}.
//	          Enumerated per family: the FULL PRODUCT of the fields' core choices
//	          plus, for every field, every one of its choices with all other
//	          fields at their default ("star"); thorough adds every pair of
//	          choices of every two fields. index -> case is a bijection.
//	methods   every method on every known path on each of the three routers.
//
// Requests run in WORKER SUBPROCESSES (this binary re-executed with
// -test.run ^TestC13Worker$, RLIMIT_AS 4 GiB). The worker appends "S <index>" to
// a journal before sending a request and "R <index> <result>" after; when a
// worker dies the parent attributes the death to the journalled request,
// records the outcome "process-death" and restarts a worker behind it.
//
// Oracle per request: the worker survives; no handler panic (REST: recover()
// around ServeHTTP; gRPC: an interceptor inside keto's recovery interceptor
// sees the panic and re-panics); HTTP status < 500 / gRPC code not Internal or
// Unknown (no storage fault is injected); a JSON response body parses; and an
// error answer (status >= 400 / gRPC error) leaves the byte-level dump of all
// tables unchanged.
//
// Signature of a violation: <kind>:<route>:<field>:<choice>[+...] for the
// MINIMAL set of non-default choices that still fails (looked up in the
// results of the same run: the product contains every sub-vector).
package api

import (
	"bufio"
	"context"
	"encoding/json"
	"fmt"
	"net/http"
	"net/http/httptest"
	"net/url"
	"os"
	"os/exec"
	"path/filepath"
	"runtime"
	"sort"
	"strconv"
	"strings"
	"sync"
	"sync/atomic"
	"syscall"
	"testing"
	"time"

	"google.golang.org/grpc"
	"google.golang.org/grpc/codes"
	"google.golang.org/protobuf/encoding/prototext"
	"google.golang.org/protobuf/proto"

	"github.com/ory/keto/ketoapi"
	rts "github.com/ory/keto/proto/ory/keto/relation_tuples/v1alpha2"
	"github.com/ory/keto/verif/apih"
	"github.com/ory/keto/verif/ev"
)

// ---- families and cases -----------------------------------------------------------

type c13Field struct {
	Name    string
	Choices []string // all choices (star)
	Core    []string // choices used in the full product; must contain Default
	Default string
}

// c13Req is one concrete request.
type c13Req struct {
	// REST
	API    apih.API
	Method string
	Target string
	Body   []byte // nil = no body
	// gRPC
	GRPC func(c *apih.Client, ctx context.Context) (proto.Message, error)
	Msg  proto.Message // the request message, for rendering
	Name string        // gRPC method name
}

type c13Family struct {
	Route  string
	Fields []c13Field
	Build  func(ch map[string]string) *c13Req // nil = this vector cannot be expressed (skipped)
}

type c13Case struct {
	Fam *c13Family
	Vec []string // choice per field, in field order
}

func (c *c13Case) Key() string { return c.Fam.Route + "|" + strings.Join(c.Vec, ",") }

func (c *c13Case) choices() map[string]string {
	m := map[string]string{}
	for i, f := range c.Fam.Fields {
		m[f.Name] = c.Vec[i]
	}
	return m
}

// nonDefault lists "field:choice" for the fields that are not at their default.
func (c *c13Case) nonDefault() []string {
	var out []string
	for i, f := range c.Fam.Fields {
		if c.Vec[i] != f.Default {
			out = append(out, f.Name+":"+c.Vec[i])
		}
	}
	return out
}

func c13Has(l []string, s string) bool {
	for _, x := range l {
		if x == s {
			return true
		}
	}
	return false
}

// c13Enumerate: product of the core choices, then the star (every choice of every field, the
// rest at default); with pairs additionally every pair of choices of every two fields (the
// rest at default). De-duplicated, deterministic order.
func c13Enumerate(fams []*c13Family, pairs bool) []*c13Case {
	var out []*c13Case
	seen := map[string]bool{}
	add := func(f *c13Family, vec []string) {
		c := &c13Case{Fam: f, Vec: append([]string{}, vec...)}
		k := c.Key()
		if seen[k] {
			return
		}
		seen[k] = true
		out = append(out, c)
	}
	for _, f := range fams {
		for _, fd := range f.Fields {
			if !c13Has(fd.Core, fd.Default) || !c13Has(fd.Choices, fd.Default) {
				panic("c13: family " + f.Route + " field " + fd.Name + ": the default must be a core choice")
			}
		}
		vec := make([]string, len(f.Fields))
		var rec func(i int)
		rec = func(i int) {
			if i == len(f.Fields) {
				add(f, vec)
				return
			}
			for _, ch := range f.Fields[i].Core {
				vec[i] = ch
				rec(i + 1)
			}
		}
		rec(0)
		for i, fd := range f.Fields {
			for j := range f.Fields {
				vec[j] = f.Fields[j].Default
			}
			for _, ch := range fd.Choices {
				vec[i] = ch
				add(f, vec)
			}
		}
		if !pairs {
			continue
		}
		for i := range f.Fields {
			for k := i + 1; k < len(f.Fields); k++ {
				for j := range f.Fields {
					vec[j] = f.Fields[j].Default
				}
				for _, a := range f.Fields[i].Choices {
					for _, b := range f.Fields[k].Choices {
						vec[i], vec[k] = a, b
						add(f, vec)
					}
				}
			}
		}
	}
	return out
}

func c13Families(thorough bool) []*c13Family {
	var fams []*c13Family
	fams = append(fams, c13RestFamilies(thorough)...)
	fams = append(fams, c13GrpcFamilies(thorough)...)
	fams = append(fams, c13DataFamily())
	return fams
}

// c13DataFamily: well-formed requests whose answer walks over a LARGE stored node - a subject set with 1001 and
// one with 2001 member subject sets (more than one / two pages of every listing and traversal in the engines).
// "No request can crash a handler" also when the crash depends on the stored data, not on the request's shape.
func c13DataFamily() *c13Family {
	return &c13Family{Route: "data-shaped", Fields: []c13Field{
		c13F("node", "wide1001", []string{"wide1001", "wide2001"}),
		c13F("subject", "nobody", []string{"nobody", "member-of-last", "member-of-first"}),
		c13F("request", "rest-check", []string{"rest-check", "rest-check-post", "rest-batch", "grpc-check", "grpc-batch", "rest-expand", "grpc-expand", "rest-list", "grpc-list", "rest-list-page-1000"}),
	}, Build: func(ch map[string]string) *c13Req {
		obj := ch["node"]
		sub := map[string]string{"nobody": "nobody", "member-of-last": "wide-last", "member-of-first": "wide-first"}[ch["subject"]]
		tp := axID("Group", obj, "members", sub)
		vals := apih.TupleValues(tp)
		set := &ketoapi.SubjectSet{Namespace: "Group", Object: obj, Relation: "members"}
		switch ch["request"] {
		case "rest-check":
			return c13Rest(apih.Read, "GET", c13Target(apih.RouteCheckOAPI, vals.Encode()), nil)
		case "rest-check-post":
			return c13Rest(apih.Read, "POST", c13Target(apih.RouteCheck, ""), []byte(c04JSON(tp)))
		case "rest-batch":
			return c13Rest(apih.Read, "POST", c13Target(apih.RouteBatchCheck, ""), []byte(`{"tuples":[`+c04JSON(tp)+`]}`))
		case "grpc-check":
			return &c13Req{Name: "Check", Msg: &rts.CheckRequest{Tuple: apih.ProtoTuple(tp)}, GRPC: func(c *apih.Client, ctx context.Context) (proto.Message, error) {
				return c.GCheckReq(&rts.CheckRequest{Tuple: apih.ProtoTuple(tp)})
			}}
		case "grpc-batch":
			return &c13Req{Name: "BatchCheck", Msg: &rts.BatchCheckRequest{Tuples: []*rts.RelationTuple{apih.ProtoTuple(tp)}}, GRPC: func(c *apih.Client, ctx context.Context) (proto.Message, error) {
				return c.GBatchCheck([]*rts.RelationTuple{apih.ProtoTuple(tp)}, 0)
			}}
		case "rest-expand":
			v := url.Values{"namespace": {set.Namespace}, "object": {set.Object}, "relation": {set.Relation}, "max-depth": {"2"}}
			return c13Rest(apih.Read, "GET", c13Target(apih.RouteExpand, v.Encode()), nil)
		case "grpc-expand":
			return &c13Req{Name: "Expand", Msg: &rts.ExpandRequest{Subject: apih.ProtoSubject(nil, set), MaxDepth: 2}, GRPC: func(c *apih.Client, ctx context.Context) (proto.Message, error) {
				return c.GExpand(apih.ProtoSubject(nil, set), 2)
			}}
		case "rest-list", "rest-list-page-1000":
			v := url.Values{"namespace": {"Group"}, "object": {obj}}
			if ch["request"] == "rest-list-page-1000" {
				v.Set("page_size", "1000")
			}
			return c13Rest(apih.Read, "GET", c13Target(apih.RouteAdmin, v.Encode()), nil)
		case "grpc-list":
			q := &ketoapi.RelationQuery{Namespace: axS("Group"), Object: axS(obj)}
			return &c13Req{Name: "ListRelationTuples", Msg: &rts.ListRelationTuplesRequest{RelationQuery: apih.ProtoQuery(q), PageSize: 1000}, GRPC: func(c *apih.Client, ctx context.Context) (proto.Message, error) {
				return c.GList(apih.ProtoQuery(q), 1000, "")
			}}
		}
		return nil
	}}
}

// c13ValidRequestLine: httptest.NewRequest panics on a request line net/http
// cannot parse; such targets are not requests a server can receive.
func c13ValidRequestLine(method, target string) (ok bool) {
	defer func() {
		if recover() != nil {
			ok = false
		}
	}()
	httptest.NewRequest(method, "http://keto.verif"+target, nil)
	return true
}

func c13Clip(s string, n int) string {
	if len(s) > n {
		return fmt.Sprintf("%s…(%d bytes)", s[:n], len(s))
	}
	return s
}

func (r *c13Req) Render() map[string]any {
	if r.GRPC != nil {
		txt := ""
		if r.Msg != nil {
			txt = prototext.MarshalOptions{Multiline: false}.Format(r.Msg)
		}
		return map[string]any{"grpc": r.Name, "message": c13Clip(txt, 600)}
	}
	api := []string{"read", "write", "syntax"}[r.API]
	m := map[string]any{"rest": api, "method": r.Method, "target": c13Clip(r.Target, 400)}
	if r.Body != nil {
		m["body"] = c13Clip(string(r.Body), 600)
	}
	return m
}

// ---- result of one request ---------------------------------------------------------------

type c13Res struct {
	Idx     int    `json:"i"`
	Kind    string `json:"k"` // ok | client-error | 5xx | internal | panic | malformed-response | process-death | unresponsive | skipped
	Status  int    `json:"s,omitempty"`
	Code    string `json:"c,omitempty"`
	Changed bool   `json:"d,omitempty"` // the table dump differs from the dump before the request
	Detail  string `json:"m,omitempty"`
}

func (r c13Res) failed() bool {
	switch r.Kind {
	case "5xx", "internal", "panic", "malformed-response", "process-death":
		return true
	}
	return r.Kind == "client-error" && r.Changed
}

// failKind is the first component of the signature.
func (r c13Res) failKind() string {
	if r.Kind == "client-error" && r.Changed {
		return "state-changed-on-error"
	}
	return r.Kind
}

// ---- worker -----------------------------------------------------------------------------------

type c13PanicObs struct{ v atomic.Value }

func c13NewServer(t testing.TB, obs *c13PanicObs) *apih.Server {
	ic := func(ctx context.Context, req any, _ *grpc.UnaryServerInfo, handler grpc.UnaryHandler) (resp any, err error) {
		defer func() {
			if p := recover(); p != nil {
				obs.v.Store(fmt.Sprint(p))
				panic(p) // keto's recovery interceptor (outside this one) handles it as in production
			}
		}()
		return handler(ctx, req)
	}
	s := apih.NewServer(t, apih.Options{Config: map[string]any{"namespaces": c08OPLLocation()}, UnaryInterceptors: []grpc.UnaryServerInterceptor{ic}})
	c13Seed(s)
	return s
}

func c13Seed(s *apih.Server) {
	var deltas []*rts.RelationTupleDelta
	for _, tu := range c08Store(2, false) {
		deltas = append(deltas, axDelta(rts.RelationTupleDelta_ACTION_INSERT, tu))
	}
	// two wide nodes (see c13DataFamily): Group:wide1001#members and Group:wide2001#members
	for _, n := range []int{1001, 2001} {
		obj := fmt.Sprintf("wide%d", n)
		for i := 1; i <= n; i++ {
			deltas = append(deltas, axDelta(rts.RelationTupleDelta_ACTION_INSERT, axSet("Group", obj, "members", "Group", fmt.Sprintf("%s-g%04d", obj, i), "members")))
		}
		deltas = append(deltas, axDelta(rts.RelationTupleDelta_ACTION_INSERT, axID("Group", fmt.Sprintf("%s-g%04d", obj, 1), "members", "wide-first")),
			axDelta(rts.RelationTupleDelta_ACTION_INSERT, axID("Group", fmt.Sprintf("%s-g%04d", obj, n), "members", "wide-last")))
	}
	if _, err := s.Client().GTransact(deltas); err != nil {
		panic(fmt.Sprintf("c13: seeding: %v", err))
	}
}

type c13Worker struct {
	s    *apih.Server
	obs  *c13PanicObs
	base string
	slow int // requests after which the goroutine count did not return to its level within the cap
}

func c13NewWorker(t testing.TB) *c13Worker {
	w := &c13Worker{obs: &c13PanicObs{}}
	w.s = c13NewServer(t, w.obs)
	w.base = w.s.Dump()
	return w
}

func (w *c13Worker) run(idx int, c *c13Case) c13Res {
	res := c13Res{Idx: idx}
	req := c.Fam.Build(c.choices())
	if req == nil {
		res.Kind = "skipped"
		return res
	}
	cl := w.s.Client()
	w.obs.v.Store("")
	before := runtime.NumGoroutine()
	w.s.Tap.StartLog()
	isErr := false
	if req.GRPC != nil {
		ctx, cancel := cl.GCtx()
		_, err := req.GRPC(cl, ctx)
		cancel()
		code := apih.Code(err)
		res.Code = code.String()
		p, _ := w.obs.v.Load().(string)
		switch {
		case p != "":
			res.Kind, res.Detail = "panic", c13Clip(p, 300)
		case code == codes.Internal || code == codes.Unknown:
			res.Kind, res.Detail = "internal", c13Clip(err.Error(), 300)
		case err != nil:
			res.Kind, res.Detail = "client-error", c13Clip(err.Error(), 160)
		default:
			res.Kind = "ok"
		}
		isErr = err != nil
	} else {
		r := cl.DoRaw(req.API, req.Method, req.Target, req.Body, nil)
		res.Status = r.Status
		switch {
		case r.Panic != "":
			res.Kind, res.Detail = "panic", c13Clip(r.Panic, 300)
		case r.Status >= 500:
			res.Kind, res.Detail = "5xx", c13Clip(string(r.Raw), 300)
		case strings.HasPrefix(r.Header.Get("Content-Type"), "application/json") && len(r.Raw) > 0 && r.JSON == nil && !json.Valid(r.Raw):
			res.Kind, res.Detail = "malformed-response", c13Clip(string(r.Raw), 300)
		case r.Status >= 400:
			res.Kind, res.Detail = "client-error", c13Clip(string(r.Raw), 160)
		default:
			res.Kind = "ok"
		}
		isErr = r.Status >= 400 || r.Panic != ""
	}
	// A panic in a goroutine the handler started (REST batch check: errgroup worker) unwinds
	// concurrently with the handler's return: the response can be complete while the process is
	// about to die. The request is only journalled as answered once the goroutines it started
	// are gone (bounded wait; a harness courtesy for attribution, not an oracle).
	if !apih.Quiesce(before, 400*time.Millisecond) {
		w.slow++
	}
	w.s.Settle()
	wrote := false
	for _, e := range w.s.Tap.StopLog() {
		if e.IsWrite() {
			wrote = true
			break
		}
	}
	// every SQL statement passes the tap: without a write statement the tables cannot have changed
	if wrote || isErr && res.Kind != "client-error" {
		if d := w.s.Dump(); d != w.base {
			res.Changed = true
			w.s.Truncate()
			c13Seed(w.s)
			w.base = w.s.Dump()
		}
	}
	return res
}

const (
	c13EnvWork    = "VERIF_C13_WORK"
	c13EnvJournal = "VERIF_C13_JOURNAL"
)

// TestC13Worker is the worker process entry; it does nothing unless started by TestC13.
func TestC13Worker(t *testing.T) {
	work := os.Getenv(c13EnvWork)
	if work == "" {
		t.Skip("worker entry of TestC13")
	}
	_ = syscall.Setrlimit(syscall.RLIMIT_AS, &syscall.Rlimit{Cur: 4 << 30, Max: 4 << 30})
	var lo, hi int
	if _, err := fmt.Sscanf(work, "%d:%d", &lo, &hi); err != nil {
		fmt.Printf("INFRA-ERROR c13 worker: bad work %q\n", work)
		os.Exit(3)
	}
	j, err := os.OpenFile(os.Getenv(c13EnvJournal), os.O_WRONLY|os.O_APPEND|os.O_CREATE, 0o644)
	if err != nil {
		fmt.Printf("INFRA-ERROR c13 worker: journal: %v\n", err)
		os.Exit(3)
	}
	cases := c13Enumerate(c13Families(ev.Thorough()), ev.Thorough())
	w := c13NewWorker(t)
	if _, err := j.WriteString("READY\n"); err != nil {
		os.Exit(3)
	}
	for i := lo; i < hi && i < len(cases); i++ {
		if _, err := j.WriteString("S " + strconv.Itoa(i) + "\n"); err != nil {
			os.Exit(3)
		}
		res := w.run(i, cases[i])
		b, _ := json.Marshal(res)
		if _, err := j.WriteString("R " + strconv.Itoa(i) + " " + string(b) + "\n"); err != nil {
			os.Exit(3)
		}
	}
	_, _ = j.WriteString(fmt.Sprintf("SLOW %d\n", w.slow))
	_, _ = j.WriteString("DONE\n")
}

// ---- parent ---------------------------------------------------------------------------------------

type c13Parent struct {
	dir      string
	cases    []*c13Case
	results  []c13Res
	have     []bool
	mu       sync.Mutex
	spawned  atomic.Int64
	deaths   atomic.Int64
	infra    atomic.Int64
	slow     atomic.Int64
	seq      atomic.Int64
	lastInfo string
}

// runRange runs [lo,hi) in worker processes, restarting behind every death.
func (p *c13Parent) runRange(lo, hi int) {
	setupFailures := 0
	for lo < hi {
		id := p.seq.Add(1)
		journal := filepath.Join(p.dir, fmt.Sprintf("c13-journal-%d", id))
		logf := filepath.Join(p.dir, fmt.Sprintf("c13-worker-%d.log", id))
		_ = os.Remove(journal)
		out, _ := os.Create(logf)
		// /proc/self/exe is the image that is running, even if the file at os.Args[0] was rebuilt meanwhile
		self := "/proc/self/exe"
		if _, err := os.Stat(self); err != nil {
			self = os.Args[0]
		}
		cmd := exec.Command(self, "-test.run", "^TestC13Worker$", "-test.timeout", "0", "-test.count", "1")
		cmd.Env = append(os.Environ(), fmt.Sprintf("%s=%d:%d", c13EnvWork, lo, hi), c13EnvJournal+"="+journal, "GOMAXPROCS=2")
		cmd.Stdout, cmd.Stderr = out, out
		p.spawned.Add(1)
		err := cmd.Start()
		if err != nil {
			fmt.Printf("INFRA-ERROR c13: cannot start a worker: %v\n", err)
			os.Exit(2)
		}
		// watchdog on journal growth (a harness courtesy, not an oracle)
		doneCh := make(chan error, 1)
		go func() { doneCh <- cmd.Wait() }()
		var werr error
		killed := false
		lastSize, lastChange := int64(-1), time.Now()
	wait:
		for {
			select {
			case werr = <-doneCh:
				break wait
			case <-time.After(2 * time.Second):
				if st, e := os.Stat(journal); e == nil && st.Size() != lastSize {
					lastSize, lastChange = st.Size(), time.Now()
				} else if time.Since(lastChange) > 180*time.Second {
					_ = cmd.Process.Kill()
					killed = true
					werr = <-doneCh
					break wait
				}
			}
		}
		out.Close()
		ready, done, open := false, false, -1
		if f, e := os.Open(journal); e == nil {
			sc := bufio.NewScanner(f)
			sc.Buffer(make([]byte, 1<<20), 1<<24)
			for sc.Scan() {
				l := sc.Text()
				switch {
				case l == "READY":
					ready = true
				case l == "DONE":
					done = true
				case strings.HasPrefix(l, "SLOW "):
					n, _ := strconv.Atoi(l[5:])
					p.slow.Add(int64(n))
				case strings.HasPrefix(l, "S "):
					open, _ = strconv.Atoi(l[2:])
				case strings.HasPrefix(l, "R "):
					rest := l[2:]
					sp := strings.IndexByte(rest, ' ')
					if sp < 0 {
						continue
					}
					i, _ := strconv.Atoi(rest[:sp])
					var res c13Res
					if json.Unmarshal([]byte(rest[sp+1:]), &res) == nil && i >= 0 && i < len(p.results) {
						p.mu.Lock()
						p.results[i], p.have[i] = res, true
						p.mu.Unlock()
						if i == open {
							open = -1
						}
					}
				}
			}
			f.Close()
		}
		tail := c13Tail(logf)
		_ = os.Remove(journal)
		_ = os.Remove(logf)
		if done && werr == nil {
			return
		}
		if open >= 0 {
			// the worker died (or hung) while request `open` was in flight
			kind := "process-death"
			if killed {
				kind = "unresponsive"
			}
			p.mu.Lock()
			p.results[open], p.have[open] = c13Res{Idx: open, Kind: kind, Detail: tail}, true
			p.mu.Unlock()
			p.deaths.Add(1)
			lo = open + 1
			setupFailures = 0
			continue
		}
		// died outside a request: infrastructure
		setupFailures++
		p.infra.Add(1)
		p.mu.Lock()
		p.lastInfo = fmt.Sprintf("worker for [%d,%d) ready=%v err=%v: %s", lo, hi, ready, werr, tail)
		p.mu.Unlock()
		if setupFailures >= 3 {
			fmt.Printf("INFRA-ERROR c13: a worker keeps dying outside any request: %s\n", p.lastInfo)
			os.Exit(2)
		}
		// resume behind the last recorded result
		for lo < hi && p.have[lo] {
			lo++
		}
	}
}

// c13Tail extracts the cause of death from a worker log: the first "panic:" / "fatal error:" line.
func c13Tail(path string) string {
	b, err := os.ReadFile(path)
	if err != nil {
		return ""
	}
	lines := strings.Split(string(b), "\n")
	for i, l := range lines {
		if strings.HasPrefix(l, "panic: ") || strings.HasPrefix(l, "fatal error: ") || strings.HasPrefix(l, "runtime: out of memory") {
			// add the first frame inside keto for orientation
			frame := ""
			for _, m := range lines[i:] {
				if strings.Contains(m, "github.com/ory/keto/") && !strings.Contains(m, "/verif/") && strings.HasPrefix(m, "github.com") {
					frame = strings.TrimSpace(m)
					if k := strings.LastIndex(frame, "("); k > 0 {
						frame = frame[:k] // drop the argument words (addresses differ per run)
					}
					frame = " at " + frame
					break
				}
			}
			return c13Clip(l, 200) + c13Clip(frame, 200)
		}
	}
	if len(lines) > 6 {
		lines = lines[len(lines)-6:]
	}
	return c13Clip(strings.Join(lines, " | "), 300)
}

// ---- minimisation by lookup -----------------------------------------------------------------------------

// c13Minimal finds, for a failing case, a failing case of the same family and
// failure kind whose non-default choices are a minimal subset of this one's.
func c13Minimal(c *c13Case, kind string, byKey map[string]int, cases []*c13Case, results []c13Res) *c13Case {
	cur := c
	for changed := true; changed; {
		changed = false
		for i, f := range cur.Fam.Fields {
			if cur.Vec[i] == f.Default {
				continue
			}
			vec := append([]string{}, cur.Vec...)
			vec[i] = f.Default
			k := cur.Fam.Route + "|" + strings.Join(vec, ",")
			if j, ok := byKey[k]; ok && results[j].failed() && results[j].failKind() == kind {
				cur = cases[j]
				changed = true
				break
			}
		}
	}
	return cur
}

// c13Class maps a choice to the structural class used in signatures (several
// concrete shapes of one field that fail for the same structural reason).
func c13Class(route, field, choice string) string {
	switch {
	case route == "rest-batch-check" && field == "tuples":
		switch choice {
		case "null-element", "valid-then-null", "null-then-valid", "two-nulls", "dup-key-null-last":
			return "contains-null-element"
		}
	case route == "grpc-batchcheck" && field == "tuples":
		switch choice {
		case "absent-subject", "valid-then-absent-subject", "absent-subject-then-valid", "empty-tuple", "nil-element":
			return "contains-tuple-without-subject-message"
		}
	case route == "rest-patch" && field == "shape":
		switch choice {
		case "array-null", "valid-then-null", "null-then-valid":
			return "contains-null-delta"
		}
	case field == "page_size" || field == "max-depth" || field == "max_depth":
		switch choice {
		case "negative", "min-int32", "min-int":
			return "negative"
		case "abc", "empty", "exp", "float", "overflow", "oversized", "space", "dup-bad-first":
			return "not-an-integer"
		}
	}
	return choice
}

func c13SigParts(c *c13Case) []string {
	var out []string
	for i, f := range c.Fam.Fields {
		if c.Vec[i] != f.Default {
			out = append(out, f.Name+":"+c13Class(c.Fam.Route, f.Name, c.Vec[i]))
		}
	}
	return out
}

func c13Signature(kind string, c *c13Case) string {
	nd := c13SigParts(c)
	if len(nd) == 0 {
		nd = []string{"all-default"}
	}
	return kind + ":" + c.Fam.Route + ":" + strings.Join(nd, "+")
}

func c13Subset(a, b []string) bool {
	for _, x := range a {
		if !c13Has(b, x) {
			return false
		}
	}
	return true
}

func TestC13(t *testing.T) {
	run := ev.New("C13", "exploration")
	thorough := ev.Thorough()
	cases := c13Enumerate(c13Families(thorough), thorough)
	byKey := map[string]int{}
	for i, c := range cases {
		byKey[c.Key()] = i
	}
	dir := os.Getenv("VERIF_SCRATCH")
	if dir == "" {
		dir = t.TempDir()
	}
	p := &c13Parent{dir: dir, cases: cases, results: make([]c13Res, len(cases)), have: make([]bool, len(cases))}

	if rp, ok := axReplay("C13"); ok {
		key, _ := rp["key"].(string)
		all := c13Enumerate(c13Families(true), true)
		idx := -1
		for i, c := range all {
			if c.Key() == key {
				idx = i
			}
		}
		if idx < 0 {
			fmt.Printf("INFRA-ERROR replay: no case with key %q\n", key)
			t.FailNow()
		}
		os.Setenv("VERIF_TIER", "thorough") // the worker indexes the thorough list
		p.cases, p.results, p.have = all, make([]c13Res, len(all)), make([]bool, len(all))
		p.runRange(idx, idx+1)
		if res := p.results[idx]; res.failed() {
			run.Violation(c13Signature(res.failKind(), all[idx]), fmt.Sprintf("%s %s", res.Kind, res.Detail), rp)
		} else {
			fmt.Printf("  [replay] the recorded request is answered %s (status %d %s) now\n", res.Kind, res.Status, res.Code)
		}
		return
	}

	workers := axWorkers()
	chunk := len(cases)/(workers*6) + 1
	if chunk > 1500 {
		chunk = 1500
	}
	var next atomic.Int64
	deadline := ev.Deadline(300, 1700)
	var timedOut atomic.Bool
	var wg sync.WaitGroup
	for w := 0; w < workers; w++ {
		wg.Add(1)
		go func() {
			defer wg.Done()
			for {
				lo := int(next.Add(int64(chunk))) - chunk
				if lo >= len(cases) {
					return
				}
				if time.Now().After(deadline) {
					timedOut.Store(true)
					return
				}
				p.runRange(lo, min(lo+chunk, len(cases)))
			}
		}()
	}
	wg.Wait()

	// ---- judge
	kinds := map[string]int{}
	byRoute := map[string]int{}
	nontrivial, missing, unresponsive := 0, 0, 0
	classes := map[string]bool{}
	type group struct {
		min   *c13Case
		kind  string
		count int
		first int
	}
	groups := map[string]*group{}
	var sigOrder []string
	for i, c := range cases {
		if !p.have[i] {
			missing++
			continue
		}
		res := p.results[i]
		kinds[res.Kind]++
		if res.Kind == "skipped" {
			continue
		}
		byRoute[c.Fam.Route]++
		if len(c.nonDefault()) > 0 {
			nontrivial++
		}
		classes[fmt.Sprintf("%s|%s|%d|%s", c.Fam.Route, res.Kind, res.Status, res.Code)] = true
		if res.Kind == "unresponsive" {
			unresponsive++
		}
		if !res.failed() {
			continue
		}
		m := c13Minimal(c, res.failKind(), byKey, cases, p.results)
		sig := c13Signature(res.failKind(), m)
		g := groups[sig]
		if g == nil {
			g = &group{min: m, kind: res.failKind(), first: byKey[m.Key()]}
			groups[sig] = g
			sigOrder = append(sigOrder, sig)
		}
		g.count++
	}
	sort.Strings(sigOrder)
	// subsumption: a class whose non-default choices strictly contain those of another failing
	// class of the same route and kind is attributed to that smaller class
	for _, sig := range append([]string{}, sigOrder...) {
		g := groups[sig]
		best := ""
		for _, other := range sigOrder {
			o := groups[other]
			if other == sig || o == nil || g == nil || o.kind != g.kind || o.min.Fam != g.min.Fam {
				continue
			}
			a, b := c13SigParts(o.min), c13SigParts(g.min)
			if len(a) < len(b) && c13Subset(a, b) && (best == "" || len(a) < len(c13SigParts(groups[best].min))) {
				best = other
			}
		}
		if best != "" {
			groups[best].count += g.count
			delete(groups, sig)
		}
	}
	{
		var keep []string
		for _, sig := range sigOrder {
			if groups[sig] != nil {
				keep = append(keep, sig)
			}
		}
		sigOrder = keep
	}
	sigCount := map[string]int{}
	unstable := 0
	for _, sig := range sigOrder {
		g := groups[sig]
		sigCount[sig] = g.count
		idx := g.first
		want := p.results[idx]
		// confirm twice, each time in a fresh worker
		ok := true
		for rep := 0; rep < 2 && ok; rep++ {
			p.have[idx] = false
			p.runRange(idx, idx+1)
			ok = p.have[idx] && p.results[idx].failed() && p.results[idx].failKind() == want.failKind()
		}
		if !ok {
			unstable++
			continue
		}
		req := g.min.Fam.Build(g.min.choices())
		what := fmt.Sprintf("%s (status %d %s) %s; minimal request: %v; %d request(s) of this run fall into the class", want.Kind, want.Status, want.Code, want.Detail, req.Render(), g.count)
		run.Violation(sig, what, map[string]any{"key": g.min.Key(), "route": g.min.Fam.Route, "non_default": g.min.nonDefault(), "request": req.Render(), "tier": ev.Tier()})
	}
	if n := p.infra.Load(); n > 0 {
		fmt.Printf("[c13] %d worker(s) died outside any request and were restarted: %s\n", n, p.lastInfo)
	}

	run.Assume(
		"REST input domain = request lines net/http can parse (httptest.NewRequest accepts them); gRPC input domain = well-formed protobuf messages as produced by the Go client (a nil element of a repeated field is encoded as an empty message)",
		"no storage fault is injected, so every 5xx / Internal / Unknown answer counts; 501/505 style answers do not occur on these routers",
		"'malformed or unknown-namespace requests get a 4xx-style answer' is judged only as 'not 5xx / not Internal'; which 4xx is not demanded",
		"state is compared by a byte-level dump of all tables before/after; the dump is skipped when the SQL tap saw no write statement during the request (every statement passes the tap)",
		"each request starts from the same seeded store: after a request that changed the store the worker truncates and re-seeds",
		"a worker that makes no journal progress for 180 s is killed and the request in flight recorded as 'unresponsive' (not a violation: wall-clock time is not an oracle; the run is then not exhaustive)",
		"attribution of a failure to fields is by lookup: the minimal failing sub-vector of non-default choices within the same family, which the product and star enumeration contain",
	)
	for _, i := range []int{0, len(cases) / 7, 2 * len(cases) / 7, 3 * len(cases) / 7, 4 * len(cases) / 7, 5 * len(cases) / 7, 6 * len(cases) / 7, len(cases) - 1} {
		if req := cases[i].Fam.Build(cases[i].choices()); req != nil {
			run.Sample(map[string]any{"index": i, "route": cases[i].Fam.Route, "non_default": cases[i].nonDefault(), "request": req.Render(), "outcome": p.results[i].Kind})
		}
	}
	run.Finish(map[string]any{
		"evaluations":              len(cases) - missing - kinds["skipped"],
		"distinct_nontrivial":      nontrivial,
		"rule":                     "evaluation = one request executed in a worker and judged; non-trivial = distinct request with at least one field away from its family's default (valid) choice; distinct_outcome_classes = distinct (route, outcome kind, HTTP status, gRPC code)",
		"distinct_outcome_classes": len(classes),
		"cases":                    len(cases),
		"families":                 len(c13Families(thorough)),
		"requests_by_route":        byRoute,
		"outcome_kinds":            kinds,
		"worker_processes":         int(p.spawned.Load()),
		"process_deaths":           int(p.deaths.Load()),
		"workers_restarted_infra":  int(p.infra.Load()),
		"quiesce_cap_reached":      int(p.slow.Load()),
		"unresponsive":             unresponsive,
		"not_run":                  missing,
		"candidate_signatures":     sigCount,
		"unstable_candidates":      unstable,
		"exhaustive":               !timedOut.Load() && missing == 0 && unstable == 0 && unresponsive == 0,
		"workers":                  workers,
		"chunk":                    chunk,
	})
	_ = http.StatusOK
}

//go:build sqlite

// C04 — the relationship store behaves as a per-network multiset under any
// API history. Breadth-first search over histories of write-API operations
// (REST PUT / DELETE / PATCH, gRPC Transact / DeleteRelationTuples; valid and
// invalid arguments) executed on keto's real handlers, from the empty store
// and two seeded stores; canonical state = multiset of API tuples with
// multiplicities capped at 2. Reference model: refsem.RefStore.
package api

import (
	"encoding/json"
	"fmt"
	"github.com/gofrs/uuid"
	"net/url"
	"sort"
	"strings"
	"sync"
	"sync/atomic"
	"testing"
	"time"

	"github.com/ory/keto/ketoapi"
	rts "github.com/ory/keto/proto/ory/keto/relation_tuples/v1alpha2"
	"github.com/ory/keto/verif/apih"
	"github.com/ory/keto/verif/ev"
	"github.com/ory/keto/verif/refsem"
)

const c04Net = "default"

type c04Expect int

const (
	c04MustAccept c04Expect = iota // well-formed request over known namespaces
	c04MustReject                  // unknown namespace / no subject
	c04Either                      // the statement makes no demand on acceptance
)

// c04Effect is one acceptable effect of an accepted operation.
type c04Effect struct {
	Seq  []c04Delta             // applied in order …
	DelQ *ketoapi.RelationQuery // … then delete-by-query
	Desc string
}

type c04Delta struct {
	Del bool
	T   *ketoapi.RelationTuple
}

type c04Op struct {
	Name   string
	Kind   string // rest-put | rest-delete | rest-patch | grpc-transact | grpc-delete
	Form   string // valid | unknown-ns | unknown-subject-ns | no-subject | both-subjects | null-delta | …
	Expect c04Expect

	Body   string     // REST PUT / PATCH body
	Vals   url.Values // REST DELETE query
	Deltas []*rts.RelationTupleDelta
	GQ     *rts.RelationQuery // gRPC delete query (nil = absent)

	Effects []c04Effect // acceptable effects when accepted (nil: must have no effect)
}

type c04Outcome struct {
	Accepted bool
	Panic    string
	Desc     string
}

func (o *c04Op) exec(c *apih.Client) c04Outcome {
	switch o.Kind {
	case "rest-put":
		r := c.CreateRaw([]byte(o.Body))
		return c04Outcome{Accepted: r.OK(), Panic: r.Panic, Desc: r.String()}
	case "rest-patch":
		r := c.PatchRaw([]byte(o.Body))
		return c04Outcome{Accepted: r.OK(), Panic: r.Panic, Desc: r.String()}
	case "rest-delete":
		r := c.DeleteValues(o.Vals)
		return c04Outcome{Accepted: r.OK(), Panic: r.Panic, Desc: r.String()}
	case "grpc-transact":
		_, err := c.GTransact(o.Deltas)
		return c04Outcome{Accepted: err == nil, Desc: fmt.Sprint(err)}
	case "grpc-delete":
		err := c.GDelete(o.GQ)
		return c04Outcome{Accepted: err == nil, Desc: fmt.Sprint(err)}
	}
	panic("unknown op kind " + o.Kind)
}

func (o *c04Op) describe() map[string]any {
	m := map[string]any{"name": o.Name, "kind": o.Kind, "form": o.Form}
	switch o.Kind {
	case "rest-put", "rest-patch":
		m["body"] = o.Body
	case "rest-delete":
		m["query"] = o.Vals.Encode()
	case "grpc-transact":
		var ds []string
		for _, d := range o.Deltas {
			ds = append(ds, strings.TrimSpace(d.String()))
		}
		m["deltas"] = ds
	case "grpc-delete":
		if o.GQ == nil {
			m["relation_query"] = nil
		} else {
			m["relation_query"] = strings.TrimSpace(o.GQ.String())
		}
	}
	return m
}

func c04Apply(m *refsem.RefStore, e c04Effect) *refsem.RefStore {
	n := m.Clone()
	for _, d := range e.Seq {
		if d.Del {
			n.Delete(c04Net, d.T)
		} else {
			n.Insert(c04Net, d.T)
		}
	}
	if e.DelQ != nil {
		n.DeleteByQuery(c04Net, e.DelQ)
	}
	return n
}

// c04Universe: tuples that differ pairwise in exactly the ways the query
// fields can tell apart (subject id vs set, empty set relation, each field).
func c04Universe() []*ketoapi.RelationTuple {
	return []*ketoapi.RelationTuple{
		axID("n1", "a", "r", "x"),             // t0
		axID("n1", "a", "r", "y"),             // t1: other subject id
		axID("n1", "b", "s", "x"),             // t2: other object and relation
		axID("n2", "a", "r", "x"),             // t3: other namespace
		axSet("n1", "a", "r", "n1", "a", "r"), // t4: subject set (self-referential)
		axSet("n2", "b", "s", "n1", "a", ""),  // t5: subject set with empty relation
		axSet("n1", "a", "s", "n1", "a", "r"), // t6: same subject set under another relation
	}
}

func c04JSON(v any) string { b, _ := json.Marshal(v); return string(b) }

type c04PD struct {
	Action string `json:"action"`
	T      any    `json:"relation_tuple"`
}

// c04PatchEffects: keto applies all inserts, then all deletes; a client may
// equally expect the deltas in the order given. Both are acceptable.
func c04PatchEffects(ds []c04Delta) []c04Effect {
	var ins, del []c04Delta
	for _, d := range ds {
		if d.Del {
			del = append(del, d)
		} else {
			ins = append(ins, d)
		}
	}
	return []c04Effect{
		{Seq: append(append([]c04Delta{}, ins...), del...), Desc: "inserts then deletes"},
		{Seq: ds, Desc: "in the order given"},
	}
}

func c04Alphabet() []*c04Op {
	T := c04Universe()
	var ops []*c04Op
	add := func(o *c04Op) { ops = append(ops, o) }

	// REST PUT create(t)
	for i, t := range T {
		add(&c04Op{Name: fmt.Sprintf("PUT t%d", i), Kind: "rest-put", Form: "valid", Expect: c04MustAccept, Body: c04JSON(t),
			Effects: []c04Effect{{Seq: []c04Delta{{T: t}}}}})
	}
	add(&c04Op{Name: "PUT unknown-ns", Kind: "rest-put", Form: "unknown-ns", Expect: c04MustReject, Body: c04JSON(axID("zz", "a", "r", "x"))})
	add(&c04Op{Name: "PUT unknown-subject-ns", Kind: "rest-put", Form: "unknown-subject-ns", Expect: c04MustReject, Body: c04JSON(axSet("n1", "a", "r", "zz", "a", "r"))})
	add(&c04Op{Name: "PUT no-subject", Kind: "rest-put", Form: "no-subject", Expect: c04MustReject, Body: `{"namespace":"n1","object":"a","relation":"r"}`})
	add(&c04Op{Name: "PUT both-subjects", Kind: "rest-put", Form: "both-subjects", Expect: c04Either,
		Body:    `{"namespace":"n1","object":"b","relation":"s","subject_id":"x","subject_set":{"namespace":"n1","object":"a","relation":"r"}}`,
		Effects: []c04Effect{{Seq: []c04Delta{{T: axID("n1", "b", "s", "x")}}, Desc: "stored as subject id"}, {Seq: []c04Delta{{T: axSet("n1", "b", "s", "n1", "a", "r")}}, Desc: "stored as subject set"}}})

	// REST DELETE by query
	del := func(name, form string, exp c04Expect, v url.Values, q *ketoapi.RelationQuery) {
		o := &c04Op{Name: "DELETE " + name, Kind: "rest-delete", Form: form, Expect: exp, Vals: v}
		if q != nil {
			o.Effects = []c04Effect{{DelQ: q}}
		}
		add(o)
	}
	dq := func(name string, q *ketoapi.RelationQuery) { del(name, "valid", c04MustAccept, apih.QueryValues(q), q) }
	dq("ns=n1", &ketoapi.RelationQuery{Namespace: axS("n1")})
	dq("ns=n2", &ketoapi.RelationQuery{Namespace: axS("n2")})
	dq("ns=n1,obj=a", &ketoapi.RelationQuery{Namespace: axS("n1"), Object: axS("a")})
	dq("ns=n1,rel=r", &ketoapi.RelationQuery{Namespace: axS("n1"), Relation: axS("r")})
	dq("ns=n1,sid=x", &ketoapi.RelationQuery{Namespace: axS("n1"), SubjectID: axS("x")})
	dq("ns=n1,sset=n1:a#r", &ketoapi.RelationQuery{Namespace: axS("n1"), SubjectSet: &ketoapi.SubjectSet{Namespace: "n1", Object: "a", Relation: "r"}})
	dq("ns=n2,sset=n1:a#", &ketoapi.RelationQuery{Namespace: axS("n2"), SubjectSet: &ketoapi.SubjectSet{Namespace: "n1", Object: "a", Relation: ""}})
	dq("exact t0", &ketoapi.RelationQuery{Namespace: axS("n1"), Object: axS("a"), Relation: axS("r"), SubjectID: axS("x")})
	del("ns=zz", "unknown-ns", c04MustReject, url.Values{"namespace": {"zz"}}, nil)
	// REST requires a namespace parameter: acceptance is not demanded, effect (if accepted) is.
	del("obj=a (no namespace)", "no-namespace", c04Either, url.Values{"object": {"a"}}, &ketoapi.RelationQuery{Object: axS("a")})
	del("two subjects", "dup-subject", c04Either, url.Values{"namespace": {"n1"}, "subject_id": {"x"}, "subject_set.namespace": {"n1"}, "subject_set.object": {"a"}, "subject_set.relation": {"r"}}, nil)

	// REST PATCH
	patch := func(name, form string, exp c04Expect, body string, ds []c04Delta) {
		o := &c04Op{Name: "PATCH " + name, Kind: "rest-patch", Form: form, Expect: exp, Body: body}
		if ds != nil {
			o.Effects = c04PatchEffects(ds)
		}
		add(o)
	}
	pv := func(name string, ds ...c04Delta) {
		var body []c04PD
		for _, d := range ds {
			a := "insert"
			if d.Del {
				a = "delete"
			}
			body = append(body, c04PD{a, d.T})
		}
		patch(name, "valid", c04MustAccept, c04JSON(body), ds)
	}
	I := func(i int) c04Delta { return c04Delta{T: T[i]} }
	D := func(i int) c04Delta { return c04Delta{Del: true, T: T[i]} }
	pv("[+t0]", I(0))
	pv("[-t0]", D(0))
	pv("[+t1,+t1]", I(1), I(1))
	pv("[+t1,-t0]", I(1), D(0))
	pv("[-t4,+t4]", D(4), I(4))
	pv("[+t5,+t6,-t2]", I(5), I(6), D(2))
	pv("[-t0,-t4,-t5]", D(0), D(4), D(5))
	patch("[]", "empty", c04MustAccept, `[]`, []c04Delta{})
	patch("[+t2,+unknown-ns]", "unknown-ns", c04MustReject, c04JSON([]c04PD{{"insert", T[2]}, {"insert", axID("zz", "a", "r", "x")}}), nil)
	patch("[+t2,-unknown-ns]", "unknown-ns", c04MustReject, c04JSON([]c04PD{{"insert", T[2]}, {"delete", axID("zz", "a", "r", "x")}}), nil)
	patch("[+t2,+no-subject]", "no-subject", c04MustReject, `[{"action":"insert","relation_tuple":`+c04JSON(T[2])+`},{"action":"insert","relation_tuple":{"namespace":"n1","object":"a","relation":"r"}}]`, nil)
	patch("[+t2,null]", "null-delta", c04MustReject, `[{"action":"insert","relation_tuple":`+c04JSON(T[2])+`},null]`, nil)
	patch("[+t2,{no tuple}]", "missing-tuple", c04MustReject, `[{"action":"insert","relation_tuple":`+c04JSON(T[2])+`},{"action":"insert"}]`, nil)
	patch("[+t2,bad-action]", "bad-action", c04Either, `[{"action":"insert","relation_tuple":`+c04JSON(T[2])+`},{"action":"upsert","relation_tuple":`+c04JSON(T[3])+`}]`, []c04Delta{I(2)})

	// gRPC Transact
	tx := func(name, form string, exp c04Expect, deltas []*rts.RelationTupleDelta, ds []c04Delta) {
		o := &c04Op{Name: "Transact " + name, Kind: "grpc-transact", Form: form, Expect: exp, Deltas: deltas}
		if ds != nil {
			o.Effects = c04PatchEffects(ds)
		}
		add(o)
	}
	tv := func(name string, ds ...c04Delta) {
		var deltas []*rts.RelationTupleDelta
		for _, d := range ds {
			a := rts.RelationTupleDelta_ACTION_INSERT
			if d.Del {
				a = rts.RelationTupleDelta_ACTION_DELETE
			}
			deltas = append(deltas, axDelta(a, d.T))
		}
		tx(name, "valid", c04MustAccept, deltas, ds)
	}
	tv("[+t2]", I(2))
	tv("[-t2]", D(2))
	tv("[+t3,+t3,-t1]", I(3), I(3), D(1))
	tv("[+t6,-t4]", I(6), D(4))
	tv("[+t0,-t0]", I(0), D(0))
	tx("[]", "empty", c04MustAccept, nil, []c04Delta{})
	tx("[+t5,+unknown-ns]", "unknown-ns", c04MustReject, []*rts.RelationTupleDelta{axDelta(rts.RelationTupleDelta_ACTION_INSERT, T[5]), axDelta(rts.RelationTupleDelta_ACTION_INSERT, axID("zz", "a", "r", "x"))}, nil)
	tx("[+t5,+no-subject]", "no-subject", c04MustReject, []*rts.RelationTupleDelta{axDelta(rts.RelationTupleDelta_ACTION_INSERT, T[5]), {Action: rts.RelationTupleDelta_ACTION_INSERT, RelationTuple: &rts.RelationTuple{Namespace: "n1", Object: "a", Relation: "r"}}}, nil)
	tx("[+t5,+nil-tuple]", "no-subject", c04MustReject, []*rts.RelationTupleDelta{axDelta(rts.RelationTupleDelta_ACTION_INSERT, T[5]), {Action: rts.RelationTupleDelta_ACTION_INSERT}}, nil)
	tx("[unspecified-action t5]", "unspecified-action", c04Either, []*rts.RelationTupleDelta{axDelta(rts.RelationTupleDelta_ACTION_UNSPECIFIED, T[5])}, []c04Delta{})

	// gRPC DeleteRelationTuples
	gd := func(name, form string, exp c04Expect, q *ketoapi.RelationQuery, absent bool) {
		o := &c04Op{Name: "Delete " + name, Kind: "grpc-delete", Form: form, Expect: exp}
		if !absent {
			o.GQ = apih.ProtoQuery(q)
			if exp != c04MustReject {
				o.Effects = []c04Effect{{DelQ: q}}
			}
		}
		add(o)
	}
	gd("{}", "valid", c04MustAccept, &ketoapi.RelationQuery{}, false)
	gd("ns=n2", "valid", c04MustAccept, &ketoapi.RelationQuery{Namespace: axS("n2")}, false)
	gd("obj=a", "valid", c04MustAccept, &ketoapi.RelationQuery{Object: axS("a")}, false)
	gd("rel=s", "valid", c04MustAccept, &ketoapi.RelationQuery{Relation: axS("s")}, false)
	gd("sid=y", "valid", c04MustAccept, &ketoapi.RelationQuery{SubjectID: axS("y")}, false)
	gd("sset=n1:a#r", "valid", c04MustAccept, &ketoapi.RelationQuery{SubjectSet: &ketoapi.SubjectSet{Namespace: "n1", Object: "a", Relation: "r"}}, false)
	gd("obj=b,rel=s,sset=n1:a#", "valid", c04MustAccept, &ketoapi.RelationQuery{Object: axS("b"), Relation: axS("s"), SubjectSet: &ketoapi.SubjectSet{Namespace: "n1", Object: "a", Relation: ""}}, false)
	gd("ns=zz", "unknown-ns", c04MustReject, &ketoapi.RelationQuery{Namespace: axS("zz")}, false)
	gd("sset.ns=zz", "unknown-subject-ns", c04MustReject, &ketoapi.RelationQuery{SubjectSet: &ketoapi.SubjectSet{Namespace: "zz", Object: "a", Relation: "r"}}, false)
	gd("<absent query>", "nil-query", c04Either, nil, true)
	return ops
}

// c04Queries: 2^4 shapes x values incl. an unknown namespace and never-stored values.
func c04Queries() []*ketoapi.RelationQuery {
	return axQueryProduct(
		// (the empty string is a VALUE of a query field, present-and-empty, not "field absent")
		[]string{"n1", "n2", "zz"}, []string{"a", "b", ""}, []string{"r", "s", ""},
		[]*ketoapi.RelationTuple{axID("", "", "", "x"), axID("", "", "", "y"), axSet("", "", "", "n1", "a", "r"), axSet("", "", "", "n1", "a", "")})
}

type c04Step struct {
	Op     *c04Op
	Effect int // index into Op.Effects, -1 = rejected / no effect
}

type c04State struct {
	Canon string
	Path  []c04Step
	Depth int
	Root  int
	Model *refsem.RefStore
}

func c04PathNames(p []c04Step) []string {
	out := make([]string, len(p))
	for i, s := range p {
		out[i] = s.Op.Name
	}
	return out
}

func c04PathDescribe(p []c04Step) []map[string]any {
	out := make([]map[string]any, len(p))
	for i, s := range p {
		out[i] = s.Op.describe()
		if s.Effect >= 0 && len(s.Op.Effects) > 0 {
			out[i]["accepted"] = true
		} else if s.Effect < 0 {
			out[i]["accepted"] = false
		}
	}
	return out
}

type c04Cand struct {
	Sig, What string
	Path      []c04Step // full history incl. the offending op
	Extra     map[string]any
}

type c04Run struct {
	run     *ev.Run
	ops     []*c04Op
	qs      []*ketoapi.RelationQuery
	byShape [16][]*ketoapi.RelationQuery

	// hooks (C06 reuses this search with another client / reset / oracles)
	cli       func(*apih.Server) *apih.Client
	reset     func(*apih.Server)
	onState   func(*c04Run, *apih.Server, *c04State)                                          // on every state, once (default: sweep + panel)
	afterStep func(r *c04Run, s *apih.Server, next *refsem.RefStore, path []c04Step, rot int) // after every judged transition
	preOp     func(*apih.Server)                                                              // right before the operation is sent
	postOp    func(r *c04Run, s *apih.Server, path []c04Step)                                 // after the operation and the A-side listings

	ignore func(sig string) bool // candidate signatures that are another property's subject

	mu       sync.Mutex
	cands    []c04Cand
	perSig   map[string]int
	dropped  map[string]int
	reported map[string]bool
	sigCount map[string]int

	transitions, replays, listCalls, sweepQueries, checkCalls, expandCalls atomic.Int64
	accepted, rejected, divergences, unstable, noDemandDenied              atomic.Int64
	multiEffect                                                            atomic.Int64
}

func (r *c04Run) cand(c c04Cand) {
	if r.ignore != nil && r.ignore(c.Sig) {
		return
	}
	r.mu.Lock()
	if r.perSig == nil {
		r.perSig = map[string]int{}
	}
	r.perSig[c.Sig]++
	if r.perSig[c.Sig] <= 200 { // keep the memory bounded on a badly broken tree; counts stay exact
		r.cands = append(r.cands, c)
	} else {
		r.dropped[c.Sig]++
	}
	r.mu.Unlock()
}

// recreate rebuilds the state on the real handlers from its shortest path.
// It returns false if the implementation did not land in the recorded state.
func (r *c04Run) recreate(s *apih.Server, st *c04State) bool {
	r.reset(s)
	c := r.cli(s)
	for _, step := range st.Path {
		step.Op.exec(c)
	}
	r.replays.Add(1)
	l := axListREST(c, &ketoapi.RelationQuery{}, 0)
	r.listCalls.Add(int64(l.Pages))
	if d := refsem.DiffMultiset(l.Multiset, st.Model.Match(c04Net, nil), false); l.Err != "" || d != "" {
		// the history was validated step by step when it was first explored, so this is
		// either a store that is not empty after the reset / not a function of the history,
		// or nondeterminism; confirmed by re-execution before it is reported
		r.divergences.Add(1)
		r.cand(c04Cand{Sig: "list-mismatch:after-replay", What: fmt.Sprintf("after resetting the store and replaying the history the full listing differs from the model: %s %s", d, l.Err), Path: st.Path, Extra: map[string]any{"model": st.Model.Canon(c04Net, 0)}})
		return false
	}
	return true
}

// observe lists one query through both transports and compares to the model.
func (r *c04Run) observe(c *apih.Client, model *refsem.RefStore, q *ketoapi.RelationQuery, restSize, grpcSize int, transports ...string) (sig, what string) {
	want := model.Match(c04Net, q)
	unknownNS := (q.Namespace != nil && *q.Namespace == "zz") || (q.SubjectSet != nil && q.SubjectSet.Namespace == "zz")
	if len(transports) == 0 {
		transports = []string{"rest", "grpc"}
	}
	for _, tr := range transports {
		var l axListing
		size := restSize
		if tr == "rest" {
			l = axListREST(c, q, restSize)
		} else {
			size = grpcSize
			l = axListGRPC(c, q, grpcSize)
		}
		r.listCalls.Add(int64(l.Pages) + 1)
		if l.Err != "" {
			if unknownNS {
				continue // an unknown namespace may be an error or an empty list: no demand
			}
			return "list-error:" + tr + ":" + axShapeName(q), fmt.Sprintf("%s list %s page_size=%d failed: %s", tr, axQueryString(q), size, l.Err)
		}
		if d := refsem.DiffMultiset(l.Multiset, want, false); d != "" {
			return "list-mismatch:" + tr + ":" + axShapeName(q), fmt.Sprintf("%s list %s page_size=%d differs from the multiset model: %s", tr, axQueryString(q), size, d)
		}
	}
	return "", ""
}

// sweep: the complete shapes x values product on one state.
func (r *c04Run) sweep(s *apih.Server, st *c04State) {
	c := r.cli(s)
	for qi, q := range r.qs {
		r.sweepQueries.Add(1)
		// page sizes alternate over the product (default REST + small gRPC, small REST + default gRPC);
		// the unrestricted query gets both
		variants := [][2]int{{0, 3}}
		if qi%2 == 1 {
			variants = [][2]int{{2, 0}}
		}
		if axShapeBits(q) == 0 {
			variants = [][2]int{{0, 3}, {2, 0}, {1, 1}}
		}
		for _, sizes := range variants {
			if sig, what := r.observe(c, st.Model, q, sizes[0], sizes[1]); sig != "" {
				r.cand(c04Cand{Sig: sig, What: what, Path: st.Path, Extra: map[string]any{"query": q, "model": st.Model.Canon(c04Net, 0)}})
				break
			}
		}
	}
}

// reach: is (ns,obj,rel)@subject derivable from direct tuples and subject-set
// indirection in a rewrite-free configuration?
func c04Reach(model *refsem.RefStore, q *ketoapi.RelationTuple) bool {
	all := model.Distinct(c04Net)
	type node struct{ ns, obj, rel string }
	seen := map[node]bool{}
	todo := []node{{q.Namespace, q.Object, q.Relation}}
	for len(todo) > 0 {
		n := todo[0]
		todo = todo[1:]
		if seen[n] {
			continue
		}
		seen[n] = true
		for _, t := range all {
			if t.Namespace != n.ns || t.Object != n.obj || t.Relation != n.rel {
				continue
			}
			if q.SubjectID != nil && t.SubjectID != nil && *t.SubjectID == *q.SubjectID {
				return true
			}
			if q.SubjectSet != nil && t.SubjectSet != nil && *t.SubjectSet == *q.SubjectSet {
				return true
			}
			if t.SubjectSet != nil {
				todo = append(todo, node{t.SubjectSet.Namespace, t.SubjectSet.Object, t.SubjectSet.Relation})
			}
		}
	}
	return false
}

func c04TreeSubjects(v any, out map[string]bool) {
	m, ok := v.(map[string]any)
	if !ok {
		return
	}
	if t, ok := m["tuple"].(map[string]any); ok {
		if id, ok := t["subject_id"].(string); ok {
			out["id:"+id] = true
		}
		if ss, ok := t["subject_set"].(map[string]any); ok {
			out[fmt.Sprintf("set:%v:%v#%v", ss["namespace"], ss["object"], ss["relation"])] = true
		}
	}
	if ch, ok := m["children"].([]any); ok {
		for _, c := range ch {
			c04TreeSubjects(c, out)
		}
	}
}

// panel: write visibility through check and expand on a newly found state.
func (r *c04Run) panel(s *apih.Server, st *c04State) {
	c := r.cli(s)
	probe := append(c04Universe(), axID("n1", "b", "s", "y"), axID("n2", "b", "s", "x"), axSet("n2", "a", "r", "n1", "a", ""))
	for _, t := range probe {
		stored := st.Model.Count(c04Net, t) > 0
		reach := c04Reach(st.Model, t)
		rr := c.CheckGET(t, true, "")
		gr, gerr := c.GCheck(apih.ProtoTuple(t), 0)
		r.checkCalls.Add(2)
		ra, rok := rr.Allowed()
		results := []struct {
			tr      string
			ok      bool
			allowed bool
			desc    string
		}{{"rest", rr.Status == 200 && rok, ra, rr.String()}, {"grpc", gerr == nil, gr.GetAllowed(), fmt.Sprint(gr, gerr)}}
		for _, x := range results {
			switch {
			case !x.ok:
				r.cand(c04Cand{Sig: "write-visibility:check-error:" + x.tr, What: fmt.Sprintf("check %s failed: %s", refsem.Key(t), x.desc), Path: st.Path, Extra: map[string]any{"tuple": t}})
			case stored && !x.allowed:
				r.cand(c04Cand{Sig: "write-visibility:stored-tuple-denied:" + x.tr, What: fmt.Sprintf("check of the stored tuple %s is denied", refsem.Key(t)), Path: st.Path, Extra: map[string]any{"tuple": t, "model": st.Model.Canon(c04Net, 0)}})
			case !reach && x.allowed:
				r.cand(c04Cand{Sig: "write-visibility:absent-tuple-allowed:" + x.tr, What: fmt.Sprintf("check of %s is allowed although it is neither stored nor reachable", refsem.Key(t)), Path: st.Path, Extra: map[string]any{"tuple": t, "model": st.Model.Canon(c04Net, 0)}})
			case !stored && reach:
				r.noDemandDenied.Add(1)
			}
		}
	}
	// expand of each stored (ns,obj,rel) contains its direct subjects
	type node struct{ ns, obj, rel string }
	direct := map[node]map[string]bool{}
	for _, t := range st.Model.Distinct(c04Net) {
		n := node{t.Namespace, t.Object, t.Relation}
		if direct[n] == nil {
			direct[n] = map[string]bool{}
		}
		if t.SubjectID != nil {
			direct[n]["id:"+*t.SubjectID] = true
		} else {
			direct[n][fmt.Sprintf("set:%s:%s#%s", t.SubjectSet.Namespace, t.SubjectSet.Object, t.SubjectSet.Relation)] = true
		}
	}
	var nodes []node
	for n := range direct {
		nodes = append(nodes, n)
	}
	sort.Slice(nodes, func(i, j int) bool { return fmt.Sprint(nodes[i]) < fmt.Sprint(nodes[j]) })
	for _, n := range nodes {
		rr := c.Expand(&ketoapi.SubjectSet{Namespace: n.ns, Object: n.obj, Relation: n.rel}, "")
		r.expandCalls.Add(1)
		got := map[string]bool{}
		if rr.Status == 200 {
			c04TreeSubjects(rr.JSON, got)
		}
		for sub := range direct[n] {
			if !got[sub] {
				r.cand(c04Cand{Sig: "write-visibility:expand-misses-direct-subject", What: fmt.Sprintf("expand %s:%s#%s does not contain the direct subject %s: %s", n.ns, n.obj, n.rel, sub, rr.String()), Path: st.Path, Extra: map[string]any{"model": st.Model.Canon(c04Net, 0)}})
			}
		}
	}
	s.Settle()
}

// step executes one operation on the (already re-created) state and judges it.
// It returns the successor model (nil if the op had no acceptable outcome).
func (r *c04Run) step(s *apih.Server, st *c04State, op *c04Op) (next *refsem.RefStore, effect int, cands []c04Cand) {
	c := r.cli(s)
	if r.preOp != nil {
		r.preOp(s)
	}
	out := op.exec(c)
	r.transitions.Add(1)
	full := append(append([]c04Step{}, st.Path...), c04Step{Op: op, Effect: -1})
	mk := func(sig, what string, extra map[string]any) {
		if extra == nil {
			extra = map[string]any{}
		}
		extra["response"] = out.Desc
		extra["model_before"] = st.Model.Canon(c04Net, 0)
		cands = append(cands, c04Cand{Sig: sig, What: what, Path: full, Extra: extra})
	}
	rest := axListREST(c, &ketoapi.RelationQuery{}, 0)
	grpc := axListGRPC(c, &ketoapi.RelationQuery{}, 2)
	r.listCalls.Add(int64(rest.Pages + grpc.Pages))
	if r.postOp != nil {
		r.postOp(r, s, full)
	}
	if rest.Err != "" || grpc.Err != "" {
		mk("list-error:full", "full listing failed after the operation: "+rest.Err+" "+grpc.Err, nil)
		return nil, -1, cands
	}
	if d := refsem.DiffMultiset(grpc.Multiset, rest.Multiset, false); d != "" {
		mk("list-mismatch:rest-vs-grpc", "REST and gRPC full listings differ: "+d, nil)
		return nil, -1, cands
	}
	before := st.Model.Match(c04Net, nil)
	unchanged := refsem.DiffMultiset(rest.Multiset, before, false) == ""

	if out.Panic != "" {
		mk("handler-panic:"+op.Kind+":"+op.Form, fmt.Sprintf("%s: the handler panicked: %s", op.Name, out.Panic), nil)
	}
	if !out.Accepted {
		r.rejected.Add(1)
		if !unchanged {
			mk("rejected-write-changed-state:"+op.Kind+":"+op.Form, fmt.Sprintf("%s was answered with an error (%s) but the store changed: %s", op.Name, out.Desc, refsem.DiffMultiset(rest.Multiset, before, false)), nil)
			return nil, -1, cands
		}
		if op.Expect == c04MustAccept {
			mk("valid-write-rejected:"+op.Kind, fmt.Sprintf("%s is well-formed over known namespaces but was rejected: %s", op.Name, out.Desc), nil)
		}
		return st.Model, -1, cands
	}
	r.accepted.Add(1)
	if op.Expect == c04MustReject {
		mk("invalid-write-accepted:"+op.Kind+":"+op.Form, fmt.Sprintf("%s (%s) was accepted", op.Name, op.Form), nil)
	}
	effs := op.Effects
	if len(effs) == 0 {
		effs = []c04Effect{{Desc: "no effect"}}
	}
	distinct := map[string]bool{}
	match := -1
	var matched *refsem.RefStore
	for i, e := range effs {
		m := c04Apply(st.Model, e)
		distinct[m.Canon(c04Net, 0)] = true
		if match < 0 && refsem.DiffMultiset(rest.Multiset, m.Match(c04Net, nil), false) == "" {
			match, matched = i, m
		}
	}
	if match >= 0 {
		if len(distinct) > 1 {
			r.multiEffect.Add(1) // the acceptable effects differ on this state
		}
		if op.Expect == c04MustReject && !unchanged {
			mk("invalid-write-had-effect:"+op.Kind+":"+op.Form, fmt.Sprintf("%s (%s) was accepted and changed the store", op.Name, op.Form), nil)
		}
		if len(op.Effects) == 0 {
			match = -1
		}
		return matched, match, cands
	}
	want := c04Apply(st.Model, effs[0])
	mk("write-effect:"+op.Kind+":"+op.Form, fmt.Sprintf("%s was accepted but the store is not what the multiset model predicts: %s", op.Name, refsem.DiffMultiset(rest.Multiset, want.Match(c04Net, nil), false)), map[string]any{"model_after": want.Canon(c04Net, 0)})
	return nil, -1, cands
}

// rotating per-transition query check: every shape, one value assignment and one
// transport each (the full listing through both transports is part of step).
func (r *c04Run) shapesAfter(s *apih.Server, model *refsem.RefStore, path []c04Step, rot int) {
	c := r.cli(s)
	for sh := 0; sh < 16; sh++ {
		qs := r.byShape[sh]
		q := qs[(rot+sh*7)%len(qs)]
		tr := []string{"rest", "grpc"}[(rot+sh)%2] // transports alternate over shapes and transitions
		if sig, what := r.observe(c, model, q, 0, 2, tr); sig != "" {
			r.cand(c04Cand{Sig: sig, What: what, Path: path, Extra: map[string]any{"query": q, "model": model.Canon(c04Net, 0)}})
		}
	}
}

// confirm re-runs a candidate's history on a fresh store (twice) and reports
// whether the same signature shows every time.
func (r *c04Run) confirm(s *apih.Server, cd c04Cand) bool {
	for rep := 0; rep < 2; rep++ {
		hit := false
		for _, c := range r.replayPath(s, cd.Path, false) {
			hit = hit || c.Sig == cd.Sig
		}
		if !hit {
			return false
		}
	}
	return true
}

func (r *c04Run) sub() *c04Run {
	return &c04Run{dropped: map[string]int{}, run: r.run, ops: r.ops, qs: r.qs, byShape: r.byShape, ignore: r.ignore, cli: r.cli, reset: r.reset, onState: r.onState, afterStep: r.afterStep, preOp: r.preOp, postOp: r.postOp}
}

// replayPath executes a history step by step with the full oracle and returns
// every candidate violation it meets.
func (r *c04Run) replayPath(s *apih.Server, path []c04Step, verbose bool) []c04Cand {
	sub := r.sub()
	sub.reset(s)
	st := &c04State{Model: refsem.NewRefStore()}
	for i, step := range path {
		next, eff, cs := sub.step(s, st, step.Op)
		if verbose {
			fmt.Printf("  [replay] step %d %s -> effect %d\n", i, step.Op.Name, eff)
		}
		for _, c := range cs {
			sub.cand(c)
		}
		if next == nil {
			return sub.cands
		}
		st = &c04State{Model: next, Path: append(append([]c04Step{}, st.Path...), c04Step{Op: step.Op, Effect: eff})}
		if sub.afterStep != nil {
			sub.afterStep(sub, s, next, st.Path, i)
		}
	}
	if l := axListREST(sub.cli(s), &ketoapi.RelationQuery{}, 0); l.Err != "" || refsem.DiffMultiset(l.Multiset, st.Model.Match(c04Net, nil), false) != "" {
		sub.cand(c04Cand{Sig: "list-mismatch:after-replay", What: "full listing differs from the model after the history: " + refsem.DiffMultiset(l.Multiset, st.Model.Match(c04Net, nil), false) + " " + l.Err, Path: st.Path})
	}
	sub.onState(sub, s, st)
	return sub.cands
}

type c04Result struct {
	states     map[string]*c04State
	depthDone  int
	exhaustive bool
	levelSizes []int
	swept      int64
}

// bfs is the level-synchronous search. roots are depth 0.
func (r *c04Run) bfs(pool *axServerPool, roots []*c04State, maxDepth int, deadline time.Time) c04Result {
	res := c04Result{states: map[string]*c04State{}, depthDone: -1, exhaustive: true}
	t0 := time.Now()
	var frontier []*c04State
	for _, st := range roots {
		res.states[st.Canon] = st
		frontier = append(frontier, st)
	}
	for depth := 0; depth <= maxDepth && len(frontier) > 0; depth++ {
		if time.Now().After(deadline) {
			res.exhaustive = false
			break
		}
		res.levelSizes = append(res.levelSizes, len(frontier))
		var mu sync.Mutex
		found := map[string]*c04State{}
		expand := depth < maxDepth
		var timedOut atomic.Bool
		// phase 1: every state of this level once (sweep / panels)
		axParallel(len(frontier), pool.get, func(s *apih.Server, i int) {
			if time.Now().After(deadline) {
				timedOut.Store(true)
				return
			}
			st := frontier[i]
			if !r.recreate(s, st) {
				return
			}
			r.onState(r, s, st)
			atomic.AddInt64(&res.swept, 1)
		})
		// phase 2: every (state, operation) pair
		nPairs := 0
		if expand {
			nPairs = len(frontier) * len(r.ops)
		}
		axParallel(nPairs, pool.get, func(s *apih.Server, k int) {
			if time.Now().After(deadline) {
				timedOut.Store(true)
				return
			}
			st, op := frontier[k/len(r.ops)], r.ops[k%len(r.ops)]
			if !r.recreate(s, st) {
				return
			}
			next, eff, cs := r.step(s, st, op)
			for _, c := range cs {
				r.cand(c)
			}
			if next == nil {
				return
			}
			path := append(append([]c04Step{}, st.Path...), c04Step{Op: op, Effect: eff})
			if r.afterStep != nil {
				r.afterStep(r, s, next, path, k)
			}
			canon := next.Canon(c04Net, 2)
			mu.Lock()
			if _, known := res.states[canon]; !known {
				old := found[canon]
				if old == nil || strings.Join(c04PathNames(path), "|") < strings.Join(c04PathNames(old.Path), "|") {
					found[canon] = &c04State{Canon: canon, Path: path, Depth: depth + 1, Root: st.Root, Model: next}
				}
			}
			mu.Unlock()
		})
		if timedOut.Load() {
			res.exhaustive = false
			break
		}
		res.depthDone = depth
		// report this level's candidates: the smallest history per signature, confirmed by re-execution
		r.mu.Lock()
		cands := r.cands
		r.cands = nil
		r.perSig = nil
		for k, n := range r.dropped {
			r.sigCount[k] += n
		}
		r.dropped = map[string]int{}
		r.mu.Unlock()
		sort.SliceStable(cands, func(i, j int) bool {
			if len(cands[i].Path) != len(cands[j].Path) {
				return len(cands[i].Path) < len(cands[j].Path)
			}
			return strings.Join(c04PathNames(cands[i].Path), "|") < strings.Join(c04PathNames(cands[j].Path), "|")
		})
		fmt.Printf("[bfs %s] depth %d: %d states, %d candidate violations, %d transitions so far, %.0fs\n", r.run.Property, depth, len(frontier), len(cands), r.transitions.Load(), time.Since(t0).Seconds())
		attempts := map[string]int{}
		for _, cd := range cands {
			r.sigCount[cd.Sig]++
			if r.reported[cd.Sig] || attempts[cd.Sig] >= 3 {
				continue
			}
			attempts[cd.Sig]++
			if !r.confirm(pool.get(axFreshIndex()), cd) { // a FRESH server (with the pool's init): process-lifetime state must not make a finding look unstable
				// not reproduced from its recorded history: never reported (DESIGN §1 rule 2)
				r.unstable.Add(1)
				fmt.Printf("[bfs %s] candidate %s did not reproduce from history %v\n", r.run.Property, cd.Sig, c04PathNames(cd.Path))
				continue
			}
			r.reported[cd.Sig] = true
			rep := map[string]any{"path": c04PathNames(cd.Path), "operations": c04PathDescribe(cd.Path)}
			for k, v := range cd.Extra {
				rep[k] = v
			}
			r.run.Violation(cd.Sig, cd.What+"  history="+strings.Join(c04PathNames(cd.Path), " ; "), rep)
		}
		frontier = frontier[:0]
		keys := make([]string, 0, len(found))
		for k := range found {
			keys = append(keys, k)
		}
		sort.Strings(keys)
		for _, k := range keys {
			res.states[k] = found[k]
			frontier = append(frontier, found[k])
		}
		if len(frontier) > 0 && depth < 2 {
			st := frontier[len(frontier)/2]
			r.run.Sample(map[string]any{"history": c04PathNames(st.Path), "state": strings.Split(st.Canon, "\n")})
		}
	}
	if r.unstable.Load() > 0 || r.divergences.Load() > 0 {
		res.exhaustive = false
	}
	return res
}

func c04NewRun(run *ev.Run) *c04Run {
	r := &c04Run{run: run, ops: c04Alphabet(), qs: c04Queries(), reported: map[string]bool{}, sigCount: map[string]int{}, dropped: map[string]int{}}
	for _, q := range r.qs {
		b := axShapeBits(q)
		r.byShape[b] = append(r.byShape[b], q)
	}
	r.cli = func(s *apih.Server) *apih.Client { return s.Client() }
	r.reset = func(s *apih.Server) { s.Truncate() }
	r.onState = func(r *c04Run, s *apih.Server, st *c04State) { r.sweep(s, st); r.panel(s, st) }
	r.afterStep = (*c04Run).shapesAfter
	return r
}

// c04ReplayMode re-runs the history of a replay file; true if it ran.
func (r *c04Run) replayMode(t *testing.T, property string, pool *axServerPool, extraOps map[string]*c04Op) bool {
	rp, ok := axReplay(property)
	if !ok {
		return false
	}
	byName := map[string]*c04Op{}
	for _, o := range r.ops {
		byName[o.Name] = o
	}
	for k, v := range extraOps {
		byName[k] = v
	}
	var path []c04Step
	for _, n := range rp["path"].([]any) {
		o := byName[n.(string)]
		if o == nil {
			fmt.Printf("INFRA-ERROR replay names unknown operation %q\n", n)
			t.FailNow()
		}
		path = append(path, c04Step{Op: o})
	}
	seen := map[string]bool{}
	for _, c := range r.replayPath(pool.get(0), path, true) {
		fmt.Printf("  [replay] %s: %s\n", c.Sig, c.What)
		if !seen[c.Sig] {
			seen[c.Sig] = true
			r.run.Violation(c.Sig, c.What, rp)
		}
	}
	if len(seen) == 0 {
		fmt.Println("  [replay] the recorded history satisfies the oracle now")
	}
	return true
}

func c04SeedOp(name string, ts ...*ketoapi.RelationTuple) *c04Op {
	var body []c04PD
	var ds []c04Delta
	for _, x := range ts {
		body = append(body, c04PD{"insert", x})
		ds = append(ds, c04Delta{T: x})
	}
	return &c04Op{Name: name, Kind: "rest-patch", Form: "valid", Expect: c04MustAccept, Body: c04JSON(body), Effects: []c04Effect{{Seq: ds}}}
}

func c04Root(i int, path []c04Step) *c04State {
	m := refsem.NewRefStore()
	for _, st := range path {
		m = c04Apply(m, st.Op.Effects[st.Effect])
	}
	return &c04State{Canon: m.Canon(c04Net, 2), Path: path, Root: i, Model: m}
}

func TestC04(t *testing.T) {
	run := ev.New("C04", "model_checking")
	r := c04NewRun(run)
	// "per-network": a second network on the same database holds two relationships (one spelled exactly like a
	// tuple of the alphabet) for the whole search; no history in the default network may list or remove them
	T := c04Universe()
	bystander := uuid.Must(uuid.FromString("cccccccc-cccc-4ccc-8ccc-cccccccccccc"))
	var bystanderChecks atomic.Int64
	pool := &axServerPool{t: t, multi: true, init: func(s *apih.Server) {
		s.AddNetwork(bystander)
		for _, tp := range []*ketoapi.RelationTuple{T[0], axID("n1", "bystander-object", "r", "bystander-user")} {
			if rr := s.ClientFor(bystander).Create(tp); rr.Status != 201 {
				t.Fatalf("seeding the bystander network: %s", rr)
			}
		}
	}}
	r.reset = func(s *apih.Server) { s.TruncateTuples(s.DefaultNetwork()) }
	inner := r.afterStep
	r.afterStep = func(r *c04Run, s *apih.Server, next *refsem.RefStore, path []c04Step, rot int) {
		inner(r, s, next, path, rot)
		bystanderChecks.Add(1)
		if rows := s.Rows(bystander); len(rows) != 2 {
			r.cand(c04Cand{Sig: "per-network:rows-of-another-network-changed", What: fmt.Sprintf("a history in the default network left %d of the 2 relationships of another network on the same database", len(rows)), Path: path})
			s.TruncateTuples(bystander)
			for _, tp := range []*ketoapi.RelationTuple{T[0], axID("n1", "bystander-object", "r", "bystander-user")} {
				s.ClientFor(bystander).Create(tp)
			}
		}
	}

	// roots: the empty store and two seeded stores (created through the API)
	seed1 := c04SeedOp("SEED1 [+t0,+t4,+t5,+t5]", T[0], T[4], T[5], T[5])
	seed2 := c04SeedOp("SEED2 [+t0..+t6]", T...)
	roots := []*c04State{c04Root(0, nil), c04Root(1, []c04Step{{Op: seed1}}), c04Root(2, []c04Step{{Op: seed2}})}

	if r.replayMode(t, "C04", pool, map[string]*c04Op{seed1.Name: seed1, seed2.Name: seed2}) {
		return
	}

	maxDepth := 3
	deadline := ev.Deadline(200, 1500)
	if ev.Thorough() {
		maxDepth = 9 // the capped state space (3^7 states) closes at depth 7: the search ends when the frontier is empty
	}
	res := r.bfs(pool, roots, maxDepth, deadline)

	run.Assume(
		"keto stores identical relationships as separate rows (no uniqueness on content; verified: two PUTs of one tuple list twice), so the full multiset oracle is used: multiplicities must agree between the model, REST and gRPC",
		"a delete of a tuple / by query removes every copy of every matching relationship",
		"PATCH/Transact containing an insert and a delete of the same tuple: both 'all inserts, then all deletes' (what keto does) and 'in the order given' are accepted",
		"a tuple carrying both subject_id and subject_set, an unknown PATCH action, an UNSPECIFIED gRPC action, a REST delete without namespace parameter and an absent gRPC query are not covered by the statement: either outcome is accepted, but an error must leave the store unchanged and an accepted request must have one of the modelled effects",
		"listing with an unknown namespace may fail or return nothing (no demand)",
		"write visibility uses a rewrite-free namespace configuration: stored => check allowed; not reachable through direct tuples and subject-set indirection => denied; reachable-but-not-stored is not judged here (C01)",
		"a second network with two relationships shares the database during the whole search (one of them spelled like a tuple of the alphabet): the default network's listings must not contain them and they must still be there after every transition (the full cross-network invariant is C06)",
		"canonical state caps multiplicities at 2; the database state is assumed to be a function of the canonical state up to row order and unreferenced UUID mappings",
	)
	var names []string
	for _, o := range r.ops {
		names = append(names, o.Name)
	}
	run.Sample(map[string]any{"alphabet": names})
	run.Finish(map[string]any{
		"bystander_network_checks":               int(bystanderChecks.Load()),
		"states":                                 len(res.states),
		"transitions":                            int(r.transitions.Load()),
		"traces_validated_against_impl":          int(r.replays.Load()),
		"depth_completed":                        res.depthDone,
		"depth_bound":                            maxDepth,
		"level_sizes":                            res.levelSizes,
		"alphabet_size":                          len(r.ops),
		"roots":                                  len(roots),
		"states_swept":                           int(res.swept),
		"queries_per_sweep":                      len(r.qs),
		"sweep_queries":                          int(r.sweepQueries.Load()),
		"list_requests":                          int(r.listCalls.Load()),
		"check_requests":                         int(r.checkCalls.Load()),
		"expand_requests":                        int(r.expandCalls.Load()),
		"ops_accepted":                           int(r.accepted.Load()),
		"ops_rejected":                           int(r.rejected.Load()),
		"transitions_with_alternative_effects":   int(r.multiEffect.Load()),
		"reachable_not_stored_checks_not_judged": int(r.noDemandDenied.Load()),
		"replay_divergences":                     int(r.divergences.Load()),
		"unstable_candidates":                    int(r.unstable.Load()),
		"candidate_signatures":                   r.sigCount,
		"exhaustive":                             res.exhaustive,
		"workers":                                axWorkers(),
	})
}

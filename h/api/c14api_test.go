//go:build sqlite

// C14 at the API level (started by TestC14 of h/sched as a child process): pairs of read requests of ONE
// network overlap on the real REST / gRPC handlers over an unchanging store. The first request is paused inside
// the SQL driver before its k-th statement (every k), the second is issued meanwhile, then the first is
// released; each answer must be exactly the answer the request gives alone - in particular a page of a
// pagination must be the page that was asked for (token and size belong to the request).
package api

import (
	"fmt"
	"strings"
	"sync"
	"sync/atomic"
	"testing"
	"time"

	"github.com/ory/keto/ketoapi"
	rts "github.com/ory/keto/proto/ory/keto/relation_tuples/v1alpha2"
	"github.com/ory/keto/verif/apih"
	"github.com/ory/keto/verif/ev"
	"github.com/ory/keto/verif/sqlfault"
)

func TestC14API(t *testing.T) {
	if _, _, child := ev.Shard(); !child {
		t.Skip("child of TestC14 (h/sched)")
	}
	run := ev.New("C14", "model_checking")
	s := apih.NewServer(t, apih.Options{Namespaces: axNamespaces()})
	c := s.Client()
	for i := 0; i < 6; i++ {
		c.Create(axID("n1", "doc", "r", fmt.Sprintf("user%d", i)))
	}
	c.Create(axSet("n1", "doc", "r", "n1", "grp", "m"))
	c.Create(axID("n1", "grp", "m", "member"))
	c.Create(axID("n1", "other", "r", "user0"))
	// a node whose listing needs more than one page of the name lookup (100 ids per lookup page)
	var big []*rts.RelationTupleDelta
	for i := 0; i < 150; i++ {
		big = append(big, axDelta(rts.RelationTupleDelta_ACTION_INSERT, axID("n1", "big", "r", fmt.Sprintf("big-user-%03d", i))))
	}
	if _, err := c.GTransact(big); err != nil {
		fmt.Printf("INFRA-ERROR C14 api: seeding: %v\n", err)
		t.FailNow()
	}
	s.Settle()

	q := &ketoapi.RelationQuery{Namespace: axS("n1"), Object: axS("doc")}
	qAll := &ketoapi.RelationQuery{Namespace: axS("n1")}
	restPage := func(q *ketoapi.RelationQuery, size, token string) func() string {
		return func() string {
			r, g := c.List(q, size, token)
			if g == nil {
				return "status " + apih.Itoa(r.Status)
			}
			var ks []string
			for _, tp := range g.RelationTuples {
				ks = append(ks, tp.String())
			}
			return strings.Join(ks, " ") + " | next=" + g.NextPageToken
		}
	}
	grpcPage := func(q *ketoapi.RelationQuery, size int32, token string) func() string {
		return func() string {
			g, err := c.GList(apih.ProtoQuery(q), size, token)
			if err != nil {
				return "err " + err.Error()
			}
			var ks []string
			for _, tp := range g.RelationTuples {
				ks = append(ks, apih.TupleFromProto(tp).String())
			}
			return strings.Join(ks, " ") + " | next=" + g.NextPageToken
		}
	}
	// page tokens of the pagination with page size 2, taken alone
	tokens := []string{""}
	for i := 0; i < 3; i++ {
		_, g := c.List(q, "2", tokens[len(tokens)-1])
		if g == nil || g.NextPageToken == "" {
			break
		}
		tokens = append(tokens, g.NextPageToken)
	}
	if len(tokens) < 3 {
		fmt.Println("INFRA-ERROR C14 api: the store does not paginate as expected")
		t.FailNow()
	}
	type req struct {
		name string
		do   func() string
	}
	reqs := []req{
		{"rest list doc size=2 page 1", restPage(q, "2", tokens[0])},
		{"rest list doc size=2 page 2", restPage(q, "2", tokens[1])},
		{"rest list doc size=2 page 3", restPage(q, "2", tokens[2])},
		{"rest list doc size=3 page 1", restPage(q, "3", "")},
		{"rest list n1 size=2 page 1", restPage(qAll, "2", "")},
		{"grpc list doc size=2 page 1", grpcPage(q, 2, tokens[0])},
		{"grpc list doc size=2 page 2", grpcPage(q, 2, tokens[1])},
		{"grpc list doc size=3 page 1", grpcPage(q, 3, "")},
		{"rest list big size=200", restPage(&ketoapi.RelationQuery{Namespace: axS("n1"), Object: axS("big")}, "200", "")},
		{"grpc list big size=200", grpcPage(&ketoapi.RelationQuery{Namespace: axS("n1"), Object: axS("big")}, 200, "")},
		{"rest check doc#r@user1", func() string { return string(c.CheckGET(axID("n1", "doc", "r", "user1"), true, "").Raw) }},
		{"rest check doc#r@member", func() string { return string(c.CheckGET(axID("n1", "doc", "r", "member"), true, "").Raw) }},
		{"rest check doc#r@member depth=1", func() string { return string(c.CheckGET(axID("n1", "doc", "r", "member"), true, "1").Raw) }},
		{"rest check doc#r@nobody", func() string { return string(c.CheckGET(axID("n1", "doc", "r", "nobody"), true, "").Raw) }},
		{"grpc check doc#r@member", func() string {
			g, err := c.GCheck(apih.ProtoTuple(axID("n1", "doc", "r", "member")), 0)
			return fmt.Sprint(g.GetAllowed(), err)
		}},
		{"rest batch [user1, nobody]", func() string {
			return string(c.BatchCheck([]*ketoapi.RelationTuple{axID("n1", "doc", "r", "user1"), axID("n1", "doc", "r", "nobody")}, "").Raw)
		}},
		{"rest expand doc#r", func() string {
			return c06CanonTree(c.Expand(&ketoapi.SubjectSet{Namespace: "n1", Object: "doc", Relation: "r"}, "").JSON)
		}},
		{"rest expand doc#r depth=1", func() string {
			return c06CanonTree(c.Expand(&ketoapi.SubjectSet{Namespace: "n1", Object: "doc", Relation: "r"}, "1").JSON)
		}},
	}
	alone := make([]string, len(reqs))
	stmts := make([]int, len(reqs))
	for i, r := range reqs {
		s.Tap.ResetCount()
		alone[i] = r.do()
		s.Settle()
		stmts[i] = int(s.Tap.Count())
		// the same request once more, nothing else running, data unchanged: state kept for the first request must
		// not change the answer of the second (three attempts: a harness hiccup would not repeat)
		diff := ""
		for attempt := 0; attempt < 3; attempt++ {
			if again := r.do(); again != alone[i] {
				diff = again
			} else {
				diff = ""
				break
			}
		}
		if diff != "" {
			run.Violation("api-answer-depends-on-earlier-request:"+strings.Join(strings.Fields(r.name)[:2], "-"), fmt.Sprintf("request %q on unchanging data, nothing else running: first answer %.300s; repeated: %.300s", r.name, alone[i], diff), map[string]any{"phase": "api-repeat", "request": r.name})
			run.FinishPart(map[string]any{"api_requests": len(reqs), "api_pairs_exhaustive": false})
			return
		}
	}
	deadline := ev.Deadline(120, 600)
	pairs, points, blocked := 0, 0, 0
	complete := true
	reported := map[string]bool{}
	for i1, r1 := range reqs {
		for i2, r2 := range reqs {
			if time.Now().After(deadline) {
				complete = false
				continue
			}
			pairs++
			for k := 1; k <= stmts[i1]; k++ {
				points++
				var cnt atomic.Int64
				paused := make(chan struct{})
				release := make(chan struct{})
				var once sync.Once
				s.Tap.SetBefore(func(e *sqlfault.Event) error {
					if cnt.Add(1) == int64(k) {
						once.Do(func() { close(paused) })
						<-release
					}
					return nil
				})
				var o1, o2 string
				d1, d2 := make(chan struct{}), make(chan struct{})
				go func() { o1 = r1.do(); close(d1) }()
				select {
				case <-paused:
				case <-d1: // fewer statements this time
				}
				go func() { o2 = r2.do(); close(d2) }()
				select {
				case <-d2:
				case <-time.After(30 * time.Millisecond):
					blocked++ // the second request waits for the first (one database connection, or coalescing)
				}
				close(release)
				<-d1
				<-d2
				s.Tap.SetBefore(nil)
				s.Settle()
				for _, x := range []struct {
					i    int
					got  string
					role string
					oth  string
				}{{i1, o1, "paused", r2.name}, {i2, o2, "overlapping", r1.name}} {
					if x.got != alone[x.i] {
						kind := strings.Join(strings.Fields(reqs[x.i].name)[:2], "-")
						sig := "api-interference:" + kind
						if !reported[sig] {
							reported[sig] = true
							run.Violation(sig, fmt.Sprintf("%s request %q answered differently while %q overlapped it (first request paused before its SQL statement %d): got %.300s; alone: %.300s", x.role, reqs[x.i].name, x.oth, k, x.got, alone[x.i]),
								map[string]any{"phase": "api-pairs", "first": r1.name, "second": r2.name, "pause_before_statement": k})
						}
					}
				}
			}
		}
	}
	run.FinishPart(map[string]any{
		"api_request_pairs":         pairs,
		"api_pause_points":          points,
		"api_second_request_waited": blocked,
		"api_requests":              len(reqs),
		"api_pairs_exhaustive":      complete,
	})
}

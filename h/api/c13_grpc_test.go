//go:build sqlite

// C13 — gRPC request families (see c13_test.go). A family is the product of
// absent / empty / present sub-messages and empty / unknown / huge scalars.
package api

import (
	"context"
	"math"

	"google.golang.org/grpc/health/grpc_health_v1"
	"google.golang.org/protobuf/proto"
	"google.golang.org/protobuf/types/known/fieldmaskpb"

	oplv1 "github.com/ory/keto/proto/ory/keto/opl/v1alpha1"
	rts "github.com/ory/keto/proto/ory/keto/relation_tuples/v1alpha2"
	"github.com/ory/keto/verif/apih"
)

var c13SubjectAll = []string{"absent", "empty", "id", "id-empty", "id-unknown", "id-oversized", "set", "set-empty-msg", "set-nil-msg", "set-unknown-ns", "set-unknown-relation", "set-oversized"}

func c13PSubject(choice string) *rts.Subject {
	set := func(ns, o, r string) *rts.Subject {
		return &rts.Subject{Ref: &rts.Subject_Set{Set: &rts.SubjectSet{Namespace: ns, Object: o, Relation: r}}}
	}
	switch choice {
	case "absent":
		return nil
	case "empty":
		return &rts.Subject{}
	case "id":
		return &rts.Subject{Ref: &rts.Subject_Id{Id: c13Sub}}
	case "id-empty":
		return &rts.Subject{Ref: &rts.Subject_Id{Id: ""}}
	case "id-unknown":
		return &rts.Subject{Ref: &rts.Subject_Id{Id: "never-seen-subject"}}
	case "id-oversized":
		return &rts.Subject{Ref: &rts.Subject_Id{Id: c13Big}}
	case "set":
		return set("Group", "g1", "members")
	case "set-empty-msg":
		return &rts.Subject{Ref: &rts.Subject_Set{Set: &rts.SubjectSet{}}}
	case "set-nil-msg":
		return &rts.Subject{Ref: &rts.Subject_Set{}}
	case "set-unknown-ns":
		return set("Nope", "g1", "members")
	case "set-unknown-relation":
		return set("Group", "g1", "undeclared")
	case "set-oversized":
		return set("Group", c13Big, "members")
	}
	panic("c13: subject choice " + choice)
}

func c13PStr(choice, valid, unknown string) string {
	switch choice {
	case "absent", "empty":
		return ""
	case "valid":
		return valid
	case "unknown":
		return unknown
	case "oversized":
		return c13Big
	}
	panic("c13: string choice " + choice)
}

func c13PStrPtr(choice, valid, unknown string) *string {
	if choice == "absent" {
		return nil
	}
	s := c13PStr(choice, valid, unknown)
	return &s
}

func c13PInt(choice string) int32 {
	switch choice {
	case "zero":
		return 0
	case "one":
		return 1
	case "two":
		return 2
	case "hundred":
		return 100
	case "negative":
		return -1
	case "max-int32":
		return math.MaxInt32
	case "min-int32":
		return math.MinInt32
	}
	panic("c13: int choice " + choice)
}

var c13IntAll = []string{"zero", "one", "two", "hundred", "negative", "max-int32", "min-int32"}

func c13PToken(choice string) string {
	switch choice {
	case "empty":
		return ""
	case "garbage":
		return "zzz"
	case "valid-uuid":
		return "5ca1ab1e-0000-4000-8000-00000000beef"
	case "oversized":
		return c13Big
	case "nil-uuid":
		return "00000000-0000-0000-0000-000000000000"
	}
	panic("c13: token choice " + choice)
}

func c13PTuple(ch map[string]string) *rts.RelationTuple {
	return &rts.RelationTuple{
		Namespace: c13PStr(ch["namespace"], c13NS, c13BadNS),
		Object:    c13PStr(ch["object"], c13Obj, "never-seen-object"),
		Relation:  c13PStr(ch["relation"], c13Rel, "undeclared"),
		Subject:   c13PSubject(ch["subject"]),
	}
}

func c13GrpcFamilies(thorough bool) []*c13Family {
	var fams []*c13Family
	validT := func() *rts.RelationTuple {
		return &rts.RelationTuple{Namespace: c13NS, Object: c13Obj, Relation: c13Rel, Subject: c13PSubject("id")}
	}
	subjCore := c13Pick(thorough, []string{"absent", "empty", "id", "id-empty", "set", "set-empty-msg", "set-unknown-ns"}, []string{"id-unknown", "set-nil-msg"})
	depthCore := c13Pick(thorough, []string{"zero", "negative"}, []string{"one", "max-int32", "min-int32"})

	// --- Check
	fams = append(fams, &c13Family{Route: "grpc-check", Fields: c13Dedupe([]c13Field{
		c13F("mode", "tuple", c13Pick(thorough, []string{"tuple", "flat"}, []string{"both", "neither"}), "both", "neither"),
		c13F("namespace", "valid", []string{"empty", "valid", "unknown"}, "oversized"),
		c13F("object", "valid", c13Pick(thorough, []string{"empty", "valid"}, []string{"unknown"}), "unknown", "oversized"),
		c13F("relation", "valid", c13Pick(thorough, []string{"valid", "unknown"}, []string{"empty"}), "empty", "oversized"),
		c13F("subject", "id", subjCore, c13SubjectAll...),
		c13F("max_depth", "zero", depthCore, c13IntAll...),
		c13F("meta", "default", []string{"default"}, "latest-and-snaptoken", "oversized-snaptoken"),
	}), Build: func(ch map[string]string) *c13Req {
		req := &rts.CheckRequest{MaxDepth: c13PInt(ch["max_depth"])}
		t := c13PTuple(ch)
		switch ch["mode"] {
		case "tuple":
			req.Tuple = t
		case "flat":
			req.Namespace, req.Object, req.Relation, req.Subject = t.Namespace, t.Object, t.Relation, t.Subject //nolint:staticcheck
		case "both":
			req.Tuple = validT()
			req.Namespace, req.Object, req.Relation, req.Subject = t.Namespace, t.Object, t.Relation, t.Subject //nolint:staticcheck
		}
		switch ch["meta"] {
		case "latest-and-snaptoken":
			req.Latest, req.Snaptoken = true, "abc"
		case "oversized-snaptoken":
			req.Snaptoken = c13Big
		}
		return &c13Req{Name: "CheckService.Check", Msg: req, GRPC: func(c *apih.Client, ctx context.Context) (proto.Message, error) { return c.S.CheckC.Check(ctx, req) }}
	}})

	// --- BatchCheck
	fams = append(fams, &c13Family{Route: "grpc-batchcheck", Fields: c13Dedupe([]c13Field{
		c13F("tuples", "one-valid", []string{"empty", "one-valid", "two-valid", "duplicate", "absent-subject", "valid-then-absent-subject", "absent-subject-then-valid", "empty-subject", "empty-tuple", "unknown-ns", "set-unknown-ns", "set-empty-msg", "oversized", "nil-element", "max", "max+1", "10000"}),
		c13F("max_depth", "zero", []string{"zero", "one", "negative", "max-int32", "min-int32"}, c13IntAll...),
		c13F("meta", "default", []string{"default", "latest-and-snaptoken"}, "oversized-snaptoken"),
	}), Build: func(ch map[string]string) *c13Req {
		req := &rts.BatchCheckRequest{MaxDepth: c13PInt(ch["max_depth"])}
		v := validT
		noSub := func() *rts.RelationTuple { t := v(); t.Subject = nil; return t }
		withSub := func(s string) *rts.RelationTuple { t := v(); t.Subject = c13PSubject(s); return t }
		rep := func(n int) []*rts.RelationTuple {
			out := make([]*rts.RelationTuple, n)
			for i := range out {
				out[i] = v()
			}
			return out
		}
		switch ch["tuples"] {
		case "empty":
		case "one-valid":
			req.Tuples = rep(1)
		case "two-valid":
			req.Tuples = []*rts.RelationTuple{v(), withSub("id-unknown")}
		case "duplicate":
			req.Tuples = rep(2)
		case "absent-subject":
			req.Tuples = []*rts.RelationTuple{noSub()}
		case "valid-then-absent-subject":
			req.Tuples = []*rts.RelationTuple{v(), noSub()}
		case "absent-subject-then-valid":
			req.Tuples = []*rts.RelationTuple{noSub(), v()}
		case "empty-subject":
			req.Tuples = []*rts.RelationTuple{withSub("empty")}
		case "empty-tuple":
			req.Tuples = []*rts.RelationTuple{{}}
		case "unknown-ns":
			t := v()
			t.Namespace = c13BadNS
			req.Tuples = []*rts.RelationTuple{t}
		case "set-unknown-ns":
			req.Tuples = []*rts.RelationTuple{withSub("set-unknown-ns")}
		case "set-empty-msg":
			req.Tuples = []*rts.RelationTuple{withSub("set-empty-msg")}
		case "oversized":
			t := v()
			t.Object = c13Big
			req.Tuples = []*rts.RelationTuple{t, withSub("id-oversized")}
		case "nil-element":
			req.Tuples = []*rts.RelationTuple{v(), nil}
		case "max":
			req.Tuples = rep(10)
		case "max+1":
			req.Tuples = rep(11)
		case "10000":
			req.Tuples = rep(10000)
		}
		switch ch["meta"] {
		case "latest-and-snaptoken":
			req.Latest, req.Snaptoken = true, "abc"
		case "oversized-snaptoken":
			req.Snaptoken = c13Big
		}
		return &c13Req{Name: "CheckService.BatchCheck", Msg: req, GRPC: func(c *apih.Client, ctx context.Context) (proto.Message, error) {
			return c.S.CheckC.BatchCheck(ctx, req)
		}}
	}})

	// --- Expand
	fams = append(fams, &c13Family{Route: "grpc-expand", Fields: c13Dedupe([]c13Field{
		c13F("subject", "set", c13SubjectAll),
		c13F("max_depth", "zero", []string{"zero", "one", "two", "hundred", "negative", "max-int32", "min-int32"}),
		c13F("snaptoken", "empty", []string{"empty", "garbage"}, "oversized"),
	}), Build: func(ch map[string]string) *c13Req {
		req := &rts.ExpandRequest{Subject: c13PSubject(ch["subject"]), MaxDepth: c13PInt(ch["max_depth"]), Snaptoken: c13PToken(ch["snaptoken"])}
		return &c13Req{Name: "ExpandService.Expand", Msg: req, GRPC: func(c *apih.Client, ctx context.Context) (proto.Message, error) { return c.S.ExpandC.Expand(ctx, req) }}
	}})

	// --- ListRelationTuples / DeleteRelationTuples share the query product
	qFields := func(list bool) []c13Field {
		f := []c13Field{
			c13F("mode", "relation_query", c13Pick(thorough, []string{"relation_query", "deprecated-query"}, []string{"both", "neither"}), "both", "neither"),
			c13F("namespace", "valid", c13Pick(thorough, []string{"absent", "valid", "unknown"}, []string{"empty"}), "empty", "oversized"),
			c13F("object", "valid", c13Pick(thorough, []string{"absent", "valid"}, []string{"empty"}), "empty", "unknown", "oversized"),
			c13F("relation", "valid", c13Pick(thorough, []string{"absent", "valid"}, []string{"empty"}), "empty", "unknown", "oversized"),
			c13F("subject", "id", c13Pick(thorough, []string{"absent", "empty", "id", "set", "set-unknown-ns"}, []string{"id-empty", "set-empty-msg"}), c13SubjectAll...),
		}
		if list {
			f = append(f,
				c13F("page_size", "zero", c13Pick(thorough, []string{"zero", "negative"}, []string{"one", "min-int32"}), c13IntAll...),
				c13F("page_token", "empty", c13Pick(thorough, []string{"empty", "garbage"}, []string{"valid-uuid"}), "valid-uuid", "oversized", "nil-uuid"),
				c13F("expand_mask", "absent", []string{"absent"}, "present", "present-with-paths"),
			)
		}
		return c13Dedupe(f)
	}
	type queryParts struct {
		rq  *rts.RelationQuery
		dep *rts.ListRelationTuplesRequest_Query
	}
	mkQuery := func(ch map[string]string) queryParts {
		var p queryParts
		rq := &rts.RelationQuery{
			Namespace: c13PStrPtr(ch["namespace"], c13NS, c13BadNS),
			Object:    c13PStrPtr(ch["object"], c13Obj, "never-seen-object"),
			Relation:  c13PStrPtr(ch["relation"], c13Rel, "undeclared"),
			Subject:   c13PSubject(ch["subject"]),
		}
		dep := &rts.ListRelationTuplesRequest_Query{
			Namespace: c13PStr(ch["namespace"], c13NS, c13BadNS),
			Object:    c13PStr(ch["object"], c13Obj, "never-seen-object"),
			Relation:  c13PStr(ch["relation"], c13Rel, "undeclared"),
			Subject:   c13PSubject(ch["subject"]),
		}
		switch ch["mode"] {
		case "relation_query":
			p.rq = rq
		case "deprecated-query":
			p.dep = dep
		case "both":
			p.rq = &rts.RelationQuery{Namespace: proto.String(c13NS)}
			p.dep = dep
		}
		return p
	}
	fams = append(fams, &c13Family{Route: "grpc-list", Fields: qFields(true), Build: func(ch map[string]string) *c13Req {
		q := mkQuery(ch)
		req := &rts.ListRelationTuplesRequest{RelationQuery: q.rq, Query: q.dep, PageSize: c13PInt(ch["page_size"]), PageToken: c13PToken(ch["page_token"])} //nolint:staticcheck
		switch ch["expand_mask"] {
		case "present":
			req.ExpandMask = &fieldmaskpb.FieldMask{}
		case "present-with-paths":
			req.ExpandMask = &fieldmaskpb.FieldMask{Paths: []string{"object", "no.such.path", ""}}
		}
		return &c13Req{Name: "ReadService.ListRelationTuples", Msg: req, GRPC: func(c *apih.Client, ctx context.Context) (proto.Message, error) {
			return c.S.ReadC.ListRelationTuples(ctx, req)
		}}
	}})
	fams = append(fams, &c13Family{Route: "grpc-delete", Fields: qFields(false), Build: func(ch map[string]string) *c13Req {
		q := mkQuery(ch)
		req := &rts.DeleteRelationTuplesRequest{RelationQuery: q.rq}
		if q.dep != nil {
			req.Query = &rts.DeleteRelationTuplesRequest_Query{Namespace: q.dep.Namespace, Object: q.dep.Object, Relation: q.dep.Relation, Subject: q.dep.Subject} //nolint:staticcheck
		}
		return &c13Req{Name: "WriteService.DeleteRelationTuples", Msg: req, GRPC: func(c *apih.Client, ctx context.Context) (proto.Message, error) {
			return c.S.WriteC.DeleteRelationTuples(ctx, req)
		}}
	}})

	// --- TransactRelationTuples
	fams = append(fams, &c13Family{Route: "grpc-transact", Fields: c13Dedupe([]c13Field{
		c13F("shape", "single", []string{"single", "valid-then-delta", "delta-then-valid"}, "empty", "1000-deltas", "same-twice", "insert-and-delete-same", "nil-delta"),
		c13F("action", "insert", []string{"unspecified", "insert", "delete", "unknown-99"}, "negative"),
		c13F("relation_tuple", "present", []string{"present", "absent"}),
		c13F("namespace", "valid", []string{"valid", "unknown"}, "empty", "oversized"),
		c13F("object", "valid", c13Pick(thorough, []string{"valid"}, []string{"empty"}), "empty", "oversized"),
		c13F("relation", "valid", []string{"valid"}, "empty", "unknown", "oversized"),
		c13F("subject", "id", subjCore, c13SubjectAll...),
	}), Build: func(ch map[string]string) *c13Req {
		d := &rts.RelationTupleDelta{}
		switch ch["action"] {
		case "insert":
			d.Action = rts.RelationTupleDelta_ACTION_INSERT
		case "delete":
			d.Action = rts.RelationTupleDelta_ACTION_DELETE
		case "unknown-99":
			d.Action = 99
		case "negative":
			d.Action = -1
		}
		if ch["relation_tuple"] == "present" {
			d.RelationTuple = c13PTuple(ch)
			if ch["object"] == "valid" {
				d.RelationTuple.Object = "d7" // a new tuple
			}
		}
		v := &rts.RelationTupleDelta{Action: rts.RelationTupleDelta_ACTION_INSERT, RelationTuple: &rts.RelationTuple{Namespace: c13NS, Object: "d8", Relation: c13Rel, Subject: c13PSubject("id")}}
		req := &rts.TransactRelationTuplesRequest{}
		switch ch["shape"] {
		case "single":
			req.RelationTupleDeltas = []*rts.RelationTupleDelta{d}
		case "valid-then-delta":
			req.RelationTupleDeltas = []*rts.RelationTupleDelta{v, d}
		case "delta-then-valid":
			req.RelationTupleDeltas = []*rts.RelationTupleDelta{d, v}
		case "empty":
		case "1000-deltas":
			if proto.Size(d) > 16<<10 {
				return nil // 1000 x 1 MiB: outside the enumerated size bound (skipped)
			}
			for i := 0; i < 1000; i++ {
				req.RelationTupleDeltas = append(req.RelationTupleDeltas, d)
			}
		case "same-twice":
			req.RelationTupleDeltas = []*rts.RelationTupleDelta{d, d}
		case "insert-and-delete-same":
			d2 := proto.Clone(d).(*rts.RelationTupleDelta)
			d2.Action = rts.RelationTupleDelta_ACTION_DELETE
			req.RelationTupleDeltas = []*rts.RelationTupleDelta{d, d2}
		case "nil-delta":
			req.RelationTupleDeltas = []*rts.RelationTupleDelta{v, nil}
		}
		return &c13Req{Name: "WriteService.TransactRelationTuples", Msg: req, GRPC: func(c *apih.Client, ctx context.Context) (proto.Message, error) {
			return c.S.WriteC.TransactRelationTuples(ctx, req)
		}}
	}})

	// --- syntax check
	fams = append(fams, &c13Family{Route: "grpc-syntax", Fields: []c13Field{
		c13F("content", "valid", []string{"valid"}, "none", "empty", "garbage", "json", "1MiB-a", "1MiB-open-paren", "1MiB-open-brace", "deep-class-nesting", "invalid-utf8", "nul-bytes", "unterminated-string", "unterminated-comment", "only-keyword", "huge-number", "bom", "crlf", "10000-classes", "long-identifier", "cyclic-subjectset-type-traversed", "mutually-cyclic-subjectset-types", "self-referential-permission", "forward-references"),
	}, Build: func(ch map[string]string) *c13Req {
		req := &oplv1.CheckRequest{Content: c13OPLContent(ch["content"])}
		return &c13Req{Name: "SyntaxService.Check", Msg: &oplv1.CheckRequest{Content: []byte(c13Clip(string(req.Content), 200))}, GRPC: func(c *apih.Client, ctx context.Context) (proto.Message, error) { return c.S.SyntaxC.Check(ctx, req) }}
	}})

	// --- every service on every port (a service the port does not serve must answer Unimplemented, not Internal)
	fams = append(fams, &c13Family{Route: "grpc-service-port", Fields: []c13Field{
		c13F("service", "namespaces", []string{"check", "batchcheck", "expand", "list", "transact", "delete", "namespaces", "version", "syntax", "health", "unknown-method"}),
		c13F("port", "read", []string{"read", "write", "syntax"}),
		c13F("message", "valid", []string{"valid", "empty"}),
	}, Build: func(ch map[string]string) *c13Req {
		api := map[string]apih.API{"read": apih.Read, "write": apih.Write, "syntax": apih.Syntax}[ch["port"]]
		var method string
		var req, resp proto.Message
		empty := ch["message"] == "empty"
		switch ch["service"] {
		case "check":
			method, req, resp = "/ory.keto.relation_tuples.v1alpha2.CheckService/Check", &rts.CheckRequest{Tuple: validT()}, &rts.CheckResponse{}
			if empty {
				req = &rts.CheckRequest{}
			}
		case "batchcheck":
			method, req, resp = "/ory.keto.relation_tuples.v1alpha2.CheckService/BatchCheck", &rts.BatchCheckRequest{Tuples: []*rts.RelationTuple{validT()}}, &rts.BatchCheckResponse{}
			if empty {
				req = &rts.BatchCheckRequest{}
			}
		case "expand":
			method, req, resp = "/ory.keto.relation_tuples.v1alpha2.ExpandService/Expand", &rts.ExpandRequest{Subject: c13PSubject("set")}, &rts.ExpandResponse{}
			// (the empty ExpandRequest is the family grpc-expand, subject absent)
		case "list":
			method, req, resp = "/ory.keto.relation_tuples.v1alpha2.ReadService/ListRelationTuples", &rts.ListRelationTuplesRequest{RelationQuery: &rts.RelationQuery{Namespace: proto.String(c13NS)}}, &rts.ListRelationTuplesResponse{}
			if empty {
				req = &rts.ListRelationTuplesRequest{}
			}
		case "transact":
			method, req, resp = "/ory.keto.relation_tuples.v1alpha2.WriteService/TransactRelationTuples", &rts.TransactRelationTuplesRequest{RelationTupleDeltas: []*rts.RelationTupleDelta{{Action: rts.RelationTupleDelta_ACTION_INSERT, RelationTuple: validT()}}}, &rts.TransactRelationTuplesResponse{}
			if empty {
				req = &rts.TransactRelationTuplesRequest{}
			}
		case "delete":
			method, req, resp = "/ory.keto.relation_tuples.v1alpha2.WriteService/DeleteRelationTuples", &rts.DeleteRelationTuplesRequest{RelationQuery: &rts.RelationQuery{Namespace: proto.String(c13NS), Object: proto.String("never-seen-object")}}, &rts.DeleteRelationTuplesResponse{}
			if empty {
				req = &rts.DeleteRelationTuplesRequest{}
			}
		case "namespaces":
			method, req, resp = "/ory.keto.relation_tuples.v1alpha2.NamespacesService/ListNamespaces", &rts.ListNamespacesRequest{}, &rts.ListNamespacesResponse{}
		case "version":
			method, req, resp = "/ory.keto.relation_tuples.v1alpha2.VersionService/GetVersion", &rts.GetVersionRequest{}, &rts.GetVersionResponse{}
		case "syntax":
			method, req, resp = "/ory.keto.opl.v1alpha1.SyntaxService/Check", &oplv1.CheckRequest{Content: []byte(c08OPL)}, &oplv1.CheckResponse{}
			if empty {
				req = &oplv1.CheckRequest{}
			}
		case "health":
			method, req, resp = "/grpc.health.v1.Health/Check", &grpc_health_v1.HealthCheckRequest{}, &grpc_health_v1.HealthCheckResponse{}
			if !empty {
				req = &grpc_health_v1.HealthCheckRequest{Service: "no-such-service"}
			}
		case "unknown-method":
			method, req, resp = "/ory.keto.relation_tuples.v1alpha2.CheckService/NoSuchMethod", &rts.CheckRequest{}, &rts.CheckResponse{}
		}
		return &c13Req{Name: method + " on the " + ch["port"] + " port", Msg: req, GRPC: func(c *apih.Client, ctx context.Context) (proto.Message, error) {
			err := c.S.Conn(api).Invoke(ctx, method, req, resp)
			return resp, err
		}}
	}})
	return fams
}

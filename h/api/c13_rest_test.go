//go:build sqlite

// C13 — REST request families (see c13_test.go).
package api

import (
	"net/url"
	"strings"

	"github.com/ory/keto/verif/apih"
)

const (
	c13NS, c13Obj, c13Rel, c13Sub = "Doc", "d1", "viewers", "u1"
	c13BadNS                      = "Nope"
)

var c13Big = strings.Repeat("a", 1<<20)

func c13F(name, def string, core []string, extra ...string) c13Field {
	all := append(append([]string{}, core...), extra...)
	return c13Field{Name: name, Choices: all, Core: core, Default: def}
}

// c13Pick: the core list of a field is base+more in both tiers (the tiers differ
// in the enumeration: thorough adds all pairs of full choice lists). The split
// documents which choices are the essential ones.
func c13Pick(_ bool, base, more []string) []string {
	return append(append([]string{}, base...), more...)
}

// ---- JSON fragments ------------------------------------------------------------------

// c13JSONStr renders `"name":<value>` for a string-typed field under a choice ("" = absent).
func c13JSONStr(name, choice, valid, unknown string) string {
	k := `"` + name + `":`
	switch choice {
	case "absent":
		return ""
	case "null":
		return k + "null"
	case "empty":
		return k + `""`
	case "valid":
		return k + `"` + valid + `"`
	case "unknown":
		return k + `"` + unknown + `"`
	case "number":
		return k + "123"
	case "negative":
		return k + "-1"
	case "huge":
		return k + "1e400"
	case "object":
		return k + `{"a":1}`
	case "array-null":
		return k + "[null]"
	case "bool":
		return k + "true"
	case "oversized":
		return k + `"` + c13Big + `"`
	case "dup":
		return k + `"` + valid + `",` + k + `"zzz"`
	case "dup-null-last":
		return k + `"` + valid + `",` + k + "null"
	}
	panic("c13: json string choice " + choice)
}

var c13StrStar = []string{"number", "negative", "huge", "object", "array-null", "bool", "oversized", "dup", "dup-null-last"}

func c13JSONSubjectSet(choice string) string {
	k := `"subject_set":`
	switch choice {
	case "absent":
		return ""
	case "null":
		return k + "null"
	case "empty-object":
		return k + "{}"
	case "valid":
		return k + `{"namespace":"Group","object":"g1","relation":"members"}`
	case "unknown-ns":
		return k + `{"namespace":"Nope","object":"g1","relation":"members"}`
	case "partial":
		return k + `{"namespace":"Group"}`
	case "fields-null":
		return k + `{"namespace":null,"object":null,"relation":null}`
	case "string":
		return k + `"Group:g1#members"`
	case "number":
		return k + "7"
	case "array-null":
		return k + "[null]"
	case "array":
		return k + `[{"namespace":"Group","object":"g1","relation":"members"}]`
	case "field-wrong-type":
		return k + `{"namespace":1,"object":{"a":1},"relation":[null]}`
	case "oversized-object":
		return k + `{"namespace":"Group","object":"` + c13Big + `","relation":"members"}`
	case "dup":
		return k + `{"namespace":"Group","object":"g1","relation":"members"},` + k + "null"
	case "dup-inner":
		return k + `{"namespace":"Group","namespace":"Nope","object":"g1","relation":"members"}`
	}
	panic("c13: subject_set choice " + choice)
}

func c13JoinObj(frags ...string) string {
	var p []string
	for _, f := range frags {
		if f != "" {
			p = append(p, f)
		}
	}
	return "{" + strings.Join(p, ",") + "}"
}

// c13TupleJSON renders a tuple object from the five field choices.
func c13TupleJSON(ch map[string]string) string {
	return c13JoinObj(
		c13JSONStr("namespace", ch["namespace"], c13NS, c13BadNS),
		c13JSONStr("object", ch["object"], c13Obj, "never-seen-object"),
		c13JSONStr("relation", ch["relation"], c13Rel, "undeclared"),
		c13JSONStr("subject_id", ch["subject_id"], c13Sub, "never-seen-subject"),
		c13JSONSubjectSet(ch["subject_set"]),
	)
}

const c13ValidTuple = `{"namespace":"Doc","object":"d1","relation":"viewers","subject_id":"u1"}`
const c13NewTuple = `{"namespace":"Doc","object":"d9","relation":"viewers","subject_id":"u9"}`

func c13TupleFields(thorough bool) []c13Field {
	return []c13Field{
		c13F("namespace", "valid", c13Pick(thorough, []string{"absent", "null", "empty", "valid", "unknown"}, []string{"number"}), append([]string{"number"}, c13StrStar...)...),
		c13F("object", "valid", c13Pick(thorough, []string{"absent", "empty", "valid"}, []string{"null"}), append([]string{"null", "unknown"}, c13StrStar...)...),
		c13F("relation", "valid", c13Pick(thorough, []string{"absent", "empty", "valid"}, []string{"null"}), append([]string{"null", "unknown"}, c13StrStar...)...),
		c13F("subject_id", "valid", c13Pick(thorough, []string{"absent", "null", "empty", "valid"}, []string{"number"}), append([]string{"unknown"}, c13StrStar...)...),
		c13F("subject_set", "absent", c13Pick(thorough, []string{"absent", "null", "valid", "unknown-ns"}, []string{"empty-object", "partial"}),
			"empty-object", "partial", "string", "fields-null", "array-null", "number", "array", "field-wrong-type", "oversized-object", "dup", "dup-inner"),
	}
}

// c13BodyShapes: body-level shapes; "object" means "built from the fields".
var c13BodyShapes = []string{"none", "empty", "null", "empty-array", "empty-object", "string", "number", "true", "truncated", "trailing-garbage", "deep-nesting", "bom", "array-of-one", "spaces-1MiB", "invalid-utf8", "nul-byte", "two-documents", "unknown-field", "keys-upper-case"}

func c13BodyShape(choice, object string) []byte {
	switch choice {
	case "object":
		return []byte(object)
	case "none":
		return nil
	case "empty":
		return []byte{}
	case "null":
		return []byte("null")
	case "empty-array":
		return []byte("[]")
	case "empty-object":
		return []byte("{}")
	case "string":
		return []byte(`"namespace"`)
	case "number":
		return []byte("123")
	case "true":
		return []byte("true")
	case "truncated":
		return []byte(object[:len(object)/2])
	case "trailing-garbage":
		return []byte(object + "x")
	case "deep-nesting":
		return []byte(strings.Repeat("[", 100000))
	case "bom":
		return []byte("\xef\xbb\xbf" + object)
	case "array-of-one":
		return []byte("[" + object + "]")
	case "spaces-1MiB":
		return []byte(strings.Repeat(" ", 1<<20) + object)
	case "invalid-utf8":
		return []byte(strings.Replace(object, `"d1"`, "\"d\xff\xfe1\"", 1))
	case "nul-byte":
		return []byte(strings.Replace(object, `"d1"`, "\"d\x001\"", 1))
	case "two-documents":
		return []byte(object + " " + object)
	case "unknown-field":
		return []byte(strings.Replace(object, "{", `{"bogus":{"x":[1,null]},`, 1))
	case "keys-upper-case":
		return []byte(strings.NewReplacer(`"namespace"`, `"NAMESPACE"`, `"object"`, `"OBJECT"`, `"tuples"`, `"TUPLES"`, `"action"`, `"ACTION"`).Replace(object))
	}
	panic("c13: body shape " + choice)
}

// ---- query-string fragments ---------------------------------------------------------------------

func c13QP(name, choice, valid, unknown string) string {
	switch choice {
	case "absent":
		return ""
	case "empty":
		return name + "="
	case "valid":
		return name + "=" + url.QueryEscape(valid)
	case "unknown":
		return name + "=" + url.QueryEscape(unknown)
	case "oversized":
		return name + "=" + c13Big
	case "dup":
		return name + "=" + url.QueryEscape(valid) + "&" + name + "=zzz"
	case "dup-empty-first":
		return name + "=&" + name + "=" + url.QueryEscape(valid)
	case "no-value":
		return name
	case "bad-escape":
		return name + "=%zz"
	case "nul":
		return name + "=%00"
	case "invalid-utf8":
		return name + "=%ff%fe"
	case "array-syntax":
		return name + "[]=" + url.QueryEscape(valid)
	}
	panic("c13: query param choice " + choice)
}

var c13QPStar = []string{"oversized", "dup", "dup-empty-first", "no-value", "bad-escape", "nul", "invalid-utf8", "array-syntax"}

func c13QSubjectSet(choice string) string {
	switch choice {
	case "absent":
		return ""
	case "valid":
		return "subject_set.namespace=Group&subject_set.object=g1&subject_set.relation=members"
	case "unknown-ns":
		return "subject_set.namespace=Nope&subject_set.object=g1&subject_set.relation=members"
	case "partial":
		return "subject_set.namespace=Group"
	case "empties":
		return "subject_set.namespace=&subject_set.object=&subject_set.relation="
	case "partial-object-relation":
		return "subject_set.object=g1&subject_set.relation=members"
	case "dup":
		return "subject_set.namespace=Group&subject_set.namespace=Nope&subject_set.object=g1&subject_set.relation=members"
	case "oversized-object":
		return "subject_set.namespace=Group&subject_set.object=" + c13Big + "&subject_set.relation=members"
	}
	panic("c13: query subject_set choice " + choice)
}

func c13QNum(name, choice string) string {
	switch choice {
	case "absent":
		return ""
	case "empty":
		return name + "="
	case "zero":
		return name + "=0"
	case "one":
		return name + "=1"
	case "two":
		return name + "=2"
	case "negative":
		return name + "=-1"
	case "huge":
		return name + "=9223372036854775807"
	case "overflow":
		return name + "=99999999999999999999999999"
	case "min-int":
		return name + "=-9223372036854775808"
	case "abc":
		return name + "=abc"
	case "float":
		return name + "=1.5"
	case "hex":
		return name + "=0x10"
	case "exp":
		return name + "=1e3"
	case "plus":
		return name + "=%2B1"
	case "space":
		return name + "=+1"
	case "dup":
		return name + "=1&" + name + "=abc"
	case "dup-bad-first":
		return name + "=abc&" + name + "=1"
	case "oversized":
		return name + "=" + strings.Repeat("9", 1<<20)
	case "99999":
		return name + "=99999"
	}
	panic("c13: numeric param choice " + choice)
}

var c13NumAll = []string{"absent", "empty", "zero", "one", "two", "negative", "huge", "overflow", "min-int", "abc", "float", "hex", "exp", "plus", "space", "dup", "dup-bad-first", "oversized", "99999"}

func c13QExtra(choice string) string {
	switch choice {
	case "none":
		return ""
	case "dropped-subject-key":
		return "subject=u1"
	case "unknown-param":
		return "bogus=1"
	case "empty-pair":
		return "&&"
	case "only-equals":
		return "="
	case "percent":
		return "%"
	case "semicolon":
		return "a=1;b=2"
	case "long-1MiB":
		return "x=" + c13Big
	case "many-params":
		return strings.Repeat("p=1&", 20000) + "p=1"
	case "question-mark":
		return "?"
	}
	panic("c13: extra query choice " + choice)
}

var c13ExtraAll = []string{"none", "dropped-subject-key", "unknown-param", "empty-pair", "only-equals", "percent", "semicolon", "long-1MiB", "many-params", "question-mark"}

func c13Target(path string, parts ...string) string {
	var p []string
	for _, x := range parts {
		if x != "" {
			p = append(p, x)
		}
	}
	if len(p) == 0 {
		return path
	}
	return path + "?" + strings.Join(p, "&")
}

func c13Rest(api apih.API, method, target string, body []byte) *c13Req {
	if !c13ValidRequestLine(method, target) {
		return nil
	}
	return &c13Req{API: api, Method: method, Target: target, Body: body}
}

// ---- families ------------------------------------------------------------------------------------------

func c13RestFamilies(thorough bool) []*c13Family {
	var fams []*c13Family
	depthCore := c13Pick(thorough, []string{"absent", "abc"}, []string{"one"})

	// --- JSON tuple bodies: PUT create, POST check (mirror / openapi)
	type tb struct {
		route, method, path string
		api                 apih.API
		depth               bool
		valid               string
	}
	for _, r := range []tb{
		{"rest-create", "PUT", apih.RouteAdmin, apih.Write, false, c13NewTuple},
		{"rest-check-post", "POST", apih.RouteCheck, apih.Read, true, c13ValidTuple},
		{"rest-check-openapi-post", "POST", apih.RouteCheckOAPI, apih.Read, true, c13ValidTuple},
	} {
		r := r
		fields := append([]c13Field{c13F("body", "object", []string{"object"}, c13BodyShapes...)}, c13TupleFields(thorough)...)
		if r.depth {
			fields = append(fields, c13F("max-depth", "absent", depthCore, c13NumAll...))
		}
		fams = append(fams, &c13Family{Route: r.route, Fields: c13Dedupe(fields), Build: func(ch map[string]string) *c13Req {
			obj := c13TupleJSON(ch)
			q := ""
			if r.depth {
				q = c13QNum("max-depth", ch["max-depth"])
			}
			return c13Rest(r.api, r.method, c13Target(r.path, q), c13BodyShape(ch["body"], obj))
		}})
	}

	// --- PATCH
	fams = append(fams, &c13Family{Route: "rest-patch", Fields: []c13Field{
		c13F("shape", "single", []string{"single", "valid-then-delta", "delta-then-valid"},
			"none", "empty", "null", "empty-array", "array-null", "valid-then-null", "null-then-valid", "nested-array", "array-number", "array-string", "object", "string", "truncated", "1000-deltas", "same-insert-twice", "insert-and-delete-same", "delete-unknown-tuple", "deep-nesting"),
		c13F("action", "insert", []string{"absent", "null", "empty", "insert", "delete", "unknown", "number", "upper-case"}, "object", "array-null", "oversized", "dup"),
		c13F("relation_tuple", "valid", []string{"absent", "null", "empty-object", "valid", "no-subject", "unknown-ns", "string", "array", "both-subjects", "subject-set-null", "unknown-subject-set-ns"},
			"number", "namespace-null", "object-null", "object-number", "subject-id-number", "subject-set-string", "subject-set-partial", "oversized-object", "dup-key"),
	}, Build: func(ch map[string]string) *c13Req {
		var act string
		k := `"action":`
		switch ch["action"] {
		case "absent":
		case "null":
			act = k + "null"
		case "empty":
			act = k + `""`
		case "insert", "delete":
			act = k + `"` + ch["action"] + `"`
		case "unknown":
			act = k + `"upsert"`
		case "number":
			act = k + "1"
		case "upper-case":
			act = k + `"INSERT"`
		case "object":
			act = k + `{"a":1}`
		case "array-null":
			act = k + "[null]"
		case "oversized":
			act = k + `"` + c13Big + `"`
		case "dup":
			act = k + `"insert",` + k + `"delete"`
		}
		k = `"relation_tuple":`
		var rt string
		switch ch["relation_tuple"] {
		case "absent":
		case "null":
			rt = k + "null"
		case "empty-object":
			rt = k + "{}"
		case "valid":
			rt = k + c13NewTuple
		case "no-subject":
			rt = k + `{"namespace":"Doc","object":"d9","relation":"viewers"}`
		case "unknown-ns":
			rt = k + `{"namespace":"Nope","object":"d9","relation":"viewers","subject_id":"u9"}`
		case "string":
			rt = k + `"Doc:d9#viewers@u9"`
		case "array":
			rt = k + "[" + c13NewTuple + "]"
		case "both-subjects":
			rt = k + `{"namespace":"Doc","object":"d9","relation":"viewers","subject_id":"u9","subject_set":{"namespace":"Group","object":"g1","relation":"members"}}`
		case "subject-set-null":
			rt = k + `{"namespace":"Doc","object":"d9","relation":"viewers","subject_set":null}`
		case "unknown-subject-set-ns":
			rt = k + `{"namespace":"Doc","object":"d9","relation":"viewers","subject_set":{"namespace":"Nope","object":"g1","relation":"members"}}`
		case "number":
			rt = k + "5"
		case "namespace-null":
			rt = k + `{"namespace":null,"object":"d9","relation":"viewers","subject_id":"u9"}`
		case "object-null":
			rt = k + `{"namespace":"Doc","object":null,"relation":"viewers","subject_id":"u9"}`
		case "object-number":
			rt = k + `{"namespace":"Doc","object":9,"relation":"viewers","subject_id":"u9"}`
		case "subject-id-number":
			rt = k + `{"namespace":"Doc","object":"d9","relation":"viewers","subject_id":9}`
		case "subject-set-string":
			rt = k + `{"namespace":"Doc","object":"d9","relation":"viewers","subject_set":"Group:g1#members"}`
		case "subject-set-partial":
			rt = k + `{"namespace":"Doc","object":"d9","relation":"viewers","subject_set":{"namespace":"Group"}}`
		case "oversized-object":
			rt = k + `{"namespace":"Doc","object":"` + c13Big + `","relation":"viewers","subject_id":"u9"}`
		case "dup-key":
			rt = k + c13NewTuple + "," + k + "null"
		}
		d := c13JoinObj(act, rt)
		v := `{"action":"insert","relation_tuple":{"namespace":"Doc","object":"d8","relation":"viewers","subject_id":"u8"}}`
		var body []byte
		switch ch["shape"] {
		case "single":
			body = []byte("[" + d + "]")
		case "valid-then-delta":
			body = []byte("[" + v + "," + d + "]")
		case "delta-then-valid":
			body = []byte("[" + d + "," + v + "]")
		case "none":
			body = nil
		case "empty":
			body = []byte{}
		case "null":
			body = []byte("null")
		case "empty-array":
			body = []byte("[]")
		case "array-null":
			body = []byte("[null]")
		case "valid-then-null":
			body = []byte("[" + v + ",null]")
		case "null-then-valid":
			body = []byte("[null," + v + "]")
		case "nested-array":
			body = []byte("[[" + v + "]]")
		case "array-number":
			body = []byte("[1]")
		case "array-string":
			body = []byte(`["insert"]`)
		case "object":
			body = []byte(d)
		case "string":
			body = []byte(`"x"`)
		case "truncated":
			body = []byte("[" + d[:len(d)/2])
		case "1000-deltas":
			if len(d) > 16<<10 {
				return nil // 1000 x 1 MiB: a gigabyte body is outside the enumerated size bound (skipped)
			}
			body = []byte("[" + strings.Repeat(d+",", 999) + d + "]")
		case "same-insert-twice":
			body = []byte("[" + d + "," + d + "]")
		case "insert-and-delete-same":
			body = []byte("[" + d + "," + strings.Replace(d, `"insert"`, `"delete"`, 1) + "]")
		case "delete-unknown-tuple":
			body = []byte(`[{"action":"delete","relation_tuple":{"namespace":"Doc","object":"never","relation":"viewers","subject_id":"never"}}]`)
		case "deep-nesting":
			body = []byte(strings.Repeat("[", 100000))
		}
		return c13Rest(apih.Write, "PATCH", apih.RouteAdmin, body)
	}})

	// --- batch check
	fams = append(fams, &c13Family{Route: "rest-batch-check", Fields: []c13Field{
		c13F("tuples", "one-valid", []string{"absent", "null", "empty-array", "one-valid", "two-valid", "duplicate", "null-element", "valid-then-null", "null-then-valid", "two-nulls", "object", "string", "number", "array-number", "array-string", "nested-array", "empty-tuple", "no-subject", "unknown-ns", "unknown-subject-set-ns", "subject-set-null", "field-wrong-type", "max", "max+1", "10000", "oversized-object"}, "dup-key-null-last", "dup-key-valid-last"),
		c13F("max-depth", "absent", []string{"absent", "empty", "zero", "one", "negative", "99999", "abc", "overflow", "float", "dup"}, c13NumAll...),
		c13F("envelope", "plain", []string{"plain", "unknown-field"}, "none", "empty", "null", "empty-array", "string", "truncated", "trailing-garbage", "deep-nesting", "keys-upper-case"),
	}, Build: func(ch map[string]string) *c13Req {
		v, v2 := c13ValidTuple, `{"namespace":"Doc","object":"d1","relation":"viewers","subject_id":"nobody"}`
		var tv string
		rep := func(n int) string { return "[" + strings.Repeat(v+",", n-1) + v + "]" }
		switch ch["tuples"] {
		case "absent":
		case "null":
			tv = "null"
		case "empty-array":
			tv = "[]"
		case "one-valid":
			tv = "[" + v + "]"
		case "two-valid":
			tv = "[" + v + "," + v2 + "]"
		case "duplicate":
			tv = "[" + v + "," + v + "]"
		case "null-element":
			tv = "[null]"
		case "valid-then-null":
			tv = "[" + v + ",null]"
		case "null-then-valid":
			tv = "[null," + v + "]"
		case "two-nulls":
			tv = "[null,null]"
		case "object":
			tv = v
		case "string":
			tv = `"x"`
		case "number":
			tv = "1"
		case "array-number":
			tv = "[1]"
		case "array-string":
			tv = `["Doc:d1#viewers@u1"]`
		case "nested-array":
			tv = "[[" + v + "]]"
		case "empty-tuple":
			tv = "[{}]"
		case "no-subject":
			tv = `[{"namespace":"Doc","object":"d1","relation":"viewers"}]`
		case "unknown-ns":
			tv = `[{"namespace":"Nope","object":"d1","relation":"viewers","subject_id":"u1"}]`
		case "unknown-subject-set-ns":
			tv = `[{"namespace":"Doc","object":"d1","relation":"viewers","subject_set":{"namespace":"Nope","object":"g","relation":"m"}}]`
		case "subject-set-null":
			tv = `[{"namespace":"Doc","object":"d1","relation":"viewers","subject_set":null}]`
		case "field-wrong-type":
			tv = `[{"namespace":1,"object":"d1","relation":"viewers","subject_id":"u1"}]`
		case "max":
			tv = rep(10)
		case "max+1":
			tv = rep(11)
		case "10000":
			tv = rep(10000)
		case "oversized-object":
			tv = `[{"namespace":"Doc","object":"` + c13Big + `","relation":"viewers","subject_id":"u1"}]`
		case "dup-key-null-last": // the decoder keeps the last value of a repeated key
			tv = "[" + v + `],"tuples":[null]`
		case "dup-key-valid-last":
			tv = `[null],"tuples":[` + v + "]"
		}
		k := `"tuples":`
		frag := ""
		if ch["tuples"] != "absent" {
			frag = k + tv
		}
		obj := c13JoinObj(frag)
		var body []byte
		switch ch["envelope"] {
		case "plain":
			body = []byte(obj)
		case "unknown-field":
			body = []byte(c13JoinObj(`"bogus":[null]`, frag))
		default:
			body = c13BodyShape(ch["envelope"], obj)
		}
		return c13Rest(apih.Read, "POST", c13Target(apih.RouteBatchCheck, c13QNum("max-depth", ch["max-depth"])), body)
	}})

	// --- query-string routes
	nsCore := []string{"absent", "empty", "valid", "unknown"}
	objCore := c13Pick(thorough, []string{"absent", "valid"}, []string{"empty"})
	relCore := []string{"absent", "valid"}
	sidCore := []string{"absent", "empty", "valid"}
	ssCore := []string{"absent", "valid", "unknown-ns", "partial", "empties"}
	ssAll := []string{"partial-object-relation", "dup", "oversized-object"}
	qfields := func() []c13Field {
		return []c13Field{
			c13F("namespace", "valid", nsCore, c13QPStar...),
			c13F("object", "valid", objCore, append([]string{"empty", "unknown"}, c13QPStar...)...),
			c13F("relation", "valid", relCore, append([]string{"empty", "unknown"}, c13QPStar...)...),
			c13F("subject_id", "valid", sidCore, append([]string{"unknown"}, c13QPStar...)...),
			c13F("subject_set", "absent", ssCore, ssAll...),
		}
	}
	qparts := func(ch map[string]string) []string {
		return []string{
			c13QP("namespace", ch["namespace"], c13NS, c13BadNS),
			c13QP("object", ch["object"], c13Obj, "never-seen-object"),
			c13QP("relation", ch["relation"], c13Rel, "undeclared"),
			c13QP("subject_id", ch["subject_id"], c13Sub, "never-seen-subject"),
			c13QSubjectSet(ch["subject_set"]),
		}
	}
	// list
	{
		f := qfields()
		f = append(f,
			c13F("page_size", "absent", c13Pick(thorough, []string{"absent", "one", "negative"}, []string{"empty", "zero", "abc", "huge", "overflow", "min-int"}), c13NumAll...),
			c13F("page_token", "absent", c13Pick(thorough, []string{"absent", "garbage"}, []string{"valid-uuid"}), "empty", "valid-uuid", "oversized", "nil-uuid", "dup", "upper-case-uuid"),
			c13F("extra", "none", []string{"none"}, c13ExtraAll...),
		)
		fams = append(fams, &c13Family{Route: "rest-list", Fields: c13Dedupe(f), Build: func(ch map[string]string) *c13Req {
			tok := ""
			switch ch["page_token"] {
			case "empty":
				tok = "page_token="
			case "garbage":
				tok = "page_token=zzz"
			case "valid-uuid":
				tok = "page_token=5ca1ab1e-0000-4000-8000-00000000beef"
			case "oversized":
				tok = "page_token=" + c13Big
			case "nil-uuid":
				tok = "page_token=00000000-0000-0000-0000-000000000000"
			case "dup":
				tok = "page_token=5ca1ab1e-0000-4000-8000-00000000beef&page_token=zzz"
			case "upper-case-uuid":
				tok = "page_token=5CA1AB1E-0000-4000-8000-00000000BEEF"
			}
			return c13Rest(apih.Read, "GET", c13Target(apih.RouteList, append(qparts(ch), c13QNum("page_size", ch["page_size"]), tok, c13QExtra(ch["extra"]))...), nil)
		}})
	}
	// check GET x2
	for _, r := range []struct{ route, path string }{{"rest-check-get", apih.RouteCheck}, {"rest-check-openapi-get", apih.RouteCheckOAPI}} {
		r := r
		f := append(qfields(), c13F("max-depth", "absent", depthCore, c13NumAll...), c13F("extra", "none", []string{"none"}, c13ExtraAll...))
		fams = append(fams, &c13Family{Route: r.route, Fields: c13Dedupe(f), Build: func(ch map[string]string) *c13Req {
			return c13Rest(apih.Read, "GET", c13Target(r.path, append(qparts(ch), c13QNum("max-depth", ch["max-depth"]), c13QExtra(ch["extra"]))...), nil)
		}})
	}
	// expand
	fams = append(fams, &c13Family{Route: "rest-expand", Fields: c13Dedupe([]c13Field{
		c13F("namespace", "valid", nsCore, c13QPStar...),
		c13F("object", "valid", []string{"absent", "empty", "valid", "unknown"}, c13QPStar...),
		c13F("relation", "valid", []string{"absent", "empty", "valid", "unknown"}, c13QPStar...),
		c13F("max-depth", "absent", c13Pick(thorough, []string{"absent", "zero", "one", "negative", "abc", "overflow"}, []string{"empty", "two", "99999", "huge"}), c13NumAll...),
		c13F("extra", "none", c13Pick(thorough, []string{"none"}, []string{"unknown-param"}), c13ExtraAll...),
	}), Build: func(ch map[string]string) *c13Req {
		return c13Rest(apih.Read, "GET", c13Target(apih.RouteExpand,
			c13QP("namespace", ch["namespace"], c13NS, c13BadNS), c13QP("object", ch["object"], c13Obj, "never-seen-object"), c13QP("relation", ch["relation"], c13Rel, "undeclared"),
			c13QNum("max-depth", ch["max-depth"]), c13QExtra(ch["extra"])), nil)
	}})
	// delete
	{
		f := append(qfields(),
			c13F("body", "none", c13Pick(thorough, []string{"none"}, []string{"json"}), "json", "empty", "one-byte", "1MiB"),
			c13F("extra", "none", []string{"none", "unknown-param", "dropped-subject-key"}, c13ExtraAll...))
		// default vector deletes nothing that exists? it deletes Doc:d1#viewers@u1 -> a successful delete, then the worker re-seeds
		fams = append(fams, &c13Family{Route: "rest-delete", Fields: c13Dedupe(f), Build: func(ch map[string]string) *c13Req {
			var body []byte
			switch ch["body"] {
			case "json":
				body = []byte(c13ValidTuple)
			case "empty":
				body = []byte{}
			case "one-byte":
				body = []byte("x")
			case "1MiB":
				body = []byte(c13Big)
			}
			return c13Rest(apih.Write, "DELETE", c13Target(apih.RouteAdmin, append(qparts(ch), c13QExtra(ch["extra"]))...), body)
		}})
	}

	// --- syntax check
	fams = append(fams, &c13Family{Route: "rest-syntax", Fields: []c13Field{
		c13F("content", "valid", []string{"valid"}, "none", "empty", "garbage", "json", "1MiB-a", "1MiB-open-paren", "1MiB-open-brace", "deep-class-nesting", "invalid-utf8", "nul-bytes", "unterminated-string", "unterminated-comment", "only-keyword", "huge-number", "bom", "crlf", "10000-classes", "long-identifier", "cyclic-subjectset-type-traversed", "mutually-cyclic-subjectset-types", "self-referential-permission", "forward-references"),
		c13F("query", "none", []string{"none", "unknown-param"}, c13ExtraAll...),
	}, Build: func(ch map[string]string) *c13Req {
		return c13Rest(apih.Syntax, "POST", c13Target(apih.RouteSyntax, c13QExtra(ch["query"])), c13OPLContent(ch["content"]))
	}})

	// --- every method on every known path of every router
	paths := []string{apih.RouteList, apih.RouteAdmin, apih.RouteCheck, apih.RouteCheckOAPI, apih.RouteBatchCheck, apih.RouteExpand, apih.RouteNamespaces, apih.RouteSyntax,
		"/health/alive", "/health/ready", "/version", "/metrics/prometheus", "/", "/nope"}
	methods := []string{"GET", "HEAD", "POST", "PUT", "PATCH", "DELETE", "OPTIONS", "TRACE", "CONNECT", "FOO"}
	fams = append(fams, &c13Family{Route: "rest-method", Fields: []c13Field{
		c13F("router", "read", []string{"read", "write", "syntax"}),
		c13F("path", apih.RouteNamespaces, paths),
		c13F("method", "GET", methods),
		c13F("body", "none", []string{"none", "tuple"}, "deltas", "batch", "garbage", "1MiB"),
		c13F("query", "tuple", c13Pick(thorough, []string{"tuple"}, []string{"none"}), "none", "subject-set", "garbage"),
	}, Build: func(ch map[string]string) *c13Req {
		api := map[string]apih.API{"read": apih.Read, "write": apih.Write, "syntax": apih.Syntax}[ch["router"]]
		var body []byte
		switch ch["body"] {
		case "tuple":
			body = []byte(c13NewTuple)
		case "deltas":
			body = []byte(`[{"action":"insert","relation_tuple":` + c13NewTuple + `}]`)
		case "batch":
			body = []byte(`{"tuples":[` + c13ValidTuple + `]}`)
		case "garbage":
			body = []byte("\x00\xff{[")
		case "1MiB":
			body = []byte(c13Big)
		}
		q := ""
		switch ch["query"] {
		case "tuple":
			q = "namespace=Doc&object=d1&relation=viewers&subject_id=u1"
		case "subject-set":
			q = "namespace=Doc&object=d1&relation=viewers&subject_set.namespace=Group&subject_set.object=g1&subject_set.relation=members"
		case "garbage":
			q = "%&=&;"
		}
		return c13Rest(api, ch["method"], c13Target(ch["path"], q), body)
	}})

	// --- odd paths
	fams = append(fams, &c13Family{Route: "rest-path", Fields: []c13Field{
		c13F("router", "read", []string{"read", "write", "syntax"}),
		c13F("path", "trailing-slash", []string{"trailing-slash", "double-slash", "upper-case", "check-subpath", "openapi-subpath", "dot-dot", "encoded-slash", "encoded-nul", "long-64KiB", "admin-trailing-slash", "batch-trailing-slash", "star", "health-subpath", "encoded-path", "semicolon-param"}),
		c13F("method", "GET", []string{"GET", "POST", "PUT", "DELETE", "PATCH"}),
	}, Build: func(ch map[string]string) *c13Req {
		api := map[string]apih.API{"read": apih.Read, "write": apih.Write, "syntax": apih.Syntax}[ch["router"]]
		p := map[string]string{
			"trailing-slash": "/relation-tuples/", "double-slash": "//relation-tuples//check", "upper-case": "/RELATION-TUPLES", "check-subpath": "/relation-tuples/check/x",
			"openapi-subpath": "/relation-tuples/check/openapi/", "dot-dot": "/relation-tuples/../admin/relation-tuples", "encoded-slash": "/relation-tuples%2Fcheck", "encoded-nul": "/relation-tuples/%00",
			"long-64KiB": "/" + strings.Repeat("a", 65536), "admin-trailing-slash": "/admin/relation-tuples/", "batch-trailing-slash": "/relation-tuples/batch/check/", "star": "/*",
			"health-subpath": "/health/alive/x", "encoded-path": "/relation%2dtuples", "semicolon-param": "/relation-tuples;x=1",
		}[ch["path"]]
		var body []byte
		if ch["method"] != "GET" && ch["method"] != "DELETE" {
			body = []byte(c13NewTuple)
		}
		return c13Rest(api, ch["method"], c13Target(p, "namespace=Doc&object=d1&relation=viewers&subject_id=u1"), body)
	}})
	return fams
}

// c13Dedupe removes choices listed twice in a field (core + star lists overlap by construction).
func c13Dedupe(fs []c13Field) []c13Field {
	for i := range fs {
		seen := map[string]bool{}
		var all []string
		for _, c := range fs[i].Choices {
			if !seen[c] {
				seen[c] = true
				all = append(all, c)
			}
		}
		fs[i].Choices = all
	}
	return fs
}

func c13OPLContent(choice string) []byte {
	valid := c08OPL
	switch choice {
	case "valid":
		return []byte(valid)
	case "none":
		return nil
	case "empty":
		return []byte{}
	case "garbage":
		return []byte("\x01\x02}{)(*&^%$#@!")
	case "json":
		return []byte(`{"content":"class A implements Namespace {}"}`)
	case "1MiB-a":
		return []byte(c13Big)
	case "1MiB-open-paren":
		return []byte("class A implements Namespace { permits = { p: (ctx: Context): boolean => " + strings.Repeat("(", 1<<20))
	case "1MiB-open-brace":
		return []byte(strings.Repeat("{", 1<<20))
	case "deep-class-nesting":
		return []byte(strings.Repeat("class A implements Namespace { related: { ", 20000))
	case "invalid-utf8":
		return []byte("class A\xff\xfe implements Namespace {}")
	case "nul-bytes":
		return []byte("class A\x00 implements Namespace {}\x00")
	case "unterminated-string":
		return []byte(`import { Namespace } from "@ory/keto-namespace-types`)
	case "unterminated-comment":
		return []byte("/* class A implements Namespace {}")
	case "only-keyword":
		return []byte("class")
	case "huge-number":
		return []byte("class A implements Namespace { related: { r: " + strings.Repeat("9", 100000) + "[] } }")
	case "bom":
		return []byte("\xef\xbb\xbf" + valid)
	case "crlf":
		return []byte(strings.ReplaceAll(valid, "\n", "\r\n"))
	case "10000-classes":
		return []byte(strings.Repeat("class A implements Namespace {}\n", 10000))
	case "cyclic-subjectset-type-traversed":
		// nested groups: the members relation contains subject sets of itself, and a permission traverses it
		return []byte(`import { Namespace, SubjectSet, Context } from "@ory/keto-namespace-types"
class User implements Namespace {}
class Group implements Namespace {
  related: { members: (User | SubjectSet<Group, "members">)[] }
  permits = { view: (ctx: Context): boolean => this.related.members.traverse((m) => m.permits.view(ctx)) }
}`)
	case "mutually-cyclic-subjectset-types":
		return []byte(`import { Namespace, SubjectSet, Context } from "@ory/keto-namespace-types"
class A implements Namespace {
  related: { r: SubjectSet<B, "s">[] }
  permits = { p: (ctx: Context): boolean => this.related.r.traverse((x) => x.related.s.includes(ctx.subject)) }
}
class B implements Namespace {
  related: { s: SubjectSet<A, "r">[] }
  permits = { p: (ctx: Context): boolean => this.related.s.traverse((x) => x.permits.p(ctx)) }
}`)
	case "self-referential-permission":
		return []byte(`import { Namespace, Context } from "@ory/keto-namespace-types"
class A implements Namespace {
  related: { r: A[] }
  permits = { p: (ctx: Context): boolean => this.related.r.includes(ctx.subject) && !this.permits.p(ctx) }
}`)
	case "forward-references":
		return []byte(`import { Namespace, Context } from "@ory/keto-namespace-types"
class A implements Namespace {
  permits = { p: (ctx: Context): boolean => this.permits.q(ctx) || this.related.r.includes(ctx.subject), q: (ctx: Context): boolean => this.related.r.traverse((x) => x.permits.p(ctx)) }
  related: { r: A[] }
}`)
	case "long-identifier":
		return []byte("class " + c13Big + " implements Namespace {}")
	}
	panic("c13: OPL content " + choice)
}

//go:build sqlite

// C05 — multi-relationship writes are atomic and isolated.
//
// Fault / crash / reader-schedule enumeration on the real write handlers
// (REST create, REST PATCH, gRPC Transact, REST / gRPC delete-by-query) and on
// the relationship Manager (TransactRelationTuples called the way an embedder
// does), over file-backed sqlite (WAL) in the run's scratch directory:
//
//	(a) statement faults   N = SQL statements of the fault-free request as seen by
//	                       the sqlfault tap; for EVERY k in 1..N: fail-before
//	                       (statement not executed), fail-after-executing, and
//	                       drop-connection (driver.ErrBadConn)
//	(b) position faults    a tuple without subject / with an unknown namespace /
//	                       with an unknown subject-set namespace at every position
//	                       of small batches and at first, last and chunk
//	                       boundaries +-1 of big ones (Manager: nil Subject)
//	(c) crash points       a worker subprocess (this test binary re-executed with
//	                       -test.run ^TestC05Worker$) is SIGKILLed from inside the
//	                       driver hook before and after executing statement k, for
//	                       every k; the parent reopens the file with a fresh registry
//	(d) concurrent reader  the writer is paused by the driver hook at every
//	                       statement boundary (1..N before the statement, N+1 after
//	                       the request); a reader on a second registry on the same
//	                       database runs List (all pages) + Check to completion;
//	                       every boundary and every pair i <= j; WAL file database
//	                       and the shared-cache in-memory database
//
// Oracle: relationship dump after the request ∈ {before, apply(I,D,before)} and
// = before when the request reported an error; reopened database after a crash
// ∈ {before, after}; every reader observation equals the before- or the
// after-state and successive observations never go after -> before.
package api

import (
	"context"
	"database/sql/driver"
	"encoding/json"
	"errors"
	"fmt"
	"os"
	"os/exec"
	"path/filepath"
	"sort"
	"strings"
	"sync"
	"sync/atomic"
	"syscall"
	"testing"
	"time"

	"github.com/ory/keto/internal/relationtuple"
	"github.com/ory/keto/ketoapi"
	rts "github.com/ory/keto/proto/ory/keto/relation_tuples/v1alpha2"
	"github.com/ory/keto/verif/apih"
	"github.com/ory/keto/verif/ev"
	"github.com/ory/keto/verif/refsem"
	"github.com/ory/keto/verif/sqlfault"
)

const c05Net = "d"

// ---------------------------------------------------------------- requests

type c05Req struct {
	ID   string `json:"id"`
	Kind string `json:"kind"` // rest-create | rest-patch | grpc-transact | rest-delete-query | grpc-delete-query | manager-transact | manager-delete | manager-write
	NI   int    `json:"inserts"`
	ND   int    `json:"deletes"`

	once    sync.Once
	ins     []*ketoapi.RelationTuple
	del     []*ketoapi.RelationTuple
	seed    []*ketoapi.RelationTuple
	query   *ketoapi.RelationQuery
	before  map[refsem.TupleKey]int
	after   map[refsem.TupleKey]int
	beforeC string
	afterC  string
	probeI  *ketoapi.RelationTuple // exists only in the after-state
	probeD  *ketoapi.RelationTuple // exists only in the before-state
	body    []byte                 // REST body of the unmodified request
	deltas  []*rts.RelationTupleDelta
}

func c05Victim(i int) *ketoapi.RelationTuple {
	if i%2 == 1 {
		return axSet("n1", fmt.Sprintf("v%d", i), "vr", "n2", fmt.Sprintf("vg%d", i), "m")
	}
	return axID("n1", fmt.Sprintf("v%d", i), "vr", fmt.Sprintf("vu%d", i))
}

func c05Insert(j int) *ketoapi.RelationTuple {
	if j%7 == 3 {
		return axSet("n1", fmt.Sprintf("i%d", j), "ir", "n2", fmt.Sprintf("ig%d", j), "m")
	}
	return axID("n1", fmt.Sprintf("i%d", j), "ir", fmt.Sprintf("iu%d", j))
}

func c05Bystanders() []*ketoapi.RelationTuple {
	return []*ketoapi.RelationTuple{
		axID("n1", "b0", "r", "bu0"),
		axSet("n2", "b1", "r", "n1", "b0", "r"),
		axID("n1", "b2", "r", "bu2"),
	}
}

const c05QueryVictims = 150

// build materialises the request (lazily; big bodies are shared read-only).
func (r *c05Req) build() *c05Req {
	r.once.Do(func() {
		by := c05Bystanders()
		nv := r.ND
		if strings.HasSuffix(r.Kind, "delete-query") {
			nv = c05QueryVictims
			r.query = &ketoapi.RelationQuery{Namespace: axS("n1"), Relation: axS("vr")}
		}
		for i := 0; i < nv; i++ {
			r.seed = append(r.seed, c05Victim(i))
		}
		if nv > 0 {
			r.seed = append(r.seed, c05Victim(0)) // a second copy: delete removes all copies
		}
		r.seed = append(r.seed, by...)
		for j := 0; j < r.NI; j++ {
			r.ins = append(r.ins, c05Insert(j))
		}
		if r.NI >= 2 {
			r.ins[1] = by[0] // a duplicate of a stored tuple (multiset)
		}
		if r.NI >= 3000 && r.ND >= 1 {
			r.ins[r.NI-1] = c05Victim(r.ND - 1) // inserted and deleted by the same request
		}
		if r.query == nil {
			for i := 0; i < r.ND; i++ {
				r.del = append(r.del, c05Victim(i))
			}
		}
		st := refsem.NewRefStore()
		for _, t := range r.seed {
			st.Insert(c05Net, t)
		}
		r.before = st.Match(c05Net, nil)
		// the model: all inserts, then all deletes; delete removes every copy
		for _, t := range r.ins {
			st.Insert(c05Net, t)
		}
		for _, t := range r.del {
			st.Delete(c05Net, t)
		}
		if r.query != nil {
			st.DeleteByQuery(c05Net, r.query)
		}
		r.after = st.Match(c05Net, nil)
		r.beforeC, r.afterC = axCanonOf(r.before, 0), axCanonOf(r.after, 0)
		if r.NI >= 1 {
			r.probeI = r.ins[0]
		}
		if nv >= 1 {
			r.probeD = c05Victim(0)
		}
		switch r.Kind {
		case "rest-create":
			r.body, _ = json.Marshal(r.ins[0])
		case "rest-patch":
			r.body = c05PatchBody(r.ins, r.del, -1, "")
		case "grpc-transact":
			r.deltas = c05Deltas(r.ins, r.del, -1, "")
		}
	})
	return r
}

func c05BadTuple(t *ketoapi.RelationTuple, bad string) *ketoapi.RelationTuple {
	c := &ketoapi.RelationTuple{Namespace: t.Namespace, Object: t.Object, Relation: t.Relation, SubjectID: t.SubjectID, SubjectSet: t.SubjectSet}
	switch bad {
	case "no-subject":
		c.SubjectID, c.SubjectSet = nil, nil
	case "unknown-namespace":
		c.Namespace = "zz"
	case "unknown-subject-namespace":
		c.SubjectID = nil
		c.SubjectSet = &ketoapi.SubjectSet{Namespace: "zz", Object: "g", Relation: "m"}
	}
	return c
}

// c05PatchBody renders the PATCH body; delta number pos (inserts first, then
// deletes) is replaced by its invalid variant when pos >= 0.
func c05PatchBody(ins, del []*ketoapi.RelationTuple, pos int, bad string) []byte {
	ds := make([]*ketoapi.PatchDelta, 0, len(ins)+len(del))
	for i, t := range ins {
		if i == pos {
			t = c05BadTuple(t, bad)
		}
		ds = append(ds, &ketoapi.PatchDelta{Action: ketoapi.ActionInsert, RelationTuple: t})
	}
	for i, t := range del {
		if len(ins)+i == pos {
			t = c05BadTuple(t, bad)
		}
		ds = append(ds, &ketoapi.PatchDelta{Action: ketoapi.ActionDelete, RelationTuple: t})
	}
	// "action:<style>": the action of delta pos is spelled differently (the tuple stays valid)
	if strings.HasPrefix(bad, "action:") && pos >= 0 && pos < len(ds) {
		a := string(ds[pos].Action)
		switch strings.TrimPrefix(bad, "action:") {
		case "capitalised":
			a = strings.ToUpper(a[:1]) + a[1:]
		case "upper-case":
			a = strings.ToUpper(a)
		case "leading-space":
			a = " " + a
		case "trailing-space":
			a = a + " "
		}
		ds[pos].Action = ketoapi.PatchAction(a)
	}
	b, err := json.Marshal(ds)
	if err != nil {
		panic(err)
	}
	return b
}

func c05Deltas(ins, del []*ketoapi.RelationTuple, pos int, bad string) []*rts.RelationTupleDelta {
	ds := make([]*rts.RelationTupleDelta, 0, len(ins)+len(del))
	for i, t := range ins {
		if i == pos {
			t = c05BadTuple(t, bad)
		}
		ds = append(ds, axDelta(rts.RelationTupleDelta_ACTION_INSERT, t))
	}
	for i, t := range del {
		if len(ins)+i == pos {
			t = c05BadTuple(t, bad)
		}
		ds = append(ds, axDelta(rts.RelationTupleDelta_ACTION_DELETE, t))
	}
	return ds
}

func c05Sizes() (sizesI, sizesD []int) {
	sizesI = []int{0, 1, 2, 3000, 3001}
	if ev.Thorough() {
		sizesI = append(sizesI, 6001, 7501)
	}
	return sizesI, []int{0, 1, 100, 101, 201}
}

// c05Requests is the request table (index -> request bijection).
func c05Requests() []*c05Req {
	out := []*c05Req{{ID: "rest-create", Kind: "rest-create", NI: 1}}
	sizesI, sizesD := c05Sizes()
	for _, kind := range []string{"rest-patch", "grpc-transact"} {
		for _, ni := range sizesI {
			for _, nd := range sizesD {
				if ni+nd == 0 {
					continue
				}
				out = append(out, &c05Req{ID: fmt.Sprintf("%s/I%d/D%d", kind, ni, nd), Kind: kind, NI: ni, ND: nd})
			}
		}
	}
	out = append(out, &c05Req{ID: "rest-delete-query", Kind: "rest-delete-query"}, &c05Req{ID: "grpc-delete-query", Kind: "grpc-delete-query"})
	for _, ni := range []int{2, 3001} {
		for _, nd := range []int{1, 101} {
			out = append(out, &c05Req{ID: fmt.Sprintf("manager-transact/I%d/D%d", ni, nd), Kind: "manager-transact", NI: ni, ND: nd})
		}
	}
	// the Manager's multi-tuple write and delete called top-level (no enclosing transaction in the
	// caller's context): they have to open - and really use - their own transaction
	for _, nd := range []int{101, 201} {
		out = append(out, &c05Req{ID: fmt.Sprintf("manager-delete/D%d", nd), Kind: "manager-delete", ND: nd})
	}
	out = append(out, &c05Req{ID: "manager-write/I3001", Kind: "manager-write", NI: 3001})
	return out
}

var (
	c05ReqOnce  sync.Once
	c05ReqTable []*c05Req
)

func c05ReqByID(id string) *c05Req {
	c05ReqOnce.Do(func() { c05ReqTable = c05Requests() })
	for _, r := range c05ReqTable {
		if r.ID == id {
			return r.build()
		}
	}
	return nil
}

// c05Exec issues the request once (pos >= 0: with the invalid variant at that
// position) and reports whether the server reported success.
func c05Exec(s *apih.Server, r *c05Req, pos int, bad string) (ok bool, desc string) {
	c := s.Client()
	switch r.Kind {
	case "rest-create":
		t := r.ins[0]
		if pos == 0 {
			t = c05BadTuple(t, bad)
		}
		resp := c.Create(t)
		return resp.OK(), resp.String()
	case "rest-patch":
		body := r.body
		if pos >= 0 {
			body = c05PatchBody(r.ins, r.del, pos, bad)
		}
		resp := c.PatchRaw(body)
		return resp.OK(), resp.String()
	case "grpc-transact":
		ds := r.deltas
		if pos >= 0 {
			ds = c05Deltas(r.ins, r.del, pos, bad)
		}
		_, err := c.GTransact(ds)
		return err == nil, fmt.Sprint(err)
	case "rest-delete-query":
		resp := c.DeleteQuery(r.query)
		return resp.OK(), resp.String()
	case "grpc-delete-query":
		err := c.GDelete(apih.ProtoQuery(r.query))
		return err == nil, fmt.Sprint(err)
	case "manager-transact":
		// the way an embedder uses the Manager: map, then one TransactRelationTuples call
		ctx, cancel := context.WithCancel(s.Ctx)
		defer cancel()
		all := append(append([]*ketoapi.RelationTuple{}, r.ins...), r.del...)
		its, err := s.Reg.Mapper().FromTuple(ctx, all...)
		if err != nil {
			return false, "mapper: " + err.Error()
		}
		if pos >= 0 {
			cp := *its[pos]
			cp.Subject = nil // the persister-level invalid tuple
			its = append(append([]*relationtuple.RelationTuple{}, its[:pos]...), append([]*relationtuple.RelationTuple{&cp}, its[pos+1:]...)...)
		}
		err = s.Reg.RelationTupleManager().TransactRelationTuples(ctx, its[:len(r.ins)], its[len(r.ins):])
		return err == nil, fmt.Sprint(err)
	case "manager-delete", "manager-write":
		ctx, cancel := context.WithCancel(s.Ctx)
		defer cancel()
		all := append(append([]*ketoapi.RelationTuple{}, r.ins...), r.del...)
		its, err := s.Reg.Mapper().FromTuple(ctx, all...)
		if err != nil {
			return false, "mapper: " + err.Error()
		}
		if pos >= 0 {
			cp := *its[pos]
			cp.Subject = nil
			its = append(append([]*relationtuple.RelationTuple{}, its[:pos]...), append([]*relationtuple.RelationTuple{&cp}, its[pos+1:]...)...)
		}
		if r.Kind == "manager-delete" {
			err = s.Reg.RelationTupleManager().DeleteRelationTuples(ctx, its...)
		} else {
			err = s.Reg.RelationTupleManager().WriteRelationTuples(ctx, its...)
		}
		return err == nil, fmt.Sprint(err)
	}
	panic("c05: unknown request kind " + r.Kind)
}

// ---------------------------------------------------------------- servers

// c05TB lets a server be torn down before the test ends: Cleanup functions are
// collected here and run by close().
type c05TB struct {
	testing.TB
	mu sync.Mutex
	cl []func()
}

func (b *c05TB) Cleanup(f func()) { b.mu.Lock(); b.cl = append(b.cl, f); b.mu.Unlock() }
func (b *c05TB) Helper()          {}

func (b *c05TB) close() {
	b.mu.Lock()
	cl := b.cl
	b.cl = nil
	b.mu.Unlock()
	for i := len(cl) - 1; i >= 0; i-- {
		cl[i]()
	}
}

type c05Srv struct {
	*apih.Server
	tb *c05TB
}

// c05Open builds a registry on dsn. role != "" restricts the server's tap to
// driver connections whose DSN contains the database name AND role.
func c05Open(t testing.TB, dsn string, role string) *c05Srv {
	tb := &c05TB{TB: t}
	o := apih.Options{Namespaces: axNamespaces(), Config: map[string]any{"limit.max_read_depth": 50}, DSN: dsn, TapMatch: role}
	return &c05Srv{Server: apih.NewServer(tb, o), tb: tb}
}

func (s *c05Srv) close() {
	s.Settle()
	_ = s.DB().Close()
	s.tb.close()
}

func c05RemoveDB(dsn string) {
	p := strings.TrimPrefix(dsn, "sqlite://file:")
	if i := strings.IndexByte(p, '?'); i >= 0 {
		p = p[:i]
	}
	for _, suf := range []string{"", "-wal", "-shm", "-journal"} {
		_ = os.Remove(p + suf)
	}
}

func c05RowsMultiset(s *apih.Server) map[refsem.TupleKey]int {
	m := map[refsem.TupleKey]int{}
	for _, r := range s.Rows(s.DefaultNetwork()) {
		m[refsem.TupleKey(r.Key)]++
	}
	return m
}

func c05Short(s string) string {
	if len(s) > 400 {
		return s[:400] + "…"
	}
	return s
}

// c05Reset brings the database to the request's before-state (no-op when it
// already is there, e.g. after a rolled-back request).
func c05Reset(s *apih.Server, r *c05Req) {
	if axCanonOf(c05RowsMultiset(s), 0) == r.beforeC {
		return
	}
	s.Truncate()
	if _, err := s.Client().GTransact(c05Deltas(r.seed, nil, -1, "")); err != nil {
		panic(fmt.Sprintf("c05: seeding %s: %v", r.ID, err))
	}
	if got := c05RowsMultiset(s); axCanonOf(got, 0) != r.beforeC {
		// the harness' own seeding is an ordinary fault-free Transact on a server that served (and failed) requests
		// before: if it does not store what it was given, that IS a finding (the request took effect differently
		// from what was asked), not a harness accident. Recorded, then the state is rebuilt on the raw tables.
		c05SeedMu.Lock()
		if c05SeedFinding == "" {
			c05SeedFinding = fmt.Sprintf("a fault-free Transact of %d inserts on an emptied store (issued after earlier requests on the same server had been made to fail) stored something else: %s", len(r.seed), c05Short(refsem.DiffMultiset(got, r.before, false)))
		}
		c05SeedMu.Unlock()
	}
}

var (
	c05SeedMu      sync.Mutex
	c05SeedFinding string
)

// c05Classify names the state a relationship multiset is in.
func c05Classify(r *c05Req, m map[refsem.TupleKey]int) string {
	switch axCanonOf(m, 0) {
	case r.beforeC:
		return "before"
	case r.afterC:
		return "after"
	}
	return "neither"
}

// ---------------------------------------------------------------- statements

type c05Stmt struct {
	Kind  string `json:"kind"`
	Class string `json:"class"`
}

func c05StmtClasses(log []sqlfault.Event) []c05Stmt {
	n := map[string]int{}
	out := make([]c05Stmt, len(log))
	for i, e := range log {
		c := ""
		u := strings.ToUpper(strings.TrimSpace(e.SQL))
		switch {
		case e.Kind == sqlfault.Begin:
			c = "begin"
		case e.Kind == sqlfault.Commit:
			c = "commit"
		case e.Kind == sqlfault.Rollback:
			c = "rollback"
		case strings.HasPrefix(u, "INSERT INTO KETO_UUID_MAPPINGS"):
			c = "mapping-insert"
		case strings.HasPrefix(u, "INSERT INTO KETO_RELATION_TUPLES"):
			c = "tuple-insert"
		case strings.HasPrefix(u, "DELETE FROM KETO_RELATION_TUPLES"):
			c = "tuple-delete"
		case strings.HasPrefix(u, "SELECT"):
			c = "select"
		default:
			c = "other"
		}
		n[c]++
		if c == "mapping-insert" || c == "tuple-insert" || c == "tuple-delete" {
			if n[c] == 1 {
				c += "#1"
			} else {
				c += "#later"
			}
		}
		out[i] = c05Stmt{Kind: string(e.Kind), Class: c}
	}
	return out
}

var errC05Injected = errors.New("verif: injected storage failure")

// c05Arm installs the fault of one (k, kind) on the tap. hit reports whether
// statement k was reached.
func c05Arm(tap *sqlfault.Tap, k int, kind string) (hit *atomic.Bool, count *atomic.Int64) {
	hit, count = &atomic.Bool{}, &atomic.Int64{}
	var seqK atomic.Int64
	tap.SetBefore(func(e *sqlfault.Event) error {
		if int(count.Add(1)) != k {
			return nil
		}
		hit.Store(true)
		seqK.Store(e.Seq)
		switch kind {
		case "fail-before":
			return errC05Injected
		case "drop-connection":
			return driver.ErrBadConn
		}
		return nil
	})
	tap.SetAfter(func(e *sqlfault.Event, _ error) error {
		if kind == "fail-after" && e.Seq == seqK.Load() {
			return errC05Injected
		}
		return nil
	})
	return hit, count
}

func c05Disarm(tap *sqlfault.Tap) { tap.SetBefore(nil); tap.SetAfter(nil) }

// ---------------------------------------------------------------- tasks

type c05Task struct {
	Part    string `json:"part"` // faultfree | stmt | pos | crash | reader
	Req     string `json:"request"`
	K       int    `json:"k,omitempty"`    // statement number (stmt, crash)
	Kind    string `json:"kind,omitempty"` // fault kind / invalid-tuple kind / crash moment
	Pos     int    `json:"position,omitempty"`
	I       int    `json:"boundary_i,omitempty"` // reader
	J       int    `json:"boundary_j,omitempty"` // reader: second read (0 = single read)
	Variant string `json:"variant,omitempty"`    // wal | memory | journal
}

func (t c05Task) String() string { b, _ := json.Marshal(t); return string(b) }

type c05Out struct {
	Hit    bool
	Sig    string // "" = oracle satisfied
	What   string
	Detail map[string]any
}

type c05Env struct {
	h      *c05H
	id     int
	w, r   *c05Srv // WAL file database: writer / reader registries
	mw, mr *c05Srv // shared-cache in-memory database
}

type c05H struct {
	t       *testing.T
	dir     string
	worker  string // private copy of this test binary (the shared build output may be replaced while we run)
	mu      sync.Mutex
	envs    map[int]*c05Env
	n       map[string]int       // request -> N
	stmts   map[string][]c05Stmt // request -> fault-free statement classes
	obs     map[string]int       // reader observation label -> count
	refused map[string]int
}

func (h *c05H) env(w int) *c05Env {
	h.mu.Lock()
	e := h.envs[w]
	h.mu.Unlock()
	if e != nil {
		return e
	}
	e = &c05Env{h: h, id: w}
	// Writer and reader registries open the same database; the extra URI
	// parameter (ignored by sqlite) only gives each its own sqlfault tap.
	role := func(r string) string { return fmt.Sprintf("verifrole=%s%dz", r, w) }
	p := filepath.Join(h.dir, fmt.Sprintf("w%d.sqlite", w))
	e.w = c05Open(h.t, "sqlite://file:"+p+"?_fk=true&_journal_mode=WAL&_busy_timeout=1&"+role("w"), role("w"))
	e.r = c05Open(h.t, "sqlite://file:"+p+"?_fk=true&_journal_mode=WAL&_busy_timeout=1&"+role("r"), role("r"))
	m := fmt.Sprintf("c05mem_%d_%d_%d.sqlite", os.Getpid(), w, time.Now().UnixNano())
	e.mw = c05Open(h.t, "sqlite://file:"+m+"?_fk=true&cache=shared&mode=memory&"+role("mw"), role("mw"))
	e.mr = c05Open(h.t, "sqlite://file:"+m+"?_fk=true&cache=shared&mode=memory&"+role("mr"), role("mr"))
	if e.w.DefaultNetwork() != e.r.DefaultNetwork() || e.mw.DefaultNetwork() != e.mr.DefaultNetwork() {
		panic("c05: writer and reader registries ended up in different networks")
	}
	h.mu.Lock()
	h.envs[w] = e
	h.mu.Unlock()
	return e
}

func (h *c05H) stmtClass(req string, k int) string {
	h.mu.Lock()
	defer h.mu.Unlock()
	st := h.stmts[req]
	if k >= 1 && k <= len(st) {
		return st[k-1].Class
	}
	return "none"
}

// eval runs one task and judges it.
func (e *c05Env) eval(t c05Task) c05Out {
	r := c05ReqByID(t.Req)
	if r == nil {
		panic("c05: unknown request " + t.Req)
	}
	switch t.Part {
	case "faultfree":
		return e.evalFaultFree(r)
	case "stmt":
		return e.evalStmt(r, t)
	case "pos":
		return e.evalPos(r, t)
	case "retry":
		return e.evalRetry(r, t)
	case "crash":
		return e.evalCrash(r, t)
	case "reader-paused":
		return e.evalReaderPaused(r, t)
	case "reader":
		return e.evalReader(r, t)
	}
	panic("c05: unknown part " + t.Part)
}

func (e *c05Env) evalFaultFree(r *c05Req) c05Out {
	s := e.w.Server
	c05Reset(s, r)
	s.Settle()
	s.Tap.StartLog()
	ok, desc := c05Exec(s, r, -1, "")
	log := s.Tap.StopLog()
	got := c05RowsMultiset(s)
	st := c05StmtClasses(log)
	e.h.mu.Lock()
	e.h.n[r.ID] = len(log)
	e.h.stmts[r.ID] = st
	e.h.mu.Unlock()
	out := c05Out{Hit: true, Detail: map[string]any{"statements": st, "response": c05Short(desc)}}
	if !ok {
		out.Sig = "fault-free:request-rejected:" + r.Kind
		out.What = fmt.Sprintf("the fault-free request %s was rejected: %s", r.ID, c05Short(desc))
		return out
	}
	if c05Classify(r, got) != "after" {
		out.Sig = "fault-free:state-differs-from-apply(I,D):" + r.Kind
		out.What = fmt.Sprintf("fault-free %s: stored relationships differ from apply(I,D,before): %s", r.ID, c05Short(refsem.DiffMultiset(got, r.after, false)))
	}
	return out
}

// c05Judge is the atomicity oracle for one finished request.
func c05Judge(r *c05Req, reportedOK bool, state string, okAfterAllowed bool, label string) (sig, what string) {
	rep := "error"
	if reportedOK {
		rep = "ok"
	}
	switch {
	case state == "neither":
		return fmt.Sprintf("partial-state:%s:%s:reported-%s", r.Kind, label, rep), "the stored relationships are neither the before-state nor apply(I,D,before)"
	case !reportedOK && state == "after" && !okAfterAllowed:
		return fmt.Sprintf("applied-despite-error:%s:%s", r.Kind, label), "the request reported an error but its effect is stored completely"
	case reportedOK && state == "before":
		return fmt.Sprintf("ok-but-not-applied:%s:%s", r.Kind, label), "the request reported success but nothing of it is stored"
	}
	return "", ""
}

func (e *c05Env) evalStmt(r *c05Req, t c05Task) c05Out {
	s := e.w.Server
	c05Reset(s, r)
	s.Settle()
	hit, _ := c05Arm(s.Tap, t.K, t.Kind)
	ok, desc := c05Exec(s, r, -1, "")
	c05Disarm(s.Tap)
	got := c05RowsMultiset(s)
	state := c05Classify(r, got)
	class := e.h.stmtClass(r.ID, t.K)
	out := c05Out{Hit: hit.Load(), Detail: map[string]any{"statement_class": class, "reported_ok": ok, "response": c05Short(desc), "state": state}}
	// a failure reported after COMMIT was executed is a lost acknowledgement: both states are fine
	lostAck := t.Kind == "fail-after" && class == "commit"
	// database/sql transparently retries BEGIN on a dropped connection: success is fine
	sig, what := c05Judge(r, ok, state, lostAck, "statement-fault")
	if sig != "" {
		out.Sig = sig
		out.What = fmt.Sprintf("%s, %s at statement %d (%s): %s; reported: %s; diff to before: %s", r.ID, t.Kind, t.K, class, what, c05Short(desc), c05Short(refsem.DiffMultiset(got, r.before, false)))
	}
	return out
}

var c05Fresh atomic.Int64

// evalRetry: a write that introduces names the database has never seen fails at statement k (the
// whole request is rolled back), the client repeats the very same write, which succeeds: the
// relationships must now be listed with exactly the strings that were written (nothing the failed
// attempt did - e.g. name mappings it created inside the rolled-back transaction - may be assumed
// to exist).
func (e *c05Env) evalRetry(r *c05Req, t c05Task) c05Out {
	s := e.w.Server
	n := c05Fresh.Add(1)
	obj, sub, setObj := fmt.Sprintf("fresh-object-%d-%d", e.id, n), fmt.Sprintf("fresh-subject-%d-%d", e.id, n), fmt.Sprintf("fresh-set-%d-%d", e.id, n)
	ts := []*ketoapi.RelationTuple{axID("n1", obj, "vr", sub), axSet("n1", obj, "vr", "n1", setObj, "vr")}
	write := func() (bool, string) {
		switch r.Kind {
		case "rest-create":
			resp := s.Client().Create(ts[0])
			return resp.OK(), resp.String()
		case "rest-patch":
			resp := s.Client().PatchRaw(c05PatchBody(ts, nil, -1, ""))
			return resp.OK(), resp.String()
		default:
			_, err := s.Client().GTransact(c05Deltas(ts, nil, -1, ""))
			return err == nil, fmt.Sprint(err)
		}
	}
	s.Settle()
	hit, _ := c05Arm(s.Tap, t.K, t.Kind)
	ok1, d1 := write()
	c05Disarm(s.Tap)
	s.Settle()
	ok2, d2 := true, ""
	if !ok1 {
		// a failure reported AFTER the commit was executed is a lost acknowledgement: the write is there
		// already and a client that lists first would not repeat it
		if pre := axListREST(s.Client(), &ketoapi.RelationQuery{Namespace: axS("n1"), Object: axS(obj)}, 0); len(pre.Multiset) == 0 {
			ok2, d2 = write()
		}
	}
	want := ts
	if r.Kind == "rest-create" {
		want = ts[:1]
	}
	out := c05Out{Hit: hit.Load(), Detail: map[string]any{"first_attempt_ok": ok1, "first": c05Short(d1), "second": c05Short(d2)}}
	if !ok2 {
		out.Sig = "retry-after-rollback:second-attempt-fails:" + r.Kind
		out.What = fmt.Sprintf("%s with never-seen names: after the attempt that failed at statement %d (%s) the same write is refused: %s", r.Kind, t.K, t.Kind, c05Short(d2))
		return out
	}
	l := axListREST(s.Client(), &ketoapi.RelationQuery{Namespace: axS("n1"), Object: axS(obj)}, 0)
	if d := refsem.DiffMultiset(l.Multiset, refsem.MultisetOf(want), false); d != "" || l.Err != "" {
		// (if the first attempt was acknowledged despite the injected failure, the relationships are there once)
		out.Sig = "retry-after-rollback:names-not-listed:" + r.Kind
		out.What = fmt.Sprintf("%s with never-seen names, attempt 1 failing at statement %d (%s), attempt 2 accepted: listing by the written object name differs from what was written: %s %s", r.Kind, t.K, t.Kind, c05Short(d), l.Err)
	}
	s.Client().DeleteQuery(&ketoapi.RelationQuery{Namespace: axS("n1"), Object: axS(obj)})
	return out
}

// c05PosClass is the structural class of a batch position.
func c05PosClass(r *c05Req, pos int) string {
	total := r.NI + r.ND
	var c []string
	if pos == 0 {
		c = append(c, "first")
	}
	if pos == total-1 {
		c = append(c, "last")
	}
	if pos < r.NI {
		c = append(c, "insert")
		if pos >= 3000 {
			c = append(c, "later-insert-chunk")
		}
	} else {
		c = append(c, "delete")
		if pos-r.NI >= 100 {
			c = append(c, "later-delete-chunk")
		}
	}
	return strings.Join(c, "+")
}

func c05Positions(r *c05Req) []int {
	total := r.NI + r.ND
	if r.Kind == "rest-create" {
		return []int{0}
	}
	set := map[int]bool{}
	if total <= 8 {
		for i := 0; i < total; i++ {
			set[i] = true
		}
	} else {
		cand := []int{0, 1, total - 2, total - 1, r.NI - 1, r.NI, r.NI + 1}
		for _, b := range []int{3000, 6000, 7500} {
			cand = append(cand, b-2, b-1, b, b+1)
		}
		for _, b := range []int{100, 200} {
			cand = append(cand, r.NI+b-2, r.NI+b-1, r.NI+b, r.NI+b+1)
		}
		for _, p := range cand {
			if p >= 0 && p < total {
				set[p] = true
			}
		}
	}
	var out []int
	for p := range set {
		out = append(out, p)
	}
	sort.Ints(out)
	return out
}

func (e *c05Env) evalPos(r *c05Req, t c05Task) c05Out {
	s := e.w.Server
	c05Reset(s, r)
	s.Settle()
	ok, desc := c05Exec(s, r, t.Pos, t.Kind)
	got := c05RowsMultiset(s)
	state := c05Classify(r, got)
	out := c05Out{Hit: !ok, Detail: map[string]any{"reported_ok": ok, "response": c05Short(desc), "state": state, "position_class": c05PosClass(r, t.Pos)}}
	label := "position-fault"
	if strings.HasPrefix(t.Kind, "action:") {
		// a delta whose ACTION is spelled unusually is either refused with the whole request or understood; a
		// request that is accepted without it took effect in part
		label = "action-spelling"
		if ok && state == "neither" {
			out.Sig = fmt.Sprintf("partial-state:%s:%s:reported-ok", r.Kind, label)
			out.What = fmt.Sprintf("%s with the action of delta %d (%s) spelled %q: accepted, stored relationships are neither the state before nor the state after the whole request; diff to before: %s", r.ID, t.Pos, c05PosClass(r, t.Pos), strings.TrimPrefix(t.Kind, "action:"), c05Short(refsem.DiffMultiset(got, r.before, false)))
			return out
		}
	}
	switch {
	case !ok && state != "before":
		out.Sig = fmt.Sprintf("partial-state:%s:%s:reported-error", r.Kind, label)
		if state == "after" {
			out.Sig = fmt.Sprintf("applied-despite-error:%s:%s", r.Kind, label)
		}
	case ok && state == "neither":
		// accepted although one delta is invalid: whatever was applied must be the request without that delta
		st := refsem.NewRefStore()
		for _, x := range r.seed {
			st.Insert(c05Net, x)
		}
		for i, x := range r.ins {
			if i != t.Pos {
				st.Insert(c05Net, x)
			}
		}
		for i, x := range r.del {
			if r.NI+i != t.Pos {
				st.Delete(c05Net, x)
			}
		}
		if axCanonOf(got, 0) != axCanonOf(st.Match(c05Net, nil), 0) {
			out.Sig = fmt.Sprintf("partial-state:%s:%s:reported-ok", r.Kind, label)
		}
	}
	if out.Sig != "" {
		out.What = fmt.Sprintf("%s with a %s tuple at position %d (%s): reported %s, stored relationships are in state %q; diff to before: %s", r.ID, t.Kind, t.Pos, c05PosClass(r, t.Pos), c05Short(desc), state, c05Short(refsem.DiffMultiset(got, r.before, false)))
	}
	return out
}

// ---------------------------------------------------------------- crash points

type c05WorkerSpec struct {
	DSN  string `json:"dsn"`
	Req  string `json:"request"`
	K    int    `json:"k"`
	When string `json:"when"` // before | after | none
	Out  string `json:"out"`
}

// TestC05Worker is the crash-point worker: it opens the database named by
// VERIF_C05_WORKER, issues the request and SIGKILLs itself from inside the SQL
// driver hook at statement k. Without the variable it does nothing.
func TestC05Worker(t *testing.T) {
	raw := os.Getenv("VERIF_C05_WORKER")
	if raw == "" {
		return
	}
	var spec c05WorkerSpec
	if err := json.Unmarshal([]byte(raw), &spec); err != nil {
		t.Fatal(err)
	}
	r := c05ReqByID(spec.Req)
	if r == nil {
		t.Fatalf("unknown request %q", spec.Req)
	}
	s := c05Open(t, spec.DSN, "")
	kill := func() {
		_ = syscall.Kill(os.Getpid(), syscall.SIGKILL)
		select {}
	}
	var count, seqK atomic.Int64
	s.Tap.SetBefore(func(e *sqlfault.Event) error {
		if int(count.Add(1)) == spec.K {
			seqK.Store(e.Seq)
			if spec.When == "before" {
				kill()
			}
		}
		return nil
	})
	s.Tap.SetAfter(func(e *sqlfault.Event, _ error) error {
		if spec.When == "after" && e.Seq == seqK.Load() {
			kill()
		}
		return nil
	})
	ok, desc := c05Exec(s.Server, r, -1, "")
	c05Disarm(s.Tap)
	b, _ := json.Marshal(map[string]any{"ok": ok, "response": c05Short(desc), "statements": count.Load()})
	if err := os.WriteFile(spec.Out, b, 0o644); err != nil {
		t.Fatal(err)
	}
	s.close()
}

var c05Seq atomic.Int64

func (e *c05Env) evalCrash(r *c05Req, t c05Task) c05Out {
	opts := "_journal_mode=WAL"
	if t.Variant == "journal" {
		opts = "_journal_mode=DELETE"
	}
	base := filepath.Join(e.h.dir, fmt.Sprintf("crash_%d_%d.sqlite", e.id, c05Seq.Add(1)))
	dsn := "sqlite://file:" + base + "?_fk=true&" + opts
	defer c05RemoveDB(dsn)
	s := c05Open(e.h.t, dsn, "")
	c05Reset(s.Server, r)
	s.close()

	spec := c05WorkerSpec{DSN: dsn, Req: r.ID, K: t.K, When: t.Kind, Out: base + ".out"}
	defer os.Remove(spec.Out)
	sb, _ := json.Marshal(spec)
	cmd := exec.Command(e.h.workerBin(), "-test.run", "^TestC05Worker$", "-test.count", "1", "-test.timeout", "0")
	cmd.Env = append(os.Environ(), "VERIF_C05_WORKER="+string(sb), "VERIF_REPLAY=")
	outb, err := cmd.CombinedOutput()
	killed := false
	var xe *exec.ExitError
	if errors.As(err, &xe) {
		if ws, ok := xe.Sys().(syscall.WaitStatus); ok && ws.Signaled() && ws.Signal() == syscall.SIGKILL {
			killed = true
		}
	}
	var rep struct {
		OK         bool   `json:"ok"`
		Response   string `json:"response"`
		Statements int    `json:"statements"`
	}
	finished := false
	if b, err2 := os.ReadFile(spec.Out); err2 == nil && json.Unmarshal(b, &rep) == nil {
		finished = true
	}
	if !killed && !finished {
		tail := string(outb)
		if len(tail) > 3000 {
			tail = tail[len(tail)-3000:]
		}
		fmt.Printf("INFRA-ERROR C05 crash worker for %s neither crashed nor finished (%v)\n%s\n", t, err, tail)
		os.Exit(2)
	}

	// reopen with a fresh registry
	s2 := c05Open(e.h.t, dsn, "")
	got := c05RowsMultiset(s2.Server)
	l := axListREST(s2.Client(), &ketoapi.RelationQuery{}, 1000)
	s2.close()
	state := c05Classify(r, got)
	class := e.h.stmtClass(r.ID, t.K)
	out := c05Out{Hit: killed, Detail: map[string]any{"statement_class": class, "killed": killed, "state": state, "worker_finished": finished}}
	label := "crash"
	switch {
	case state == "neither":
		out.Sig = fmt.Sprintf("partial-state:%s:%s", r.Kind, label)
		out.What = fmt.Sprintf("%s, SIGKILL %s statement %d (%s): the reopened database is neither the before- nor the after-state: %s", r.ID, t.Kind, t.K, class, c05Short(refsem.DiffMultiset(got, r.before, false)))
	case l.Err != "" || axCanonOf(l.Multiset, 0) != axCanonOf(got, 0):
		out.Sig = fmt.Sprintf("list-differs-from-table-after-crash:%s:%s", r.Kind, label)
		out.What = fmt.Sprintf("%s, SIGKILL %s statement %d (%s): List over the reopened database (%s) differs from the relationship table: %s", r.ID, t.Kind, t.K, class, l.Err, c05Short(refsem.DiffMultiset(l.Multiset, got, false)))
	case finished && !killed:
		if sig, what := c05Judge(r, rep.OK, state, false, "worker-no-crash"); sig != "" {
			out.Sig, out.What = sig, fmt.Sprintf("%s in the worker without a crash: %s", r.ID, what)
		}
	}
	return out
}

// ---------------------------------------------------------------- concurrent reader

type c05Obs struct {
	Boundary int    `json:"boundary"`
	Read     string `json:"read"` // list | check-inserted | check-deleted
	Label    string `json:"label"`
	Info     string `json:"info,omitempty"`
}

func c05Refused(body string) bool {
	l := strings.ToLower(body)
	return strings.Contains(l, "lock") || strings.Contains(l, "serialize") || strings.Contains(l, "busy")
}

// c05Observe runs List (to the last page) and the Checks on the reader.
func c05Observe(rd *apih.Server, r *c05Req, boundary int) []c05Obs {
	var out []c05Obs
	c := rd.Client()
	l := axListREST(c, &ketoapi.RelationQuery{}, 1000)
	switch {
	case l.Err != "" && c05Refused(l.Err):
		out = append(out, c05Obs{boundary, "list", "refused", c05Short(l.Err)})
	case l.Err != "":
		out = append(out, c05Obs{boundary, "list", "error", c05Short(l.Err)})
	default:
		o := c05Obs{boundary, "list", c05Classify(r, l.Multiset), ""}
		if o.Label == "neither" {
			o.Info = c05Short(refsem.DiffMultiset(l.Multiset, r.before, false))
		}
		out = append(out, o)
	}
	chk := func(name string, t *ketoapi.RelationTuple, ifAllowed, ifDenied string) {
		if t == nil {
			return
		}
		resp := c.CheckGET(t, true, "")
		a, ok := resp.Allowed()
		switch {
		case resp.Status == 200 && ok && a:
			out = append(out, c05Obs{boundary, name, ifAllowed, ""})
		case resp.Status == 200 && ok:
			out = append(out, c05Obs{boundary, name, ifDenied, ""})
		case c05Refused(resp.String()):
			out = append(out, c05Obs{boundary, name, "refused", c05Short(resp.String())})
		default:
			out = append(out, c05Obs{boundary, name, "error", c05Short(resp.String())})
		}
	}
	chk("check-inserted", r.probeI, "after", "before")
	chk("check-deleted", r.probeD, "before", "after")
	rd.Settle()
	return out
}

func (e *c05Env) evalReaderPaused(r *c05Req, t c05Task) c05Out {
	w, rd := e.w.Server, e.r.Server
	c05Reset(w, r)
	// other rows, so that the listing is large whatever the request does
	var filler []*ketoapi.RelationTuple
	for i := 0; i < 1500; i++ {
		filler = append(filler, axID("n1", fmt.Sprintf("filler-%04d", i), "fr", fmt.Sprintf("fu-%04d", i)))
	}
	if _, err := w.Client().GTransact(c05Deltas(filler, nil, -1, "")); err != nil {
		panic(fmt.Sprintf("c05: filler: %v", err))
	}
	w.Settle()
	rd.Settle()
	paused := make(chan struct{})
	resume := make(chan struct{})
	var count atomic.Int64
	var once sync.Once
	rd.Tap.SetBefore(func(_ *sqlfault.Event) error {
		if int(count.Add(1)) == t.K {
			once.Do(func() { close(paused) })
			<-resume
		}
		return nil
	})
	var l axListing
	done := make(chan struct{})
	go func() { l = axListREST(rd.Client(), &ketoapi.RelationQuery{}, 10000); close(done) }()
	hit := false
	select {
	case <-paused:
		hit = true
	case <-done:
	}
	ok, desc := c05Exec(w, r, -1, "")
	w.Settle()
	close(resume)
	<-done
	rd.Tap.SetBefore(nil)
	rd.Settle()
	out := c05Out{Hit: hit, Detail: map[string]any{"writer_reported_ok": ok, "writer_response": c05Short(desc), "reader_paused_before_statement": t.K}}
	if l.Err == "" {
		// without the filler rows the listing must be the request's before-state or its after-state
		rest := map[refsem.TupleKey]int{}
		for k, n := range l.Multiset {
			if !strings.Contains(string(k), `"filler-`) {
				rest[k] = n
			}
		}
		if state := c05Classify(r, rest); state == "neither" {
			out.Sig = fmt.Sprintf("reader-saw-partial-state:%s:reader-paused", r.Kind)
			out.What = fmt.Sprintf("a listing (page size 10000, %d rows) was paused before its statement %d while %s committed: apart from the 1500 unrelated rows it shows neither the state before nor the state after the request; diff to before: %s", len(l.Items), t.K, r.ID, c05Short(refsem.DiffMultiset(rest, r.before, false)))
		}
	} else if !c05Refused(l.Err) {
		out.Detail["reader_error"] = c05Short(l.Err)
	}
	// leave the store as c05Reset expects it
	w.Truncate()
	return out
}

func (e *c05Env) evalReader(r *c05Req, t c05Task) c05Out {
	w, rd := e.w.Server, e.r.Server
	if t.Variant == "memory" {
		w, rd = e.mw.Server, e.mr.Server
	}
	c05Reset(w, r)
	w.Settle()
	rd.Settle()

	N := e.h.nOf(r.ID)
	reads := map[int]int{t.I: 1}
	if t.J > 0 {
		reads[t.J]++
	}
	pause := make(chan int)
	resume := make(chan struct{})
	var count atomic.Int64
	w.Tap.SetBefore(func(_ *sqlfault.Event) error {
		c := int(count.Add(1))
		if reads[c] > 0 && c <= N {
			pause <- c
			<-resume
		}
		return nil
	})
	type res struct {
		ok   bool
		desc string
	}
	done := make(chan res, 1)
	go func() {
		ok, desc := c05Exec(w, r, -1, "")
		done <- res{ok, desc}
	}()
	var obs []c05Obs
	var wr res
	paused := 0
	for finished := false; !finished; {
		select {
		case b := <-pause:
			paused++
			for i := 0; i < reads[b]; i++ {
				obs = append(obs, c05Observe(rd, r, b)...)
			}
			resume <- struct{}{}
		case wr = <-done:
			finished = true
		}
	}
	c05Disarm(w.Tap)
	w.Settle()
	for i := 0; i < reads[N+1]; i++ {
		obs = append(obs, c05Observe(rd, r, N+1)...)
		paused++
	}
	got := c05RowsMultiset(w)
	state := c05Classify(r, got)

	out := c05Out{Detail: map[string]any{"observations": obs, "writer_reported_ok": wr.ok, "writer_response": c05Short(wr.desc), "final_state": state, "N": N}}
	nobs := 0
	last := ""
	e.h.mu.Lock()
	for _, o := range obs {
		e.h.obs[t.Variant+":"+o.Label]++
		if o.Label == "refused" || o.Label == "error" {
			e.h.refused[t.Variant+":"+o.Label]++
		}
	}
	e.h.mu.Unlock()
	want := len(reads)
	if t.J == t.I {
		want = 1
	}
	for _, o := range obs {
		switch o.Label {
		case "refused", "error":
			continue
		}
		nobs++
		if o.Label == "neither" && out.Sig == "" {
			out.Sig = fmt.Sprintf("reader-saw-partial-state:%s:%s", r.Kind, t.Variant)
			out.What = fmt.Sprintf("%s (%s): the reader's %s at boundary %d (%s) saw a state that is neither before nor after: %s", r.ID, t.Variant, o.Read, o.Boundary, e.boundaryClass(r, o.Boundary), o.Info)
		}
		if last == "after" && o.Label == "before" && out.Sig == "" {
			out.Sig = fmt.Sprintf("reader-went-back:%s:%s", r.Kind, t.Variant)
			out.What = fmt.Sprintf("%s (%s): successive reader observations went from the after-state back to the before-state at boundary %d (%s)", r.ID, t.Variant, o.Boundary, e.boundaryClass(r, o.Boundary))
		}
		if o.Label == "before" || o.Label == "after" {
			last = o.Label
		}
	}
	// a reader that has seen the after-state proves the commit: the final state must be "after"
	if out.Sig == "" && last == "after" && state != "after" {
		out.Sig = fmt.Sprintf("reader-saw-uncommitted:%s:%s", r.Kind, t.Variant)
		out.What = fmt.Sprintf("%s (%s): a reader observed the after-state but the final stored state is %q", r.ID, t.Variant, state)
	}
	if out.Sig == "" {
		if sig, what := c05Judge(r, wr.ok, state, false, "with-reader-"+t.Variant); sig != "" {
			// in the shared-cache database a reader may make the writer fail ("table is locked"); that must still be atomic
			out.Sig, out.What = sig, fmt.Sprintf("%s with a concurrent reader (%s, boundaries %d/%d): %s; writer reported %s", r.ID, t.Variant, t.I, t.J, what, c05Short(wr.desc))
		}
	}
	out.Hit = paused >= want && nobs > 0
	return out
}

// workerBin copies the running test binary into the scratch directory once.
func (h *c05H) workerBin() string {
	h.mu.Lock()
	defer h.mu.Unlock()
	if h.worker != "" {
		return h.worker
	}
	self, err := os.Executable()
	if err != nil {
		self = os.Args[0]
	}
	b, err := os.ReadFile(self)
	if err != nil {
		fmt.Printf("INFRA-ERROR C05 cannot read its own binary: %v\n", err)
		os.Exit(2)
	}
	h.worker = filepath.Join(h.dir, "c05worker.test")
	if err := os.WriteFile(h.worker, b, 0o755); err != nil {
		fmt.Printf("INFRA-ERROR C05 cannot write the worker binary: %v\n", err)
		os.Exit(2)
	}
	return h.worker
}

func (h *c05H) nOf(req string) int { h.mu.Lock(); defer h.mu.Unlock(); return h.n[req] }

// boundaryClass: boundary b (1..N) is "before <class of statement b>", N+1 "after-request".
func (e *c05Env) boundaryClass(r *c05Req, b int) string {
	if b == e.h.nOf(r.ID)+1 {
		return "after-request"
	}
	return "before-" + e.h.stmtClass(r.ID, b)
}

// ---------------------------------------------------------------- the check

type c05Cand struct {
	Task c05Task
	Out  c05Out
}

func TestC05(t *testing.T) {
	run := ev.New("C05", "fault_enumeration")
	dir := os.Getenv("VERIF_SCRATCH")
	if dir == "" {
		dir = "/dev/shm"
	}
	dir, err := os.MkdirTemp(dir, "c05-")
	if err != nil {
		t.Fatal(err)
	}
	defer os.RemoveAll(dir)
	h := &c05H{t: t, dir: dir, envs: map[int]*c05Env{}, n: map[string]int{}, stmts: map[string][]c05Stmt{}, obs: map[string]int{}, refused: map[string]int{}}
	defer func() {
		for _, e := range h.envs {
			for _, s := range []*c05Srv{e.r, e.w, e.mr, e.mw} {
				s.close()
			}
		}
	}()

	reqs := c05Requests()
	c05ReqOnce.Do(func() { c05ReqTable = reqs })
	reqs = c05ReqTable
	// heavy requests first (better packing of the parallel phases)
	order := append([]*c05Req{}, reqs...)
	sort.SliceStable(order, func(i, j int) bool { return order[i].NI+order[i].ND > order[j].NI+order[j].ND })

	if rp, ok := axReplay("C05"); ok {
		var task c05Task
		if err := json.Unmarshal([]byte(c04JSON(rp["task"])), &task); err != nil {
			fmt.Printf("INFRA-ERROR replay: %v\n", err)
			t.FailNow()
		}
		e := h.env(0)
		if task.Part != "faultfree" {
			e.eval(c05Task{Part: "faultfree", Req: task.Req})
		}
		o := e.eval(task)
		fmt.Printf("  [replay] task=%s hit=%v detail=%s\n", task, o.Hit, c04JSON(o.Detail))
		if o.Sig != "" {
			run.Violation(o.Sig, o.What, rp)
		} else {
			fmt.Println("  [replay] the recorded case satisfies the oracle now")
		}
		return
	}

	deadline := ev.Deadline(200, 1500)
	var timedOut atomic.Bool
	var mu sync.Mutex
	var cands []c05Cand
	counts := map[string]int{}
	hits := map[string]int{}
	var samples []c05Cand

	runTasks := func(tasks []c05Task) {
		if len(tasks) > 0 {
			t0 := time.Now()
			defer func() {
				fmt.Printf("[c05] part %s: %d tasks in %.1fs\n", tasks[0].Part, len(tasks), time.Since(t0).Seconds())
			}()
		}
		axParallel(len(tasks), h.env, func(e *c05Env, i int) {
			if time.Now().After(deadline) {
				timedOut.Store(true)
				return
			}
			o := e.eval(tasks[i])
			key := tasks[i].Part
			if tasks[i].Part == "reader" {
				key += "-" + tasks[i].Variant
				if tasks[i].J > 0 {
					key += "-pair"
				} else {
					key += "-single"
				}
			}
			mu.Lock()
			counts[key]++
			if o.Hit {
				hits[key]++
			}
			if o.Sig != "" {
				cands = append(cands, c05Cand{tasks[i], o})
			}
			if i == 0 || i == len(tasks)/2 {
				samples = append(samples, c05Cand{tasks[i], o})
			}
			mu.Unlock()
		})
	}

	// phase 0: fault-free runs measure N and validate apply(I,D,before)
	var ff []c05Task
	for _, r := range order {
		ff = append(ff, c05Task{Part: "faultfree", Req: r.ID})
	}
	runTasks(ff)

	// (a) statement faults
	var tasks []c05Task
	for _, r := range order {
		for k := 1; k <= h.nOf(r.ID); k++ {
			for _, kind := range []string{"fail-before", "fail-after", "drop-connection"} {
				tasks = append(tasks, c05Task{Part: "stmt", Req: r.ID, K: k, Kind: kind})
			}
		}
	}
	runTasks(tasks)

	// (a') retry after a rolled-back first use of new names
	tasks = nil
	for _, id := range []string{"rest-create", "rest-patch/I2/D0", "grpc-transact/I2/D0"} {
		for k := 1; k <= 6; k++ {
			for _, kind := range []string{"fail-before", "fail-after"} {
				tasks = append(tasks, c05Task{Part: "retry", Req: id, K: k, Kind: kind})
			}
		}
	}
	runTasks(tasks)

	// (b) position faults
	tasks = nil
	for _, r := range order {
		r.build()
		kinds := []string{"no-subject", "unknown-namespace", "unknown-subject-namespace"}
		switch r.Kind {
		case "manager-transact", "manager-delete", "manager-write":
			kinds = []string{"nil-subject"}
		case "rest-delete-query", "grpc-delete-query":
			continue
		}
		if r.Kind == "rest-patch" && r.NI+r.ND <= 8 {
			kinds = append(kinds, "action:capitalised", "action:upper-case", "action:leading-space", "action:trailing-space")
		}
		for _, p := range c05Positions(r) {
			for _, kind := range kinds {
				tasks = append(tasks, c05Task{Part: "pos", Req: r.ID, Pos: p, Kind: kind})
			}
		}
	}
	runTasks(tasks)

	// (c) crash points
	tasks = nil
	variants := []string{"wal"}
	if ev.Thorough() {
		variants = append(variants, "journal")
	}
	for _, v := range variants {
		for _, r := range order {
			for k := 1; k <= h.nOf(r.ID); k++ {
				for _, when := range []string{"before", "after"} {
					tasks = append(tasks, c05Task{Part: "crash", Req: r.ID, K: k, Kind: when, Variant: v})
				}
			}
		}
	}
	runTasks(tasks)

	// (d) concurrent reader
	tasks = nil
	for _, v := range []string{"wal", "memory"} {
		for _, r := range order {
			n := h.nOf(r.ID)
			for i := 1; i <= n+1; i++ {
				tasks = append(tasks, c05Task{Part: "reader", Req: r.ID, I: i, Variant: v})
				if v == "memory" && r.NI+r.ND > 203 && !ev.Thorough() {
					continue // quick tier: two-read readers on the shared-cache variant only for the small requests
				}
				for j := i; j <= n+1; j++ {
					tasks = append(tasks, c05Task{Part: "reader", Req: r.ID, I: i, J: j, Variant: v})
				}
			}
		}
	}
	runTasks(tasks)

	// (d') the READER is the one that is paused: a listing of a large store (1500 other rows, page size 10000) is
	// stopped before each of its own statements while a complete multi-relationship request commits; the listing
	// must contain all or none of the request's inserts
	tasks = nil
	for _, r := range order {
		if r.Kind != "rest-patch" && r.Kind != "grpc-transact" || r.NI < 100 || r.NI > 3001 || r.ND != 0 {
			continue
		}
		for k := 1; k <= 6; k++ {
			tasks = append(tasks, c05Task{Part: "reader-paused", Req: r.ID, K: k, Variant: "wal"})
		}
	}
	runTasks(tasks)

	// confirm candidates by re-execution; report the first (smallest request) per signature
	sort.SliceStable(cands, func(i, j int) bool {
		a, b := c05ReqByID(cands[i].Task.Req), c05ReqByID(cands[j].Task.Req)
		if a.NI+a.ND != b.NI+b.ND {
			return a.NI+a.ND < b.NI+b.ND
		}
		return cands[i].Task.String() < cands[j].Task.String()
	})
	reported := map[string]bool{}
	sigCount := map[string]int{}
	unstable := 0
	for _, cd := range cands {
		sigCount[cd.Out.Sig]++
		if reported[cd.Out.Sig] {
			continue
		}
		stable := true
		for rep := 0; rep < 2 && stable; rep++ {
			stable = h.env(0).eval(cd.Task).Sig == cd.Out.Sig
		}
		if !stable {
			unstable++
			continue
		}
		reported[cd.Out.Sig] = true
		r := c05ReqByID(cd.Task.Req)
		run.Violation(cd.Out.Sig, cd.Out.What, map[string]any{"task": cd.Task, "request": r, "N": h.nOf(r.ID), "statements": h.stmts[r.ID], "detail": cd.Out.Detail})
	}

	run.Assume(
		"apply(I,D,before): all inserts, then all deletes; the store is a multiset; a delete removes every copy (requests list inserts before deletes, so 'in the order given' coincides)",
		"relationships are compared by name (table rows joined with keto_uuid_mappings by raw SQL); the UUID mapping table itself is not part of the oracle",
		"a failure injected AFTER the COMMIT statement was executed is a lost acknowledgement, not a failed part: the request reports an error and either state is accepted",
		"drop-connection = driver.ErrBadConn returned instead of executing the statement; database/sql transparently retries BEGIN on a fresh connection, so the request may succeed (then the after-state is required)",
		"after a crash only membership in {before, after} is demanded (durability of an acknowledged commit is not part of the statement)",
		"reader: a refused read (sqlite 'database/table is locked', 'unable to serialize access') is no observation; in the shared-cache variant a reader may also make the writer fail, which must leave the before-state",
		"position faults at the Manager level use an internal tuple with a nil Subject (the REST/gRPC handlers reject a missing subject before touching the store)",
	)
	npr := map[string]int{}
	for k, v := range h.n {
		npr[k] = v
	}
	total, nontrivial := 0, 0
	for k, v := range counts {
		total += v
		nontrivial += hits[k]
	}
	for _, s := range samples {
		run.Sample(map[string]any{"task": s.Task, "hit": s.Out.Hit, "detail": s.Out.Detail})
	}
	sizesI, sizesD := c05Sizes()
	c05SeedMu.Lock()
	if c05SeedFinding != "" {
		run.Violation("fault-free-write-after-failed-requests-stored-something-else", c05SeedFinding, map[string]any{"family": "seeding"})
	}
	c05SeedMu.Unlock()
	run.Finish(map[string]any{
		"evaluations":                    total,
		"distinct_nontrivial":            nontrivial,
		"rule":                           "one evaluation = one (request, position, kind) triple: statement k x {fail-before, fail-after, drop-connection}; batch position x invalid-tuple kind; statement k x {SIGKILL before, after}; reader boundary or boundary pair x database variant. Non-trivial = the fault/crash/pause was actually reached (hook fired at statement k / request rejected because of the invalid tuple / worker died by SIGKILL / reader obtained at least one observation at every chosen boundary)",
		"exhaustive":                     !timedOut.Load() && unstable == 0,
		"requests":                       len(reqs),
		"insert_sizes":                   sizesI,
		"delete_sizes":                   sizesD,
		"n_per_request":                  npr,
		"evaluations_by_part":            counts,
		"nontrivial_by_part":             hits,
		"reader_observations":            h.obs,
		"candidates":                     len(cands),
		"candidate_signatures":           sigCount,
		"unstable_candidates":            unstable,
		"seeding_writes_stored_as_given": c05SeedFinding == "",
		"crash_journal_modes":            variants,
		"reader_db_variants":             []string{"wal-file", "shared-cache-memory"},
		"reader_pairs_memory":            map[bool]string{true: "all requests", false: "requests with |I|+|D| <= 203 (quick tier)"}[ev.Thorough()],
		"worker_subprocess":              "TestC05Worker (SIGKILL self inside the sqlfault hook)",
		"statement_fault_kinds":          []string{"fail-before", "fail-after", "drop-connection"},
	})
}

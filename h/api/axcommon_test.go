//go:build sqlite

// Helpers shared by the API-level checks in this package (C04, C06, C07, C17).
// Everything here is prefixed "ax" so that checks added later cannot collide.
package api

import (
	"encoding/json"
	"fmt"
	"os"
	"runtime"
	"sort"
	"strings"
	"sync"
	"sync/atomic"
	"testing"

	"github.com/ory/keto/internal/namespace"
	"github.com/ory/keto/ketoapi"
	rts "github.com/ory/keto/proto/ory/keto/relation_tuples/v1alpha2"
	"github.com/ory/keto/verif/apih"
	"github.com/ory/keto/verif/ev"
	"github.com/ory/keto/verif/refsem"
)

func axS(s string) *string { return &s }

func axID(ns, obj, rel, sub string) *ketoapi.RelationTuple {
	return &ketoapi.RelationTuple{Namespace: ns, Object: obj, Relation: rel, SubjectID: axS(sub)}
}

func axSet(ns, obj, rel, sns, sobj, srel string) *ketoapi.RelationTuple {
	return &ketoapi.RelationTuple{Namespace: ns, Object: obj, Relation: rel, SubjectSet: &ketoapi.SubjectSet{Namespace: sns, Object: sobj, Relation: srel}}
}

// axNamespaces is the rewrite-free configuration used by the store-level checks.
func axNamespaces() []*namespace.Namespace {
	return []*namespace.Namespace{{Name: "n1"}, {Name: "n2"}}
}

func axNewServer(t testing.TB, multiTenant bool) *apih.Server {
	return apih.NewServer(t, apih.Options{
		Namespaces:  axNamespaces(),
		Config:      map[string]any{"limit.max_read_depth": 50},
		MultiTenant: multiTenant,
	})
}

func axWorkers() int {
	n := ev.Workers()
	if c := runtime.NumCPU(); n > c {
		n = c
	}
	if n < 1 {
		n = 1
	}
	return n
}

// axParallel runs f(worker, i) for i in [0,n) on axWorkers() goroutines; each
// worker first builds its private state with mk (e.g. its own server).
func axParallel[W any](n int, mk func(w int) W, f func(w W, i int)) {
	if n == 0 {
		return
	}
	workers := axWorkers()
	if workers > n {
		workers = n
	}
	var wg sync.WaitGroup
	var next atomic.Int64
	for w := 0; w < workers; w++ {
		wg.Add(1)
		go func(w int) {
			defer wg.Done()
			st := mk(w)
			for {
				i := int(next.Add(1) - 1)
				if i >= n {
					return
				}
				f(st, i)
			}
		}(w)
	}
	wg.Wait()
}

// axServerPool hands out one private server per worker, created on first use
// and kept for the whole test (so successive parallel phases reuse them).
type axServerPool struct {
	t     testing.TB
	multi bool
	mu    sync.Mutex
	srv   map[int]*apih.Server
	init  func(*apih.Server)
}

func (p *axServerPool) get(w int) *apih.Server {
	p.mu.Lock()
	s := p.srv[w]
	p.mu.Unlock()
	if s != nil {
		return s
	}
	s = axNewServer(p.t, p.multi)
	if p.init != nil {
		p.init(s)
	}
	p.mu.Lock()
	if p.srv == nil {
		p.srv = map[int]*apih.Server{}
	}
	p.srv[w] = s
	p.mu.Unlock()
	return s
}

// ---- query shapes ----------------------------------------------------------

// axShapeName renders the 4-bit shape (1 ns, 2 obj, 4 rel, 8 subject).
func axShapeName(q *ketoapi.RelationQuery) string {
	p := []string{"-", "-", "-", "-"}
	if q.Namespace != nil {
		p[0] = "ns"
	}
	if q.Object != nil {
		p[1] = "obj"
	}
	if q.Relation != nil {
		p[2] = "rel"
	}
	if q.SubjectID != nil {
		p[3] = "sid"
	}
	if q.SubjectSet != nil {
		p[3] = "sset"
	}
	return strings.Join(p, "+")
}

func axShapeBits(q *ketoapi.RelationQuery) int {
	b := 0
	if q.Namespace != nil {
		b |= 1
	}
	if q.Object != nil {
		b |= 2
	}
	if q.Relation != nil {
		b |= 4
	}
	if q.SubjectID != nil || q.SubjectSet != nil {
		b |= 8
	}
	return b
}

func axQueryString(q *ketoapi.RelationQuery) string {
	b, _ := json.Marshal(q)
	return string(b)
}

// axQueryProduct is the product of per-field value lists, each including
// "absent" (nil): every one of the 2^4 shapes x every value combination.
func axQueryProduct(nss, objs, rels []string, subs []*ketoapi.RelationTuple) []*ketoapi.RelationQuery {
	var out []*ketoapi.RelationQuery
	opt := func(vs []string) []*string {
		r := []*string{nil}
		for _, v := range vs {
			r = append(r, axS(v))
		}
		return r
	}
	for _, ns := range opt(nss) {
		for _, o := range opt(objs) {
			for _, r := range opt(rels) {
				for si := -1; si < len(subs); si++ {
					q := &ketoapi.RelationQuery{Namespace: ns, Object: o, Relation: r}
					if si >= 0 {
						q.SubjectID = subs[si].SubjectID
						q.SubjectSet = subs[si].SubjectSet
					}
					out = append(out, q)
				}
			}
		}
	}
	return out
}

// ---- list helpers ------------------------------------------------------------

type axListing struct {
	Items    []*ketoapi.RelationTuple
	Pages    int
	Err      string // "" or a description of the failed request
	Status   int    // REST status of the failed request / gRPC code
	MaxPage  int
	Multiset map[refsem.TupleKey]int
}

func axListREST(c *apih.Client, q *ketoapi.RelationQuery, pageSize int) axListing {
	pages, bad := c.ListAll(q, apih.Itoa(pageSize), 1000)
	l := axListing{Pages: len(pages)}
	for _, p := range pages {
		if len(p) > l.MaxPage {
			l.MaxPage = len(p)
		}
		l.Items = append(l.Items, p...)
	}
	if bad != nil {
		l.Err = bad.String()
		l.Status = bad.Status
	}
	l.Multiset = refsem.MultisetOf(l.Items)
	return l
}

func axListGRPC(c *apih.Client, q *ketoapi.RelationQuery, pageSize int) axListing {
	pages, err := c.GListAll(apih.ProtoQuery(q), int32(pageSize), 1000)
	l := axListing{Pages: len(pages)}
	for _, p := range pages {
		if len(p) > l.MaxPage {
			l.MaxPage = len(p)
		}
		for _, x := range p {
			l.Items = append(l.Items, apih.TupleFromProto(x))
		}
	}
	if err != nil {
		l.Err = err.Error()
		l.Status = int(apih.Code(err))
	}
	l.Multiset = refsem.MultisetOf(l.Items)
	return l
}

func axCanonOf(m map[refsem.TupleKey]int, capN int) string {
	parts := make([]string, 0, len(m))
	for k, n := range m {
		if capN > 0 && n > capN {
			n = capN
		}
		parts = append(parts, fmt.Sprintf("%s*%d", k, n))
	}
	sort.Strings(parts)
	return strings.Join(parts, "\n")
}

func axDelta(action rts.RelationTupleDelta_Action, t *ketoapi.RelationTuple) *rts.RelationTupleDelta {
	return &rts.RelationTupleDelta{Action: action, RelationTuple: apih.ProtoTuple(t)}
}

// axReplay loads the replay object of a violation file when VERIF_REPLAY
// names one for this property; ok=false otherwise.
func axReplay(property string) (replay map[string]any, ok bool) {
	p := os.Getenv("VERIF_REPLAY")
	if p == "" {
		return nil, false
	}
	b, err := os.ReadFile(p)
	if err != nil {
		fmt.Printf("INFRA-ERROR replay file: %v\n", err)
		os.Exit(2)
	}
	var body struct {
		Property string         `json:"property"`
		Replay   map[string]any `json:"replay"`
	}
	if err := json.Unmarshal(b, &body); err != nil || body.Property != property {
		fmt.Printf("INFRA-ERROR replay file %s is not a %s replay\n", p, property)
		os.Exit(2)
	}
	return body.Replay, true
}

// axOnce reports each violation signature at most `limit` times per run
// (a counterexample family prints its first, i.e. smallest, instances).
type axOnce struct {
	mu    sync.Mutex
	seen  map[string]int
	limit int
}

func (o *axOnce) first(sig string) bool {
	o.mu.Lock()
	defer o.mu.Unlock()
	if o.seen == nil {
		o.seen = map[string]int{}
	}
	o.seen[sig]++
	lim := o.limit
	if lim == 0 {
		lim = 1
	}
	return o.seen[sig] <= lim
}

func (o *axOnce) counts() map[string]int {
	o.mu.Lock()
	defer o.mu.Unlock()
	m := map[string]int{}
	for k, v := range o.seen {
		m[k] = v
	}
	return m
}

// axFreshIndex returns a pool index no worker uses: pool.get(axFreshIndex()) builds a NEW server (with the
// pool's init). Candidates are confirmed there, so that what a long-lived server process remembers (caches,
// once-only provisioning, pooled objects) cannot make a real finding fail to reproduce.
var axFreshCounter atomic.Int64

func axFreshIndex() int { return 1000 + int(axFreshCounter.Add(1)) }

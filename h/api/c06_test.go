//go:build sqlite

// C06 — networks sharing one database are isolated. One registry, one sqlite
// database, two networks A and B selected per request through the production
// ketoctx seams (contextualizer + HTTP middleware + gRPC interceptor). B is
// seeded with a small graph that uses the same strings as A plus B-only
// strings. Breadth-first search over write histories in A (the C04 alphabet,
// including gRPC delete with the empty query). After every transition:
//   - B's observation vector (lists, checks, expands; REST and gRPC) is unchanged,
//   - no observation made in A contains a B-only string, A's lists equal A's model,
//   - every SQL statement issued while serving A that touches
//     keto_relation_tuples binds A's network id and never B's; no statement
//     binds B's network id or one of B's mapping ids.
package api

import (
	"fmt"
	"os"
	"sort"
	"strings"
	"sync"
	"sync/atomic"
	"testing"
	"time"

	"github.com/gofrs/uuid"

	"github.com/ory/keto/ketoapi"
	rts "github.com/ory/keto/proto/ory/keto/relation_tuples/v1alpha2"
	"github.com/ory/keto/verif/apih"
	"github.com/ory/keto/verif/ev"
	"github.com/ory/keto/verif/refsem"
	"github.com/ory/keto/verif/sqlfault"
)

var (
	c06A = uuid.Must(uuid.FromString("aaaaaaaa-aaaa-4aaa-8aaa-aaaaaaaaaaaa"))
	c06B = uuid.Must(uuid.FromString("bbbbbbbb-bbbb-4bbb-8bbb-bbbbbbbbbbbb"))
)

// B-only strings never appear in any request made in A.
var c06BOnly = []string{"bOnly", "secretB"}

func c06SeedB() []*ketoapi.RelationTuple {
	return []*ketoapi.RelationTuple{
		axID("n1", "a", "r", "x"), // the very strings A writes too
		axID("n1", "a", "r", "y"),
		axSet("n1", "a", "r", "n1", "bOnly", "r"), // subject set to a B-only object
		axID("n1", "bOnly", "r", "secretB"),
		axSet("n2", "b", "s", "n1", "a", ""),
		axID("n2", "a", "r", "secretB"),
		axSet("n1", "a", "s", "n1", "a", "r"),
		axID("n1", "a", "r", "x"),                  // a duplicate
		axSet("n2", "secretB", "s", "n1", "g", ""), // a subject set WITHOUT relation (Zanzibar's "..." in other spellings)
	}
}

func c06BQueries() []*ketoapi.RelationQuery {
	qs := axQueryProduct([]string{"n1"}, []string{"a"}, []string{"r"},
		[]*ketoapi.RelationTuple{axID("", "", "", "x"), axSet("", "", "", "n1", "bOnly", "r")})
	qs = append(qs,
		&ketoapi.RelationQuery{Namespace: axS("n2")},
		&ketoapi.RelationQuery{Object: axS("bOnly")},
		&ketoapi.RelationQuery{SubjectID: axS("secretB")},
		&ketoapi.RelationQuery{SubjectSet: &ketoapi.SubjectSet{Namespace: "n1", Object: "a", Relation: ""}},
	)
	return qs
}

func c06CheckPanel() []*ketoapi.RelationTuple {
	return []*ketoapi.RelationTuple{
		axID("n1", "a", "r", "x"),       // direct
		axID("n1", "a", "r", "secretB"), // through the subject set n1:bOnly#r
		axID("n1", "a", "s", "secretB"), // two hops
		axID("n1", "a", "r", "nobody"),  // denied
		axID("n2", "b", "s", "x"),       // subject set with empty relation: denied
		axID("n2", "a", "r", "secretB"),
		axID("n1", "b", "s", "x"), // a tuple A writes (t2), absent in B: denied
		axSet("n1", "a", "s", "n1", "a", "r"),
	}
}

func c06ExpandPanel() []*ketoapi.SubjectSet {
	return []*ketoapi.SubjectSet{{Namespace: "n1", Object: "a", Relation: "r"}, {Namespace: "n1", Object: "a", Relation: "s"}, {Namespace: "n1", Object: "bOnly", Relation: "r"}, {Namespace: "n2", Object: "b", Relation: "s"}}
}

func c06SortedKeys(m map[refsem.TupleKey]int) string {
	var p []string
	for k, n := range m {
		p = append(p, fmt.Sprintf("%s*%d", k, n))
	}
	sort.Strings(p)
	return strings.Join(p, ",")
}

// c06CanonTree renders an expand tree with children sorted (row order is not
// part of the observation).
func c06CanonTree(v any) string {
	m, ok := v.(map[string]any)
	if !ok {
		return fmt.Sprint(v)
	}
	var kids []string
	if ch, ok := m["children"].([]any); ok {
		for _, c := range ch {
			kids = append(kids, c06CanonTree(c))
		}
	}
	sort.Strings(kids)
	tup, _ := m["tuple"].(map[string]any)
	return fmt.Sprintf("%v{%v/%v}[%s]", m["type"], tup["subject_id"], tup["subject_set"], strings.Join(kids, ","))
}

func c06GTree(t *rts.SubjectTree) string {
	if t == nil {
		return "nil"
	}
	var kids []string
	for _, c := range t.Children {
		kids = append(kids, c06GTree(c))
	}
	sort.Strings(kids)
	sub := t.GetTuple().GetSubject()
	return fmt.Sprintf("%v{%v/%v}[%s]", t.NodeType, sub.GetId(), strings.TrimSpace(sub.GetSet().String()), strings.Join(kids, ","))
}

// c06Vector is every observation of one network, rendered canonically.
// raw collects the raw response texts (for the leak scan).
func c06Vector(c *apih.Client, calls *atomic.Int64) (vec string, raw string) {
	var b, rw strings.Builder
	for _, q := range c06BQueries() {
		lr := axListREST(c, q, 0)
		lg := axListGRPC(c, q, 2)
		calls.Add(int64(lr.Pages + lg.Pages))
		fmt.Fprintf(&b, "LIST %s rest[%s|%s] grpc[%s|%s]\n", axQueryString(q), c06SortedKeys(lr.Multiset), lr.Err, c06SortedKeys(lg.Multiset), lg.Err)
		fmt.Fprintf(&rw, "%s %s %s %s\n", c06SortedKeys(lr.Multiset), lr.Err, c06SortedKeys(lg.Multiset), lg.Err)
	}
	for _, t := range c06CheckPanel() {
		r1 := c.CheckGET(t, true, "")
		r2 := c.CheckPOST(t, false, "")
		g, gerr := c.GCheck(apih.ProtoTuple(t), 0)
		calls.Add(3)
		fmt.Fprintf(&b, "CHECK %s get=%s post=%d grpc=%v/%v\n", refsem.Key(t), strings.TrimSpace(string(r1.Raw)), r2.Status, g.GetAllowed(), apih.Code(gerr))
		fmt.Fprintf(&rw, "%s %s %v\n", r1.Raw, r2.Raw, gerr)
	}
	for _, ss := range c06ExpandPanel() {
		r1 := c.Expand(ss, "")
		g, gerr := c.GExpand(apih.ProtoSubject(nil, ss), 0)
		calls.Add(2)
		gt := ""
		if g != nil && g.Tree != nil {
			gt = c06GTree(g.Tree)
		}
		fmt.Fprintf(&b, "EXPAND %s:%s#%s rest=%d %s grpc=%v %s\n", ss.Namespace, ss.Object, ss.Relation, r1.Status, c06CanonTree(r1.JSON), apih.Code(gerr), gt)
		fmt.Fprintf(&rw, "%s %s %v\n", r1.Raw, gt, gerr)
	}
	nr := c.Namespaces()
	calls.Add(1)
	var names []string
	if m, ok := nr.JSON.(map[string]any); ok {
		if l, ok := m["namespaces"].([]any); ok {
			for _, n := range l {
				names = append(names, fmt.Sprint(n))
			}
		}
	}
	sort.Strings(names) // the order of GET /namespaces varies from call to call; not part of the observation
	fmt.Fprintf(&b, "NAMESPACES %d %v\n", nr.Status, names)
	return b.String(), rw.String()
}

func c06Leak(text string) string {
	for _, s := range c06BOnly {
		if strings.Contains(text, s) {
			return s
		}
	}
	return ""
}

func TestC06(t *testing.T) {
	run := ev.New("C06", "model_checking")
	if rp, ok := axReplay("C06"); ok && (rp["family"] == "raw-ids" || rp["family"] == "uuid-spellings") {
		// these two families are small and deterministic: the replay re-runs the family
		if rp["family"] == "raw-ids" {
			c06RawIDs(t, run, 2)
		} else {
			c06Spellings(t, run)
		}
		return
	}
	if os.Getenv("VERIF_REPLAY") == "" {
		idDepth := 2
		if ev.Thorough() {
			idDepth = 3
		}
		c06RawIDs(t, run, idDepth)
		c06Spellings(t, run)
		// second family first (cheap): network A is the all-zero UUID - a value a contextualizer can
		// return and that code may mistake for "no network"; the same invariants, depth 1 (thorough 2)
		c06A = uuid.Nil
		d := 1
		if ev.Thorough() {
			d = 2
		}
		c06Explore(t, run, d, false)
		c06Concurrent(t, run)
		c06A = uuid.Must(uuid.FromString("aaaaaaaa-aaaa-4aaa-8aaa-aaaaaaaaaaaa"))
	}
	maxDepth := 3
	if ev.Thorough() {
		maxDepth = 5
	}
	c06Explore(t, run, maxDepth, true)
}

var c06Extra = map[string]int{}

func c06ClientA(s *apih.Server) *apih.Client {
	c := s.ClientFor(c06A)
	c.SendZeroNetwork = c06A == uuid.Nil
	return c
}

func c06Explore(t *testing.T, run *ev.Run, maxDepth int, final bool) {
	r := c04NewRun(run)

	// ids B's names map to: UUIDv5(B, s) for every string B's data or panels use
	bIDs := map[string]string{}
	for _, s := range []string{"a", "b", "x", "y", "bOnly", "secretB", "nobody"} {
		bIDs[uuid.NewV5(c06B, s).String()] = s
	}

	var vecMu sync.Mutex
	initialVec := map[*apih.Server]string{}
	var vecCalls, monitored, tupleStmts, mappingStmts, vecEvals, leakScans atomic.Int64

	pool := &axServerPool{t: t, multi: true, init: func(s *apih.Server) {
		s.AddNetwork(c06A)
		s.AddNetwork(c06B)
		cb := s.ClientFor(c06B)
		for _, tp := range c06SeedB() {
			if rr := cb.Create(tp); rr.Status != 201 {
				t.Fatalf("seeding B: %s", rr)
			}
		}
		v, _ := c06Vector(cb, &vecCalls)
		s.Settle()
		vecMu.Lock()
		initialVec[s] = v
		vecMu.Unlock()
	}}

	// acceptance / crash behaviour of single writes is C04's and C13's subject
	r.ignore = func(sig string) bool {
		return strings.HasPrefix(sig, "handler-panic:") || strings.HasPrefix(sig, "valid-write-rejected:") || strings.HasPrefix(sig, "invalid-write-accepted:")
	}
	r.cli = func(s *apih.Server) *apih.Client { return c06ClientA(s) }
	r.reset = func(s *apih.Server) { s.TruncateTuples(c06A) }

	// monitor: judge the statements logged while A's requests were served
	monitor := func(r *c04Run, s *apih.Server, path []c04Step, evs []sqlfault.Event) {
		for _, e := range evs {
			monitored.Add(1)
			hasA, hasB, bid := false, false, ""
			for _, a := range e.Args {
				v := fmt.Sprint(a)
				if b, ok := a.([]byte); ok {
					v = string(b)
				}
				switch {
				case v == c06A.String():
					hasA = true
				case v == c06B.String():
					hasB = true
				case bIDs[v] != "":
					bid = bIDs[v]
				}
			}
			rep := map[string]any{"statement": e.SQL, "args": fmt.Sprint(e.Args)}
			touchesTuples := strings.Contains(e.SQL, "keto_relation_tuples")
			if touchesTuples {
				tupleStmts.Add(1)
			}
			if strings.Contains(e.SQL, "keto_uuid_mappings") {
				mappingStmts.Add(1)
			}
			switch {
			case hasB:
				r.cand(c04Cand{Sig: "monitor:statement-binds-B-network", What: "a statement issued while serving network A binds B's network id: " + e.SQL, Path: path, Extra: rep})
			case bid != "":
				r.cand(c04Cand{Sig: "monitor:statement-binds-B-mapping-id", What: fmt.Sprintf("a statement issued while serving network A binds UUIDv5(B,%q): %s", bid, e.SQL), Path: path, Extra: rep})
			case touchesTuples && !hasA:
				kind := "read"
				if e.IsWrite() {
					kind = "write"
				}
				r.cand(c04Cand{Sig: "monitor:tuple-statement-without-A-network:" + kind, What: "a statement on keto_relation_tuples issued while serving network A does not bind A's network id: " + e.SQL, Path: path, Extra: rep})
			}
		}
	}
	r.preOp = func(s *apih.Server) { s.Tap.StartLog() }
	r.postOp = func(r *c04Run, s *apih.Server, path []c04Step) { monitor(r, s, path, s.Tap.StopLog()) }

	// A-side probes with B-only strings + B's vector
	judgeB := func(r *c04Run, s *apih.Server, path []c04Step) {
		ca := c06ClientA(s)
		s.Tap.StartLog()
		var raw strings.Builder
		for _, q := range []*ketoapi.RelationQuery{{Object: axS("bOnly")}, {SubjectID: axS("secretB")}, {SubjectSet: &ketoapi.SubjectSet{Namespace: "n1", Object: "bOnly", Relation: "r"}}, {Namespace: axS("n1")}, {},
			// special spellings of "no relation" in a subject set
			{SubjectSet: &ketoapi.SubjectSet{Namespace: "n1", Object: "g", Relation: "..."}}, {SubjectSet: &ketoapi.SubjectSet{Namespace: "n1", Object: "g", Relation: ""}}, {SubjectSet: &ketoapi.SubjectSet{Namespace: "n1", Object: "g", Relation: "*"}}} {
			lr := axListREST(ca, q, 0)
			lg := axListGRPC(ca, q, 3)
			fmt.Fprintf(&raw, "%s %s %s %s\n", c06SortedKeys(lr.Multiset), lr.Err, c06SortedKeys(lg.Multiset), lg.Err)
		}
		for _, tp := range []*ketoapi.RelationTuple{axID("n1", "a", "r", "secretB"), axID("n1", "bOnly", "r", "secretB"), axID("n2", "a", "r", "secretB")} {
			r1 := ca.CheckGET(tp, true, "")
			g, gerr := ca.GCheck(apih.ProtoTuple(tp), 0)
			if a, _ := r1.Allowed(); a || g.GetAllowed() {
				r.cand(c04Cand{Sig: "leak:check-in-A-allowed-by-B-data", What: fmt.Sprintf("check %s in network A is allowed (REST %s, gRPC %v %v) although only B holds such data", refsem.Key(tp), r1, g.GetAllowed(), gerr), Path: path})
			}
			fmt.Fprintf(&raw, "%s\n", r1.Raw)
		}
		for _, ss := range []*ketoapi.SubjectSet{{Namespace: "n1", Object: "a", Relation: "r"}, {Namespace: "n1", Object: "bOnly", Relation: "r"}} {
			r1 := ca.Expand(ss, "")
			g, _ := ca.GExpand(apih.ProtoSubject(nil, ss), 0)
			raw.Write(r1.Raw)
			if g != nil && g.Tree != nil {
				raw.WriteString(c06GTree(g.Tree))
			}
		}
		s.Settle()
		monitor(r, s, path, s.Tap.StopLog())
		leakScans.Add(1)
		if l := c06Leak(raw.String()); l != "" {
			r.cand(c04Cand{Sig: "leak:B-only-string-in-A-observation", What: fmt.Sprintf("an observation made in network A contains the B-only string %q", l), Path: path, Extra: map[string]any{"observations": raw.String()}})
		}
		v, _ := c06Vector(s.ClientFor(c06B), &vecCalls)
		s.Settle()
		vecEvals.Add(1)
		vecMu.Lock()
		want := initialVec[s]
		vecMu.Unlock()
		if v != want {
			d := ""
			wl, gl := strings.Split(want, "\n"), strings.Split(v, "\n")
			for i := range wl {
				if i >= len(gl) || wl[i] != gl[i] {
					g := ""
					if i < len(gl) {
						g = gl[i]
					}
					d = fmt.Sprintf("before: %s | after: %s", wl[i], g)
					break
				}
			}
			kind := strings.SplitN(d, " ", 3)
			sig := "B-observation-changed"
			if len(kind) > 1 {
				sig += ":" + strings.ToLower(kind[1])
			}
			r.cand(c04Cand{Sig: sig, What: "an operation in network A changed an observation of network B: " + d, Path: path, Extra: map[string]any{"diff": d}})
			// restore B so that later paths on this worker start from the seeded B again
			s.TruncateTuples(c06B)
			for _, tp := range c06SeedB() {
				s.ClientFor(c06B).Create(tp)
			}
			nv, _ := c06Vector(s.ClientFor(c06B), &vecCalls)
			s.Settle()
			vecMu.Lock()
			initialVec[s] = nv
			vecMu.Unlock()
		}
	}
	r.afterStep = func(r *c04Run, s *apih.Server, next *refsem.RefStore, path []c04Step, rot int) {
		s.Tap.StartLog()
		r.shapesAfter(s, next, path, rot) // A's lists equal A's model for every query shape
		monitor(r, s, path, s.Tap.StopLog())
		judgeB(r, s, path)
	}
	r.onState = func(r *c04Run, s *apih.Server, st *c04State) {
		s.Tap.StartLog()
		r.panel(s, st) // A's checks / expands see A's writes only
		monitor(r, s, st.Path, s.Tap.StopLog())
	}

	if r.replayMode(t, "C06", pool, nil) {
		return
	}

	res := r.bfs(pool, []*c04State{c04Root(0, nil)}, maxDepth, ev.Deadline(170, 1500))
	if !final {
		c06Extra["zero_network_states"] = len(res.states)
		c06Extra["zero_network_transitions"] = int(r.transitions.Load())
		c06Extra["zero_network_statements_monitored"] = int(monitored.Load())
		if !res.exhaustive {
			c06Extra["zero_network_incomplete"] = 1
		}
		return
	}

	run.Assume(
		"networks are selected per request through ketoctx.WithContextualizer + WithHTTPMiddlewares + WithGRPCUnaryInterceptors (header/metadata "+apih.NetworkHeader+"); rows for A and B exist in table networks",
		"keto_uuid_mappings has no network column: ids are UUIDv5(network id, string), so the monitor demands that no statement served for A binds B's network id or UUIDv5(B, s) for any string s of B's data; statements on keto_relation_tuples must bind A's network id",
		"expand trees are compared with children sorted (row order is not part of the observation)",
		"between histories A's relationships are deleted by raw SQL; B's rows and all mappings are left alone",
		"id-level family: the Manager / Traverser / engine interfaces take internal ids and nothing makes ids unique per network there, so A and B use the SAME ids (16-tuple universe, 38 Manager operations in A, BFS with A's row set as canonical state); B's vector = lists, exists, both traversals, engine checks and expand trees over the universe",
		"UUID-shaped names: 5 spellings of one UUID (canonical, upper case, braces, urn:uuid:, no hyphens) x 5 x {object, subject id, subject-set object} x {A writes first, B writes first}; each network must list exactly the spelling it wrote",
	)
	v, _ := c06Vector(pool.get(0).ClientFor(c06B), &vecCalls)
	run.Sample(map[string]any{"B_observation_vector": strings.Split(v, "\n")})
	run.Finish(map[string]any{
		"states":                        len(res.states),
		"transitions":                   int(r.transitions.Load()),
		"traces_validated_against_impl": int(r.replays.Load()),
		"depth_completed":               res.depthDone,
		"depth_bound":                   maxDepth,
		"level_sizes":                   res.levelSizes,
		"alphabet_size":                 len(r.ops),
		"B_vector_evaluations":          int(vecEvals.Load()),
		"B_vector_requests":             int(vecCalls.Load()),
		"A_leak_scans":                  int(leakScans.Load()),
		"statements_monitored":          int(monitored.Load()),
		"statements_on_tuples":          int(tupleStmts.Load()),
		"statements_on_mappings":        int(mappingStmts.Load()),
		"list_requests_in_A":            int(r.listCalls.Load()),
		"check_requests_in_A":           int(r.checkCalls.Load()),
		"replay_divergences":            int(r.divergences.Load()),
		"unstable_candidates":           int(r.unstable.Load()),
		"candidate_signatures":          r.sigCount,
		"exhaustive":                    res.exhaustive && c06Extra["zero_network_incomplete"] == 0 && c06Extra["ids_incomplete"] == 0,
		"workers":                       axWorkers(),
		"zero_network_states":           c06Extra["zero_network_states"],
		"zero_network_transitions":      c06Extra["zero_network_transitions"],
		"concurrent_pairs":              c06Extra["concurrent_pairs"],
		"concurrent_pause_points":       c06Extra["concurrent_pause_points"],
		"ids_states":                    c06Extra["ids_states"],
		"ids_transitions":               c06Extra["ids_transitions"],
		"ids_depth_completed":           c06Extra["ids_depth_completed"],
		"ids_alphabet":                  c06Extra["ids_alphabet"],
		"ids_B_vector_evaluations":      c06Extra["ids_B_vector_evaluations"],
		"ids_B_vector_calls":            c06Extra["ids_B_vector_calls"],
		"uuid_spelling_cases":           c06Extra["uuid_spelling_cases"],
	})
}

// c06Concurrent: two requests of DIFFERENT networks overlap. The first request is paused inside the
// SQL driver before its k-th statement (every k), the second one is issued meanwhile, then the first
// is released; each answer must be the answer the request gets alone. (If the second request cannot
// finish before the first is released - e.g. because requests are coalesced - the release happens
// after a bounded wait; the wait only schedules, the oracle is the pair of answers.)
func c06Concurrent(t *testing.T, run *ev.Run) {
	a, b := uuid.Must(uuid.FromString("aaaaaaaa-aaaa-4aaa-8aaa-aaaaaaaaaaaa")), c06B
	s := apih.NewServer(t, apih.Options{Namespaces: axNamespaces(), MultiTenant: true})
	s.AddNetwork(a)
	s.AddNetwork(b)
	for _, tp := range c06SeedB() {
		s.ClientFor(b).Create(tp)
	}
	for _, tp := range []*ketoapi.RelationTuple{axID("n1", "a", "r", "x"), axSet("n1", "a", "r", "n1", "b", "s"), axID("n1", "b", "s", "z")} {
		s.ClientFor(a).Create(tp)
	}
	type req struct {
		name string
		do   func(c *apih.Client) string
	}
	reqs := []req{
		{"rest list namespace n1", func(c *apih.Client) string {
			l := axListREST(c, &ketoapi.RelationQuery{Namespace: axS("n1")}, 0)
			return c06SortedKeys(l.Multiset) + l.Err
		}},
		{"grpc list everything", func(c *apih.Client) string {
			l := axListGRPC(c, &ketoapi.RelationQuery{}, 0)
			return c06SortedKeys(l.Multiset) + l.Err
		}},
		{"rest check n1:a#r@x", func(c *apih.Client) string { return string(c.CheckGET(axID("n1", "a", "r", "x"), true, "").Raw) }},
		{"rest expand n1:a#r", func(c *apih.Client) string {
			return c06CanonTree(c.Expand(&ketoapi.SubjectSet{Namespace: "n1", Object: "a", Relation: "r"}, "").JSON)
		}},
	}
	nets := []uuid.UUID{a, b}
	alone := map[string]string{}
	stmts := map[string]int{}
	for ni, n := range nets {
		for _, r := range reqs {
			s.Tap.ResetCount()
			alone[fmt.Sprint(ni, r.name)] = r.do(s.ClientFor(n))
			s.Settle()
			stmts[fmt.Sprint(ni, r.name)] = int(s.Tap.Count())
		}
	}
	pairs, points := 0, 0
	for n1 := range nets {
		n2 := 1 - n1
		for _, r1 := range reqs {
			for _, r2 := range reqs {
				pairs++
				for k := 1; k <= stmts[fmt.Sprint(n1, r1.name)]; k++ {
					points++
					var cnt atomic.Int64
					paused := make(chan struct{})
					release := make(chan struct{})
					var once sync.Once
					s.Tap.SetBefore(func(e *sqlfault.Event) error {
						if cnt.Add(1) == int64(k) {
							once.Do(func() { close(paused) })
							<-release
						}
						return nil
					})
					var o1, o2 string
					d1, d2 := make(chan struct{}), make(chan struct{})
					go func() { o1 = r1.do(s.ClientFor(nets[n1])); close(d1) }()
					select {
					case <-paused:
					case <-d1: // fewer statements this time
					}
					go func() { o2 = r2.do(s.ClientFor(nets[n2])); close(d2) }()
					select {
					case <-d2:
					case <-time.After(150 * time.Millisecond):
					}
					close(release)
					<-d1
					<-d2
					s.Tap.SetBefore(nil)
					s.Settle()
					for _, c := range []struct {
						n    int
						r    req
						got  string
						role string
					}{{n1, r1, o1, "paused"}, {n2, r2, o2, "overlapping"}} {
						if want := alone[fmt.Sprint(c.n, c.r.name)]; c.got != want {
							run.Violation("concurrent-cross-network:"+strings.Fields(c.r.name)[1], fmt.Sprintf("%s request %q in network %d answered differently while a request of the other network (%q) overlapped it at statement %d: got %.300s want %.300s", c.role, c.r.name, c.n, map[bool]string{true: r2.name, false: r1.name}[c.role == "paused"], k, c.got, want),
								map[string]any{"first": r1.name, "second": r2.name, "pause_before_statement": k, "first_network": n1})
						}
					}
				}
			}
		}
	}
	c06Extra["concurrent_pairs"] = pairs
	c06Extra["concurrent_pause_points"] = points
}

//go:build sqlite

// C09 — expand returns a sound and complete picture of a subject set.
//
// Bounded-exhaustive exploration over a rewrite-free namespace "n":
//
//	small    every root-connected tuple multiset of <= 4 tuples (thorough 5)
//	         over 4 objects x 2 relations (8 subject sets) and 2 users, up to
//	         renaming of o2..o4 and u1/u2 (chains, diamonds, cycles, self-loops,
//	         duplicates) x ALL sibling row orders (every arrangement of the
//	         rows of each subject set; shard_id order is the listing order)
//	fanout   a subject set with 99/100/101/201 tuples (expand pages through
//	         them, 100 per page) with nested sets placed at the page borders
//	depths   request max-depth 0 (absent),1..5,7 under limit.max_read_depth 5;
//	         0,2,5 under 3; 0 under 50 (depth not binding -> compared to Check)
//	paths    the expand engine (BuildTree), REST GET /relation-tuples/expand,
//	         gRPC ExpandService.Expand
//
// The oracle is refsem.ExpandGraph (BFS distances / reachability).
package api

import (
	"context"
	"encoding/json"
	"fmt"
	"sort"
	"strings"
	"sync"
	"sync/atomic"
	"testing"
	"time"

	"github.com/ory/keto/internal/namespace"
	"github.com/ory/keto/internal/relationtuple"
	"github.com/ory/keto/ketoapi"
	rts "github.com/ory/keto/proto/ory/keto/relation_tuples/v1alpha2"
	"github.com/ory/keto/verif/apih"
	"github.com/ory/keto/verif/ev"
	"github.com/ory/keto/verif/refsem"
	"github.com/ory/keto/verif/sqlfault"
)

const c09NS = "n"
const c09NS2 = "m" // second namespace: the same object names and relations exist in both

var (
	c09Objs  = []string{"o1", "o2", "o3", "o4"}
	c09Rels  = []string{"r1", "r2"}
	c09Users = []string{"u1", "u2"}
)

// tuple index = src*10 + subject; src = obj*2+rel (0..7); subject 0..7 = sets, 8,9 = users
const c09NSub = 10

func c09SetOf(i int) *ketoapi.SubjectSet {
	return &ketoapi.SubjectSet{Namespace: c09NS, Object: c09Objs[i/2], Relation: c09Rels[i%2]}
}

func c09Tuple(idx int) *ketoapi.RelationTuple {
	src, sub := idx/c09NSub, idx%c09NSub
	t := &ketoapi.RelationTuple{Namespace: c09NS, Object: c09Objs[src/2], Relation: c09Rels[src%2]}
	if sub < 8 {
		t.SubjectSet = c09SetOf(sub)
	} else {
		t.SubjectID = axS(c09Users[sub-8])
	}
	return t
}

var c09Root = &ketoapi.SubjectSet{Namespace: c09NS, Object: "o1", Relation: "r1"}

func c09RootKey() refsem.SubjectKey {
	return refsem.SubjectSetKey(c09Root.Namespace, c09Root.Object, c09Root.Relation)
}

// ---- enumeration of root-connected multisets up to symmetry -----------------

var c09ObjPerms = func() [][4]int {
	var out [][4]int
	p := []int{1, 2, 3}
	var rec func(k int)
	rec = func(k int) {
		if k == 3 {
			out = append(out, [4]int{0, p[0], p[1], p[2]})
			return
		}
		for i := k; i < 3; i++ {
			p[k], p[i] = p[i], p[k]
			rec(k + 1)
			p[k], p[i] = p[i], p[k]
		}
	}
	rec(0)
	return out
}()

func c09MapIdx(idx int, op [4]int, swapUsers bool) int {
	src, sub := idx/c09NSub, idx%c09NSub
	src = op[src/2]*2 + src%2
	if sub < 8 {
		sub = op[sub/2]*2 + sub%2
	} else if swapUsers {
		sub = 8 + (1 - (sub - 8))
	}
	return src*c09NSub + sub
}

func c09Canon(ms []uint8) string {
	best := ""
	buf := make([]uint8, len(ms))
	for _, op := range c09ObjPerms {
		for _, sw := range []bool{false, true} {
			for i, x := range ms {
				buf[i] = uint8(c09MapIdx(int(x), op, sw))
			}
			sort.Slice(buf, func(i, j int) bool { return buf[i] < buf[j] })
			if s := string(buf); best == "" || s < best {
				best = s
			}
		}
	}
	return best
}

func c09ReachSets(ms []uint8) [8]bool {
	var r [8]bool
	r[0] = true
	for changed := true; changed; {
		changed = false
		for _, x := range ms {
			src, sub := int(x)/c09NSub, int(x)%c09NSub
			if r[src] && sub < 8 && !r[sub] {
				r[sub] = true
				changed = true
			}
		}
	}
	return r
}

// c09Multisets returns, per size 1..max, the canonical root-connected
// multisets in a deterministic order (index -> case bijection).
func c09Multisets(max int) [][][]uint8 {
	levels := make([][][]uint8, max+1)
	levels[0] = [][]uint8{{}}
	for k := 0; k < max; k++ {
		seen := map[string]bool{}
		for _, m := range levels[k] {
			r := c09ReachSets(m)
			for src := 0; src < 8; src++ {
				if !r[src] {
					continue
				}
				for sub := 0; sub < c09NSub; sub++ {
					n := append(append([]uint8{}, m...), uint8(src*c09NSub+sub))
					seen[c09Canon(n)] = true
				}
			}
		}
		keys := make([]string, 0, len(seen))
		for s := range seen {
			keys = append(keys, s)
		}
		sort.Strings(keys)
		for _, s := range keys {
			levels[k+1] = append(levels[k+1], []uint8(s))
		}
	}
	return levels
}

// c09Orders: every arrangement of the rows of each subject set (arrangements
// that differ only by swapping identical rows are the same listing). The
// result is a list of global row sequences (groups in ascending source order).
func c09Orders(ms []uint8) [][]uint8 {
	groups := map[int][]uint8{}
	var srcs []int
	for _, x := range ms {
		s := int(x) / c09NSub
		if _, ok := groups[s]; !ok {
			srcs = append(srcs, s)
		}
		groups[s] = append(groups[s], x)
	}
	sort.Ints(srcs)
	out := [][]uint8{{}}
	for _, s := range srcs {
		perms := c09DistinctPerms(groups[s])
		var next [][]uint8
		for _, pre := range out {
			for _, p := range perms {
				next = append(next, append(append([]uint8{}, pre...), p...))
			}
		}
		out = next
	}
	return out
}

func c09DistinctPerms(xs []uint8) [][]uint8 {
	xs = append([]uint8{}, xs...)
	sort.Slice(xs, func(i, j int) bool { return xs[i] < xs[j] })
	var out [][]uint8
	used := make([]bool, len(xs))
	cur := make([]uint8, 0, len(xs))
	var rec func()
	rec = func() {
		if len(cur) == len(xs) {
			out = append(out, append([]uint8{}, cur...))
			return
		}
		for i := range xs {
			if used[i] || (i > 0 && xs[i] == xs[i-1] && !used[i-1]) {
				continue
			}
			used[i] = true
			cur = append(cur, xs[i])
			rec()
			cur = cur[:len(cur)-1]
			used[i] = false
		}
	}
	rec()
	return out
}

// ---- depth combinations --------------------------------------------------------

type c09Depth struct {
	Req    int `json:"request_max_depth"` // 0 = absent
	Global int `json:"limit_max_read_depth"`
}

func (d c09Depth) eff() int {
	if d.Req <= 0 || d.Global < d.Req {
		return d.Global
	}
	return d.Req
}

const c09Unbound = 50

func c09Depths() []c09Depth {
	return []c09Depth{
		{1, 5}, {2, 5}, {3, 5}, {4, 5}, {5, 5}, {0, 5}, {7, 5},
		{0, 3}, {2, 3}, {5, 3},
		{0, c09Unbound},
	}
}

var c09Transports = []string{"engine", "rest", "grpc"}

// ---- trees -----------------------------------------------------------------------

type c09Node struct {
	Type     string            `json:"type"`
	Sub      refsem.SubjectKey `json:"subject"`
	Children []*c09Node        `json:"children,omitempty"`
}

func (n *c09Node) String() string {
	if n == nil {
		return "<no tree>"
	}
	if len(n.Children) == 0 {
		return fmt.Sprintf("%s:%s", n.Type, n.Sub)
	}
	var cs []string
	for _, c := range n.Children {
		cs = append(cs, c.String())
	}
	return fmt.Sprintf("%s:%s[%s]", n.Type, n.Sub, strings.Join(cs, ", "))
}

func c09SubKey(id *string, set *ketoapi.SubjectSet) refsem.SubjectKey {
	switch {
	case set != nil:
		return refsem.SubjectSetKey(set.Namespace, set.Object, set.Relation)
	case id != nil:
		return refsem.SubjectIDKey(*id)
	}
	return "<no subject>"
}

func c09FromJSON(v any) *c09Node {
	m, ok := v.(map[string]any)
	if !ok {
		return &c09Node{Type: "<malformed>", Sub: "<malformed>"}
	}
	n := &c09Node{Type: fmt.Sprint(m["type"]), Sub: "<no subject>"}
	if tp, ok := m["tuple"].(map[string]any); ok {
		if id, ok := tp["subject_id"].(string); ok {
			n.Sub = refsem.SubjectIDKey(id)
		}
		if ss, ok := tp["subject_set"].(map[string]any); ok {
			n.Sub = refsem.SubjectSetKey(fmt.Sprint(ss["namespace"]), fmt.Sprint(ss["object"]), fmt.Sprint(ss["relation"]))
		}
	}
	if cs, ok := m["children"].([]any); ok {
		for _, c := range cs {
			n.Children = append(n.Children, c09FromJSON(c))
		}
	}
	return n
}

func c09IsNotFoundBody(v any) bool {
	m, ok := v.(map[string]any)
	if !ok {
		return false
	}
	_, hasType := m["type"]
	code, _ := m["code"].(float64)
	return !hasType && code == 404
}

func c09FromProto(p *rts.SubjectTree) *c09Node {
	if p == nil {
		return nil
	}
	n := &c09Node{Sub: "<no subject>"}
	switch p.NodeType {
	case rts.NodeType_NODE_TYPE_LEAF:
		n.Type = "leaf"
	case rts.NodeType_NODE_TYPE_UNION:
		n.Type = "union"
	default:
		n.Type = strings.ToLower(strings.TrimPrefix(p.NodeType.String(), "NODE_TYPE_"))
	}
	sub := p.GetTuple().GetSubject()
	if sub == nil {
		sub = p.GetSubject() //nolint:staticcheck
	}
	switch s := sub.GetRef().(type) {
	case *rts.Subject_Id:
		n.Sub = refsem.SubjectIDKey(s.Id)
	case *rts.Subject_Set:
		n.Sub = refsem.SubjectSetKey(s.Set.GetNamespace(), s.Set.GetObject(), s.Set.GetRelation())
	}
	for _, c := range p.Children {
		n.Children = append(n.Children, c09FromProto(c))
	}
	return n
}

func c09FromEngine(t *relationtuple.Tree, names map[string]string) *c09Node {
	if t == nil {
		return nil
	}
	n := &c09Node{Type: string(t.Type), Sub: "<no subject>"}
	name := func(u fmt.Stringer) string {
		if s, ok := names[u.String()]; ok {
			return s
		}
		return "<unmapped " + u.String() + ">"
	}
	switch s := t.Subject.(type) {
	case *relationtuple.SubjectID:
		n.Sub = refsem.SubjectIDKey(name(s.ID))
	case *relationtuple.SubjectSet:
		n.Sub = refsem.SubjectSetKey(s.Namespace, name(s.Object), s.Relation)
	}
	for _, c := range t.Children {
		n.Children = append(n.Children, c09FromEngine(c, names))
	}
	return n
}

// ---- one store state -----------------------------------------------------------

type c09World struct {
	s       *apih.Server         // the registry with limit.max_read_depth 5 (also used for loading)
	byDepth map[int]*apih.Server // one registry per global depth, all on the same database
	stmts   atomic.Int64         // statements since the last reset (tap before-hook)
	limit   atomic.Int64         // horizon: statements beyond it fail
	tripped atomic.Bool
}

var errC09Horizon = fmt.Errorf("verif: statement horizon exceeded")

// c09NewWorld: changing limit.max_read_depth at run time re-validates the
// whole configuration (12 ms), so every global depth gets its own registry;
// they share one database (same DSN), loaded once per case.
func c09NewWorld(t testing.TB) *c09World {
	w := &c09World{byDepth: map[int]*apih.Server{}}
	dsn := apih.NewDSN()
	for _, d := range []int{5, 3, c09Unbound} {
		w.byDepth[d] = apih.NewServer(t, apih.Options{
			Namespaces: []*namespace.Namespace{{Name: c09NS}, {Name: c09NS2}},
			Config:     map[string]any{"limit.max_read_depth": d},
			DSN:        dsn,
		})
		if got := w.byDepth[d].Reg.Config(w.byDepth[d].Ctx).MaxReadDepth(); got != d {
			panic(fmt.Sprintf("c09: limit.max_read_depth is %d, configured %d", got, d))
		}
	}
	w.s = w.byDepth[5]
	w.limit.Store(1 << 40)
	// the taps of all three registries match the shared database; one hook suffices
	w.s.Tap.SetBefore(func(*sqlfault.Event) error {
		if w.stmts.Add(1) > w.limit.Load() {
			w.tripped.Store(true)
			return errC09Horizon
		}
		return nil
	})
	return w
}

// load stores the tuples (one Transact) — order is set separately.
func (w *c09World) load(ts []*ketoapi.RelationTuple) {
	w.s.Truncate()
	if len(ts) == 0 {
		return
	}
	for i := 0; i < len(ts); i += 2000 {
		j := min(i+2000, len(ts))
		if _, err := w.s.Client().GTransact(c05Deltas(ts[i:j], nil, -1, "")); err != nil {
			panic(fmt.Sprintf("c09: load: %v", err))
		}
	}
}

// order makes the listing order equal to ts (a rearrangement of what is stored).
func (w *c09World) order(ts []*ketoapi.RelationTuple) {
	nid := w.s.DefaultNetwork()
	rows := w.s.Rows(nid)
	if len(rows) != len(ts) {
		panic(fmt.Sprintf("c09: %d rows stored, %d expected", len(rows), len(ts)))
	}
	byKey := map[string][]int{}
	for i, r := range rows {
		byKey[r.Key] = append(byKey[r.Key], i)
	}
	perm := make([]int, len(ts))
	same := true
	for k, t := range ts {
		key := string(refsem.Key(t))
		l := byKey[key]
		if len(l) == 0 {
			panic("c09: row not stored: " + key)
		}
		perm[k] = l[0]
		byKey[key] = l[1:]
		same = same && perm[k] == k
	}
	if !same {
		w.s.SetRowOrder(nid, perm, 16)
	}
}

func (w *c09World) names() map[string]string {
	out := map[string]string{}
	rows, err := w.s.DB().Query("SELECT id, string_representation FROM " + apih.TableMappings)
	if err != nil {
		panic(err)
	}
	defer rows.Close()
	for rows.Next() {
		var id, s string
		if err := rows.Scan(&id, &s); err != nil {
			panic(err)
		}
		out[id] = s
	}
	return out
}

type c09Result struct {
	Tree    *c09Node
	Absent  bool   // the transport's "no tree" answer (engine nil / REST 404 / gRPC empty response)
	Err     string // any other failure
	Stmts   int
	Horizon bool
}

func (w *c09World) expand(transport string, root *ketoapi.SubjectSet, d c09Depth, names map[string]string, horizon int) c09Result {
	srv := w.byDepth[d.Global]
	if srv == nil {
		panic(fmt.Sprintf("c09: no registry with limit.max_read_depth %d", d.Global))
	}
	req := d.Req
	w.s.Settle()
	w.tripped.Store(false)
	w.stmts.Store(0)
	w.limit.Store(int64(horizon))
	var r c09Result
	switch transport {
	case "engine":
		ctx, cancel := context.WithTimeout(srv.Ctx, 60*time.Second)
		sub, err := srv.Reg.ReadOnlyMapper().FromSubjectSet(ctx, root)
		if err != nil {
			r.Err = "mapper: " + err.Error()
			cancel()
			break
		}
		t, err := srv.Reg.ExpandEngine().BuildTree(ctx, sub, req)
		cancel()
		switch {
		case err != nil:
			r.Err = err.Error()
		case t == nil:
			r.Absent = true
		default:
			r.Tree = c09FromEngine(t, names)
		}
	case "rest":
		resp := srv.Client().Expand(root, apih.Itoa(req))
		switch {
		case resp.Status == 200 && c09IsNotFoundBody(resp.JSON):
			// keto answers "no tree" with HTTP 200 and a body {"code":404,...}
			// (the handler uses Write, not WriteError); it is the no-tree answer
			r.Absent = true
		case resp.Status == 200:
			r.Tree = c09FromJSON(resp.JSON)
		case resp.Status == 404:
			r.Absent = true
		default:
			r.Err = c05Short(resp.String())
		}
	case "grpc":
		resp, err := srv.Client().GExpand(apih.ProtoSubject(nil, root), int32(req))
		switch {
		case err != nil:
			r.Err = err.Error()
		case resp.GetTree() == nil:
			r.Absent = true
		default:
			r.Tree = c09FromProto(resp.GetTree())
		}
	}
	r.Stmts = int(w.stmts.Load())
	r.Horizon = w.tripped.Load()
	w.limit.Store(1 << 40)
	return r
}

// ---- the oracle -------------------------------------------------------------------

type c09Model struct {
	g      *refsem.ExpandGraph
	root   refsem.SubjectKey
	dist   map[refsem.SubjectKey]int
	reach  map[refsem.SubjectKey]bool
	bound  int // engine statements: every subject set is listed at most once
	tuples int
}

func c09NewModel(ts []*ketoapi.RelationTuple, root *ketoapi.SubjectSet) *c09Model {
	m := &c09Model{g: refsem.NewExpandGraph(ts), root: refsem.SubjectSetKey(root.Namespace, root.Object, root.Relation), tuples: len(ts)}
	m.dist = m.g.Dist(m.root)
	m.reach = m.g.Reach(m.root)
	pages := func(s refsem.SubjectKey) int {
		n := len(m.g.Out(s))
		if n == 0 {
			return 1
		}
		return (n + 99) / 100
	}
	seen := map[refsem.SubjectKey]bool{m.root: true}
	m.bound = pages(m.root)
	for x := range m.reach {
		if x.IsSet() && !seen[x] {
			seen[x] = true
			m.bound += pages(x)
		}
	}
	return m
}

type c09Finding struct {
	Sig  string
	What string
}

type c09Stats struct {
	levels  int
	nodes   int
	leafIDs map[refsem.SubjectKey]bool
}

// c09Judge applies every oracle to one answer. eff is the effective depth.
func c09Judge(m *c09Model, res c09Result, eff int, transport string) (fs []c09Finding, st c09Stats) {
	add := func(sig, what string) { fs = append(fs, c09Finding{sig, what}) }
	st.leafIDs = map[refsem.SubjectKey]bool{}
	if res.Horizon {
		add("termination:statement-horizon-exceeded", fmt.Sprintf("expand was stopped after %d SQL statements (bound %d)", res.Stmts, m.bound))
		return
	}
	if res.Err != "" {
		add("error-response", "expand failed: "+res.Err)
		return
	}
	rootHasTuples := len(m.g.Out(m.root)) > 0
	if res.Absent {
		if rootHasTuples {
			add("no-tree-although-the-set-has-tuples", "expand returned no tree")
		}
		return
	}
	if !rootHasTuples {
		add("tree-for-a-set-without-tuples", "expand returned "+res.Tree.String())
		return
	}
	t := res.Tree
	if t.Sub != m.root {
		add("root-is-not-the-requested-set", "root node is "+string(t.Sub))
	}
	present := map[refsem.SubjectKey]bool{}
	inner := map[refsem.SubjectKey]int{}
	leafLevels := map[refsem.SubjectKey][]int{}
	innerLevels := map[refsem.SubjectKey][]int{}
	var walk func(n *c09Node, level int)
	walk = func(n *c09Node, level int) {
		st.nodes++
		if level > st.levels {
			st.levels = level
		}
		present[n.Sub] = true
		isInner := len(n.Children) > 0 || n.Type != "leaf"
		if !isInner {
			leafLevels[n.Sub] = append(leafLevels[n.Sub], level)
			if !n.Sub.IsSet() {
				st.leafIDs[n.Sub] = true
			}
			return
		}
		inner[n.Sub]++
		innerLevels[n.Sub] = append(innerLevels[n.Sub], level)
		if n.Type != "union" || !n.Sub.IsSet() || len(n.Children) == 0 {
			add("malformed-inner-node", fmt.Sprintf("inner node %s has type %q and %d children", n.Sub, n.Type, len(n.Children)))
		}
		for _, c := range n.Children {
			if !m.g.HasEdge(n.Sub, c.Sub) {
				add("edge-is-not-a-stored-tuple", fmt.Sprintf("the tree has the edge %s -> %s but no such relationship is stored", n.Sub, c.Sub))
			}
			walk(c, level+1)
		}
	}
	walk(t, 1)
	for s, n := range inner {
		if n > 1 {
			add("set-expanded-more-than-once", fmt.Sprintf("%s is an inner node %d times", s, n))
		}
	}
	if st.levels-1 > eff {
		add("deeper-than-effective-depth", fmt.Sprintf("the tree has %d levels (%d edges on the longest path), effective depth %d", st.levels, st.levels-1, eff))
	}
	bound := m.bound
	if transport != "engine" {
		bound += st.nodes // ToTree maps every node with one lookup
	}
	if res.Stmts > bound {
		add("termination:statement-bound-exceeded", fmt.Sprintf("%d SQL statements, bound %d (every subject set listed at most once, 100 rows per page%s)", res.Stmts, bound, map[bool]string{true: "", false: ", one mapping lookup per tree node"}[transport == "engine"]))
	}
	for x := range present {
		if x != m.root && !m.reach[x] {
			add("node-not-reachable", fmt.Sprintf("%s is in the tree but not reachable from %s", x, m.root))
		}
	}
	// completeness: every subject at distance <= eff-1 appears in the tree
	var missing []refsem.SubjectKey
	for x, d := range m.dist {
		if d >= 1 && d <= eff-1 && !present[x] {
			missing = append(missing, x)
		}
	}
	if len(missing) > 0 {
		sort.Slice(missing, func(i, j int) bool { return missing[i] < missing[j] })
		// Attribution. Level E(p) = dist(p)+1 is the shallowest level p can
		// occur at. If a set q is expanded at level E(q), its subjects occur at
		// their level E. So a subject that does NOT occur at its level E has,
		// on every shortest chain, a set q that occurs at E(q) < eff as a plain
		// leaf although it has tuples — or a set that itself does not occur at
		// its level E (recurse). A plain leaf with tuples above the depth limit
		// means "already visited". The recorded defect is exactly that: q was
		// visited earlier on a LONGER chain — kind A: met there at the depth
		// limit (a leaf at level >= eff, marked visited but never expanded);
		// kind B: expanded there at a deeper level, so its subtree was cut
		// earlier. Anything else (a leaf above the limit with no other
		// occurrence, an expanded set that omits a tuple) is a different defect.
		occ := func(p refsem.SubjectKey, level int) (leaf, inn bool) {
			for _, l := range leafLevels[p] {
				leaf = leaf || l == level
			}
			for _, l := range innerLevels[p] {
				inn = inn || l == level
			}
			return
		}
		memo := map[refsem.SubjectKey]int{}
		kindA, kindB := map[string]bool{}, map[string]bool{}
		var explained func(x refsem.SubjectKey) bool
		explained = func(x refsem.SubjectKey) bool {
			if v, ok := memo[x]; ok {
				return v == 1
			}
			memo[x] = 0
			n := 0
			for _, q := range m.g.In(x) {
				dq, ok := m.dist[q]
				if !ok || dq != m.dist[x]-1 {
					continue // only the sets on shortest chains
				}
				n++
				e := dq + 1
				leafAtE, innerAtE := occ(q, e)
				switch {
				case innerAtE:
					return false // q is expanded at its level E but x does not occur below it
				case leafAtE && e < eff:
					deeperInner, limitLeaf := false, false
					for _, l := range innerLevels[q] {
						deeperInner = deeperInner || l > e
					}
					for _, l := range leafLevels[q] {
						limitLeaf = limitLeaf || l >= eff
					}
					switch {
					case deeperInner:
						kindB[string(q)] = true
					case limitLeaf:
						kindA[string(q)] = true
					default:
						return false // left unexpanded above the depth limit without having been visited elsewhere
					}
				case leafAtE:
					return false // cannot happen for dq <= eff-2
				default: // q does not occur at its level E either
					if !explained(q) {
						return false
					}
				}
			}
			if n == 0 {
				return false
			}
			memo[x] = 1
			return true
		}
		all := true
		for _, x := range missing {
			all = all && explained(x)
		}
		keys := func(m map[string]bool) []string {
			var out []string
			for k := range m {
				out = append(out, k)
			}
			sort.Strings(out)
			return out
		}
		switch {
		case all && len(kindB) == 0:
			add("incomplete:set-first-met-at-depth-limit-then-shallower", fmt.Sprintf("missing %v (within distance %d of %s): %v left unexpanded — a leaf at the depth limit and again a leaf at a shallower level", missing, eff-1, m.root, keys(kindA)))
		case all:
			add("incomplete:set-first-expanded-on-a-longer-chain-then-met-shallower", fmt.Sprintf("missing %v (within distance %d of %s): %v expanded at a deeper level than its shortest one and a plain leaf where it is met again at the shallower level (depth-limit leaves met again shallower: %v)", missing, eff-1, m.root, keys(kindB), keys(kindA)))
		default:
			add("incomplete:other", fmt.Sprintf("missing %v (within distance %d of %s)", missing, eff-1, m.root))
		}
	}
	return
}

func uniq(xs []string) []string {
	var out []string
	for i, x := range xs {
		if i == 0 || x != xs[i-1] {
			out = append(out, x)
		}
	}
	return out
}

// ---- cases -------------------------------------------------------------------------

type c09Case struct {
	Family    string                   `json:"family"`
	Tuples    []*ketoapi.RelationTuple `json:"tuples_in_listing_order"`
	Root      *ketoapi.SubjectSet      `json:"subject_set"`
	Depth     c09Depth                 `json:"depth"`
	Transport string                   `json:"transport"`
	Checks    []string                 `json:"check_subject_ids,omitempty"`
}

type c09Cand struct {
	Case c09Case
	F    c09Finding
	Tree string
}

type c09Run struct {
	mu       sync.Mutex
	cands    []c09Cand
	expands  atomic.Int64
	checks   atomic.Int64
	states   atomic.Int64 // (multiset, order) pairs
	nontriv  atomic.Int64 // ... with a subject at distance >= 2
	maxOver  atomic.Int64 // max(levels - eff) seen (engine convention: <= 0)
	maxStmts atomic.Int64
	faults   atomic.Int64
	shape    map[string]int
}

func (r *c09Run) note(k string) {
	r.mu.Lock()
	r.shape[k]++
	r.mu.Unlock()
}

// runState explores one stored state (tuples in listing order) over all depth
// combinations and transports.
func (r *c09Run) runState(w *c09World, family string, ts []*ketoapi.RelationTuple, root *ketoapi.SubjectSet, depths []c09Depth, transports []string, checkIDs []string, reduced bool) {
	m := c09NewModel(ts, root)
	names := w.names()
	r.states.Add(1)
	far := false
	for _, d := range m.dist {
		far = far || d >= 2
	}
	if far {
		r.nontriv.Add(1)
	}
	if len(ts) <= 3 && family == "small" && r.states.Load()%8 == 0 || family != "small" && len(ts) <= 120 {
		// (every 8th small state and the small fan-out / empty cases: the pass multiplies the state's cost by its statement count)
		defer r.faultPass(w, family, ts, root, depths[len(depths)-1], transports, 4*(m.bound+m.tuples+1)+32)
	}
	checked := map[string]apih.Resp{}
	for _, d := range depths {
		eff := d.eff()
		for _, tr := range transports {
			if reduced && tr != "engine" && !c09ReducedDepth(d) {
				continue
			}
			res := w.expand(tr, root, d, names, 4*(m.bound+m.tuples+1)+32)
			r.expands.Add(1)
			fs, st := c09Judge(m, res, eff, tr)
			if res.Tree != nil {
				c09Max(&r.maxOver, int64(st.levels-eff))
			}
			c09Max(&r.maxStmts, int64(res.Stmts))
			for _, f := range fs {
				r.mu.Lock()
				r.cands = append(r.cands, c09Cand{Case: c09Case{family, ts, root, d, tr, nil}, F: f, Tree: res.Tree.String()})
				r.mu.Unlock()
			}
			// depth not binding: subject-id leaves == subjects Check allows
			if d.Global == c09Unbound && res.Tree != nil && len(fs) == 0 {
				for _, u := range checkIDs {
					if _, ok := checked[u]; !ok { // the store does not change: one Check per subject and state
						checked[u] = w.byDepth[c09Unbound].Client().CheckGET(&ketoapi.RelationTuple{Namespace: root.Namespace, Object: root.Object, Relation: root.Relation, SubjectID: axS(u)}, true, "")
						r.checks.Add(1)
						w.s.Settle()
					}
					resp := checked[u]
					allowed, ok := resp.Allowed()
					isLeaf := st.leafIDs[refsem.SubjectIDKey(u)]
					var f *c09Finding
					switch {
					case resp.Status != 200 || !ok:
						f = &c09Finding{"check-failed", "check for " + u + ": " + resp.String()}
					case allowed && !isLeaf:
						f = &c09Finding{"check-allows-a-subject-that-is-not-a-leaf", fmt.Sprintf("Check(%s, %s) is allowed but %s is not a leaf of the expand tree (depth not binding)", m.root, u, u)}
					case !allowed && isLeaf:
						f = &c09Finding{"leaf-that-check-denies", fmt.Sprintf("%s is a leaf of the expand tree but Check(%s, %s) is denied (depth not binding)", u, m.root, u)}
					}
					if f != nil {
						r.mu.Lock()
						r.cands = append(r.cands, c09Cand{Case: c09Case{family, ts, root, d, tr, []string{u}}, F: *f, Tree: res.Tree.String()})
						r.mu.Unlock()
					}
				}
			}
		}
	}
}

// faultPass: every SQL statement of an expand fails in turn (statement k of the fault-free run is
// refused by the driver): the answer must be an error or exactly the fault-free tree - a storage
// failure must never be reported as a (smaller) successful picture of the subject set.
func (r *c09Run) faultPass(w *c09World, family string, ts []*ketoapi.RelationTuple, root *ketoapi.SubjectSet, d c09Depth, transports []string, horizon int) {
	names := w.names()
	for _, tr := range transports {
		// same step horizon as the fault-free pass: an expansion that does not terminate within it is reported
		// there (termination:*), and is not a basis for fault positions
		base := w.expand(tr, root, d, names, horizon)
		if base.Err != "" || base.Horizon {
			continue
		}
		want := base.Tree.String()
		for k := 1; k <= base.Stmts; k++ {
			res := w.expand(tr, root, d, names, k-1) // statement k is refused
			r.faults.Add(1)
			if !res.Horizon {
				continue // fewer statements than expected this time: nothing was injected
			}
			got := res.Tree.String()
			if res.Err == "" && (res.Absent != base.Absent || got != want) {
				f := c09Finding{"storage-failure-reported-as-success", fmt.Sprintf("expand(%s) with SQL statement %d of %d failing answers successfully with a different tree: got %s (absent=%v), fault-free %s", tr, k, base.Stmts, got, res.Absent, want)}
				r.mu.Lock()
				r.cands = append(r.cands, c09Cand{Case: c09Case{family, ts, root, d, tr, nil}, F: f, Tree: got})
				r.mu.Unlock()
			}
		}
	}
}

// c09ReducedDepth: the depth combinations REST and gRPC run on when a state
// is explored in reduced mode (thorough tier, 5-tuple states); the engine
// path always runs on all of them.
func c09ReducedDepth(d c09Depth) bool {
	switch d {
	case c09Depth{3, 5}, c09Depth{5, 5}, c09Depth{0, 3}, c09Depth{0, c09Unbound}:
		return true
	}
	return false
}

func c09Max(a *atomic.Int64, v int64) {
	for {
		old := a.Load()
		if v <= old || a.CompareAndSwap(old, v) {
			return
		}
	}
}

func c09TuplesOf(seq []uint8) []*ketoapi.RelationTuple {
	out := make([]*ketoapi.RelationTuple, len(seq))
	for i, x := range seq {
		out[i] = c09Tuple(int(x))
	}
	return out
}

// c09Shape classifies a multiset for the per-family counts.
func c09Shape(ms []uint8) []string {
	var out []string
	ts := c09TuplesOf(ms)
	g := refsem.NewExpandGraph(ts)
	root := c09RootKey()
	reach := g.Reach(root)
	cyc, self, dia, dup := false, false, false, false
	for i := 1; i < len(ms); i++ {
		dup = dup || ms[i] == ms[i-1]
	}
	for x := range reach {
		if !x.IsSet() {
			continue
		}
		if g.HasEdge(x, x) {
			self = true
		}
		if g.Reach(x)[x] {
			cyc = true
		}
	}
	if reach[root] {
		cyc = true
	}
	for x := range reach {
		preds := map[refsem.SubjectKey]bool{}
		for _, p := range g.In(x) {
			preds[p] = true
		}
		if len(preds) >= 2 {
			dia = true
		}
	}
	if cyc {
		out = append(out, "cycle")
	}
	if self {
		out = append(out, "self-loop")
	}
	if dia {
		out = append(out, "diamond(shared subject)")
	}
	if dup {
		out = append(out, "duplicate-rows")
	}
	maxd := 0
	for _, d := range g.Dist(root) {
		if d > maxd {
			maxd = d
		}
	}
	out = append(out, fmt.Sprintf("max-distance-%d", maxd))
	return out
}

// ---- fan-out families ------------------------------------------------------------

type c09Fan struct {
	Name   string
	Tuples []*ketoapi.RelationTuple // listing order
	Checks []string
}

func c09FanCases() []c09Fan {
	var out []c09Fan
	user := func(i int) *ketoapi.RelationTuple { return axID(c09NS, "o1", "r1", fmt.Sprintf("w%03d", i)) }
	set := func(obj string) *ketoapi.RelationTuple { return axSet(c09NS, "o1", "r1", c09NS, obj, "r1") }
	for _, n := range []int{99, 100, 101, 201} {
		var pos []int
		for _, p := range []int{0, 98, 99, 100, 101, 199, 200, n - 1} {
			if p < n {
				pos = append(pos, p)
			}
		}
		sort.Ints(pos)
		pos = c09UniqInts(pos)
		// one nested set B at listing position p; B -> v, B -> root (cycle)
		for _, p := range pos {
			var ts []*ketoapi.RelationTuple
			for i := 0; i < n; i++ {
				if i == p {
					ts = append(ts, set("o2"))
				} else {
					ts = append(ts, user(i))
				}
			}
			ts = append(ts, axID(c09NS, "o2", "r1", "v"), axSet(c09NS, "o2", "r1", c09NS, "o1", "r1"))
			out = append(out, c09Fan{fmt.Sprintf("fan%d/set-at-%d", n, p), ts, []string{"v", "w000", fmt.Sprintf("w%03d", n-1), "zz"}})
		}
		// two nested sets B (at p) and C (at q), C -> B, B -> v: the diamond across page borders, both orders
		for _, p := range pos {
			for _, q := range pos {
				if p == q {
					continue
				}
				var ts []*ketoapi.RelationTuple
				for i := 0; i < n; i++ {
					switch i {
					case p:
						ts = append(ts, set("o2"))
					case q:
						ts = append(ts, set("o3"))
					default:
						ts = append(ts, user(i))
					}
				}
				ts = append(ts, axID(c09NS, "o2", "r1", "v"), axSet(c09NS, "o3", "r1", c09NS, "o2", "r1"))
				out = append(out, c09Fan{fmt.Sprintf("fan%d/B-at-%d/C-at-%d", n, p, q), ts, []string{"v", "zz"}})
			}
		}
		// the wide set one level down: root -> B, B has n users
		ts := []*ketoapi.RelationTuple{set("o2")}
		for i := 0; i < n; i++ {
			ts = append(ts, axID(c09NS, "o2", "r1", fmt.Sprintf("w%03d", i)))
		}
		out = append(out, c09Fan{fmt.Sprintf("fan%d/second-level", n), ts, []string{"w000", fmt.Sprintf("w%03d", n-1), "zz"}})
	}
	return out
}

func c09UniqInts(xs []int) []int {
	var out []int
	for i, x := range xs {
		if i == 0 || x != xs[i-1] {
			out = append(out, x)
		}
	}
	return out
}

// ---- the check -----------------------------------------------------------------------

func c09Listing(c c09Case) string {
	var b strings.Builder
	for _, t := range c.Tuples {
		b.WriteString(string(refsem.Key(t)))
		b.WriteByte(';')
	}
	fmt.Fprintf(&b, "%d/%d", c.Depth.Req, c.Depth.Global)
	return b.String()
}

func c09CaseSize(c c09Case) int {
	tr := map[string]int{"engine": 0, "rest": 1, "grpc": 2}[c.Transport]
	return len(c.Tuples)*1000 + c.Depth.eff()*10 + tr
}

func TestC09(t *testing.T) {
	run := ev.New("C09", "exploration")
	r := &c09Run{shape: map[string]int{}}
	var pmu sync.Mutex
	worlds := map[int]*c09World{}
	world := func(w int) *c09World {
		pmu.Lock()
		defer pmu.Unlock()
		if worlds[w] == nil {
			worlds[w] = c09NewWorld(t)
		}
		return worlds[w]
	}
	checkIDs := []string{"u1", "u2", "zz"}

	replayOne := func(w *c09World, c c09Case) []c09Finding {
		w.load(c.Tuples)
		w.order(c.Tuples)
		sub := &c09Run{shape: map[string]int{}}
		sub.runState(w, c.Family, c.Tuples, c.Root, []c09Depth{c.Depth}, []string{c.Transport}, c.Checks, false)
		var fs []c09Finding
		for _, cd := range sub.cands {
			fs = append(fs, cd.F)
		}
		return fs
	}

	if rp, ok := axReplay("C09"); ok {
		var c c09Case
		if err := json.Unmarshal([]byte(c04JSON(rp["case"])), &c); err != nil {
			fmt.Printf("INFRA-ERROR replay: %v\n", err)
			t.FailNow()
		}
		var fs []c09Finding
		if strings.HasPrefix(c.Family, "reconfigure:") {
			// the run-time reconfiguration family is small and deterministic: the replay re-runs it
			c09Reconfigure(t, r)
			for _, cd := range r.cands {
				fs = append(fs, cd.F)
			}
		} else {
			fs = replayOne(world(0), c)
		}
		for _, f := range fs {
			run.Violation(f.Sig, f.What, rp)
		}
		if len(fs) == 0 {
			fmt.Println("  [replay] the recorded case satisfies the oracle now")
		}
		return
	}

	maxTuples := 4
	if ev.Thorough() {
		maxTuples = 5
	}
	levels := c09Multisets(maxTuples)
	var all [][]uint8
	perSize := map[string]int{}
	for k := 1; k <= maxTuples; k++ {
		all = append(all, levels[k]...)
		perSize[fmt.Sprint(k)] = len(levels[k])
	}
	deadline := ev.Deadline(200, 1500)
	var timedOut atomic.Bool
	var doneSets atomic.Int64
	depths := c09Depths()

	// the set without tuples: no tree on every path
	{
		w := world(0)
		w.load(nil)
		r.runState(w, "empty", nil, c09Root, depths, c09Transports, nil, false)
	}

	fans := c09FanCases()
	fanDepths := []c09Depth{{1, 5}, {2, 5}, {3, 5}, {0, 5}, {0, c09Unbound}}
	var doneFans atomic.Int64
	t0 := time.Now()
	axParallel(len(fans), world, func(w *c09World, i int) {
		if time.Now().After(deadline) {
			timedOut.Store(true)
			return
		}
		f := fans[i]
		w.load(f.Tuples)
		w.order(f.Tuples)
		r.runState(w, "fanout:"+f.Name, f.Tuples, c09Root, fanDepths, c09Transports, f.Checks, false)
		doneFans.Add(1)
	})
	fmt.Printf("[c09] fan-out family: %d cases in %.1fs\n", doneFans.Load(), time.Since(t0).Seconds())

	// two-namespace family: nodes n:o1#r1 (root), m:o1#r1, n:o2#r1, m:o2#r1 - a subject set is identified by
	// namespace, object AND relation; every root-connected set of <= 3 tuples over these nodes and two users,
	// in listing order and reversed
	two := c09TwoNSCases()
	var doneTwo atomic.Int64
	t0 = time.Now()
	axParallel(len(two), world, func(w *c09World, i int) {
		if time.Now().After(deadline) {
			timedOut.Store(true)
			return
		}
		f := two[i]
		w.load(f.Tuples)
		w.order(f.Tuples)
		r.runState(w, "two-namespaces:"+f.Name, f.Tuples, c09Root, []c09Depth{{0, 5}, {2, 5}, {0, c09Unbound}}, c09Transports, f.Checks, false)
		doneTwo.Add(1)
	})
	fmt.Printf("[c09] two-namespace family: %d cases in %.1fs\n", doneTwo.Load(), time.Since(t0).Seconds())

	// run-time reconfiguration: limit.max_read_depth changes while ONE registry keeps serving; every expansion
	// after a change must follow the limit in force when it is issued
	reconf := c09Reconfigure(t, r)

	t0 = time.Now()
	axParallel(len(all), world, func(w *c09World, i int) {
		if time.Now().After(deadline) {
			timedOut.Store(true)
			return
		}
		ms := all[i]
		for _, s := range c09Shape(ms) {
			r.note(s)
		}
		w.load(c09TuplesOf(ms))
		for _, seq := range c09Orders(ms) {
			ts := c09TuplesOf(seq)
			w.order(ts)
			r.runState(w, "small", ts, c09Root, depths, c09Transports, checkIDs, len(ms) >= 5)
		}
		doneSets.Add(1)
	})
	fmt.Printf("[c09] small family: %d multisets, %d stored states, %d expands in %.1fs\n", doneSets.Load(), r.states.Load(), r.expands.Load(), time.Since(t0).Seconds())

	// report the smallest confirmed counterexample per signature
	// (size, then the listing itself: the reported counterexample does not depend on worker scheduling)
	sort.SliceStable(r.cands, func(i, j int) bool {
		a, b := c09CaseSize(r.cands[i].Case), c09CaseSize(r.cands[j].Case)
		if a != b {
			return a < b
		}
		if r.cands[i].F.Sig != r.cands[j].F.Sig {
			return r.cands[i].F.Sig < r.cands[j].F.Sig
		}
		return c09Listing(r.cands[i].Case) < c09Listing(r.cands[j].Case)
	})
	reported := map[string]bool{}
	sigCount := map[string]int{}
	unstable := 0
	for _, cd := range r.cands {
		sigCount[cd.F.Sig]++
		if reported[cd.F.Sig] {
			continue
		}
		stable := true
		// (a reconfiguration case is a sequence on its own registry, not a stored state: it is not re-run here)
		for rep := 0; rep < 2 && stable && !strings.HasPrefix(cd.Case.Family, "reconfigure:"); rep++ {
			stable = false
			for _, f := range replayOne(world(axFreshIndex()), cd.Case) { // fresh world per confirmation
				stable = stable || f.Sig == cd.F.Sig
			}
		}
		if !stable {
			unstable++
			continue
		}
		reported[cd.F.Sig] = true
		var keys []string
		for _, tp := range cd.Case.Tuples {
			keys = append(keys, tp.String())
		}
		if len(keys) > 12 {
			keys = append(keys[:12], fmt.Sprintf("… %d more", len(keys)-12))
		}
		cs := cd.Case
		if len(cs.Tuples) > 300 {
			cs.Tuples = nil // fan-out cases are regenerated from the family name
		}
		run.Violation(cd.F.Sig, fmt.Sprintf("%s  [%s, %s, request max-depth %d, limit.max_read_depth %d, rows in listing order: %s] tree: %s", cd.F.What, cd.Case.Family, cd.Case.Transport, cd.Case.Depth.Req, cd.Case.Depth.Global, strings.Join(keys, " ; "), c05Short(cd.Tree)),
			map[string]any{"case": cs, "tree": cd.Tree})
	}

	run.Assume(
		"effective depth eff = request max-depth, or limit.max_read_depth when the request value is absent, <= 0 or larger (C02 covers that rule itself)",
		"'within the effective depth' is read as: at most eff-1 relationships away from the requested set (the requested set is level 1 of eff levels) — the reading under which the engine demands the least; 'never exceeds the effective max-depth' is read as: at most eff edges on any root-to-leaf path (the engine's trees have at most eff levels, i.e. eff-1 edges; max(levels-eff) observed is reported)",
		"a subject 'appears in the tree' if any node (leaf or inner) carries it; multiplicities are not compared",
		"termination bound: the engine path issues at most sum over the subject sets reachable from S (and S) of max(1, ceil(rows/100)) SQL statements; REST and gRPC additionally one mapping lookup per tree node. A run that exceeds 4x the bound (+32) is stopped by failing the next statement (step-count horizon, no wall-clock)",
		"depth not binding = limit.max_read_depth 50, request depth absent; Check through REST (openapi variant) on the same store",
		"listing order = shard_id order, set by raw SQL; only the relative order of rows of the same subject set can matter and all of those are enumerated",
	)
	for _, i := range []int{0, len(all) / 3, 2 * len(all) / 3, len(all) - 1} {
		var keys []string
		for _, tp := range c09TuplesOf(all[i]) {
			keys = append(keys, tp.String())
		}
		run.Sample(map[string]any{"family": "small", "index": i, "tuples": keys, "sibling_orders": len(c09Orders(all[i])), "shape": c09Shape(all[i])})
	}
	for _, i := range []int{0, len(fans) / 2, len(fans) - 1} {
		run.Sample(map[string]any{"family": "fanout", "name": fans[i].Name, "rows": len(fans[i].Tuples)})
	}
	r.mu.Lock()
	shape := r.shape
	r.mu.Unlock()
	run.Finish(map[string]any{
		"evaluations":                int(r.expands.Load()),
		"statement_faults_injected":  int(r.faults.Load()),
		"distinct_nontrivial":        int(r.nontriv.Load()),
		"rule":                       "evaluations = expand calls (stored state x depth combination x path); a stored state = (tuple multiset up to renaming, sibling row order) and is non-trivial iff some subject is at distance >= 2 from the requested set (a nested set must be expanded); distinct_nontrivial counts distinct non-trivial stored states",
		"two_namespace_cases":        int(doneTwo.Load()),
		"reconfiguration_expands":    reconf,
		"exhaustive":                 !timedOut.Load() && unstable == 0,
		"max_tuples":                 maxTuples,
		"multisets_per_size":         perSize,
		"multisets_done":             int(doneSets.Load()),
		"multisets_total":            len(all),
		"stored_states":              int(r.states.Load()),
		"fanout_cases":               int(doneFans.Load()),
		"fanout_sizes":               []int{99, 100, 101, 201},
		"depth_combinations":         depths,
		"paths":                      c09Transports,
		"reduced_mode":               "5-tuple states (thorough): REST and gRPC on the depth combinations 3/5, 5/5, 0/3, 0/50 only; the engine path on all",
		"check_comparisons":          int(r.checks.Load()),
		"shape_counts":               shape,
		"max_levels_minus_eff_depth": int(r.maxOver.Load()),
		"max_statements_per_expand":  int(r.maxStmts.Load()),
		"candidates":                 len(r.cands),
		"candidate_signatures":       sigCount,
		"unstable_candidates":        unstable,
		"symmetry":                   "objects o2..o4 and users u1/u2 renamed (12 images), canonical representative = least sorted index list",
	})
}

// ---- two namespaces --------------------------------------------------------------------------------------

func c09TwoNSCases() []c09Fan {
	type node struct{ ns, obj string }
	nodes := []node{{c09NS, "o1"}, {c09NS2, "o1"}, {c09NS, "o2"}, {c09NS2, "o2"}}
	var univ []*ketoapi.RelationTuple
	for _, src := range nodes {
		for _, u := range []string{"u1", "u2"} {
			univ = append(univ, axID(src.ns, src.obj, "r1", u))
		}
		for _, dst := range nodes {
			univ = append(univ, axSet(src.ns, src.obj, "r1", dst.ns, dst.obj, "r1"))
		}
	}
	connected := func(ts []*ketoapi.RelationTuple) bool {
		reach := map[string]bool{c09NS + ":o1": true}
		for changed := true; changed; {
			changed = false
			for _, t := range ts {
				if reach[t.Namespace+":"+t.Object] && t.SubjectSet != nil && !reach[t.SubjectSet.Namespace+":"+t.SubjectSet.Object] {
					reach[t.SubjectSet.Namespace+":"+t.SubjectSet.Object] = true
					changed = true
				}
			}
		}
		for _, t := range ts {
			if !reach[t.Namespace+":"+t.Object] {
				return false
			}
		}
		return true
	}
	var out []c09Fan
	add := func(ix ...int) {
		var ts []*ketoapi.RelationTuple
		usesM := false
		for _, i := range ix {
			ts = append(ts, univ[i])
			usesM = usesM || univ[i].Namespace == c09NS2 || (univ[i].SubjectSet != nil && univ[i].SubjectSet.Namespace == c09NS2)
		}
		if !usesM || !connected(ts) {
			return // single-namespace shapes are the small family's
		}
		name := fmt.Sprint(ix)
		out = append(out, c09Fan{name, ts, []string{"u1", "u2"}})
		if len(ts) > 1 {
			rev := make([]*ketoapi.RelationTuple, len(ts))
			for i := range ts {
				rev[len(ts)-1-i] = ts[i]
			}
			out = append(out, c09Fan{name + "/reversed", rev, []string{"u1", "u2"}})
		}
	}
	n := len(univ)
	for a := 0; a < n; a++ {
		add(a)
		for b := a + 1; b < n; b++ {
			add(a, b)
			for c := b + 1; c < n; c++ {
				add(a, b, c)
			}
		}
	}
	return out
}

// ---- run-time reconfiguration of limit.max_read_depth -------------------------------------------------------

func c09Reconfigure(t testing.TB, r *c09Run) int {
	s := apih.NewServer(t, apih.Options{Namespaces: []*namespace.Namespace{{Name: c09NS}}, Config: map[string]any{"limit.max_read_depth": 5}})
	// a chain of 8 levels below the root: root -> c1 -> ... -> c8 -> user
	var ts []*ketoapi.RelationTuple
	prev := "o1"
	for i := 1; i <= 8; i++ {
		next := fmt.Sprintf("c%d", i)
		ts = append(ts, axSet(c09NS, prev, "r1", c09NS, next, "r1"))
		prev = next
	}
	ts = append(ts, axID(c09NS, prev, "r1", "deep"))
	if _, err := s.Client().GTransact(c05Deltas(ts, nil, -1, "")); err != nil {
		panic(fmt.Sprintf("c09 reconfigure: load: %v", err))
	}
	m := c09NewModel(ts, c09Root)
	names := map[string]string{}
	w := &c09World{s: s}
	n := 0
	reported := false
	for _, seq := range [][]int{{5, 2}, {2, 5}, {5, 20}, {20, 3}, {3, 20, 2}, {5, 2, 5}, {2, 20, 5}} {
		for step, g := range seq {
			if err := s.Reg.Config(s.Ctx).Set("limit.max_read_depth", g); err != nil {
				panic(fmt.Sprintf("c09 reconfigure: set: %v", err))
			}
			if got := s.Reg.Config(s.Ctx).MaxReadDepth(); got != g {
				panic(fmt.Sprintf("c09 reconfigure: limit is %d after setting %d", got, g))
			}
			for _, req := range []int{0, 1, 4, 30} {
				for _, tr := range c09Transports {
					var res c09Result
					switch tr {
					case "engine":
						sub, err := s.Reg.ReadOnlyMapper().FromSubjectSet(s.Ctx, c09Root)
						if err != nil {
							panic(err)
						}
						tree, err := s.Reg.ExpandEngine().BuildTree(s.Ctx, sub, req)
						if err != nil {
							res.Err = err.Error()
						} else if tree == nil {
							res.Absent = true
						} else {
							if len(names) == 0 {
								names = w.names()
							}
							res.Tree = c09FromEngine(tree, names)
						}
					case "rest":
						resp := s.Client().Expand(c09Root, apih.Itoa(req))
						if resp.Status == 200 && !c09IsNotFoundBody(resp.JSON) {
							res.Tree = c09FromJSON(resp.JSON)
						} else if resp.Status == 200 || resp.Status == 404 {
							res.Absent = true
						} else {
							res.Err = c05Short(resp.String())
						}
					case "grpc":
						resp, err := s.Client().GExpand(apih.ProtoSubject(nil, c09Root), int32(req))
						if err != nil {
							res.Err = err.Error()
						} else if resp.Tree == nil {
							res.Absent = true
						} else {
							res.Tree = c09FromProto(resp.Tree)
						}
					}
					n++
					d := c09Depth{Req: req, Global: g}
					fs, _ := c09Judge(m, res, d.eff(), tr)
					for _, f := range fs {
						if reported {
							break
						}
						reported = true
						r.mu.Lock()
						r.cands = append(r.cands, c09Cand{Case: c09Case{fmt.Sprintf("reconfigure:%v:step%d", seq, step), ts, c09Root, d, tr, nil}, F: c09Finding{"after-run-time-change-of-the-limit:" + f.Sig, fmt.Sprintf("limit.max_read_depth set %v at run time on one registry; after step %d (limit %d), request max-depth %d: %s", seq, step+1, g, req, f.What)}, Tree: res.Tree.String()})
						r.mu.Unlock()
					}
				}
			}
		}
	}
	return n
}

//go:build sqlite

// C07 — pagination returns every matching relationship exactly once.
// Bounded-exhaustive exploration on the real read handlers (REST and gRPC)
// over a sqlite store whose row order (shard_id, the keyset pagination key)
// is placed by the harness:
//
//	static   page size s in {1,2,3} x m matching rows around the page boundaries
//	         x 24 query shapes (2^4, subject as id and as set) x duplicates,
//	         matching rows interleaved with near-miss decoys
//	large    s in {0 (default 100), 100} x m in {99,100,101,201}
//	dynamic  between page fetches, at every page boundary, one operation from
//	         {none, insert below the cursor, insert above the cursor, delete a
//	         row already returned, delete a row not yet returned}: all 5^3
//	         sequences for iterations of up to 4 pages
//	tokens   malformed / unknown / upper-case / very long page tokens
package api

import (
	"context"
	"encoding/json"
	"errors"
	"fmt"
	"sort"
	"strconv"
	"strings"
	"sync"
	"sync/atomic"
	"testing"
	"time"

	"github.com/mattn/go-sqlite3"
	"google.golang.org/grpc/codes"

	"github.com/ory/keto/ketoapi"
	rts "github.com/ory/keto/proto/ory/keto/relation_tuples/v1alpha2"
	"github.com/ory/keto/verif/apih"
	"github.com/ory/keto/verif/ev"
	"github.com/ory/keto/verif/refsem"
	"github.com/ory/keto/verif/sqlfault"
)

type c07Case struct {
	Family    string `json:"family"`
	Transport string `json:"transport"`
	S         int    `json:"page_size"` // 0 = absent (default 100)
	M         int    `json:"rows"`
	Shape     int    `json:"shape"` // bits: 1 ns, 2 obj, 4 rel, 8 subject
	SubSet    bool   `json:"subject_set"`
	Dups      bool   `json:"duplicates"`
	Ops       []int  `json:"ops,omitempty"`   // dynamic: op at boundary 1,2,3
	Token     string `json:"token,omitempty"` // tokens family
	TokenKind string `json:"token_kind,omitempty"`
}

func (c c07Case) String() string {
	return fmt.Sprintf("%s/%s s=%d m=%d shape=%d set=%v dups=%v ops=%v token=%s", c.Family, c.Transport, c.S, c.M, c.Shape, c.SubSet, c.Dups, c.Ops, c.TokenKind)
}

var c07OpNames = []string{"none", "insert-below-cursor", "insert-above-cursor", "delete-returned", "delete-not-yet-returned"}

// c07Query is the query of a shape; constrained fields have fixed values.
func c07Query(shape int, subSet bool) *ketoapi.RelationQuery {
	q := &ketoapi.RelationQuery{}
	if shape&1 != 0 {
		q.Namespace = axS("n1")
	}
	if shape&2 != 0 {
		q.Object = axS("o")
	}
	if shape&4 != 0 {
		q.Relation = axS("r")
	}
	if shape&8 != 0 {
		if subSet {
			q.SubjectSet = &ketoapi.SubjectSet{Namespace: "n1", Object: "g", Relation: "m"}
		} else {
			q.SubjectID = axS("x")
		}
	}
	return q
}

// c07Row builds the i-th row matching the query: constrained fields take the
// query's value, free fields vary with i (tag makes the free object/subject unique per role).
func c07Row(shape int, subSet bool, i int, tag string) *ketoapi.RelationTuple {
	t := &ketoapi.RelationTuple{Namespace: "n1", Object: "o", Relation: "r"}
	if shape&1 == 0 && i%2 == 1 {
		t.Namespace = "n2"
	}
	if shape&2 == 0 {
		t.Object = fmt.Sprintf("%s%d", tag, i)
	}
	if shape&4 == 0 {
		t.Relation = fmt.Sprintf("r%d", i%3)
	}
	switch {
	case shape&8 != 0 && subSet:
		t.SubjectSet = &ketoapi.SubjectSet{Namespace: "n1", Object: "g", Relation: "m"}
	case shape&8 != 0:
		t.SubjectID = axS("x")
	case shape&2 != 0 || i%2 == 0: // free subject; unique when the object is constrained
		t.SubjectID = axS(fmt.Sprintf("%su%d", tag, i))
	default:
		t.SubjectSet = &ketoapi.SubjectSet{Namespace: "n1", Object: fmt.Sprintf("%sg%d", tag, i), Relation: "m"}
	}
	return t
}

// c07Decoys: rows that differ from the query in exactly one constrained field.
func c07Decoys(shape int, subSet bool) []*ketoapi.RelationTuple {
	var out []*ketoapi.RelationTuple
	base := func() *ketoapi.RelationTuple { return c07Row(shape, subSet, 0, "d") }
	if shape&1 != 0 {
		t := base()
		t.Namespace = "n2"
		out = append(out, t)
	}
	if shape&2 != 0 {
		t := base()
		t.Object = "o2"
		out = append(out, t)
	}
	if shape&4 != 0 {
		t := base()
		t.Relation = "r9"
		out = append(out, t)
	}
	if shape&8 != 0 {
		if subSet {
			for _, ss := range []ketoapi.SubjectSet{{Namespace: "n2", Object: "g", Relation: "m"}, {Namespace: "n1", Object: "g2", Relation: "m"}, {Namespace: "n1", Object: "g", Relation: ""}} {
				t := base()
				s := ss
				t.SubjectSet = &s
				out = append(out, t)
			}
			t := base()
			t.SubjectSet, t.SubjectID = nil, axS("g")
			out = append(out, t)
		} else {
			t := base()
			t.SubjectID = axS("x2")
			out = append(out, t)
			t = base()
			t.SubjectID, t.SubjectSet = nil, &ketoapi.SubjectSet{Namespace: "n1", Object: "x", Relation: ""}
			out = append(out, t)
		}
	}
	return out
}

type c07Page struct {
	Items []*ketoapi.RelationTuple
	Token string
}

// c07Fetch gets one page. errClass: "" ok, else "4xx"/"5xx"/"client"/"internal"/"other".
func c07Fetch(c *apih.Client, transport string, q *ketoapi.RelationQuery, s int, token string) (p c07Page, errClass, desc string) {
	if transport == "rest" {
		r, g := c.List(q, apih.Itoa(s), token)
		if g == nil {
			switch {
			case r.Panic != "":
				return p, "panic", r.String()
			case r.Status >= 400 && r.Status < 500:
				return p, "4xx", r.String()
			case r.Status >= 500:
				return p, "5xx", r.String()
			}
			return p, "other", r.String()
		}
		return c07Page{Items: g.RelationTuples, Token: g.NextPageToken}, "", ""
	}
	g, err := c.GList(apih.ProtoQuery(q), int32(s), token)
	if err != nil {
		switch apih.Code(err) {
		case codes.InvalidArgument, codes.NotFound, codes.OutOfRange, codes.FailedPrecondition:
			return p, "client", err.Error()
		case codes.Internal, codes.Unknown:
			return p, "internal", err.Error()
		}
		return p, "other", err.Error()
	}
	for _, x := range g.RelationTuples {
		p.Items = append(p.Items, apih.TupleFromProto(x))
	}
	p.Token = g.NextPageToken
	return p, "", ""
}

type c07Cand struct {
	Sig, What string
	Case      c07Case
	Extra     map[string]any
}

type c07Run struct {
	mu       sync.Mutex
	cands    []c07Cand
	traces   map[string]bool // distinct non-trivial executions
	requests atomic.Int64
	multi    atomic.Int64
	opsDone  [5]atomic.Int64
	opsNA    atomic.Int64
}

func (r *c07Run) cand(c c07Cand) { r.mu.Lock(); r.cands = append(r.cands, c); r.mu.Unlock() }

func (r *c07Run) trace(k string) { r.mu.Lock(); r.traces[k] = true; r.mu.Unlock() }

// c07Populate stores the rows in exactly the given listing order.
func c07Populate(s *apih.Server, want []*ketoapi.RelationTuple) []apih.StoredRow {
	s.Truncate()
	if len(want) == 0 {
		return nil
	}
	c := s.Client()
	var deltas []*rts.RelationTupleDelta
	for _, t := range want {
		deltas = append(deltas, axDelta(rts.RelationTupleDelta_ACTION_INSERT, t))
	}
	if _, err := c.GTransact(deltas); err != nil {
		panic(fmt.Sprintf("c07: populate: %v", err))
	}
	cur := s.Rows(s.DefaultNetwork())
	if len(cur) != len(want) {
		panic(fmt.Sprintf("c07: populate stored %d rows, want %d", len(cur), len(want)))
	}
	byKey := map[string][]int{}
	for i, row := range cur {
		byKey[row.Key] = append(byKey[row.Key], i)
	}
	perm := make([]int, len(want))
	for k, t := range want {
		key := string(refsem.Key(t))
		l := byKey[key]
		if len(l) == 0 {
			panic("c07: populate lost " + key)
		}
		perm[k], byKey[key] = l[0], l[1:]
	}
	return s.SetRowOrder(s.DefaultNetwork(), perm, 1000)
}

func c07ShardN(id string) int {
	n, err := strconv.ParseInt(strings.TrimPrefix(id, "00000000-0000-4000-8000-"), 16, 64)
	if err != nil {
		return -1
	}
	return int(n)
}

func c07Keys(ts []*ketoapi.RelationTuple) []string {
	out := make([]string, len(ts))
	for i, t := range ts {
		out[i] = string(refsem.Key(t))
	}
	return out
}

// runStatic covers the families static and large.
func (r *c07Run) runStatic(s *apih.Server, cs c07Case) {
	q := c07Query(cs.Shape, cs.SubSet)
	var match []*ketoapi.RelationTuple
	for i := 0; i < cs.M; i++ {
		j := i
		if cs.Dups {
			j = i / 2 * 2
		}
		match = append(match, c07Row(cs.Shape, cs.SubSet, j, "o"))
	}
	decoys := c07Decoys(cs.Shape, cs.SubSet)
	// interleave: a decoy in front, then after every matching row while they last, the rest at the end
	var order []*ketoapi.RelationTuple
	di := 0
	next := func() {
		if di < len(decoys) {
			order = append(order, decoys[di])
			di++
		}
	}
	next()
	for _, t := range match {
		order = append(order, t)
		next()
	}
	for di < len(decoys) {
		next()
	}
	c07Populate(s, order)
	want := refsem.MultisetOf(match)
	for _, t := range match {
		if !refsem.Matches(t, q) {
			panic("c07: generator produced a non-matching row")
		}
	}
	for _, t := range decoys {
		if refsem.Matches(t, q) {
			panic("c07: generator produced a matching decoy")
		}
	}
	eff := cs.S
	if eff == 0 {
		eff = 100
	}
	c := s.Client()
	var got []*ketoapi.RelationTuple
	token, pages := "", 0
	for {
		p, ec, desc := c07Fetch(c, cs.Transport, q, cs.S, token)
		r.requests.Add(1)
		if ec != "" {
			r.cand(c07Cand{Sig: "list-error:" + cs.Transport, What: fmt.Sprintf("page %d failed: %s", pages+1, desc), Case: cs})
			return
		}
		pages++
		if len(p.Items) > eff {
			r.cand(c07Cand{Sig: "page-too-large:" + cs.Transport, What: fmt.Sprintf("page %d holds %d items, page size %d", pages, len(p.Items), eff), Case: cs})
		}
		got = append(got, p.Items...)
		if p.Token == "" {
			break
		}
		if len(got) >= cs.M && refsem.DiffMultiset(refsem.MultisetOf(got), want, false) == "" {
			// everything was returned, yet the page carries a token: it was the last page
			r.cand(c07Cand{Sig: "token-on-last-page:" + cs.Transport, What: fmt.Sprintf("page %d returned the last of %d matching rows but carries next_page_token %q", pages, cs.M, p.Token), Case: cs, Extra: map[string]any{"pages": pages}})
		}
		token = p.Token
		if pages > cs.M+5 {
			r.cand(c07Cand{Sig: "no-termination:" + cs.Transport, What: fmt.Sprintf("more than %d pages for %d rows", pages, cs.M), Case: cs})
			return
		}
	}
	if d := refsem.DiffMultiset(refsem.MultisetOf(got), want, false); d != "" {
		sig := "concat-mismatch:"
		if len(got) < cs.M {
			sig = "rows-missing:" // includes: token empty before the last page
		} else if len(got) > cs.M {
			sig = "rows-repeated-or-foreign:"
		}
		r.cand(c07Cand{Sig: sig + cs.Transport, What: fmt.Sprintf("following the tokens returned %d items in %d pages, the query matches %d rows: %s", len(got), pages, cs.M, d), Case: cs, Extra: map[string]any{"returned": c07Keys(got)}})
	}
	if pages >= 2 {
		r.multi.Add(1)
		r.trace(cs.String())
	}
}

// runDynamic: rows alternate stable / victim; one operation per page boundary.
func (r *c07Run) runDynamic(s *apih.Server, cs c07Case) {
	q := c07Query(cs.Shape, cs.SubSet)
	type rowInfo struct {
		t      *ketoapi.RelationTuple
		key    string
		n      int // shard number
		victim bool
		alive  bool
	}
	var order []*ketoapi.RelationTuple
	var rows []*rowInfo
	for i := 0; i < cs.M; i++ {
		tag := "st"
		if i%2 == 1 {
			tag = "vi"
		}
		t := c07Row(cs.Shape, cs.SubSet, i, tag)
		order = append(order, t)
		rows = append(rows, &rowInfo{t: t, key: string(refsem.Key(t)), victim: i%2 == 1, alive: true})
	}
	placed := c07Populate(s, order)
	for i := range rows {
		rows[i].n = c07ShardN(placed[i].ShardID)
	}
	stable := map[refsem.TupleKey]int{}
	for _, ri := range rows {
		if !ri.victim {
			stable[refsem.TupleKey(ri.key)]++
		}
	}
	c := s.Client()
	nid := s.DefaultNetwork()
	var got []*ketoapi.RelationTuple
	var applied []string
	token, pages := "", 0
	for {
		p, ec, desc := c07Fetch(c, cs.Transport, q, cs.S, token)
		r.requests.Add(1)
		if ec != "" {
			r.cand(c07Cand{Sig: "list-error:" + cs.Transport, What: fmt.Sprintf("page %d failed after %v: %s", pages+1, applied, desc), Case: cs})
			return
		}
		pages++
		if len(p.Items) > cs.S {
			r.cand(c07Cand{Sig: "page-too-large:" + cs.Transport, What: fmt.Sprintf("page %d holds %d items, page size %d", pages, len(p.Items), cs.S), Case: cs})
		}
		got = append(got, p.Items...)
		if p.Token == "" {
			break
		}
		token = p.Token
		if pages > 40 {
			r.cand(c07Cand{Sig: "no-termination:" + cs.Transport, What: "more than 40 pages", Case: cs, Extra: map[string]any{"applied": applied}})
			return
		}
		cur := c07ShardN(token)
		if cur < 0 {
			panic("c07: token is not a harness shard id: " + token)
		}
		op := 0
		if pages-1 < len(cs.Ops) {
			op = cs.Ops[pages-1]
		}
		insertAt := func(n int) {
			t := c07Row(cs.Shape, cs.SubSet, 100+pages, "in")
			if rr := c.Create(t); rr.Status != 201 {
				panic("c07: insert: " + rr.String())
			}
			key := string(refsem.Key(t))
			for _, row := range s.Rows(nid) {
				if row.Key == key {
					s.SetShardID(nid, row.ShardID, apih.ShardID(n))
					return
				}
			}
			panic("c07: inserted row not found")
		}
		del := func(ri *rowInfo) {
			if _, err := c.GTransact([]*rts.RelationTupleDelta{axDelta(rts.RelationTupleDelta_ACTION_DELETE, ri.t)}); err != nil {
				panic(fmt.Sprintf("c07: delete: %v", err))
			}
			ri.alive = false
		}
		done := true
		switch op {
		case 1:
			insertAt(cur - 10 - pages)
		case 2:
			insertAt(cur + 10 + pages)
		case 3: // the live victim closest below (or at) the cursor
			var v *rowInfo
			for _, ri := range rows {
				if ri.victim && ri.alive && ri.n <= cur && (v == nil || ri.n > v.n) {
					v = ri
				}
			}
			if v != nil {
				del(v)
			} else {
				done = false
			}
		case 4: // the live victim closest above the cursor
			var v *rowInfo
			for _, ri := range rows {
				if ri.victim && ri.alive && ri.n > cur && (v == nil || ri.n < v.n) {
					v = ri
				}
			}
			if v != nil {
				del(v)
			} else {
				done = false
			}
		}
		if done {
			r.opsDone[op].Add(1)
			applied = append(applied, c07OpNames[op])
		} else {
			r.opsNA.Add(1)
			applied = append(applied, "n/a")
		}
	}
	gotStable := map[refsem.TupleKey]int{}
	for _, t := range got {
		k := refsem.Key(t)
		if _, ok := stable[k]; ok {
			gotStable[k]++
		}
		if !refsem.Matches(t, q) {
			r.cand(c07Cand{Sig: "foreign-row:" + cs.Transport, What: fmt.Sprintf("returned %s which does not match the query", k), Case: cs})
		}
	}
	if d := refsem.DiffMultiset(gotStable, stable, false); d != "" {
		r.cand(c07Cand{Sig: "stable-row-not-exactly-once:" + cs.Transport, What: fmt.Sprintf("rows untouched during the iteration were not returned exactly once (ops at the page boundaries: %v): %s", applied, d), Case: cs, Extra: map[string]any{"applied": applied, "returned": c07Keys(got)}})
	}
	nontrivial := false
	for _, a := range applied {
		if a != "none" && a != "n/a" {
			nontrivial = true
		}
	}
	if nontrivial {
		r.trace(fmt.Sprintf("dyn/%s s=%d m=%d shape=%d %v", cs.Transport, cs.S, cs.M, cs.Shape, applied))
	}
}

func (r *c07Run) runToken(s *apih.Server, cs c07Case) {
	q := c07Query(cs.Shape, cs.SubSet)
	var order []*ketoapi.RelationTuple
	for i := 0; i < cs.M; i++ {
		order = append(order, c07Row(cs.Shape, cs.SubSet, i, "o"))
	}
	c07Populate(s, order)
	c := s.Client()
	tok := cs.Token
	if cs.TokenKind == "upper-case-real" || cs.TokenKind == "braced-real" || cs.TokenKind == "real+garbage" {
		p, ec, _ := c07Fetch(c, cs.Transport, q, cs.S, "")
		if ec != "" || p.Token == "" {
			panic("c07: no real token to derive from")
		}
		switch cs.TokenKind {
		case "upper-case-real":
			tok = strings.ToUpper(p.Token)
		case "braced-real":
			tok = "{" + p.Token + "}"
		default:
			tok = p.Token + "0"
		}
	}
	_, ec, desc := c07Fetch(c, cs.Transport, q, cs.S, tok)
	r.requests.Add(1)
	r.trace(cs.String())
	show := tok
	if len(show) > 60 {
		show = show[:60] + fmt.Sprintf("…(%d bytes)", len(tok))
	}
	malformed := !(cs.TokenKind == "random-uuid" || cs.TokenKind == "upper-case-real" || cs.TokenKind == "braced-real")
	switch {
	case ec == "5xx":
		sig := "wellformed-token-5xx"
		if malformed {
			sig = "malformed-token-5xx"
		}
		r.cand(c07Cand{Sig: sig, What: fmt.Sprintf("GET /relation-tuples?page_token=%s answered %s", show, desc), Case: cs})
	case ec == "internal":
		sig := "wellformed-token-internal"
		if malformed {
			sig = "malformed-token-internal"
		}
		r.cand(c07Cand{Sig: sig, What: fmt.Sprintf("ListRelationTuples(page_token=%s) failed with a server-side code: %s", show, desc), Case: cs})
	case ec == "panic" || ec == "other":
		r.cand(c07Cand{Sig: "token-unexpected-outcome:" + cs.Transport, What: fmt.Sprintf("page_token=%s: %s", show, desc), Case: cs})
	case ec == "" && malformed:
		r.cand(c07Cand{Sig: "malformed-token-accepted:" + cs.Transport, What: fmt.Sprintf("the malformed page token %s was accepted", show), Case: cs})
	}
	if ec == "" && !malformed && cs.TokenKind != "random-uuid" {
		// a re-spelled real token, if accepted, must continue the iteration correctly
		var got []*ketoapi.RelationTuple
		p1, _, _ := c07Fetch(c, cs.Transport, q, cs.S, "")
		got = append(got, p1.Items...)
		t := tok
		for i := 0; i < cs.M+3 && t != ""; i++ {
			p, e, _ := c07Fetch(c, cs.Transport, q, cs.S, t)
			if e != "" {
				break
			}
			got = append(got, p.Items...)
			t = p.Token
		}
		if d := refsem.DiffMultiset(refsem.MultisetOf(got), refsem.MultisetOf(order), false); d != "" {
			r.cand(c07Cand{Sig: "respelled-token-breaks-iteration:" + cs.Transport, What: fmt.Sprintf("continuing with the accepted token %s: %s", show, d), Case: cs})
		}
	}
}

func c07Cases() []c07Case {
	var out []c07Case
	type sv struct {
		shape int
		set   bool
	}
	var shapes []sv
	for sh := 0; sh < 16; sh++ {
		shapes = append(shapes, sv{sh, false})
		if sh&8 != 0 {
			shapes = append(shapes, sv{sh, true})
		}
	}
	trs := []string{"rest", "grpc"}
	// static
	for _, s := range []int{1, 2, 3} {
		ms := map[int]bool{0: true, 1: true, s - 1: true, s: true, s + 1: true, 2 * s: true, 2*s + 1: true}
		var ml []int
		for m := range ms {
			ml = append(ml, m)
		}
		sort.Ints(ml)
		for _, m := range ml {
			for _, sh := range shapes {
				for _, d := range []bool{false, true} {
					if d && m < 2 {
						continue
					}
					for _, tr := range trs {
						out = append(out, c07Case{Family: "static", Transport: tr, S: s, M: m, Shape: sh.shape, SubSet: sh.set, Dups: d})
					}
				}
			}
		}
	}
	// large
	largeShapes := []sv{{0, false}, {1, false}, {5, false}, {8, true}, {10, false}, {15, false}}
	if ev.Thorough() {
		largeShapes = shapes
	}
	for _, s := range []int{0, 100} {
		for _, m := range []int{99, 100, 101, 201} {
			for _, sh := range largeShapes {
				for _, tr := range trs {
					out = append(out, c07Case{Family: "large", Transport: tr, S: s, M: m, Shape: sh.shape, SubSet: sh.set})
				}
			}
		}
	}
	// very large pages: 1500 matching rows fetched with page sizes around 1000 and 1500 and far above (statement
	// and message-size limits one might put into the listing path sit at such round numbers)
	for _, s := range []int{999, 1000, 1001, 1499, 1500, 1501, 2000, 100000} {
		for _, sh := range []sv{{0, false}, {1, false}} {
			for _, tr := range trs {
				out = append(out, c07Case{Family: "large", Transport: tr, S: s, M: 1500, Shape: sh.shape, SubSet: sh.set})
			}
		}
	}
	// dynamic: all op sequences of length 3 (iterations of up to 4 pages; later boundaries: none)
	// (rows must be pairwise distinct here, so object or subject has to be free)
	dynShapes := []sv{{0, false}, {5, false}, {7, false}, {8, false}, {8, true}, {1, false}, {13, true}, {2, false}}
	dynSizes := []int{1, 2}
	if ev.Thorough() {
		dynSizes = []int{1, 2, 3}
		dynShapes = nil
		for _, sh := range shapes {
			if sh.shape&10 != 10 {
				dynShapes = append(dynShapes, sh)
			}
		}
	}
	for _, s := range dynSizes {
		var ms []int
		for m := s + 1; m <= 4*s; m++ {
			ms = append(ms, m)
		}
		for _, m := range ms {
			for code := 0; code < 125; code++ {
				ops := []int{code % 5, code / 5 % 5, code / 25}
				// an iteration over m rows has ceil(m/s)-1 boundaries unless inserts add some:
				// drop sequences that only differ behind the last boundary that can exist
				maxB := (m+s-1)/s - 1
				ins := 0
				skip := false
				for b, o := range ops {
					if b >= maxB+ins && o != 0 {
						skip = true
					}
					if o == 2 {
						ins++
					}
				}
				if skip {
					continue
				}
				for _, sh := range dynShapes {
					for _, tr := range trs {
						out = append(out, c07Case{Family: "dynamic", Transport: tr, S: s, M: m, Shape: sh.shape, SubSet: sh.set, Ops: ops})
					}
				}
			}
		}
	}
	// tokens
	long := strings.Repeat("a", 65536)
	toks := []struct{ kind, tok string }{
		{"malformed", "zzz"}, {"digits", "12345"}, {"non-hex-char", "g0000000-0000-4000-8000-000000000001"},
		{"too-short", "00000000-0000-4000-8000-00000000000"}, {"real+garbage", ""}, {"very-long", long},
		{"sql-ish", "' OR 1=1 --"}, {"random-uuid", "5ca1ab1e-0000-4000-8000-00000000beef"}, {"upper-case-real", ""}, {"braced-real", ""},
	}
	for _, tk := range toks {
		for _, m := range []int{0, 3} {
			if m == 0 && tk.tok == "" {
				continue
			}
			for _, sh := range []sv{{0, false}, {1, false}} {
				for _, tr := range trs {
					out = append(out, c07Case{Family: "tokens", Transport: tr, S: 1, M: m, Shape: sh.shape, Token: tk.tok, TokenKind: tk.kind})
				}
			}
		}
	}
	// single-statement faults: ONE statement of a page fetch fails once (every statement in turn). 150 rows with
	// 300 distinct names fetched as one page: the reverse lookup of the names then spans several lookup pages, so
	// a failure of a lookup page that is not the last one is among the positions. (Ops[0] = 0: the first page;
	// Ops[1] = the failing statement, 0 = discovered at run time from the fault-free fetch)
	for _, kind := range []string{"generic", "context-canceled"} {
		for _, tr := range trs {
			for k := 1; k <= 8; k++ {
				out = append(out, c07Case{Family: "faults", Transport: tr, S: 150, M: 150, Shape: 0, Ops: []int{0, k}, TokenKind: kind})
			}
		}
	}
	// faults: every statement issued while fetching page #Ops[0] fails with the given kind of error
	for _, kind := range []string{"generic", "sqlite-locked", "sqlite-busy", "context-canceled"} {
		for _, ps := range []int{1, 2} {
			m := 2*ps + 1
			for page := 0; page <= m/ps; page++ {
				for _, tr := range trs {
					out = append(out, c07Case{Family: "faults", Transport: tr, S: ps, M: m, Shape: 1, Ops: []int{page}, TokenKind: kind})
				}
			}
		}
	}
	return out
}

// runFault: storage refuses every statement of ONE page fetch (persistently for that fetch, so a retry
// inside the server fails as well). The fetch must report an error or return exactly the page it returns
// without the fault - never a shorter page or an empty "last" page; repeating the fetch with the same
// token afterwards, the iteration still yields every row exactly once.
func (r *c07Run) runFault(s *apih.Server, cs c07Case) {
	q := c07Query(cs.Shape, cs.SubSet)
	var match []*ketoapi.RelationTuple
	for i := 0; i < cs.M; i++ {
		match = append(match, c07Row(cs.Shape, cs.SubSet, i, "o"))
	}
	c07Populate(s, match)
	want := refsem.MultisetOf(match)
	var injected error
	switch cs.TokenKind {
	case "generic":
		injected = errors.New("injected storage failure")
	case "sqlite-locked":
		injected = sqlite3.Error{Code: sqlite3.ErrLocked}
	case "sqlite-busy":
		injected = sqlite3.Error{Code: sqlite3.ErrBusy}
	default:
		injected = context.Canceled
	}
	c := s.Client()
	var got []*ketoapi.RelationTuple
	token := ""
	for page := 0; page < cs.M+3; page++ {
		if page == cs.Ops[0] {
			ff, ec0, _ := c07Fetch(c, cs.Transport, q, cs.S, token) // fault-free answer for this token
			hit := 0
			nth := 0
			s.Tap.SetBefore(func(*sqlfault.Event) error {
				nth++
				if len(cs.Ops) > 1 && nth != cs.Ops[1] {
					return nil // single-statement mode: only statement Ops[1] fails, once
				}
				hit++
				return injected
			})
			fp, ec, desc := c07Fetch(c, cs.Transport, q, cs.S, token)
			s.Tap.SetBefore(nil)
			s.Settle()
			r.requests.Add(2)
			if hit > 0 {
				r.trace(cs.String())
			}
			if ec0 == "" && ec == "" && hit > 0 && (strings.Join(c07Keys(fp.Items), "|") != strings.Join(c07Keys(ff.Items), "|") || (fp.Token == "") != (ff.Token == "")) {
				r.cand(c07Cand{Sig: "storage-failure-reported-as-page:" + cs.TokenKind + ":" + cs.Transport, What: fmt.Sprintf("page %d was fetched while every SQL statement failed (%s): the answer is a success with %d items and token %q, without the fault it has %d items and token %q", page+1, cs.TokenKind, len(fp.Items), fp.Token, len(ff.Items), ff.Token), Case: cs})
				return
			}
			_ = desc
		}
		p, ec, desc := c07Fetch(c, cs.Transport, q, cs.S, token)
		r.requests.Add(1)
		if ec != "" {
			r.cand(c07Cand{Sig: "list-error:" + cs.Transport, What: fmt.Sprintf("page %d failed without fault: %s", page+1, desc), Case: cs})
			return
		}
		got = append(got, p.Items...)
		if p.Token == "" {
			break
		}
		token = p.Token
	}
	if d := refsem.DiffMultiset(refsem.MultisetOf(got), want, false); d != "" {
		r.cand(c07Cand{Sig: "rows-missing-after-failed-fetch:" + cs.Transport, What: "after a failed page fetch was repeated, the iteration does not return every row exactly once: " + d, Case: cs})
	}
}

func (r *c07Run) runCase(s *apih.Server, cs c07Case) {
	switch cs.Family {
	case "faults":
		r.runFault(s, cs)
		return
	}
	switch cs.Family {
	case "static", "large":
		r.runStatic(s, cs)
	case "dynamic":
		r.runDynamic(s, cs)
	default:
		r.runToken(s, cs)
	}
}

func c07Size(c c07Case) int {
	fam := map[string]int{"tokens": 0, "static": 1, "dynamic": 2, "large": 3, "faults": 1}[c.Family]
	nops := 0
	for _, o := range c.Ops {
		if o != 0 {
			nops++
		}
	}
	return fam*10_000_000 + c.M*1000 + nops*100 + c.S*10 + len(c.Token)*20
}

func TestC07(t *testing.T) {
	run := ev.New("C07", "exploration")
	r := &c07Run{traces: map[string]bool{}}
	pool := &axServerPool{t: t}

	if rp, ok := axReplay("C07"); ok {
		var cs c07Case
		b := c04JSON(rp["case"])
		if err := json.Unmarshal([]byte(b), &cs); err != nil {
			fmt.Printf("INFRA-ERROR replay: %v\n", err)
			t.FailNow()
		}
		if cs.TokenKind == "very-long" {
			cs.Token = strings.Repeat("a", 65536)
		}
		r.runCase(pool.get(0), cs)
		for _, c := range r.cands {
			run.Violation(c.Sig, c.What, rp)
		}
		if len(r.cands) == 0 {
			fmt.Println("  [replay] the recorded case satisfies the oracle now")
		}
		return
	}

	cases := c07Cases()
	deadline := ev.Deadline(200, 1500)
	var done atomic.Int64
	var timedOut atomic.Bool
	fam := map[string]int{}
	for _, c := range cases {
		fam[c.Family]++
	}
	axParallel(len(cases), pool.get, func(s *apih.Server, i int) {
		if time.Now().After(deadline) {
			timedOut.Store(true)
			return
		}
		r.runCase(s, cases[i])
		done.Add(1)
	})

	// report the smallest confirmed counterexample per signature
	sort.SliceStable(r.cands, func(i, j int) bool { return c07Size(r.cands[i].Case) < c07Size(r.cands[j].Case) })
	reported := map[string]bool{}
	sigCount := map[string]int{}
	unstable := 0
	for _, cd := range r.cands {
		sigCount[cd.Sig]++
		if reported[cd.Sig] {
			continue
		}
		ok := true
		for rep := 0; rep < 2 && ok; rep++ {
			sub := &c07Run{traces: map[string]bool{}}
			sub.runCase(pool.get(axFreshIndex()), cd.Case) // fresh server per confirmation
			ok = false
			for _, c2 := range sub.cands {
				ok = ok || c2.Sig == cd.Sig
			}
		}
		if !ok {
			unstable++
			continue
		}
		reported[cd.Sig] = true
		cs := cd.Case
		if len(cs.Token) > 100 {
			cs.Token = cs.Token[:20] + "…"
		}
		rep := map[string]any{"case": cs, "query": c07Query(cs.Shape, cs.SubSet)}
		for k, v := range cd.Extra {
			rep[k] = v
		}
		run.Violation(cd.Sig, cd.What+"  case="+cs.String(), rep)
	}

	run.Assume(
		"page sizes < 0 are outside the property; 0 means the default (100)",
		"'rows that exist unchanged throughout' = rows neither inserted nor deleted during the iteration; rows inserted or deleted between fetches may appear or not (no demand)",
		"an inserted row is placed directly below / above the cursor by rewriting its shard_id with raw SQL before the next fetch (the API draws shard ids at random)",
		"a malformed token is one that no UUID parser accepts; client error = HTTP 4xx / gRPC InvalidArgument, NotFound, OutOfRange or FailedPrecondition; well-formed but unknown, upper-case and braced UUID tokens only must not produce a server error",
		"'token empty iff last page' is judged on iterations without interleaved writes; with interleaved deletes a trailing empty page is tolerated",
	)
	for _, i := range []int{0, len(cases) / 3, 2 * len(cases) / 3, len(cases) - 1} {
		cs := cases[i]
		if len(cs.Token) > 40 {
			cs.Token = cs.Token[:40] + "…"
		}
		run.Sample(map[string]any{"case": cs, "query": c07Query(cs.Shape, cs.SubSet)})
	}
	opsDone := map[string]int{}
	for i, n := range c07OpNames {
		opsDone[n] = int(r.opsDone[i].Load())
	}
	run.Finish(map[string]any{
		"evaluations":                    int(done.Load()),
		"distinct_nontrivial":            len(r.traces),
		"rule":                           "case = (family, transport, page size, stored rows, query shape (2^4, subject as id / as set), duplicates, operation per page boundary | token); static+large: complete product listed in the file header; dynamic: every sequence of 3 operations over {none, insert-below-cursor, insert-above-cursor, delete-returned, delete-not-yet-returned} that can take effect; non-trivial = a static/large iteration that crossed >= 1 page boundary, a dynamic iteration in which >= 1 write actually happened between two fetches (distinct by the operations applied), or a token case",
		"cases":                          len(cases),
		"cases_by_family":                fam,
		"page_requests":                  int(r.requests.Load()),
		"multi_page_iterations":          int(r.multi.Load()),
		"interleaved_ops_applied":        opsDone,
		"interleaved_ops_not_applicable": int(r.opsNA.Load()),
		"candidate_signatures":           sigCount,
		"unstable_candidates":            unstable,
		"exhaustive":                     !timedOut.Load() && unstable == 0,
		"workers":                        axWorkers(),
	})
}

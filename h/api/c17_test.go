//go:build sqlite

// C17 — the read API (check, batch check, expand, list, list namespaces) and
// the syntax API never modify stored state. Bounded-exhaustive exploration:
// three database states x every request of a small grammar (valid / invalid,
// known / never-seen / unknown names, REST and gRPC, write routes addressed to
// the read and syntax ports) x all sequences of length <= 2.
//
// Oracle: byte-level dump of ALL tables before == after. Monitor: the SQL
// statements logged by sqlfault while the requests are served contain no
// write statement (BEGIN/COMMIT around reads are fine). Non-vacuity: every
// write route changes the dump and shows write statements in the log.
package api

import (
	"fmt"
	"github.com/gofrs/uuid"
	"net/url"
	"strings"
	"sync"
	"sync/atomic"
	"testing"
	"time"

	"github.com/ory/keto/ketoapi"
	rts "github.com/ory/keto/proto/ory/keto/relation_tuples/v1alpha2"
	"github.com/ory/keto/verif/apih"
	"github.com/ory/keto/verif/ev"
)

type c17Req struct {
	Name      string
	Kind      string // check | batch | expand | list | namespaces | syntax | write-route
	Transport string // rest | grpc
	Do        func(c *apih.Client) string
}

func c17Tuples() map[string]*ketoapi.RelationTuple {
	return map[string]*ketoapi.RelationTuple{
		"stored":         axID("n1", "a", "r", "x"),
		"stored-set":     axSet("n1", "a", "r", "n1", "g", "m"),
		"known-names":    axID("n1", "g", "r", "x"),
		"never-seen":     axID("n1", "neverObj", "r", "neverSub"),
		"never-seen-set": axSet("n2", "neverObj2", "s", "n1", "neverGrp", "m"),
		"ghost":          axID("n1", "ghostObj", "r", "ghostSub"), // mapped once, tuple deleted (state 'mappings')
		"unknown-ns":     axID("zz", "a", "r", "x"),
		"unknown-sub-ns": axSet("n1", "a", "r", "zz", "g", "m"),
		"empty-strings":  axID("n1", "", "", ""),
		// relations that no configuration declares and no statement text contains (see the splice monitor); the
		// second one carries the characters that end an SQL string literal
		"marker-relations":    axSet("n1", "a", "neverRel", "n1", "g", "neverSetRel"),
		"quoted-set-relation": axSet("n1", "a", "r", "n1", "g", "never'Set\"Rel;--"),
	}
}

func c17Grammar() []*c17Req {
	var out []*c17Req
	add := func(kind, tr, name string, f func(c *apih.Client) string) {
		out = append(out, &c17Req{Name: tr + " " + kind + " " + name, Kind: kind, Transport: tr, Do: f})
	}
	rs := func(r apih.Resp) string { return r.String() }
	es := func(v any, err error) string {
		if err != nil {
			return "ERR " + apih.Code(err).String()
		}
		s := fmt.Sprint(v)
		if len(s) > 120 {
			s = s[:120]
		}
		return "OK " + s
	}
	T := c17Tuples()
	order := []string{"stored", "stored-set", "known-names", "never-seen", "never-seen-set", "ghost", "unknown-ns", "unknown-sub-ns", "empty-strings", "marker-relations", "quoted-set-relation"}

	// check
	for _, n := range order {
		t := T[n]
		add("check", "rest", "GET "+n, func(c *apih.Client) string { return rs(c.CheckGET(t, false, "")) })
		add("check", "rest", "POST openapi "+n, func(c *apih.Client) string { return rs(c.CheckPOST(t, true, "")) })
		add("check", "grpc", n, func(c *apih.Client) string { return es(c.GCheck(apih.ProtoTuple(t), 0)) })
	}
	add("check", "rest", "GET openapi never-seen max-depth=2", func(c *apih.Client) string { return rs(c.CheckGET(T["never-seen"], true, "2")) })
	add("check", "rest", "POST stored max-depth=abc", func(c *apih.Client) string { return rs(c.CheckPOST(T["stored"], false, "abc")) })
	add("check", "rest", "GET no subject", func(c *apih.Client) string {
		return rs(c.Do(apih.Read, "GET", apih.RouteCheck, url.Values{"namespace": {"n1"}, "object": {"neverA"}, "relation": {"r"}}, nil))
	})
	add("check", "rest", "GET both subjects", func(c *apih.Client) string {
		return rs(c.Do(apih.Read, "GET", apih.RouteCheckOAPI, url.Values{"namespace": {"n1"}, "object": {"neverB"}, "relation": {"r"}, "subject_id": {"neverC"}, "subject_set.namespace": {"n1"}, "subject_set.object": {"neverD"}, "subject_set.relation": {""}}, nil))
	})
	add("check", "rest", "POST invalid json", func(c *apih.Client) string { return rs(c.CheckPOSTRaw([]byte(`{"namespace":`), true, "")) })
	add("check", "rest", "POST no subject", func(c *apih.Client) string {
		return rs(c.CheckPOSTRaw([]byte(`{"namespace":"n1","object":"neverE","relation":"r"}`), false, ""))
	})
	add("check", "rest", "POST null", func(c *apih.Client) string { return rs(c.CheckPOSTRaw([]byte(`null`), true, "")) })
	add("check", "grpc", "deprecated fields never-seen", func(c *apih.Client) string {
		return es(c.GCheckReq(&rts.CheckRequest{Namespace: "n1", Object: "neverF", Relation: "r", Subject: apih.ProtoSubject(axS("neverG"), nil), MaxDepth: 3}))
	})
	add("check", "grpc", "no subject", func(c *apih.Client) string {
		return es(c.GCheck(&rts.RelationTuple{Namespace: "n1", Object: "neverH", Relation: "r"}, 0))
	})
	add("check", "grpc", "empty request", func(c *apih.Client) string { return es(c.GCheckReq(&rts.CheckRequest{})) })

	// batch check (a null element kills the process — that is C13's finding, not enumerated here)
	batches := map[string][]*ketoapi.RelationTuple{
		"[]":                      {},
		"[stored,never-seen]":     {T["stored"], T["never-seen"]},
		"[never-seen-set,ghost]":  {T["never-seen-set"], T["ghost"]},
		"[unknown-ns,stored]":     {T["unknown-ns"], T["stored"]},
		"[no-subject,never-seen]": {{Namespace: "n1", Object: "neverI", Relation: "r"}, T["never-seen"]},
		"[11 x never-seen]":       {T["never-seen"], T["never-seen"], T["never-seen"], T["never-seen"], T["never-seen"], T["never-seen"], T["never-seen"], T["never-seen"], T["never-seen"], T["never-seen"], T["never-seen"]},
	}
	for _, n := range []string{"[]", "[stored,never-seen]", "[never-seen-set,ghost]", "[unknown-ns,stored]", "[no-subject,never-seen]", "[11 x never-seen]"} {
		b := batches[n]
		add("batch", "rest", n, func(c *apih.Client) string { return rs(c.BatchCheck(b, "")) })
		add("batch", "grpc", n, func(c *apih.Client) string {
			var ts []*rts.RelationTuple
			for _, t := range b {
				pt := apih.ProtoTuple(t)
				if pt.Subject == nil {
					pt.Subject = &rts.Subject{} // an absent subject is a nil dereference (C13); an empty one is not
				}
				ts = append(ts, pt)
			}
			return es(c.GBatchCheck(ts, 0))
		})
	}
	add("batch", "rest", "invalid json", func(c *apih.Client) string { return rs(c.BatchCheckRaw([]byte(`{"tuples":[{]}`), "")) })
	add("batch", "rest", "tuples not a list", func(c *apih.Client) string { return rs(c.BatchCheckRaw([]byte(`{"tuples":"neverJ"}`), "1")) })

	// expand
	sets := map[string]*ketoapi.SubjectSet{
		"stored":     {Namespace: "n1", Object: "a", Relation: "r"},
		"never-seen": {Namespace: "n1", Object: "neverK", Relation: "r"},
		"ghost":      {Namespace: "n1", Object: "ghostObj", Relation: "r"},
		"unknown-ns": {Namespace: "zz", Object: "a", Relation: "r"},
		"empty":      {},
	}
	for _, n := range []string{"stored", "never-seen", "ghost", "unknown-ns", "empty"} {
		ss := sets[n]
		add("expand", "rest", n, func(c *apih.Client) string { return rs(c.Expand(ss, "")) })
		add("expand", "grpc", n, func(c *apih.Client) string { return es(c.GExpand(apih.ProtoSubject(nil, ss), 0)) })
	}
	add("expand", "rest", "never-seen max-depth=-1", func(c *apih.Client) string { return rs(c.Expand(sets["never-seen"], "-1")) })
	add("expand", "rest", "stored max-depth=abc", func(c *apih.Client) string { return rs(c.Expand(sets["stored"], "abc")) })
	add("expand", "rest", "no parameters", func(c *apih.Client) string { return rs(c.Do(apih.Read, "GET", apih.RouteExpand, nil, nil)) })
	add("expand", "grpc", "subject id never-seen", func(c *apih.Client) string { return es(c.GExpand(apih.ProtoSubject(axS("neverL"), nil), 2)) })
	add("expand", "grpc", "empty subject", func(c *apih.Client) string { return es(c.GExpand(&rts.Subject{}, 0)) })

	// list
	qs := map[string]*ketoapi.RelationQuery{
		"{}":                {},
		"ns=n1":             {Namespace: axS("n1")},
		"obj never-seen":    {Object: axS("neverM")},
		"sid never-seen":    {Namespace: axS("n1"), SubjectID: axS("neverN")},
		"sset never-seen":   {SubjectSet: &ketoapi.SubjectSet{Namespace: "n1", Object: "neverO", Relation: "m"}},
		"ghost object":      {Object: axS("ghostObj")},
		"ns=zz":             {Namespace: axS("zz")},
		"sset.ns=zz":        {SubjectSet: &ketoapi.SubjectSet{Namespace: "zz", Object: "neverP", Relation: ""}},
		"all fields stored": {Namespace: axS("n1"), Object: axS("a"), Relation: axS("r"), SubjectID: axS("x")},
	}
	for _, n := range []string{"{}", "ns=n1", "obj never-seen", "sid never-seen", "sset never-seen", "ghost object", "ns=zz", "sset.ns=zz", "all fields stored"} {
		q := qs[n]
		add("list", "rest", n, func(c *apih.Client) string { r, _ := c.List(q, "", ""); return rs(r) })
		add("list", "grpc", n, func(c *apih.Client) string { return es(c.GList(apih.ProtoQuery(q), 0, "")) })
	}
	add("list", "rest", "page_size=1", func(c *apih.Client) string { r, _ := c.List(qs["{}"], "1", ""); return rs(r) })
	add("list", "rest", "page_size=abc", func(c *apih.Client) string { r, _ := c.List(qs["{}"], "abc", ""); return rs(r) })
	add("list", "rest", "page_token malformed", func(c *apih.Client) string { r, _ := c.List(qs["obj never-seen"], "", "zzz"); return rs(r) })
	add("list", "rest", "page_token unknown uuid", func(c *apih.Client) string {
		r, _ := c.List(qs["{}"], "", "5ca1ab1e-0000-4000-8000-00000000beef")
		return rs(r)
	})
	add("list", "rest", "two subjects", func(c *apih.Client) string {
		return rs(c.Do(apih.Read, "GET", apih.RouteList, url.Values{"subject_id": {"neverQ"}, "subject_set.namespace": {"n1"}, "subject_set.object": {"neverR"}, "subject_set.relation": {"m"}}, nil))
	})
	add("list", "rest", "dropped subject key", func(c *apih.Client) string {
		return rs(c.Do(apih.Read, "GET", apih.RouteList, url.Values{"subject": {"neverS"}}, nil))
	})
	add("list", "grpc", "page_size=1 page_token malformed", func(c *apih.Client) string { return es(c.GList(apih.ProtoQuery(qs["{}"]), 1, "zzz")) })
	add("list", "grpc", "absent query", func(c *apih.Client) string { return es(c.GList(nil, 0, "")) })
	add("list", "grpc", "deprecated query never-seen", func(c *apih.Client) string {
		ctx, cancel := c.GCtx()
		defer cancel()
		return es(c.S.ReadC.ListRelationTuples(ctx, &rts.ListRelationTuplesRequest{Query: &rts.ListRelationTuplesRequest_Query{Namespace: "n1", Object: "neverT", Subject: apih.ProtoSubject(axS("neverU"), nil)}})) //nolint:staticcheck
	})

	// namespaces
	add("namespaces", "rest", "", func(c *apih.Client) string { return rs(c.Namespaces()) })
	add("namespaces", "grpc", "", func(c *apih.Client) string { return es(c.GNamespaces()) })

	// syntax
	docs := map[string]string{
		"valid":   "import { Namespace, Context } from \"@ory/keto-namespace-types\"\nclass User implements Namespace {}\nclass Doc implements Namespace { related: { viewers: User[] }; permits = { view: (ctx: Context): boolean => this.related.viewers.includes(ctx.subject) } }",
		"invalid": "class neverV implements Namespace { related: { x: ",
		"empty":   "",
		"junk":    "\x00\xff{{{{ class class",
	}
	for _, n := range []string{"valid", "invalid", "empty", "junk"} {
		d := docs[n]
		add("syntax", "rest", n, func(c *apih.Client) string { return rs(c.SyntaxCheck([]byte(d))) })
		add("syntax", "grpc", n, func(c *apih.Client) string { return es(c.GSyntax([]byte(d))) })
	}

	// write routes addressed to the read and syntax ports must not exist there
	createBody := []byte(c04JSON(axID("n1", "neverW", "r", "neverX")))
	patchBody := []byte(`[{"action":"insert","relation_tuple":` + c04JSON(axID("n1", "neverY", "r", "neverZ")) + `},{"action":"delete","relation_tuple":` + c04JSON(axID("n1", "a", "r", "x")) + `}]`)
	for _, api := range []struct {
		n string
		a apih.API
	}{{"read-port", apih.Read}, {"syntax-port", apih.Syntax}} {
		a := api.a
		add("write-route", "rest", "PUT "+api.n, func(c *apih.Client) string { return rs(c.Do(a, "PUT", apih.RouteAdmin, nil, createBody)) })
		add("write-route", "rest", "DELETE "+api.n, func(c *apih.Client) string {
			return rs(c.Do(a, "DELETE", apih.RouteAdmin, url.Values{"namespace": {"n1"}}, nil))
		})
		add("write-route", "rest", "PATCH "+api.n, func(c *apih.Client) string { return rs(c.Do(a, "PATCH", apih.RouteAdmin, nil, patchBody)) })
		add("write-route", "rest", "PUT on list path "+api.n, func(c *apih.Client) string { return rs(c.Do(a, "PUT", apih.RouteList, nil, createBody)) })
		add("write-route", "grpc", "Transact "+api.n, func(c *apih.Client) string {
			ctx, cancel := c.GCtx()
			defer cancel()
			return es(rts.NewWriteServiceClient(c.S.Conn(a)).TransactRelationTuples(ctx, &rts.TransactRelationTuplesRequest{RelationTupleDeltas: []*rts.RelationTupleDelta{axDelta(rts.RelationTupleDelta_ACTION_INSERT, axID("n1", "neverW2", "r", "neverX2"))}}))
		})
		add("write-route", "grpc", "Delete "+api.n, func(c *apih.Client) string {
			ctx, cancel := c.GCtx()
			defer cancel()
			return es(rts.NewWriteServiceClient(c.S.Conn(a)).DeleteRelationTuples(ctx, &rts.DeleteRelationTuplesRequest{RelationQuery: &rts.RelationQuery{}}))
		})
	}
	return out
}

var c17States = []string{"empty", "small", "mappings"}

// c17Writes: write requests that precede the reads in the "after a write" states (state name "<base>+<write>").
// What the write itself changes is its own business; the reads that follow must change nothing. Successful and
// failing writes, and writes that map names without storing a relationship.
var c17Writes = []struct {
	Name string
	Do   func(c *apih.Client)
}{
	{"put-never-seen", func(c *apih.Client) { c.Create(axID("n1", "wObj1", "r", "wSub1")) }},
	{"put-unknown-namespace", func(c *apih.Client) { c.Create(axID("zz", "wObj2", "r", "wSub2")) }},
	{"put-no-subject", func(c *apih.Client) { c.CreateRaw([]byte(`{"namespace":"n1","object":"wObj3","relation":"r"}`)) }},
	{"patch-delete-of-a-relationship-that-never-existed", func(c *apih.Client) {
		c.Patch([]*ketoapi.PatchDelta{{Action: ketoapi.ActionDelete, RelationTuple: axID("n1", "wObj4", "r", "wSub4")}})
	}},
	{"patch-insert-then-unknown-namespace", func(c *apih.Client) {
		c.Patch([]*ketoapi.PatchDelta{{Action: ketoapi.ActionInsert, RelationTuple: axID("n1", "wObj5", "r", "wSub5")}, {Action: ketoapi.ActionInsert, RelationTuple: axID("zz", "wObj6", "r", "wSub6")}})
	}},
	{"grpc-transact-delete-of-a-relationship-that-never-existed", func(c *apih.Client) {
		_, _ = c.GTransact([]*rts.RelationTupleDelta{axDelta(rts.RelationTupleDelta_ACTION_DELETE, axSet("n1", "wObj7", "r", "n1", "wGrp7", "m"))})
	}},
	{"grpc-transact-insert-then-unknown-namespace", func(c *apih.Client) {
		_, _ = c.GTransact([]*rts.RelationTupleDelta{axDelta(rts.RelationTupleDelta_ACTION_INSERT, axID("n1", "wObj8", "r", "wSub8")), axDelta(rts.RelationTupleDelta_ACTION_INSERT, axID("zz", "wObj9", "r", "wSub9"))})
	}},
	{"delete-by-query-matching-nothing", func(c *apih.Client) {
		c.DeleteQuery(&ketoapi.RelationQuery{Namespace: axS("n1"), Object: axS("wObj10")})
	}},
}

var c17UnseenTenant = uuid.Must(uuid.FromString("dddddddd-dddd-4ddd-8ddd-dddddddddddd"))

func c17Build(s *apih.Server, state string) {
	state = strings.TrimSuffix(state, "@unseen-tenant")
	if i := strings.Index(state, "+"); i > 0 {
		c17Build(s, state[:i])
		for _, w := range c17Writes {
			if w.Name == state[i+1:] {
				w.Do(s.Client())
				s.Settle()
				return
			}
		}
		panic("c17: unknown write " + state)
	}
	s.TruncateAll()
	c := s.Client()
	if state == "empty" {
		return
	}
	for _, t := range []*ketoapi.RelationTuple{axID("n1", "a", "r", "x"), axSet("n1", "a", "r", "n1", "g", "m"), axID("n1", "g", "m", "y"), axSet("n2", "b", "s", "n1", "a", "")} {
		if r := c.Create(t); r.Status != 201 {
			panic("c17: build: " + r.String())
		}
	}
	if state == "mappings" {
		g := axID("n1", "ghostObj", "r", "ghostSub")
		if r := c.Create(g); r.Status != 201 {
			panic("c17: build: " + r.String())
		}
		if r := c.DeleteQuery(&ketoapi.RelationQuery{Namespace: axS("n1"), Object: axS("ghostObj")}); r.Status != 204 {
			panic("c17: build: " + r.String())
		}
	}
}

type c17Cand struct {
	Sig, What string
	State     string
	Seq       []int
	Extra     map[string]any
}

func TestC17(t *testing.T) {
	run := ev.New("C17", "exploration")
	reqs := c17Grammar()
	pool := &axServerPool{t: t, multi: true} // (multi-tenant seam installed; requests without a network header use the default network)

	var mu sync.Mutex
	var cands []c17Cand
	var evals, reachDB, statements, requests, rebuilds atomic.Int64
	nontrivial := map[string]bool{}

	// runSeq executes one sequence on the given state; built tells whether the
	// worker's database currently holds exactly that state.
	runSeq := func(s *apih.Server, state string, seq []int, collect func(c17Cand)) (dirty bool) {
		c := s.Client()
		if strings.HasSuffix(state, "@unseen-tenant") {
			c = s.ClientFor(c17UnseenTenant)
		}
		before := s.Dump()
		s.Tap.StartLog()
		var outs []string
		var dumps []string
		var marks []int64 // sqlfault sequence number reached after each request
		for _, ri := range seq {
			outs = append(outs, reqs[ri].Do(c))
			requests.Add(1)
			if len(seq) > 1 {
				dumps = append(dumps, s.Dump()) // Dump settles first; its own statements are SELECTs issued by the harness
			}
			l := s.Tap.Log()
			m := int64(0)
			if len(l) > 0 {
				m = l[len(l)-1].Seq
			}
			marks = append(marks, m)
		}
		s.Settle()
		log := s.Tap.StopLog()
		after := s.Dump()
		names := make([]string, len(seq))
		for i, ri := range seq {
			names[i] = reqs[ri].Name
		}
		harness := 0
		for _, e := range log {
			if strings.Contains(e.SQL, "sqlite_master") || strings.HasPrefix(e.SQL, `SELECT * FROM "`) {
				harness++
				continue
			}
			// splice monitor: every string of the grammar that starts with "never" or "ghost" reaches the database
			// as a bound argument; finding one inside the TEXT of a statement means a request string was spliced
			// into SQL (no working exploit is needed to see that)
			if strings.Contains(e.SQL, "never") || strings.Contains(e.SQL, "ghost") {
				collect(c17Cand{Sig: "request-string-spliced-into-sql-text", What: fmt.Sprintf("while serving %v on state %q keto issued a statement whose TEXT contains a string of the request: %.300q", names, state, e.SQL), State: state, Seq: seq, Extra: map[string]any{"statement": e.SQL}})
				break
			}
			if e.IsWrite() {
				// attribute to the request during which the statement was logged
				r0 := reqs[seq[len(seq)-1]]
				for i, m := range marks {
					if e.Seq <= m {
						r0 = reqs[seq[i]]
						break
					}
				}
				collect(c17Cand{Sig: "read-issued-write-statement:" + r0.Kind + ":" + r0.Transport, What: fmt.Sprintf("while serving %v on state %q keto issued the write statement %q", names, state, e.SQL), State: state, Seq: seq, Extra: map[string]any{"statement": e.SQL, "args": fmt.Sprint(e.Args), "responses": outs}})
				break
			}
		}
		n := int64(len(log) - harness)
		statements.Add(n)
		if n > 0 {
			reachDB.Add(1)
			mu.Lock()
			nontrivial[state+"|"+strings.Join(names, "|")] = true
			mu.Unlock()
		}
		if after != before {
			// attribute to the first request after which the dump differed
			culprit := reqs[seq[len(seq)-1]]
			prev := before
			for i, d := range dumps {
				if d != prev {
					culprit = reqs[seq[i]]
					break
				}
				prev = d
			}
			collect(c17Cand{Sig: "read-changed-state:" + culprit.Kind + ":" + culprit.Transport, What: fmt.Sprintf("the database dump differs after %v on state %q (first difference after %q): %s", names, state, culprit.Name, c17Diff(before, after)), State: state, Seq: seq, Extra: map[string]any{"diff": c17Diff(before, after), "responses": outs}})
			return true
		}
		return false
	}

	collect := func(c c17Cand) { mu.Lock(); cands = append(cands, c); mu.Unlock() }

	if rp, ok := axReplay("C17"); ok {
		s := pool.get(0)
		state := rp["state"].(string)
		var seq []int
		for _, n := range rp["requests"].([]any) {
			for i, r := range reqs {
				if r.Name == n.(string) {
					seq = append(seq, i)
				}
			}
		}
		c17Build(s, state)
		runSeq(s, state, seq, collect)
		for _, c := range cands {
			run.Violation(c.Sig, c.What, rp)
		}
		if len(cands) == 0 {
			fmt.Println("  [replay] the recorded sequence satisfies the oracle now")
		}
		return
	}

	// --- non-vacuity: every write route changes the dump and logs a write statement
	{
		s := pool.get(0)
		c := s.Client()
		writes := []struct {
			name string
			do   func() string
		}{
			{"rest PUT", func() string { return c.Create(axID("n1", "nv1", "r", "nv2")).String() }},
			{"rest PATCH", func() string {
				return c.Patch([]*ketoapi.PatchDelta{{Action: ketoapi.ActionInsert, RelationTuple: axID("n1", "nv3", "r", "nv4")}}).String()
			}},
			{"rest DELETE", func() string {
				return c.DeleteQuery(&ketoapi.RelationQuery{Namespace: axS("n1"), Object: axS("nv1")}).String()
			}},
			{"grpc Transact", func() string {
				_, err := c.GTransact([]*rts.RelationTupleDelta{axDelta(rts.RelationTupleDelta_ACTION_INSERT, axID("n2", "nv5", "s", "nv6"))})
				return fmt.Sprint(err)
			}},
			{"grpc Delete", func() string {
				return fmt.Sprint(c.GDelete(apih.ProtoQuery(&ketoapi.RelationQuery{Object: axS("nv3")})))
			}},
		}
		c17Build(s, "small")
		for _, w := range writes {
			before := s.Dump()
			s.Tap.StartLog()
			out := w.do()
			log := s.Tap.StopLog()
			after := s.Dump()
			wrote := false
			for _, e := range log {
				wrote = wrote || e.IsWrite()
			}
			if before == after || !wrote {
				run.Violation("non-vacuity:"+w.name, fmt.Sprintf("the write route %s (%s) did not change the dump (changed=%v) or logged no write statement (%v): the oracle would be vacuous", w.name, out, before != after, wrote), map[string]any{"route": w.name})
			}
		}
	}

	// --- enumeration: states x (R + R^2)
	type job struct {
		state string
		seq   []int
	}
	var jobs []job
	pairsAll := true
	for _, st := range c17States {
		for i := range reqs {
			jobs = append(jobs, job{st, []int{i}})
		}
	}
	for _, st := range c17States {
		for i := range reqs {
			for j := range reqs {
				jobs = append(jobs, job{st, []int{i, j}})
			}
		}
	}
	// after a write: every base state followed by one write request of c17Writes, then every single read request
	afterWrite := 0
	for _, st := range []string{"small", "mappings"} {
		for _, w := range c17Writes {
			for i := range reqs {
				jobs = append(jobs, job{st + "+" + w.Name, []int{i}})
				afterWrite++
			}
		}
	}
	// a tenant nobody has written to: the same single requests under a network id that exists nowhere in the
	// database (a multi-tenant deployment derives the network from the request); state "small@unseen-tenant"
	unseenJobs := 0
	for i := range reqs {
		jobs = append(jobs, job{"small@unseen-tenant", []int{i}})
		unseenJobs++
	}
	// thorough: additionally every sequence of length 3 over one representative
	// request per (kind, transport) that mentions never-seen names where possible
	len3 := 0
	if ev.Thorough() {
		var reps []int
		seenKT := map[string]bool{}
		for pass := 0; pass < 2; pass++ {
			for i, rq := range reqs {
				kt := rq.Kind + "/" + rq.Transport
				if seenKT[kt] || (pass == 0 && !strings.Contains(rq.Name, "never-seen")) {
					continue
				}
				seenKT[kt] = true
				reps = append(reps, i)
			}
		}
		for _, st := range c17States {
			for _, a := range reps {
				for _, b := range reps {
					for _, c := range reps {
						jobs = append(jobs, job{st, []int{a, b, c}})
						len3++
					}
				}
			}
		}
	}
	deadline := ev.Deadline(200, 1500)
	var timedOut atomic.Bool
	type wstate struct {
		s     *apih.Server
		built string
	}
	axParallel(len(jobs), func(w int) *wstate { return &wstate{s: pool.get(w)} }, func(w *wstate, i int) {
		if time.Now().After(deadline) {
			timedOut.Store(true)
			return
		}
		j := jobs[i]
		if w.built != j.state {
			c17Build(w.s, j.state)
			w.built = j.state
			rebuilds.Add(1)
		}
		if runSeq(w.s, j.state, j.seq, collect) {
			w.built = "" // dirty: rebuild before the next sequence
		}
		evals.Add(1)
	})

	// report the smallest confirmed counterexample per signature
	sortCands := func() {
		for i := 1; i < len(cands); i++ {
			for k := i; k > 0 && (len(cands[k].Seq) < len(cands[k-1].Seq) || (len(cands[k].Seq) == len(cands[k-1].Seq) && fmt.Sprint(cands[k].State, cands[k].Seq) < fmt.Sprint(cands[k-1].State, cands[k-1].Seq))); k-- {
				cands[k], cands[k-1] = cands[k-1], cands[k]
			}
		}
	}
	if len(cands) < 5000 {
		sortCands()
	}
	reported := map[string]bool{}
	sigCount := map[string]int{}
	unstable := 0
	for _, cd := range cands {
		sigCount[cd.Sig]++
		if reported[cd.Sig] {
			continue
		}
		ok := true
		for rep := 0; rep < 2 && ok; rep++ {
			// a FRESH server for every confirmation: state a process keeps about what it has already done (caches,
			// once-only provisioning) must not make a real finding look unstable
			s := axNewServer(t, true)
			c17Build(s, cd.State)
			hit := false
			runSeq(s, cd.State, cd.Seq, func(c c17Cand) { hit = hit || c.Sig == cd.Sig })
			ok = hit
		}
		if !ok {
			unstable++
			continue
		}
		reported[cd.Sig] = true
		names := make([]string, len(cd.Seq))
		for i, ri := range cd.Seq {
			names[i] = reqs[ri].Name
		}
		rep := map[string]any{"state": cd.State, "requests": names}
		for k, v := range cd.Extra {
			rep[k] = v
		}
		run.Violation(cd.Sig, cd.What, rep)
	}

	run.Assume(
		"the dump covers every table listed in sqlite_master (incl. networks and the migration table), ordered by content",
		"a REST batch check with a null element and gRPC requests with an absent subject crash the handler (C13's finding) and are not part of this grammar; the process-killing null batch element could not be enumerated in-process",
		"statement classification: SELECT / EXPLAIN / read-only PRAGMA / WITH..SELECT are reads; BEGIN/COMMIT/ROLLBACK are neutral; everything else is a write",
		"write-route requests sent to the read and syntax ports are part of the grammar: they must not be served there",
		"'after a write' states: the write request itself (successful, failing, or mapping names without storing anything) is part of building the state; only the reads that follow are judged",
	)
	run.Sample(map[string]any{"state": "mappings", "requests": []string{reqs[3].Name, reqs[len(reqs)-1].Name}})
	run.Sample(map[string]any{"state": "empty", "requests": []string{reqs[10].Name}})
	var names []string
	for _, r := range reqs {
		names = append(names, r.Name)
	}
	run.Sample(map[string]any{"grammar": names})
	run.Finish(map[string]any{
		"evaluations":                  int(evals.Load()),
		"distinct_nontrivial":          len(nontrivial),
		"rule":                         "one evaluation = (database state in {empty, small, mappings}, sequence of 1 or 2 requests of the read/syntax grammar); the complete product states x (R + R^2) is enumerated; non-trivial = the sequence made keto issue at least one SQL statement (measured through the driver wrapper), distinct by (state, request names)",
		"grammar_size":                 len(reqs),
		"states":                       len(c17States),
		"sequences_len1":               len(c17States) * len(reqs),
		"sequences_len2":               len(c17States) * len(reqs) * len(reqs),
		"all_pairs":                    pairsAll,
		"sequences_after_a_write":      afterWrite,
		"requests_of_an_unseen_tenant": unseenJobs,
		"write_preludes":               len(c17Writes),
		"requests":                     int(requests.Load()),
		"sequences_reaching_db":        int(reachDB.Load()),
		"sql_statements_monitored":     int(statements.Load()),
		"state_rebuilds":               int(rebuilds.Load()),
		"candidate_signatures":         sigCount,
		"unstable_candidates":          unstable,
		"exhaustive":                   !timedOut.Load() && unstable == 0,
		"workers":                      axWorkers(),
	})
}

func c17Diff(a, b string) string {
	al, bl := strings.Split(a, "\n"), strings.Split(b, "\n")
	inA := map[string]int{}
	for _, l := range al {
		inA[l]++
	}
	var plus, minus []string
	for _, l := range bl {
		if inA[l] > 0 {
			inA[l]--
		} else {
			plus = append(plus, "+"+l)
		}
	}
	for l, n := range inA {
		for ; n > 0; n-- {
			minus = append(minus, "-"+l)
		}
	}
	d := strings.Join(append(minus, plus...), " ")
	if len(d) > 600 {
		d = d[:600] + "…"
	}
	return d
}

//go:build sqlite

// C16 - object and subject names survive the string<->UUID mapping unchanged
// and unaliased. Bounded-exhaustive exploration on keto's real Mapper,
// MappingManager (SQL persister on sqlite) and read/write handlers:
//
//	inject   string set Sigma (adversarial Unicode, separators, look-alikes, 10 kB);
//	         for ALL ordered pairs (s, s'): Map(s) = Map(s') <=> s = s' (writing and
//	         read-only mapping, batch and one-by-one), MapUUIDsToStrings inverts
//	         the pair, Mapper.FromTuple/ToTuple of n1:s#r@s' round-trips
//	mapbatch MapStringsToUUIDs / MapUUIDsToStrings on batches of every size in the
//	         size list x duplicate patterns, position-wise
//	tuples   Mapper.FromTuple -> ToTuple on batches: sizes x duplicate patterns
//	         {none, all equal, adjacent pairs, object = subject, same name as
//	         subject id and as subject-set object} x subject kinds {id, set, mixed}
//	query    FromQuery -> ToQuery: 2^4 shapes x id/set x (s, s') neighbours and s = s'
//	tree     ToTree on trees with k children (leaves and nested sets), duplicate names
//	e2e      write (REST PUT / PATCH, gRPC Transact) -> list / expand / check over
//	         REST and gRPC return the exact strings in the right fields;
//	         all of Sigma in one store: list by object / by subject returns exactly one;
//	         rows: one object x every string of Sigma as subject (ordered pairs, end to end)
//	page     the UUID lookup pages distinct ids by 100 in map-iteration (random)
//	         order. Deterministic part: an ADDED method (h/added, nothing replaced)
//	         calls the same lookup with page sizes 1..5 on batches of 0..12 ids, so
//	         every id sits on a page boundary; plus every batch size 95..105 and
//	         195..205 distinct ids with all duplicate patterns at the production
//	         page size. Which id falls on the boundary at page size 100 is not
//	         controlled (stated in the assumptions).
package api

import (
	"context"
	"encoding/json"
	"errors"
	"fmt"
	"net/url"
	"sort"
	"strings"
	"sync"
	"sync/atomic"
	"testing"
	"time"
	"unicode/utf8"

	"github.com/gofrs/uuid"

	"github.com/ory/keto/internal/relationtuple"
	"github.com/ory/keto/ketoapi"
	rts "github.com/ory/keto/proto/ory/keto/relation_tuples/v1alpha2"
	"github.com/ory/keto/verif/apih"
	"github.com/ory/keto/verif/ev"
	"github.com/ory/keto/verif/refsem"
	"github.com/ory/keto/verif/sqlfault"
)

type c16Str struct {
	Class string
	S     string
}

// c16Sigma: no NUL, valid UTF-8 only ("any Unicode"); pairwise distinct (checked).
func c16Sigma() []c16Str {
	var out []c16Str
	add := func(class string, ss ...string) {
		for i, s := range ss {
			c := class
			if len(ss) > 1 {
				c = fmt.Sprintf("%s/%d", class, i)
			}
			out = append(out, c16Str{c, s})
		}
	}
	add("empty", "")
	add("space", " ", "  ", "\t", "\n", "\r\n", "\u00A0", "\u2003", "\u3000")
	add("case", "a", "A", "user", "User", "USER")
	add("trailing-space", "a ", " a", " a ", "a\n")
	add("zero-width", "a\u200D", "a\u200Db", "ab", "a\u200Cb", "a\u200Bb", "\u200D", "\uFEFFa", "\uFEFF", "a\u2060b")
	add("separator", ":", "#", "@", "(", ")", "()", "a:b", "a#b", "a@b", "n1:o#r@s", "n1:o#r@(n2:g#m)", "(n2:g#m)", "#r", "@s", "n1:")
	add("url", "%", "%20", "%41", "%00", "%zz", "+", "a+b", "a b", "&", "a&b", "a=b", "a&b=c", "?", "?a=b", "/", "//", "a/b", "../x", ".", "..", ";", ",")
	add("quote", "'", "\"", "`", "''", "\"\"", "a'b", "a\"b", "';--", "\" OR \"1\"=\"1", "' OR 1=1 --")
	add("backslash", "\\", "\\\\", "\\n", "\\u0041", "a\\", "\\\"")
	add("json-ish", "null", "NULL", "nil", "true", "0", "00", "-1", "1e3", "0x10", "{}", "[]", "{\"a\":1}", "[null]")
	add("html", "<", ">", "<script>alert(1)</script>", "&amp;", "&#65;")
	add("like", "_", "a_", "a%", "*", "a*")
	add("nfc-nfd", "\u00E9", "e\u0301", "\u00C5", "\u212B", "A\u030A", "\u1E69", "s\u0323\u0307", "s\u0307\u0323", "\uD55C", "\u1112\u1161\u11AB")
	add("compat", "\uFB01", "fi", "\uFF21", "\u2160", "I", "\u00B5", "\u03BC", "\u2126", "\u03A9")
	add("case-fold", "\u00DF", "ss", "SS", "\u1E9E", "\u0130", "i", "\u0131", "\u01C4", "\u01C5", "\u01C6", "\u03C3", "\u03C2", "\u03A3")
	add("rtl", "\u05E9\u05DC\u05D5\u05DD", "\u0645\u0631\u062D\u0628\u0627", "\u202Eabc", "abc\u202E", "\u200F", "\u200E", "a\u05D0b")
	add("emoji", "\U0001F600", "\U0001F468\u200D\U0001F469\u200D\U0001F467", "\U0001F468\U0001F469\U0001F467", "\U0001F1E9\U0001F1EA", "\U0001F44D\U0001F3FD", "\U0001F44D", "\u2764\uFE0F", "\u2764")
	add("4-byte", "\U0001D518", "\U00010348", "\U0010FFFF", "\U00020000", "\U0001D518\U0001D518")
	add("special-cp", "\uFFFD", "\uFFFE", "\uFFFF", "\uE000", "\u2028", "\u2029", "\u0085")
	add("control", "\x01", "\x1b[31m", "\x1f", "\x7f", "a\x08")
	add("uuid-like", "00000000-0000-0000-0000-000000000000", "6ba7b810-9dad-11d1-80b4-00c04fd430c8", "6BA7B810-9DAD-11D1-80B4-00C04FD430C8", "{6ba7b810-9dad-11d1-80b4-00c04fd430c8}", "urn:uuid:6ba7b810-9dad-11d1-80b4-00c04fd430c8", "6ba7b8109dad11d180b400c04fd430c8")
	add("combining", "\u0301", "a\u0301\u0301", "\u0E01\u0E34\u0E48", "Z\u0351\u036B\u0343")
	long := strings.Repeat("a", 10240)
	add("long", strings.Repeat("a", 255), strings.Repeat("a", 256), strings.Repeat("a", 257), long, long[:10239]+"b", long+"a", strings.Repeat("\U0001F600", 2560), strings.Repeat("\u00E9", 3413))
	seen := map[string]string{}
	for _, x := range out {
		if !utf8.ValidString(x.S) || strings.ContainsRune(x.S, 0) {
			panic("c16: Sigma element outside the domain: " + x.Class)
		}
		if o, dup := seen[x.S]; dup {
			panic("c16: duplicate Sigma element " + x.Class + " = " + o)
		}
		seen[x.S] = x.Class
	}
	return out
}

func c16Clip(s string) string {
	if len(s) > 48 {
		return fmt.Sprintf("%q...(%d bytes)", s[:40], len(s))
	}
	return fmt.Sprintf("%q", s)
}

// ---- run state -------------------------------------------------------------------

type c16Case struct {
	Family    string `json:"family"`
	I         int    `json:"i,omitempty"` // Sigma index
	N         int    `json:"n,omitempty"` // batch size / children
	Pattern   string `json:"pattern,omitempty"`
	Kind      string `json:"kind,omitempty"` // subject kind: id | set | mixed
	PageSize  int    `json:"page_size,omitempty"`
	Transport string `json:"transport,omitempty"`
	Shape     int    `json:"shape,omitempty"`
}

func (c c16Case) String() string { b, _ := json.Marshal(c); return string(b) }

type c16Cand struct {
	Sig, What string
	Case      c16Case
}

type c16Run struct {
	sigma    []c16Str
	thorough bool
	mu       sync.Mutex
	cands    []c16Cand
	nontriv  map[string]bool
	evals    atomic.Int64
	byFamily map[string]int
	seam     atomic.Int64 // 1 present, -1 absent
}

func (r *c16Run) bad(c c16Case, sig, format string, a ...any) {
	r.mu.Lock()
	r.cands = append(r.cands, c16Cand{Sig: sig, What: fmt.Sprintf(format, a...), Case: c})
	r.mu.Unlock()
}

func (r *c16Run) count(family string, n int, nontrivialKey string) {
	r.evals.Add(int64(n))
	r.mu.Lock()
	r.byFamily[family] += n
	if nontrivialKey != "" {
		r.nontriv[nontrivialKey] = true
	}
	r.mu.Unlock()
}

// name(k): pairwise distinct names drawn from Sigma (k >= |Sigma| adds a suffix).
func (r *c16Run) name(k int) string {
	n := len(r.sigma)
	if k < n {
		return r.sigma[k].S
	}
	return fmt.Sprintf("%s\u241F%d", r.sigma[k%n].S, k/n)
}

func c16Ctx(s *apih.Server) (context.Context, context.CancelFunc) {
	return context.WithCancel(s.Ctx)
}

func c16RO(s *apih.Server, ctx context.Context, str string) uuid.UUID {
	u, err := s.Reg.MappingManager().MapStringsToUUIDsReadOnly(ctx, str)
	if err != nil || len(u) != 1 {
		panic(fmt.Sprintf("c16: read-only mapping of one string failed: %v", err))
	}
	return u[0]
}

// ---- family: inject (row i against all j) -----------------------------------------------

func (r *c16Run) runInjectRow(s *apih.Server, c c16Case) {
	ctx, cancel := c16Ctx(s)
	defer cancel()
	mm := s.Reg.MappingManager()
	sg := r.sigma
	all := make([]string, len(sg))
	for i := range sg {
		all[i] = sg[i].S
	}
	// the whole of Sigma in one writing call (idempotent), then one by one, then read-only
	batch, err := mm.MapStringsToUUIDs(ctx, all...)
	if err != nil || len(batch) != len(all) {
		r.bad(c, "inject:MapStringsToUUIDs:error", "mapping all of Sigma: %d results, err=%v", len(batch), err)
		return
	}
	i := c.I
	one, err := mm.MapStringsToUUIDs(ctx, sg[i].S)
	if err != nil || len(one) != 1 {
		r.bad(c, "inject:MapStringsToUUIDs:error", "mapping %s alone: err=%v", c16Clip(sg[i].S), err)
		return
	}
	ro := c16RO(s, ctx, sg[i].S)
	if one[0] != batch[i] || ro != batch[i] {
		r.bad(c, "inject:unstable-id", "the string %s (%s) maps to %s in a batch, %s alone, %s read-only", c16Clip(sg[i].S), sg[i].Class, batch[i], one[0], ro)
	}
	back1, err := mm.MapUUIDsToStrings(ctx, batch[i])
	if err != nil || len(back1) != 1 || back1[0] != sg[i].S {
		r.bad(c, "inject:inverse:single", "MapUUIDsToStrings(Map(%s)) = %v err=%v", c16Clip(sg[i].S), back1, err)
	}
	rm, wm := s.Reg.ReadOnlyMapper(), s.Reg.Mapper()
	for j := range sg {
		if (batch[i] == batch[j]) != (i == j) {
			r.bad(c, "inject:alias:"+sg[i].Class+"~"+sg[j].Class, "the distinct strings %s and %s map to the same UUID %s", c16Clip(sg[i].S), c16Clip(sg[j].S), batch[i])
		}
		back, err := mm.MapUUIDsToStrings(ctx, batch[i], batch[j])
		if err != nil || len(back) != 2 || back[0] != sg[i].S || back[1] != sg[j].S {
			got := make([]string, len(back))
			for k := range back {
				got[k] = c16Clip(back[k])
			}
			r.bad(c, "inject:inverse:pair", "MapUUIDsToStrings(Map(%s), Map(%s)) = %v err=%v", c16Clip(sg[i].S), c16Clip(sg[j].S), got, err)
		}
		// the Mapper on the pair as (object, subject id) and (object, subject-set object)
		for k, tu := range []*ketoapi.RelationTuple{axID("n1", sg[i].S, "r", sg[j].S), axSet("n1", sg[i].S, "r", "n2", sg[j].S, "m")} {
			m := rm
			if (i+j+k)%2 == 0 {
				m = wm
			}
			it, err := m.FromTuple(ctx, tu)
			if err != nil || len(it) != 1 {
				r.bad(c, "inject:FromTuple:error", "FromTuple(%s): err=%v", refsem.Key(tu), err)
				continue
			}
			if it[0].Object != batch[i] || it[0].Subject == nil || it[0].Subject.UniqueID() != c16SubjectUnique(it[0].Subject, batch[j]) {
				r.bad(c, "inject:FromTuple:wrong-id", "FromTuple(n1:%s#r@%s) put object=%s subject=%v; Map gives %s / %s", c16Clip(sg[i].S), c16Clip(sg[j].S), it[0].Object, it[0].Subject, batch[i], batch[j])
			}
			bt, err := m.ToTuple(ctx, it...)
			if err != nil || len(bt) != 1 || refsem.Key(bt[0]) != refsem.Key(tu) {
				got := "<error>"
				if len(bt) == 1 {
					got = c16Clip(string(refsem.Key(bt[0])))
				}
				r.bad(c, "inject:ToTuple:mismatch", "ToTuple(FromTuple(t)) = %s for t = %s err=%v", got, c16Clip(string(refsem.Key(tu))), err)
			}
		}
	}
	nt := ""
	if i != 0 {
		nt = fmt.Sprintf("inject|%d", i)
	}
	r.count("inject", 4*len(sg)+3, nt)
}

// c16SubjectUnique: what UniqueID() must be if the subject's name maps to want.
func c16SubjectUnique(sub relationtuple.Subject, want uuid.UUID) uuid.UUID {
	switch x := sub.(type) {
	case *relationtuple.SubjectID:
		return want
	case *relationtuple.SubjectSet:
		return (&relationtuple.SubjectSet{Namespace: x.Namespace, Object: want, Relation: x.Relation}).UniqueID()
	}
	return uuid.Nil
}

// ---- duplicate patterns ---------------------------------------------------------------------

var c16Patterns = []string{"none", "all-equal", "adjacent-pairs", "object=subject", "id-and-set-share-name"}
var c16Kinds = []string{"id", "set", "mixed"}

// c16Strings: a batch of n strings under a pattern (for the MappingManager).
func (r *c16Run) c16Strings(n int, pattern string) []string {
	out := make([]string, n)
	for i := range out {
		switch pattern {
		case "none":
			out[i] = r.name(i)
		case "all-equal":
			out[i] = r.name(7)
		case "adjacent-pairs":
			out[i] = r.name(i / 2)
		case "period-3":
			out[i] = r.name(i % 3)
		case "first=last":
			out[i] = r.name(i)
			if i == n-1 {
				out[i] = r.name(0)
			}
		}
	}
	return out
}

// c16Tuples: a batch of n tuples under a duplicate pattern and subject kind.
func (r *c16Run) c16Tuples(n int, pattern, kind string) []*ketoapi.RelationTuple {
	out := make([]*ketoapi.RelationTuple, n)
	for i := range out {
		var obj, sub string
		set := kind == "set" || (kind == "mixed" && i%2 == 1)
		switch pattern {
		case "none":
			obj, sub = r.name(2*i), r.name(2*i+1)
		case "all-equal":
			obj, sub = r.name(3), r.name(3)
		case "adjacent-pairs":
			obj, sub = r.name(2*(i/2)), r.name(2*(i/2)+1)
			set = kind == "set" || (kind == "mixed" && (i/2)%2 == 1)
		case "object=subject":
			obj, sub = r.name(i), r.name(i)
		case "id-and-set-share-name":
			// name(k) is the subject id of tuple 2k, the subject-set object of tuple 2k+1 and the object of tuple 2k+2
			obj, sub = r.name(i/2-1+len(r.sigma)), r.name(i/2)
			if i >= 2 {
				obj = r.name(i/2 - 1)
			}
			set = i%2 == 1
		}
		rel := fmt.Sprintf("r%d", i%7)
		if set {
			out[i] = axSet("n1", obj, rel, "n2", sub, fmt.Sprintf("m%d", i%5))
		} else {
			out[i] = axID("n1", obj, rel, sub)
		}
		if i%3 == 2 {
			out[i].Namespace = "n2"
		}
	}
	return out
}

func c16Distinct(ss []string) int {
	m := map[string]bool{}
	for _, s := range ss {
		m[s] = true
	}
	return len(m)
}

// ---- family: mapbatch ----------------------------------------------------------------------------

func (r *c16Run) runMapBatch(s *apih.Server, c c16Case) {
	ctx, cancel := c16Ctx(s)
	defer cancel()
	s.Truncate()
	mm := s.Reg.MappingManager()
	in := r.c16Strings(c.N, c.Pattern)
	u, err := mm.MapStringsToUUIDs(ctx, in...)
	if err != nil || len(u) != len(in) {
		r.bad(c, "mapbatch:MapStringsToUUIDs:error", "%d strings (%s): %d results, err=%v", len(in), c.Pattern, len(u), err)
		return
	}
	for i := range in {
		if want := c16RO(s, ctx, in[i]); u[i] != want {
			r.bad(c, "mapbatch:MapStringsToUUIDs:position", "batch of %d (%s): position %d holds %s, the string %s maps to %s", len(in), c.Pattern, i, u[i], c16Clip(in[i]), want)
			break
		}
	}
	back, err := mm.MapUUIDsToStrings(ctx, u...)
	if err != nil || len(back) != len(in) {
		r.bad(c, "mapbatch:MapUUIDsToStrings:error", "%d ids (%s, %d distinct): %d results, err=%v", len(in), c.Pattern, c16Distinct(in), len(back), err)
		return
	}
	for i := range in {
		if back[i] != in[i] {
			r.bad(c, "mapbatch:MapUUIDsToStrings:position", "batch of %d ids (%s, %d distinct): position %d holds %s, want %s", len(in), c.Pattern, c16Distinct(in), i, c16Clip(back[i]), c16Clip(in[i]))
			break
		}
	}
	// the same reverse lookup once more: the answer must not depend on what an earlier lookup left behind
	if back2, err := mm.MapUUIDsToStrings(ctx, u...); err != nil || len(back2) != len(in) {
		r.bad(c, "mapbatch:MapUUIDsToStrings:repeat:error", "second reverse lookup of the same %d ids: %d results, err=%v", len(in), len(back2), err)
	} else {
		for i := range in {
			if back2[i] != in[i] {
				r.bad(c, "mapbatch:MapUUIDsToStrings:repeat:position", "the SECOND reverse lookup of the same %d ids (%s, %d distinct): position %d holds %s, want %s (the first lookup was right)", len(in), c.Pattern, c16Distinct(in), i, c16Clip(back2[i]), c16Clip(in[i]))
				break
			}
		}
	}
	// a reverse lookup over several lookup pages with ONE failing statement (every statement in turn): an error,
	// or the right names - a failed page must not come back as empty names
	if c.Pattern == "none" && (c.N == 150 || c.N == 250) {
		s.Settle()
		s.Tap.ResetCount()
		_, _ = mm.MapUUIDsToStrings(ctx, u...)
		n := int(s.Tap.Count())
		for k := 1; k <= n; k++ {
			cnt := 0
			s.Tap.SetBefore(func(*sqlfault.Event) error {
				if cnt++; cnt == k {
					return errors.New("verif: injected storage failure")
				}
				return nil
			})
			got, err := mm.MapUUIDsToStrings(ctx, u...)
			s.Tap.SetBefore(nil)
			r.count("mapbatch", 1, "")
			if err != nil {
				continue
			}
			for i := range in {
				if i >= len(got) || got[i] != in[i] {
					r.bad(c, "mapbatch:MapUUIDsToStrings:failed-page-reported-as-names", "reverse lookup of %d ids with SQL statement %d of %d failing returns no error and position %d holds %q, want %s", len(in), k, n, i, c16Clip(got[i]), c16Clip(in[i]))
					break
				}
			}
		}
	}
	nt := ""
	if d := c16Distinct(in); d > 100 || d < len(in) {
		nt = fmt.Sprintf("mapbatch|%d|%s", c.N, c.Pattern)
	}
	r.count("mapbatch", 2*len(in), nt)
}

// ---- family: tuples --------------------------------------------------------------------------------

func c16SubjectKind(t *ketoapi.RelationTuple) string {
	switch {
	case t.SubjectID != nil:
		return "id"
	case t.SubjectSet != nil:
		return "set"
	}
	return "none"
}

func (r *c16Run) runTuples(s *apih.Server, c c16Case) {
	ctx, cancel := c16Ctx(s)
	defer cancel()
	s.Truncate()
	m := s.Reg.Mapper()
	ts := r.c16Tuples(c.N, c.Pattern, c.Kind)
	its, err := m.FromTuple(ctx, ts...)
	if err != nil || len(its) != len(ts) {
		r.bad(c, "tuples:FromTuple:error", "%d tuples (%s, %s): %d results, err=%v", len(ts), c.Pattern, c.Kind, len(its), err)
		return
	}
	var names []string
	for i, t := range ts {
		names = append(names, t.Object)
		wantObj := c16RO(s, ctx, t.Object)
		subName := ""
		if t.SubjectID != nil {
			subName = *t.SubjectID
		} else {
			subName = t.SubjectSet.Object
		}
		names = append(names, subName)
		wantSub := c16RO(s, ctx, subName)
		it := its[i]
		field := ""
		switch sub := it.Subject.(type) {
		case *relationtuple.SubjectID:
			if t.SubjectID == nil {
				field = "subject-kind"
			} else if sub.ID != wantSub {
				field = "subject-id"
			}
		case *relationtuple.SubjectSet:
			if t.SubjectSet == nil {
				field = "subject-kind"
			} else if sub.Object != wantSub {
				field = "subject-set-object"
			} else if sub.Namespace != t.SubjectSet.Namespace || sub.Relation != t.SubjectSet.Relation {
				field = "subject-set-namespace-or-relation"
			}
		default:
			field = "subject-kind"
		}
		if field == "" && it.Object != wantObj {
			field = "object"
		}
		if field == "" && (it.Namespace != t.Namespace || it.Relation != t.Relation) {
			field = "namespace-or-relation"
		}
		if field != "" {
			r.bad(c, "tuples:FromTuple:"+field, "FromTuple on %d tuples (%s, %s): position %d = %s was mapped to %s (object id %s, subject id %s expected)", len(ts), c.Pattern, c.Kind, i, c16Clip(string(refsem.Key(t))), it.String(), wantObj, wantSub)
			break
		}
	}
	for _, mp := range []*relationtuple.Mapper{m, s.Reg.ReadOnlyMapper()} {
		back, err := mp.ToTuple(ctx, its...)
		if err != nil || len(back) != len(ts) {
			r.bad(c, "tuples:ToTuple:error", "%d tuples (%s, %s): %d results, err=%v", len(ts), c.Pattern, c.Kind, len(back), err)
			return
		}
		for i, t := range ts {
			b := back[i]
			if refsem.Key(b) == refsem.Key(t) {
				continue
			}
			field := "subject"
			switch {
			case b.Object != t.Object:
				field = "object"
			case c16SubjectKind(b) != c16SubjectKind(t):
				field = "subject-kind"
			case b.Namespace != t.Namespace || b.Relation != t.Relation:
				field = "namespace-or-relation"
			case t.SubjectSet != nil && b.SubjectSet.Object != t.SubjectSet.Object:
				field = "subject-set-object"
			case t.SubjectID != nil:
				field = "subject-id"
			}
			r.bad(c, "tuples:ToTuple:"+field, "ToTuple(FromTuple(batch)) on %d tuples (%s, %s, %d distinct names): position %d is %s, was %s", len(ts), c.Pattern, c.Kind, c16Distinct(names), i, c16Clip(string(refsem.Key(b))), c16Clip(string(refsem.Key(t))))
			break
		}
	}
	nt := ""
	if d := c16Distinct(names); d > 100 || d < len(names) {
		nt = fmt.Sprintf("tuples|%d|%s|%s", c.N, c.Pattern, c.Kind)
	}
	r.count("tuples", 3*len(ts), nt)
}

// ---- family: query ------------------------------------------------------------------------------------

func (r *c16Run) runQuery(s *apih.Server, c c16Case) {
	ctx, cancel := c16Ctx(s)
	defer cancel()
	n := len(r.sigma)
	a := r.sigma[c.I].S
	evals := 0
	for _, b := range []string{r.sigma[(c.I+1)%n].S, a} {
		for shape := 0; shape < 16; shape++ {
			for _, set := range []bool{false, true} {
				if set && shape&8 == 0 {
					continue
				}
				q := &ketoapi.RelationQuery{}
				if shape&1 != 0 {
					q.Namespace = axS("n1")
				}
				if shape&2 != 0 {
					q.Object = axS(a)
				}
				if shape&4 != 0 {
					q.Relation = axS("r")
				}
				if shape&8 != 0 {
					if set {
						q.SubjectSet = &ketoapi.SubjectSet{Namespace: "n2", Object: b, Relation: "m"}
					} else {
						q.SubjectID = axS(b)
					}
				}
				cc := c
				cc.Shape = shape
				iq, err := s.Reg.Mapper().FromQuery(ctx, q)
				if err != nil {
					r.bad(cc, "query:FromQuery:error", "FromQuery(%s): %v", c16Clip(axQueryString(q)), err)
					continue
				}
				if q.Object != nil && (iq.Object == nil || *iq.Object != c16RO(s, ctx, a)) {
					r.bad(cc, "query:FromQuery:object", "FromQuery(%s): object id %v, Map gives %s", c16Clip(axQueryString(q)), iq.Object, c16RO(s, ctx, a))
				}
				if shape&8 != 0 && (iq.Subject == nil || iq.Subject.UniqueID() != c16SubjectUnique(iq.Subject, c16RO(s, ctx, b))) {
					r.bad(cc, "query:FromQuery:subject", "FromQuery(%s): subject %v, Map gives %s", c16Clip(axQueryString(q)), iq.Subject, c16RO(s, ctx, b))
				}
				bq, err := s.Reg.ReadOnlyMapper().ToQuery(ctx, iq)
				if err != nil {
					r.bad(cc, "query:ToQuery:error", "ToQuery(FromQuery(%s)): %v", c16Clip(axQueryString(q)), err)
					continue
				}
				if axQueryString(bq) != axQueryString(q) {
					r.bad(cc, "query:ToQuery:mismatch", "ToQuery(FromQuery(q)) = %s for q = %s", c16Clip(axQueryString(bq)), c16Clip(axQueryString(q)))
				}
				evals += 2
			}
		}
	}
	r.count("query", evals, fmt.Sprintf("query|%d", c.I))
}

// ---- family: tree ---------------------------------------------------------------------------------------

func (r *c16Run) runTree(s *apih.Server, c c16Case) {
	ctx, cancel := c16Ctx(s)
	defer cancel()
	s.Truncate()
	mm := s.Reg.MappingManager()
	nameOf := func(k int) string {
		switch c.Pattern {
		case "all-equal":
			return r.name(5)
		case "adjacent-pairs":
			return r.name(k / 2)
		}
		return r.name(k)
	}
	id := func(str string) uuid.UUID {
		u, err := mm.MapStringsToUUIDs(ctx, str)
		if err != nil {
			panic(fmt.Sprintf("c16: tree: mapping: %v", err))
		}
		return u[0]
	}
	// expected API tree and the internal tree, built side by side
	type node struct {
		id       *string
		set      *ketoapi.SubjectSet
		children []*node
	}
	var build func(n *node) *relationtuple.Tree
	build = func(n *node) *relationtuple.Tree {
		t := &relationtuple.Tree{Type: ketoapi.TreeNodeLeaf}
		if n.id != nil {
			t.Subject = &relationtuple.SubjectID{ID: id(*n.id)}
		} else {
			t.Subject = &relationtuple.SubjectSet{Namespace: n.set.Namespace, Object: id(n.set.Object), Relation: n.set.Relation}
		}
		if len(n.children) > 0 {
			t.Type = ketoapi.TreeNodeUnion
		}
		for _, ch := range n.children {
			t.Children = append(t.Children, build(ch))
		}
		return t
	}
	root := &node{set: &ketoapi.SubjectSet{Namespace: "n1", Object: nameOf(0), Relation: "r"}}
	for k := 1; k <= c.N; k++ {
		switch k % 3 {
		case 0:
			root.children = append(root.children, &node{set: &ketoapi.SubjectSet{Namespace: "n2", Object: nameOf(k), Relation: "m"},
				children: []*node{{id: axS(nameOf(k + 1))}, {set: &ketoapi.SubjectSet{Namespace: "n1", Object: nameOf(k), Relation: ""}}}})
		case 1:
			root.children = append(root.children, &node{id: axS(nameOf(k))})
		default:
			root.children = append(root.children, &node{set: &ketoapi.SubjectSet{Namespace: "n2", Object: nameOf(k), Relation: "m"}})
		}
	}
	got, err := s.Reg.ReadOnlyMapper().ToTree(ctx, build(root))
	if err != nil {
		r.bad(c, "tree:ToTree:error", "ToTree on a tree with %d children (%s): %v", c.N, c.Pattern, err)
		return
	}
	evals := 0
	var cmp func(path string, want *node, got *ketoapi.Tree[*ketoapi.RelationTuple]) bool
	cmp = func(path string, want *node, got *ketoapi.Tree[*ketoapi.RelationTuple]) bool {
		evals++
		ok := got != nil && got.Tuple != nil && len(got.Children) == len(want.children)
		if ok && want.id != nil {
			ok = got.Tuple.SubjectID != nil && *got.Tuple.SubjectID == *want.id && got.Tuple.SubjectSet == nil
		} else if ok {
			ok = got.Tuple.SubjectSet != nil && *got.Tuple.SubjectSet == *want.set && got.Tuple.SubjectID == nil
		}
		if !ok {
			w := ""
			if want.id != nil {
				w = c16Clip(*want.id)
			} else {
				w = c16Clip(fmt.Sprintf("%s:%s#%s", want.set.Namespace, want.set.Object, want.set.Relation))
			}
			g := "<nil>"
			if got != nil && got.Tuple != nil {
				g = c16Clip(string(refsem.Key(got.Tuple)))
			}
			r.bad(c, "tree:ToTree:node", "ToTree (%d children, %s): node %s is %s with %d children, want subject %s with %d children", c.N, c.Pattern, path, g, lenChildren(got), w, len(want.children))
			return false
		}
		for i := range want.children {
			if !cmp(fmt.Sprintf("%s/%d", path, i), want.children[i], got.Children[i]) {
				return false
			}
		}
		return true
	}
	cmp("root", root, got)
	nt := ""
	if c.N >= 2 {
		nt = fmt.Sprintf("tree|%d|%s", c.N, c.Pattern)
	}
	r.count("tree", evals, nt)
}

func lenChildren(t *ketoapi.Tree[*ketoapi.RelationTuple]) int {
	if t == nil {
		return -1
	}
	return len(t.Children)
}

// ---- family: page (added seam) ----------------------------------------------------------------------------

type c16Pager interface {
	VerifBatchFromUUIDs(ctx context.Context, ids []uuid.UUID, pageSize int) ([]string, error)
}

func (r *c16Run) runPage(s *apih.Server, c c16Case) {
	ctx, cancel := c16Ctx(s)
	defer cancel()
	p, ok := s.Reg.Persister().(c16Pager)
	if !ok {
		r.seam.Store(-1)
		return
	}
	r.seam.CompareAndSwap(0, 1)
	s.Truncate()
	in := r.c16Strings(c.N, c.Pattern)
	u, err := s.Reg.MappingManager().MapStringsToUUIDs(ctx, in...)
	if err != nil || len(u) != len(in) {
		r.bad(c, "page:MapStringsToUUIDs:error", "%d strings: err=%v", len(in), err)
		return
	}
	back, err := p.VerifBatchFromUUIDs(ctx, u, c.PageSize)
	if err != nil || len(back) != len(in) {
		r.bad(c, "page:lookup:error", "lookup of %d ids (%s, %d distinct) with page size %d: %d results, err=%v", len(in), c.Pattern, c16Distinct(in), c.PageSize, len(back), err)
		return
	}
	for i := range in {
		if back[i] != in[i] {
			r.bad(c, "page:lookup:position", "lookup of %d ids (%s, %d distinct) with page size %d: position %d holds %s, want %s", len(in), c.Pattern, c16Distinct(in), c.PageSize, i, c16Clip(back[i]), c16Clip(in[i]))
			break
		}
	}
	nt := ""
	if c16Distinct(in) > c.PageSize {
		nt = fmt.Sprintf("page|%d|%s|%d", c.N, c.Pattern, c.PageSize)
	}
	r.count("page", len(in)+1, nt)
}

// ---- family: e2e ---------------------------------------------------------------------------------------------

func c16KeysOf(ts []*ketoapi.RelationTuple) []string {
	out := make([]string, len(ts))
	for i, t := range ts {
		out[i] = string(refsem.Key(t))
	}
	sort.Strings(out)
	return out
}

func c16Same(a, b []string) bool {
	if len(a) != len(b) {
		return false
	}
	for i := range a {
		if a[i] != b[i] {
			return false
		}
	}
	return true
}

func c16ClipAll(ss []string) []string {
	out := make([]string, len(ss))
	for i, s := range ss {
		out[i] = c16Clip(s)
	}
	return out
}

func (r *c16Run) c16Write(s *apih.Server, c c16Case, ts []*ketoapi.RelationTuple) bool {
	cl := s.Client()
	switch c.Transport {
	case "rest-put":
		for _, t := range ts {
			resp := cl.Create(t)
			if resp.Status != 201 {
				r.bad(c, "e2e:write:"+c.Transport, "PUT %s: %s", c16Clip(string(refsem.Key(t))), resp.String())
				return false
			}
			// the Location header of the answer names the relationship just written: its query part must decode
			// back to exactly that relationship (it is a URL-query encoding made by the server, not by ketoapi)
			if loc := resp.Header.Get("Location"); loc != "" {
				bad := ""
				if u, err := url.Parse(loc); err != nil {
					bad = "unparsable: " + err.Error()
				} else if vals, err := url.ParseQuery(u.RawQuery); err != nil {
					bad = "query unparsable: " + err.Error()
				} else if back, err := (&ketoapi.RelationTuple{}).FromURLQuery(vals); err != nil {
					bad = "does not decode: " + err.Error()
				} else if refsem.Key(back) != refsem.Key(t) {
					bad = "decodes to " + c16Clip(string(refsem.Key(back)))
				}
				if bad != "" {
					r.bad(c, "e2e:location-header", "PUT %s answers Location %s, which %s", c16Clip(string(refsem.Key(t))), c16Clip(loc), bad)
				}
			}
		}
	case "rest-patch":
		var ds []*ketoapi.PatchDelta
		for _, t := range ts {
			ds = append(ds, &ketoapi.PatchDelta{Action: ketoapi.ActionInsert, RelationTuple: t})
		}
		if resp := cl.Patch(ds); resp.Status != 204 {
			r.bad(c, "e2e:write:"+c.Transport, "PATCH of %d inserts: %s", len(ts), resp.String())
			return false
		}
	default:
		var ds []*rts.RelationTupleDelta
		for _, t := range ts {
			ds = append(ds, axDelta(rts.RelationTupleDelta_ACTION_INSERT, t))
		}
		if _, err := cl.GTransact(ds); err != nil {
			r.bad(c, "e2e:write:"+c.Transport, "Transact of %d inserts: %v", len(ts), err)
			return false
		}
	}
	return true
}

// c16Leaves flattens an expand tree (REST JSON or proto converted) to "path-free" subject keys.
func c16TreeSubjects(t *ketoapi.Tree[*ketoapi.RelationTuple], out *[]string) {
	if t == nil || t.Tuple == nil {
		*out = append(*out, "<nil>")
		return
	}
	switch {
	case t.Tuple.SubjectID != nil:
		*out = append(*out, fmt.Sprintf("id %q", *t.Tuple.SubjectID))
	case t.Tuple.SubjectSet != nil:
		*out = append(*out, fmt.Sprintf("set %q:%q#%q", t.Tuple.SubjectSet.Namespace, t.Tuple.SubjectSet.Object, t.Tuple.SubjectSet.Relation))
	default:
		*out = append(*out, "<no subject>")
	}
	for _, ch := range t.Children {
		c16TreeSubjects(ch, out)
	}
}

func c16ProtoTreeSubjects(t *rts.SubjectTree, out *[]string) {
	if t == nil || t.Tuple == nil {
		*out = append(*out, "<nil>")
		return
	}
	switch sub := t.Tuple.GetSubject().GetRef().(type) {
	case *rts.Subject_Id:
		*out = append(*out, fmt.Sprintf("id %q", sub.Id))
	case *rts.Subject_Set:
		*out = append(*out, fmt.Sprintf("set %q:%q#%q", sub.Set.GetNamespace(), sub.Set.GetObject(), sub.Set.GetRelation()))
	default:
		*out = append(*out, "<no subject>")
	}
	for _, ch := range t.Children {
		c16ProtoTreeSubjects(ch, out)
	}
}

// runE2E: the strings s = Sigma[i], t = Sigma[i+1], v = Sigma[i+2] in one small store.
func (r *c16Run) runE2E(srv *apih.Server, c c16Case) {
	srv.Truncate()
	n := len(r.sigma)
	s, t, v, w := r.sigma[c.I].S, r.sigma[(c.I+1)%n].S, r.sigma[(c.I+2)%n].S, r.sigma[(c.I+3)%n].S
	t1 := axID("n1", s, "r", t)
	t2 := axSet("n1", s, "r", "n2", v, "m")
	t3 := axID("n2", v, "m", s)
	if !r.c16Write(srv, c, []*ketoapi.RelationTuple{t1, t2, t3}) {
		return
	}
	cl := srv.Client()
	evals := 0
	lists := []struct {
		name string
		q    *ketoapi.RelationQuery
		want []*ketoapi.RelationTuple
	}{
		{"object", &ketoapi.RelationQuery{Namespace: axS("n1"), Object: axS(s)}, []*ketoapi.RelationTuple{t1, t2}},
		{"subject-id", &ketoapi.RelationQuery{Namespace: axS("n1"), SubjectID: axS(t)}, []*ketoapi.RelationTuple{t1}},
		{"subject-set", &ketoapi.RelationQuery{SubjectSet: &ketoapi.SubjectSet{Namespace: "n2", Object: v, Relation: "m"}}, []*ketoapi.RelationTuple{t2}},
		{"object-n2", &ketoapi.RelationQuery{Namespace: axS("n2"), Object: axS(v), Relation: axS("m")}, []*ketoapi.RelationTuple{t3}},
		{"all", &ketoapi.RelationQuery{}, []*ketoapi.RelationTuple{t1, t2, t3}},
		{"other-object", &ketoapi.RelationQuery{Namespace: axS("n1"), Object: axS(w)}, nil},
	}
	if w == s || w == v { // |Sigma| < 4 never happens; keep the oracle honest anyway
		lists = lists[:5]
	}
	for _, l := range lists {
		for _, tr := range []string{"rest", "grpc"} {
			var got axListing
			if tr == "rest" {
				got = axListREST(cl, l.q, 0)
			} else {
				got = axListGRPC(cl, l.q, 0)
			}
			evals++
			if got.Err != "" {
				r.bad(c, "e2e:list:error:"+tr, "list by %s over %s after writing %s: %s", l.name, tr, c16ClipAll(c16KeysOf([]*ketoapi.RelationTuple{t1, t2, t3})), got.Err)
				continue
			}
			if g, wnt := c16KeysOf(got.Items), c16KeysOf(l.want); !c16Same(g, wnt) {
				r.bad(c, "e2e:list:"+l.name+":"+tr, "written over %s: %v; list by %s over %s returned %v, want %v", c.Transport, c16ClipAll(c16KeysOf([]*ketoapi.RelationTuple{t1, t2, t3})), l.name, tr, c16ClipAll(g), c16ClipAll(wnt))
			}
		}
	}
	// expand n1:s#r to depth 3: root set, leaf t, set n2:v#m with leaf s (children order follows storage order: compare as multisets per level via flattening+sort)
	wantTree := []string{fmt.Sprintf("set %q:%q#%q", "n1", s, "r"), fmt.Sprintf("id %q", t), fmt.Sprintf("set %q:%q#%q", "n2", v, "m"), fmt.Sprintf("id %q", s)}
	sort.Strings(wantTree)
	{
		resp := cl.Expand(&ketoapi.SubjectSet{Namespace: "n1", Object: s, Relation: "r"}, "3")
		var tree ketoapi.Tree[*ketoapi.RelationTuple]
		evals++
		if resp.Status != 200 || json.Unmarshal(resp.Raw, &tree) != nil {
			r.bad(c, "e2e:expand:error:rest", "expand n1:%s#r: %s", c16Clip(s), resp.String())
		} else {
			var got []string
			c16TreeSubjects(&tree, &got)
			sort.Strings(got)
			if !c16Same(got, wantTree) {
				r.bad(c, "e2e:expand:rest", "expand n1:%s#r over REST has the subjects %v, want %v", c16Clip(s), c16ClipAll(got), c16ClipAll(wantTree))
			}
		}
		gresp, err := cl.GExpand(apih.ProtoSubject(nil, &ketoapi.SubjectSet{Namespace: "n1", Object: s, Relation: "r"}), 3)
		evals++
		if err != nil {
			r.bad(c, "e2e:expand:error:grpc", "expand n1:%s#r: %v", c16Clip(s), err)
		} else {
			var got []string
			c16ProtoTreeSubjects(gresp.Tree, &got)
			sort.Strings(got)
			if !c16Same(got, wantTree) {
				r.bad(c, "e2e:expand:grpc", "expand n1:%s#r over gRPC has the subjects %v, want %v", c16Clip(s), c16ClipAll(got), c16ClipAll(wantTree))
			}
		}
	}
	// check: the written strings are allowed, a different string is not
	checks := []struct {
		t    *ketoapi.RelationTuple
		want bool
	}{
		{t1, true}, {t2, true}, {axID("n1", s, "r", s), true /* through n2:v#m */}, {t3, true},
		{axID("n1", s, "r", w), w == t || w == s}, {axID("n1", w, "r", t), w == s}, {axSet("n1", s, "r", "n2", w, "m"), w == v},
	}
	for _, ch := range checks {
		resp := cl.CheckGET(ch.t, true, "")
		a, has := resp.Allowed()
		evals++
		if !has || a != ch.want {
			r.bad(c, "e2e:check:rest", "after writing %v: REST check %s answers %s, want allowed=%v", c16ClipAll(c16KeysOf([]*ketoapi.RelationTuple{t1, t2, t3})), c16Clip(string(refsem.Key(ch.t))), resp.String(), ch.want)
		}
		g, err := cl.GCheck(apih.ProtoTuple(ch.t), 0)
		evals++
		if err != nil || g.Allowed != ch.want {
			r.bad(c, "e2e:check:grpc", "after writing %v: gRPC check %s answers %v err=%v, want allowed=%v", c16ClipAll(c16KeysOf([]*ketoapi.RelationTuple{t1, t2, t3})), c16Clip(string(refsem.Key(ch.t))), g.GetAllowed(), err, ch.want)
		}
	}
	srv.Settle()
	r.count("e2e", evals, fmt.Sprintf("e2e|%d|%s", c.I, c.Transport))
}

// runE2EAll: all of Sigma as objects and as subjects in ONE store; every string finds exactly its own tuples.
func (r *c16Run) runE2EAll(srv *apih.Server, c c16Case) {
	srv.Truncate()
	var ts []*ketoapi.RelationTuple
	for _, x := range r.sigma {
		ts = append(ts, axID("n1", x.S, "r", "x"), axID("n1", "x", "r", x.S), axSet("n1", "y", "r", "n2", x.S, "m"))
	}
	if c.Transport == "rest-put" {
		c.Transport = "rest-patch"
	}
	if !r.c16Write(srv, c, ts) {
		return
	}
	cl := srv.Client()
	evals := 0
	for tri, tr := range []string{"rest", "grpc"} {
		list := func(q *ketoapi.RelationQuery) axListing {
			evals++
			if tri == 0 {
				return axListREST(cl, q, 0)
			}
			return axListGRPC(cl, q, 0)
		}
		all := list(&ketoapi.RelationQuery{})
		if g, w := c16KeysOf(all.Items), c16KeysOf(ts); all.Err != "" || !c16Same(g, w) {
			r.bad(c, "e2e-all:list-all:"+tr, "after writing all of Sigma (%d tuples) the full listing over %s has %d tuples (err=%q) and differs from what was written", len(ts), tr, len(g), all.Err)
		}
		for i, x := range r.sigma {
			for k, q := range []*ketoapi.RelationQuery{
				{Namespace: axS("n1"), Object: axS(x.S), Relation: axS("r"), SubjectID: axS("x")},
				{Namespace: axS("n1"), Object: axS("x"), SubjectID: axS(x.S)},
				{SubjectSet: &ketoapi.SubjectSet{Namespace: "n2", Object: x.S, Relation: "m"}},
			} {
				got := list(q)
				want := c16KeysOf([]*ketoapi.RelationTuple{ts[3*i+k]})
				if x.S == "x" && k < 2 { // "x" is not in Sigma; defensive
					continue
				}
				if g := c16KeysOf(got.Items); got.Err != "" || !c16Same(g, want) {
					r.bad(c, fmt.Sprintf("e2e-all:list-by-%s:%s", []string{"object", "subject-id", "subject-set"}[k], tr), "all of Sigma stored; listing by %s = %s (%s) over %s returns %v (err=%q), want exactly %v", []string{"object", "subject id", "subject-set object"}[k], c16Clip(x.S), x.Class, tr, c16ClipAll(g), got.Err, c16ClipAll(want))
				}
			}
		}
	}
	srv.Settle()
	r.count("e2e-all", evals, "e2e-all|"+c.Transport)
}

// runE2ERow: Sigma[i] as the object of one tuple per string of Sigma as subject id and as
// subject-set object (all ordered pairs (i, j), end to end).
func (r *c16Run) runE2ERow(srv *apih.Server, c c16Case) {
	srv.Truncate()
	si := r.sigma[c.I].S
	var ts []*ketoapi.RelationTuple
	for _, x := range r.sigma {
		ts = append(ts, axID("n1", si, "r", x.S), axSet("n1", si, "r", "n2", x.S, "m"))
	}
	if !r.c16Write(srv, c, ts) {
		return
	}
	cl := srv.Client()
	evals := 0
	tr := []string{"rest", "grpc"}[c.I%2]
	list := func(q *ketoapi.RelationQuery) axListing {
		evals++
		if tr == "rest" {
			return axListREST(cl, q, 0)
		}
		return axListGRPC(cl, q, 0)
	}
	all := list(&ketoapi.RelationQuery{Namespace: axS("n1"), Object: axS(si)})
	if g, w := c16KeysOf(all.Items), c16KeysOf(ts); all.Err != "" || !c16Same(g, w) {
		r.bad(c, "e2e-row:list-by-object:"+tr, "object %s (%s) with every string of Sigma as subject: listing by object over %s has %d tuples (err=%q), %d written, and differs", c16Clip(si), r.sigma[c.I].Class, tr, len(g), all.Err, len(ts))
	}
	for j, x := range r.sigma {
		for k, q := range []*ketoapi.RelationQuery{
			{Object: axS(si), SubjectID: axS(x.S)},
			{Object: axS(si), SubjectSet: &ketoapi.SubjectSet{Namespace: "n2", Object: x.S, Relation: "m"}},
		} {
			got := list(q)
			want := c16KeysOf([]*ketoapi.RelationTuple{ts[2*j+k]})
			if g := c16KeysOf(got.Items); got.Err != "" || !c16Same(g, want) {
				r.bad(c, fmt.Sprintf("e2e-row:list-by-%s:%s", []string{"subject-id", "subject-set"}[k], tr), "object %s with every string of Sigma as subject; listing by object and %s = %s (%s) over %s returns %v (err=%q), want exactly %v", c16Clip(si), []string{"subject id", "subject-set object"}[k], c16Clip(x.S), x.Class, tr, c16ClipAll(g), got.Err, c16ClipAll(want))
			}
		}
	}
	srv.Settle()
	r.count("e2e-row", evals, fmt.Sprintf("e2e-row|%d", c.I))
}

// ---- cases -----------------------------------------------------------------------------------------------------

func c16Sizes(thorough bool) []int {
	set := map[int]bool{}
	for _, n := range []int{1, 2, 3, 49, 50, 51, 99, 100, 101, 150, 199, 200, 201, 250} {
		set[n] = true
	}
	for n := 1; n <= 12; n++ {
		set[n] = true
	}
	for n := 45; n <= 55; n++ { // 2n names per tuple batch: 90..110 distinct ids
		set[n] = true
	}
	for n := 95; n <= 105; n++ {
		set[n] = true
	}
	for n := 195; n <= 205; n++ {
		set[n] = true
	}
	if thorough {
		for n := 1; n <= 260; n++ {
			set[n] = true
		}
		set[301], set[400], set[401] = true, true, true
	}
	var out []int
	for n := range set {
		out = append(out, n)
	}
	sort.Ints(out)
	return out
}

func (r *c16Run) cases() []c16Case {
	var out []c16Case
	n := len(r.sigma)
	for i := 0; i < n; i++ {
		out = append(out, c16Case{Family: "inject", I: i})
	}
	sizes := c16Sizes(r.thorough)
	for _, sz := range sizes {
		for _, p := range []string{"none", "all-equal", "adjacent-pairs", "period-3", "first=last"} {
			out = append(out, c16Case{Family: "mapbatch", N: sz, Pattern: p})
			if sz >= 190 { // 2x: the distinct-id count of adjacent pairs crosses 100 / 200 as well
				out = append(out, c16Case{Family: "mapbatch", N: 2 * sz, Pattern: p})
			}
		}
		for _, p := range c16Patterns {
			for _, k := range c16Kinds {
				if p == "id-and-set-share-name" && k != "mixed" {
					continue
				}
				out = append(out, c16Case{Family: "tuples", N: sz, Pattern: p, Kind: k})
			}
		}
	}
	// the WRITE path inserts new mappings in chunks of 15000 rows (and tuples in chunks of 3000): batch sizes
	// whose count of new names sits just below, on and just above one and two chunks
	for _, sz := range []int{14999, 15000, 15001, 30001} {
		out = append(out, c16Case{Family: "mapbatch", N: sz, Pattern: "none"})
	}
	for _, sz := range []int{29999, 30001, 30002} { // 15000 / 15001 / 15001 distinct names, every name twice
		out = append(out, c16Case{Family: "mapbatch", N: sz, Pattern: "adjacent-pairs"})
	}
	for _, sz := range []int{2999, 3000, 3001, 7499, 7500, 7501} { // two names per tuple
		out = append(out, c16Case{Family: "tuples", N: sz, Pattern: "none", Kind: "mixed"})
	}
	for i := 0; i < n; i++ {
		out = append(out, c16Case{Family: "query", I: i})
	}
	for _, k := range []int{0, 1, 2, 3, 4, 7, 99, 100, 101, 201} {
		for _, p := range []string{"none", "all-equal", "adjacent-pairs"} {
			out = append(out, c16Case{Family: "tree", N: k, Pattern: p})
		}
	}
	for sz := 0; sz <= 12; sz++ {
		for ps := 1; ps <= 5; ps++ {
			for _, p := range []string{"none", "all-equal", "adjacent-pairs", "period-3", "first=last"} {
				out = append(out, c16Case{Family: "page", N: sz, Pattern: p, PageSize: ps})
			}
		}
	}
	for _, sz := range []int{99, 100, 101, 199, 200, 201} {
		for _, ps := range []int{7, 50, 99, 100, 101} {
			out = append(out, c16Case{Family: "page", N: sz, Pattern: "none", PageSize: ps})
		}
	}
	trs := []string{"rest-put", "rest-patch", "grpc-transact"}
	for i := 0; i < n; i++ {
		if r.thorough {
			for _, tr := range trs {
				out = append(out, c16Case{Family: "e2e", I: i, Transport: tr})
			}
		} else {
			out = append(out, c16Case{Family: "e2e", I: i, Transport: trs[i%3]})
		}
	}
	for _, tr := range []string{"rest-patch", "grpc-transact"} {
		out = append(out, c16Case{Family: "e2e-all", Transport: tr})
	}
	for i := 0; i < n; i++ {
		if r.thorough || i%6 == 0 {
			out = append(out, c16Case{Family: "e2e-row", I: i, Transport: []string{"grpc-transact", "rest-patch"}[(i/2)%2]})
		}
	}
	return out
}

func (r *c16Run) runCase(s *apih.Server, c c16Case) {
	switch c.Family {
	case "inject":
		r.runInjectRow(s, c)
	case "mapbatch":
		r.runMapBatch(s, c)
	case "tuples":
		r.runTuples(s, c)
	case "query":
		r.runQuery(s, c)
	case "tree":
		r.runTree(s, c)
	case "page":
		r.runPage(s, c)
	case "e2e":
		r.runE2E(s, c)
	case "e2e-all":
		r.runE2EAll(s, c)
	case "e2e-row":
		r.runE2ERow(s, c)
	default:
		panic("c16: family " + c.Family)
	}
}

func c16Size(c c16Case) int {
	fam := map[string]int{"page": 0, "inject": 1, "query": 2, "mapbatch": 3, "tuples": 4, "tree": 5, "e2e": 6, "e2e-all": 7, "e2e-row": 8}[c.Family]
	return fam*1_000_000 + c.N*100 + c.I + c.PageSize
}

func TestC16(t *testing.T) {
	run := ev.New("C16", "exploration")
	r := &c16Run{sigma: c16Sigma(), thorough: ev.Thorough(), nontriv: map[string]bool{}, byFamily: map[string]int{}}
	pool := &axServerPool{t: t}

	if rp, ok := axReplay("C16"); ok {
		var cs c16Case
		if err := json.Unmarshal([]byte(c04JSON(rp["case"])), &cs); err != nil {
			fmt.Printf("INFRA-ERROR replay: %v\n", err)
			t.FailNow()
		}
		r.runCase(pool.get(0), cs)
		for _, c := range r.cands {
			run.Violation(c.Sig, c.What, rp)
		}
		if len(r.cands) == 0 {
			fmt.Println("  [replay] the recorded case satisfies the oracle now")
		}
		return
	}

	cases := r.cases()
	// longest first: the big batches and the all-of-Sigma store should not end up alone at the tail
	order := make([]int, len(cases))
	for i := range order {
		order[i] = i
	}
	weight := func(c c16Case) int {
		switch c.Family {
		case "e2e-all":
			return 1 << 30
		case "e2e-row":
			return 1 << 25
		case "inject":
			return 1 << 20
		}
		return c.N
	}
	sort.SliceStable(order, func(a, b int) bool { return weight(cases[order[a]]) > weight(cases[order[b]]) })
	deadline := ev.Deadline(240, 1500)
	var timedOut atomic.Bool
	var done atomic.Int64
	fam := map[string]int{}
	for _, c := range cases {
		fam[c.Family]++
	}
	axParallel(len(cases), pool.get, func(s *apih.Server, k int) {
		if time.Now().After(deadline) {
			timedOut.Store(true)
			return
		}
		r.runCase(s, cases[order[k]])
		done.Add(1)
	})

	sort.SliceStable(r.cands, func(i, j int) bool { return c16Size(r.cands[i].Case) < c16Size(r.cands[j].Case) })
	reported := map[string]bool{}
	sigCount := map[string]int{}
	unstable := 0
	for _, cd := range r.cands {
		sigCount[cd.Sig]++
		if reported[cd.Sig] {
			continue
		}
		// confirmation: twice on a fresh server; failing that, twice on one of the long-lived worker servers (a
		// defect that needs what a process has already seen - a cache that went wrong earlier - repeats there
		// every time, and nowhere else)
		confirmOn := func(get func() *apih.Server) bool {
			for rep := 0; rep < 2; rep++ {
				sub := &c16Run{sigma: r.sigma, thorough: r.thorough, nontriv: map[string]bool{}, byFamily: map[string]int{}}
				sub.runCase(get(), cd.Case)
				hit := false
				for _, c2 := range sub.cands {
					hit = hit || c2.Sig == cd.Sig
				}
				if !hit {
					return false
				}
			}
			return true
		}
		ok := confirmOn(func() *apih.Server { return pool.get(axFreshIndex()) })
		for w := 0; !ok && w < axWorkers(); w++ {
			w := w
			ok = confirmOn(func() *apih.Server { return pool.get(w) })
			if ok {
				cd.What += "  [reproduces on a server that has served the earlier cases, not on a fresh one]"
			}
		}
		if !ok {
			unstable++
			continue
		}
		reported[cd.Sig] = true
		run.Violation(cd.Sig, cd.What+"  case="+cd.Case.String(), map[string]any{"case": cd.Case, "tier": ev.Tier()})
	}

	seam := r.seam.Load() == 1
	run.Assume(
		"'any Unicode' = valid UTF-8 without NUL; NUL and invalid UTF-8 are outside the domain",
		"names = object, subject id and subject-set object (the strings that go through the UUID mapping); namespaces and relations are stored verbatim and only checked to stay at their position",
		"the lookup pages the DISTINCT ids of a batch by 100 in Go map iteration order, which is random per call: which id falls on the page boundary at the production page size is not controlled by the harness. Instead (deterministic): an added method calls the same unexported lookup with page sizes 1..5 on batches of 0..12 ids (every id is on a boundary for page size 1), and every batch size 95..105 / 195..205 (and 1..260 in thorough) is run with all duplicate patterns at page size 100",
		"the insert of new mappings is chunked by 15000 rows: batches of 14999 / 15000 / 15001 / 30001 new names (and tuple batches of 7499..7501 tuples = two names each, 2999..3001 tuples for the tuple chunk) are run once each with pairwise distinct names",
		"expected UUIDs are taken from keto's own read-only mapping of the single string (not recomputed by the harness); injectivity is judged on those ids",
		"expand output is compared as the multiset of subjects in the tree (children order follows storage order, which the property does not fix)",
	)
	sg := r.sigma
	for _, i := range []int{0, 9, 30, 60, 90, 120, len(sg) - 1} {
		if i < len(sg) {
			run.Sample(map[string]any{"sigma_class": sg[i].Class, "string": c16Clip(sg[i].S)})
		}
	}
	for _, i := range []int{len(sg) + 10, len(cases) / 2, len(cases) - 3} {
		run.Sample(map[string]any{"case": cases[i]})
	}
	r.mu.Lock()
	byFam := map[string]int{}
	for k, v := range r.byFamily {
		byFam[k] = v
	}
	r.mu.Unlock()
	run.Finish(map[string]any{
		"evaluations":           int(r.evals.Load()),
		"distinct_nontrivial":   len(r.nontriv),
		"rule":                  "evaluation = one position-wise / pair-wise comparison (an ordered pair of Sigma, a batch position, a query round trip, a tree node, a list / expand / check answer); non-trivial = distinct case in which names can collide or cross a lookup page: an inject row (all pairs with one string), a batch with repeated names or > 100 distinct names, a query round trip, a tree with >= 2 children, a page-seam case with more distinct ids than the page size, an end-to-end store",
		"sigma":                 len(sg),
		"ordered_pairs":         len(sg) * len(sg),
		"batch_sizes":           c16Sizes(r.thorough),
		"duplicate_patterns":    c16Patterns,
		"cases":                 len(cases),
		"cases_done":            int(done.Load()),
		"cases_by_family":       fam,
		"evaluations_by_family": byFam,
		"page_size_seam":        seam,
		"candidate_signatures":  sigCount,
		"unstable_candidates":   unstable,
		"exhaustive":            !timedOut.Load() && unstable == 0 && seam,
		"workers":               axWorkers(),
	})
}

//go:build sqlite

// C08 — all check transports agree with the permission engine and with each
// other. Bounded-exhaustive exploration on keto's real handlers:
//
//	states     3 seeded stores x 2 configurations (rewrite-free literal
//	           namespaces; OPL whose permissions are OR-only). All stores are
//	           tree shaped: no subject set is reachable from a query on two
//	           paths, so the free-running engine has one possible outcome.
//	singles    the complete product of a per-field value grammar (known /
//	           unknown / empty namespace, objects, declared / undeclared
//	           relations, subject ids and subject sets) plus all ordered pairs
//	           of a reduced adversarial string set, x max-depth in
//	           {absent,0,1,2,-1,99999,"abc"} x transports
//	           {GET, POST} x {mirror, openapi}, gRPC Check (tuple field and
//	           deprecated flat fields), REST batch of one, gRPC BatchCheck of one
//	batches    every sequence of length <= 3 over an 8 letter alphabet, REST and
//	           gRPC, plus batches of the configured maximum size and maximum+1
//
// Oracle: the engine's CheckIsMember on the read-only-mapped tuple with the
// same depth, called directly on the same registry (before and after the
// transports; the two calls must agree or the case counts as unstable).
// A REST batch with a `null` element kills the process (errgroup goroutine);
// that request is enumerated by C13 in a worker subprocess, not here.
package api

import (
	"context"
	"encoding/base64"
	"encoding/json"
	"errors"
	"fmt"
	"runtime"
	"sort"
	"strings"
	"sync"
	"sync/atomic"
	"testing"
	"time"

	"google.golang.org/grpc/codes"

	"github.com/ory/keto/internal/driver/config"
	"github.com/ory/keto/internal/namespace"
	"github.com/ory/keto/ketoapi"
	rts "github.com/ory/keto/proto/ory/keto/relation_tuples/v1alpha2"
	"github.com/ory/keto/verif/apih"
	"github.com/ory/keto/verif/ev"
	"github.com/ory/keto/verif/refsem"
	"github.com/ory/keto/verif/sqlfault"
)

// ---- configurations and stores ------------------------------------------------

const c08OPL = `import { Namespace, SubjectSet, Context } from "@ory/keto-namespace-types"

class User implements Namespace {}

class Group implements Namespace {
  related: {
    members: (User | SubjectSet<Group, "members">)[]
  }
}

class Doc implements Namespace {
  related: {
    owners: (User | SubjectSet<Group, "members">)[]
    viewers: (User | SubjectSet<Group, "members">)[]
    parents: Doc[]
  }

  permits = {
    view: (ctx: Context): boolean =>
      this.related.viewers.includes(ctx.subject) ||
      this.related.owners.includes(ctx.subject) ||
      this.related.parents.traverse((p) => p.permits.view(ctx)),
    edit: (ctx: Context): boolean => this.related.owners.includes(ctx.subject),
  }
}
`

var c08Known = map[string]bool{"User": true, "Group": true, "Doc": true}

type c08State struct {
	Cfg    string `json:"config"` // "plain" | "or-only"
	Store  int    `json:"store"`
	Global int    `json:"limit_max_read_depth,omitempty"` // 0 = 50 (never binding for these stores)
}

func (s c08State) String() string {
	if s.Global != 0 {
		return fmt.Sprintf("%s/store%d/global-depth-%d", s.Cfg, s.Store, s.Global)
	}
	return fmt.Sprintf("%s/store%d", s.Cfg, s.Store)
}

func c08States() []c08State {
	var out []c08State
	for _, c := range []string{"plain", "or-only"} {
		for st := 0; st < 3; st++ {
			out = append(out, c08State{Cfg: c, Store: st})
		}
		// the chain store under a global limit that BINDS (the chain needs depth 3): every transport must
		// apply the configured limit, also to a request max-depth above it
		out = append(out, c08State{Cfg: c, Store: 2, Global: 2})
	}
	return out
}

// c08MaxBatch is the configured limit.max_batch_check_size per configuration
// ("plain" keeps keto's default, 10).
func c08MaxBatch(cfg string) int {
	if cfg == "or-only" {
		return 4
	}
	return 10
}

// c08Adv is the reduced adversarial string set (no NUL, valid UTF-8).
func c08Adv(thorough bool) []string {
	a := []string{"", " ", "a b", "Doc:d1#viewers@u1", "(x)", "%41", "a+b", "a&b=c", `"q"`, `b\s`, "\u00E9", "e\u0301", "\u05E9\u05DC", "\U0001F600"}
	if !thorough {
		return a[:9]
	}
	return a
}

func c08Store(n int, thorough bool) []*ketoapi.RelationTuple {
	var ts []*ketoapi.RelationTuple
	if n == 0 {
		return ts
	}
	// store 1: one direct tuple, one subject-set hop
	ts = append(ts,
		axID("Doc", "d1", "viewers", "u1"),
		axSet("Doc", "d1", "viewers", "Group", "g1", "members"),
		axID("Group", "g1", "members", "u2"),
		axID("Doc", "d1", "viewers", "Group:g9#members"), // a subject ID that looks like a subject set
	)
	adv := c08Adv(thorough)
	for i, s := range adv {
		ts = append(ts, axID("Doc", s, "viewers", adv[(i+1)%len(adv)]))
	}
	if n == 1 {
		return ts
	}
	// store 2: a chain of depth 3, owners, a parent edge
	ts = append(ts,
		axSet("Group", "g1", "members", "Group", "g2", "members"),
		axID("Group", "g2", "members", "u3"),
		axID("Doc", "d1", "owners", "u4"),
		axSet("Doc", "d2", "parents", "Doc", "d1", ""),
		axID("Doc", "d2", "viewers", "u5"),
		axID("Doc", "d1", "view", "u6"), // only storable as a plain relation; in or-only it is a direct tuple on a permission
	)
	return ts
}

func c08NewServer(t testing.TB, st c08State, thorough bool) *apih.Server {
	o := apih.Options{Config: map[string]any{"limit.max_read_depth": 50}}
	if st.Global != 0 {
		o.Config["limit.max_read_depth"] = st.Global
	}
	if st.Cfg == "plain" {
		o.Namespaces = c08PlainNamespaces()
	} else {
		o.Config["namespaces"] = c08OPLLocation()
		o.Config["limit.max_batch_check_size"] = c08MaxBatch(st.Cfg)
	}
	s := apih.NewServer(t, o)
	if got := s.Reg.Config(s.Ctx).BatchCheckMaxBatchSize(); got != c08MaxBatch(st.Cfg) {
		panic(fmt.Sprintf("c08: configured max batch size is %d, expected %d", got, c08MaxBatch(st.Cfg)))
	}
	var deltas []*rts.RelationTupleDelta
	for _, tu := range c08Store(st.Store, thorough) {
		deltas = append(deltas, axDelta(rts.RelationTupleDelta_ACTION_INSERT, tu))
	}
	if len(deltas) > 0 {
		if _, err := s.Client().GTransact(deltas); err != nil {
			panic(fmt.Sprintf("c08: seeding %s: %v", st, err))
		}
	}
	return s
}

// ---- max-depth ---------------------------------------------------------------

type c08Depth struct {
	Name     string `json:"name"`
	REST     string `json:"rest"` // "" = parameter absent
	Int      int    `json:"int"`  // the value handed to the engine
	Valid    bool   `json:"valid"`
	RESTOnly bool   `json:"rest_only,omitempty"` // does not fit the int32 of the gRPC field
}

func c08Depths() []c08Depth {
	return []c08Depth{
		{"absent", "", 0, true, false},
		{"0", "0", 0, true, false},
		{"1", "1", 1, true, false},
		{"2", "2", 2, true, false},
		{"-1", "-1", -1, true, false},
		{"99999", "99999", 99999, true, false},
		{"abc", "abc", 0, false, false},
		// (appended: indices above are referred to by position) values outside the int32 range are legal on REST
		// (the parameter is parsed as a 64-bit integer) and mean what any value above the limit / below 1 means
		{"2^32+2", "4294967298", 4294967298, true, true},
		{"-(2^32-2)", "-4294967294", -4294967294, true, true},
		{"2^31-1", "2147483647", 2147483647, true, false},
	}
}

// ---- outcomes -----------------------------------------------------------------

// c08Out is what one transport reported for one tuple.
type c08Out struct {
	Kind   string `json:"kind"`            // allowed | denied | error | incoherent
	Class  string `json:"class,omitempty"` // error: 4xx 5xx panic notfound invalid internal other ; incoherent: description
	Detail string `json:"detail,omitempty"`
}

func (o c08Out) String() string {
	if o.Class != "" {
		return o.Kind + "(" + o.Class + ")"
	}
	return o.Kind
}

func c08Clip(s string) string {
	if len(s) > 200 {
		return s[:200] + "…"
	}
	return s
}

func c08RestOut(r apih.Resp, mirror bool) c08Out {
	if r.Panic != "" {
		return c08Out{"error", "panic", c08Clip(r.Panic)}
	}
	allowed, has := r.Allowed()
	if has {
		switch {
		case allowed && r.Status == 200:
			return c08Out{Kind: "allowed"}
		case !allowed && mirror && r.Status == 403:
			return c08Out{Kind: "denied"}
		case !allowed && !mirror && r.Status == 200:
			return c08Out{Kind: "denied"}
		}
		return c08Out{"incoherent", fmt.Sprintf("status=%d:allowed=%v", r.Status, allowed), c08Clip(r.String())}
	}
	switch {
	case r.Status >= 400 && r.Status < 500:
		return c08Out{"error", "4xx", c08Clip(r.String())}
	case r.Status >= 500:
		return c08Out{"error", "5xx", c08Clip(r.String())}
	}
	return c08Out{"incoherent", fmt.Sprintf("status=%d:no-decision", r.Status), c08Clip(r.String())}
}

func c08GrpcErr(err error) c08Out {
	switch apih.Code(err) {
	case codes.NotFound:
		return c08Out{"error", "notfound", c08Clip(err.Error())}
	case codes.InvalidArgument, codes.FailedPrecondition, codes.OutOfRange:
		return c08Out{"error", "invalid", c08Clip(err.Error())}
	case codes.Internal, codes.Unknown:
		return c08Out{"error", "internal", c08Clip(err.Error())}
	}
	return c08Out{"error", "other", c08Clip(err.Error())}
}

func c08Bool(b bool) c08Out {
	if b {
		return c08Out{Kind: "allowed"}
	}
	return c08Out{Kind: "denied"}
}

// c08Batch is the outcome of a batch request: Whole != nil iff the request as
// a whole failed.
type c08Batch struct {
	Whole   *c08Out
	Entries []c08Out
}

func c08RestBatchOut(r apih.Resp) c08Batch {
	if r.Panic != "" {
		return c08Batch{Whole: &c08Out{"error", "panic", c08Clip(r.Panic)}}
	}
	if r.Status != 200 {
		o := c08Out{"error", "other", c08Clip(r.String())}
		switch {
		case r.Status >= 400 && r.Status < 500:
			o.Class = "4xx"
		case r.Status >= 500:
			o.Class = "5xx"
		}
		return c08Batch{Whole: &o}
	}
	var body struct {
		Results []*struct {
			Allowed *bool  `json:"allowed"`
			Error   string `json:"error"`
		} `json:"results"`
	}
	if err := json.Unmarshal(r.Raw, &body); err != nil {
		return c08Batch{Whole: &c08Out{"incoherent", "undecodable-body", c08Clip(r.String())}}
	}
	b := c08Batch{Entries: []c08Out{}}
	for _, e := range body.Results {
		switch {
		case e == nil || e.Allowed == nil:
			b.Entries = append(b.Entries, c08Out{"incoherent", "entry-without-decision", ""})
		case *e.Allowed && e.Error != "":
			b.Entries = append(b.Entries, c08Out{"incoherent", "allowed-with-error", c08Clip(e.Error)})
		case *e.Allowed:
			b.Entries = append(b.Entries, c08Out{Kind: "allowed"})
		case e.Error != "":
			b.Entries = append(b.Entries, c08Out{"error", "entry", c08Clip(e.Error)})
		default:
			b.Entries = append(b.Entries, c08Out{Kind: "denied"})
		}
	}
	return b
}

func c08GrpcBatchOut(resp *rts.BatchCheckResponse, err error) c08Batch {
	if err != nil {
		o := c08GrpcErr(err)
		return c08Batch{Whole: &o}
	}
	b := c08Batch{Entries: []c08Out{}}
	for _, e := range resp.GetResults() {
		switch {
		case e == nil:
			b.Entries = append(b.Entries, c08Out{"incoherent", "entry-without-decision", ""})
		case e.Allowed && e.Error != "":
			b.Entries = append(b.Entries, c08Out{"incoherent", "allowed-with-error", c08Clip(e.Error)})
		case e.Allowed:
			b.Entries = append(b.Entries, c08Out{Kind: "allowed"})
		case e.Error != "":
			b.Entries = append(b.Entries, c08Out{"error", "entry", c08Clip(e.Error)})
		default:
			b.Entries = append(b.Entries, c08Out{Kind: "denied"})
		}
	}
	return b
}

// ---- the oracle ---------------------------------------------------------------

// c08Oracle: "unknown-namespace" and "invalid" are decided by the harness from
// the tuple and the configured namespace names; everything else is the
// engine's CheckIsMember on the mapped tuple.
func c08Oracle(s *apih.Server, t *ketoapi.RelationTuple, depth int) c08Out {
	if !c08Known[t.Namespace] || (t.SubjectSet != nil && t.SubjectID == nil && !c08Known[t.SubjectSet.Namespace]) {
		return c08Out{Kind: "unknown-namespace"}
	}
	if t.SubjectID == nil && t.SubjectSet == nil {
		return c08Out{Kind: "invalid"}
	}
	ctx, cancel := context.WithCancel(s.Ctx)
	defer cancel()
	it, err := s.Reg.ReadOnlyMapper().FromTuple(ctx, t)
	if err != nil {
		return c08Out{"error", "map", c08Clip(err.Error())}
	}
	ok, err := s.Reg.PermissionEngine().CheckIsMember(ctx, it[0], depth)
	if err != nil {
		return c08Out{"error", "engine", c08Clip(err.Error())}
	}
	return c08Bool(ok)
}

// ---- transports for a single tuple -----------------------------------------------

type c08Transport struct {
	Name string
	REST bool
	Do   func(c *apih.Client, t *ketoapi.RelationTuple, d c08Depth) c08Out
}

// c08ProtoTuple: a tuple without subject is sent with an EMPTY Subject message
// (no ref); the ABSENT Subject message is the batch letter "no-subject".
func c08ProtoTuple(t *ketoapi.RelationTuple, absentSubject bool) *rts.RelationTuple {
	pt := apih.ProtoTuple(t)
	if pt.Subject == nil && !absentSubject {
		pt.Subject = &rts.Subject{}
	}
	return pt
}

func c08Single(b c08Batch) c08Out {
	if b.Whole != nil {
		return *b.Whole
	}
	if len(b.Entries) != 1 {
		return c08Out{"incoherent", fmt.Sprintf("batch-of-1-returned-%d-results", len(b.Entries)), ""}
	}
	return b.Entries[0]
}

func c08Transports() []c08Transport {
	return []c08Transport{
		{"rest-get-mirror", true, func(c *apih.Client, t *ketoapi.RelationTuple, d c08Depth) c08Out {
			return c08RestOut(c.CheckGET(t, false, d.REST), true)
		}},
		{"rest-get-openapi", true, func(c *apih.Client, t *ketoapi.RelationTuple, d c08Depth) c08Out {
			return c08RestOut(c.CheckGET(t, true, d.REST), false)
		}},
		{"rest-post-mirror", true, func(c *apih.Client, t *ketoapi.RelationTuple, d c08Depth) c08Out {
			return c08RestOut(c.CheckPOST(t, false, d.REST), true)
		}},
		{"rest-post-openapi", true, func(c *apih.Client, t *ketoapi.RelationTuple, d c08Depth) c08Out {
			return c08RestOut(c.CheckPOST(t, true, d.REST), false)
		}},
		{"rest-batch-of-1", true, func(c *apih.Client, t *ketoapi.RelationTuple, d c08Depth) c08Out {
			return c08Single(c08RestBatchOut(c.BatchCheck([]*ketoapi.RelationTuple{t}, d.REST)))
		}},
		{"grpc-check", false, func(c *apih.Client, t *ketoapi.RelationTuple, d c08Depth) c08Out {
			r, err := c.GCheck(c08ProtoTuple(t, false), int32(d.Int))
			if err != nil {
				return c08GrpcErr(err)
			}
			return c08Bool(r.Allowed)
		}},
		{"grpc-check-flat-fields", false, func(c *apih.Client, t *ketoapi.RelationTuple, d c08Depth) c08Out {
			r, err := c.GCheckReq(&rts.CheckRequest{Namespace: t.Namespace, Object: t.Object, Relation: t.Relation, Subject: apih.ProtoSubject(t.SubjectID, t.SubjectSet), MaxDepth: int32(d.Int)})
			if err != nil {
				return c08GrpcErr(err)
			}
			return c08Bool(r.Allowed)
		}},
		{"grpc-batch-of-1", false, func(c *apih.Client, t *ketoapi.RelationTuple, d c08Depth) c08Out {
			return c08Single(c08GrpcBatchOut(c.GBatchCheck([]*rts.RelationTuple{c08ProtoTuple(t, false)}, int32(d.Int))))
		}},
	}
}

// c08Judge compares one transport outcome with the oracle; "" = fine.
func c08Judge(tr string, rest bool, d c08Depth, want, got c08Out) (sig string) {
	if got.Kind == "incoherent" {
		return "status-body-mismatch:" + tr + ":" + got.Class
	}
	if !d.Valid { // non-numeric max-depth (REST only): a client error, never a decision
		switch {
		case got.Kind == "allowed" || got.Kind == "denied":
			return "nonnumeric-depth-decided:" + tr + ":" + got.Kind
		case got.Class == "5xx" || got.Class == "panic":
			return "nonnumeric-depth-" + got.Class + ":" + tr
		}
		return ""
	}
	switch want.Kind {
	case "allowed", "denied":
		if got.Kind != want.Kind {
			return "decision-mismatch:" + tr + ":engine=" + want.Kind + ":got=" + got.String()
		}
	case "unknown-namespace":
		if got.Kind == "allowed" {
			return "unknown-namespace-allowed:" + tr
		}
	default: // invalid tuple / engine error: no decision to agree with; it must not be "allowed"
		if got.Kind == "allowed" {
			return "allowed-without-engine-decision:" + tr + ":oracle=" + want.String()
		}
	}
	return ""
}

// ---- query tuples ---------------------------------------------------------------------

func c08Queries(thorough bool) []*ketoapi.RelationTuple {
	nss := []string{"Doc", "Group", "Unknown", ""}
	objs := []string{"d1", "d2", "nosuch"}
	rels := []string{"viewers", "owners", "view", "members", "zzz"}
	type sub struct {
		id  *string
		set *ketoapi.SubjectSet
	}
	subs := []sub{
		{id: axS("u1")}, {id: axS("u2")}, {id: axS("u3")}, {id: axS("u4")}, {id: axS("nobody")},
		{set: &ketoapi.SubjectSet{Namespace: "Group", Object: "g1", Relation: "members"}},
		{set: &ketoapi.SubjectSet{Namespace: "Group", Object: "g2", Relation: "members"}},
		{set: &ketoapi.SubjectSet{Namespace: "Unknown", Object: "g1", Relation: "members"}},
		{}, // no subject
	}
	if thorough {
		objs = append(objs, "g1", "g2", "")
		rels = append(rels, "edit", "", "parents")
		subs = append(subs, sub{id: axS("u5")}, sub{id: axS("u6")}, sub{id: axS("g1")}, sub{id: axS("")},
			sub{set: &ketoapi.SubjectSet{Namespace: "Doc", Object: "d1", Relation: ""}},
			sub{set: &ketoapi.SubjectSet{Namespace: "Group", Object: "g1", Relation: ""}},
			sub{set: &ketoapi.SubjectSet{Namespace: "Group", Object: "g1", Relation: "zzz"}},
			sub{set: &ketoapi.SubjectSet{Namespace: "", Object: "", Relation: ""}})
	}
	var out []*ketoapi.RelationTuple
	for _, ns := range nss {
		for _, o := range objs {
			for _, r := range rels {
				for _, s := range subs {
					out = append(out, &ketoapi.RelationTuple{Namespace: ns, Object: o, Relation: r, SubjectID: s.id, SubjectSet: s.set})
				}
			}
		}
	}
	// all ordered pairs of the adversarial strings as (object, subject id) and as (object, subject-set object)
	adv := c08Adv(thorough)
	for _, a := range adv {
		for _, b := range adv {
			out = append(out, axID("Doc", a, "viewers", b))
		}
	}
	for _, a := range adv {
		out = append(out, axSet("Doc", a, "viewers", "Group", a, "members"), axID("Doc", "d1", a, "u1"))
	}
	return out
}

// ---- batches ---------------------------------------------------------------------------------

var c08LetterNames = []string{"allowed-direct", "denied", "unknown-namespace", "no-subject", "subject-set", "allowed-at-depth-2", "unknown-subject-set-namespace", "empty-subject",
	// look-alikes: a subject id spelled like a subject set - the string forms of 4/8 and of 9/10 are identical, the decisions differ
	"id-spelled-like-stored-set", "set-not-stored", "stored-id-spelled-like-set"}

const c08NLetters = 11

// c08Letter returns the tuple of a letter. "no-subject": REST entry without
// subject keys / gRPC tuple whose Subject message is ABSENT. "empty-subject":
// REST entry with explicit nulls / gRPC Subject message present without ref.
func c08Letter(l int) *ketoapi.RelationTuple {
	switch l {
	case 0:
		return axID("Doc", "d1", "viewers", "u1")
	case 1:
		return axID("Doc", "d1", "viewers", "nobody")
	case 2:
		return axID("Unknown", "d1", "viewers", "u1")
	case 3, 7:
		return &ketoapi.RelationTuple{Namespace: "Doc", Object: "d1", Relation: "viewers"}
	case 4:
		return axSet("Doc", "d1", "viewers", "Group", "g1", "members")
	case 5:
		return axID("Doc", "d1", "viewers", "u2")
	case 6:
		return axSet("Doc", "d1", "viewers", "Unknown", "g1", "members")
	case 8:
		return axID("Doc", "d1", "viewers", "Group:g1#members")
	case 9:
		return axSet("Doc", "d1", "viewers", "Group", "g9", "members")
	case 10:
		return axID("Doc", "d1", "viewers", "Group:g9#members")
	}
	panic("c08: letter")
}

func c08RestBatchBody(letters []int) []byte {
	var parts []string
	for _, l := range letters {
		t := c08Letter(l)
		b, _ := json.Marshal(t)
		if l == 7 {
			b = []byte(`{"namespace":"Doc","object":"d1","relation":"viewers","subject_id":null,"subject_set":null}`)
		}
		parts = append(parts, string(b))
	}
	return []byte(`{"tuples":[` + strings.Join(parts, ",") + `]}`)
}

func c08GrpcBatch(letters []int) []*rts.RelationTuple {
	out := make([]*rts.RelationTuple, len(letters))
	for i, l := range letters {
		out[i] = c08ProtoTuple(c08Letter(l), l == 3)
	}
	return out
}

func c08DoBatch(c *apih.Client, transport string, letters []int, d c08Depth) c08Batch {
	if transport == "rest-batch" {
		return c08RestBatchOut(c.BatchCheckRaw(c08RestBatchBody(letters), d.REST))
	}
	return c08GrpcBatchOut(c.GBatchCheck(c08GrpcBatch(letters), int32(d.Int)))
}

func c08LetterStr(letters []int) string {
	p := make([]string, len(letters))
	for i, l := range letters {
		p[i] = c08LetterNames[l]
	}
	return "[" + strings.Join(p, ", ") + "]"
}

// c08Sequences: every sequence of length <= 3 over the letters.
func c08Sequences() [][]int {
	out := [][]int{{}}
	for n := 1; n <= 3; n++ {
		total := 1
		for i := 0; i < n; i++ {
			total *= c08NLetters
		}
		for code := 0; code < total; code++ {
			seq := make([]int, n)
			c := code
			for i := 0; i < n; i++ {
				seq[i] = c % c08NLetters
				c /= c08NLetters
			}
			out = append(out, seq)
		}
	}
	return out
}

// ---- run state ------------------------------------------------------------------------------------

type c08Case struct {
	State     c08State               `json:"state"`
	Depth     c08Depth               `json:"max_depth"`
	Transport string                 `json:"transport"`
	Tuple     *ketoapi.RelationTuple `json:"tuple,omitempty"`
	Letters   []int                  `json:"batch_letters,omitempty"`
	Batch     string                 `json:"batch,omitempty"`
	Family    string                 `json:"family"` // single | batch | batch-size
	Size      int                    `json:"size,omitempty"`
}

type c08Cand struct {
	Sig, What string
	Case      c08Case
}

type c08Run struct {
	thorough bool
	mu       sync.Mutex
	cands    []c08Cand
	nontriv  map[string]bool
	evals    atomic.Int64
	requests atomic.Int64
	unstable atomic.Int64
	oracleN  map[string]int
}

func (r *c08Run) cand(c c08Cand) { r.mu.Lock(); r.cands = append(r.cands, c); r.mu.Unlock() }

func (r *c08Run) note(kind string, nontrivialKey string) {
	r.mu.Lock()
	r.oracleN[kind]++
	if nontrivialKey != "" {
		r.nontriv[nontrivialKey] = true
	}
	r.mu.Unlock()
}

// runSingle: one (state, tuple) under every depth and transport.
func (r *c08Run) runSingle(s *apih.Server, st c08State, t *ketoapi.RelationTuple, only string, onlyDepth string) {
	c := s.Client()
	trs := c08Transports()
	depths := c08Depths()
	wants := make([]c08Out, len(depths))
	for di, d := range depths {
		if d.Valid {
			wants[di] = c08Oracle(s, t, d.Int)
		}
	}
	depthDependent := false
	for di := range depths {
		if depths[di].Valid && wants[di].Kind != wants[0].Kind {
			depthDependent = true
		}
	}
	for di, d := range depths {
		if onlyDepth != "" && d.Name != onlyDepth {
			continue
		}
		want := wants[di]
		stable := true
		for _, tr := range trs {
			if only != "" && tr.Name != only {
				continue
			}
			if !tr.REST && (!d.Valid || d.RESTOnly) {
				continue // a gRPC max_depth is an int32: "abc" / 2^32+2 cannot be sent
			}
			got := tr.Do(c, t, d)
			r.requests.Add(1)
			r.evals.Add(1)
			if sig := c08Judge(tr.Name, tr.REST, d, want, got); sig != "" {
				if d.Valid && stable {
					// the engine is called again: a free-running engine that changes its mind is not a decider
					if again := c08Oracle(s, t, d.Int); again.Kind != want.Kind {
						stable = false
						r.unstable.Add(1)
					}
				}
				if stable {
					r.cand(c08Cand{Sig: sig, What: fmt.Sprintf("%s max-depth=%s on %s: engine/oracle says %s, transport reports %s %s", tr.Name, d.Name, st, want, got, got.Detail),
						Case: c08Case{State: st, Depth: d, Transport: tr.Name, Tuple: t, Family: "single"}})
				}
			}
		}
		if d.Valid {
			key := ""
			if want.Kind == "allowed" || depthDependent || want.Kind == "error" {
				key = fmt.Sprintf("s|%s|%s|%s", st, refsem.Key(t), d.Name)
			}
			r.note(want.Kind, key)
		}
	}
}

// judgeBatch compares a batch outcome with the per-entry oracle.
func (r *c08Run) judgeBatch(s *apih.Server, st c08State, transport string, letters []int, d c08Depth, b c08Batch, family string) (sigs []string, whats []string) {
	add := func(sig, what string) { sigs = append(sigs, sig); whats = append(whats, what) }
	if !d.Valid {
		switch {
		case b.Whole == nil:
			add("nonnumeric-depth-decided:"+transport, "a batch with max-depth=abc was answered with results")
		case b.Whole.Class == "5xx" || b.Whole.Class == "panic" || b.Whole.Kind == "incoherent":
			add("nonnumeric-depth-"+b.Whole.Class+":"+transport, "max-depth=abc: "+b.Whole.Detail)
		}
		return
	}
	if b.Whole != nil {
		add("batch-whole-failure:"+transport+":"+b.Whole.Class, fmt.Sprintf("the batch %s (within the size limit) was rejected as a whole: %s", c08LetterStr(letters), b.Whole.Detail))
		return
	}
	if len(b.Entries) != len(letters) {
		add("batch-length:"+transport, fmt.Sprintf("batch of %d tuples %s returned %d results", len(letters), c08LetterStr(letters), len(b.Entries)))
		return
	}
	for i, l := range letters {
		want := c08Oracle(s, c08Letter(l), d.Int)
		got := b.Entries[i]
		sig := ""
		switch {
		case got.Kind == "incoherent":
			sig = "batch-entry-" + got.Class + ":" + transport
		case want.Kind == "allowed" || want.Kind == "denied":
			if got.Kind != want.Kind {
				sig = "batch-entry-mismatch:" + transport + ":engine=" + want.Kind + ":got=" + got.String()
			}
		case got.Kind == "allowed":
			sig = "batch-entry-allowed-without-decision:" + transport + ":oracle=" + want.Kind
		}
		if sig != "" {
			add(sig, fmt.Sprintf("%s %s max-depth=%s on %s: entry %d (%s): single check / engine says %s, batch entry says %s", transport, c08LetterStr(letters), d.Name, st, i, c08LetterNames[l], want, got))
		}
	}
	return
}

func (r *c08Run) runBatch(s *apih.Server, st c08State, transport string, letters []int, d c08Depth, family string) {
	if transport == "grpc-batch" && (!d.Valid || d.RESTOnly) {
		return
	}
	c := s.Client()
	b := c08DoBatch(c, transport, letters, d)
	r.requests.Add(1)
	r.evals.Add(int64(1 + len(letters)))
	sigs, whats := r.judgeBatch(s, st, transport, letters, d, b, family)
	for i := range sigs {
		r.cand(c08Cand{Sig: sigs[i], What: whats[i], Case: c08Case{State: st, Depth: d, Transport: transport, Letters: letters, Batch: c08LetterStr(letters), Family: family, Size: len(letters)}})
	}
	if d.Valid && len(letters) >= 2 {
		kinds := map[int]bool{}
		for _, l := range letters {
			kinds[l] = true
		}
		if len(kinds) >= 2 || len(kinds) < len(letters) {
			r.note("batch", fmt.Sprintf("b|%s|%s|%v|%s", st, transport, letters, d.Name))
			return
		}
	}
	r.note("batch", "")
}

// runSizes: batches of exactly the configured maximum and of maximum+1.
func (r *c08Run) runSizes(s *apih.Server, st c08State, transport string, d c08Depth) {
	if transport == "grpc-batch" && (!d.Valid || d.RESTOnly) {
		return
	}
	max := c08MaxBatch(st.Cfg)
	cycle := []int{0, 1, 2, 4, 5, 6, 7, 0, 3}
	if transport == "grpc-batch" {
		cycle = []int{0, 1, 2, 4, 5, 6, 7, 0} // the absent Subject message is covered by the sequences
	}
	mk := func(n int) []int {
		out := make([]int, n)
		for i := range out {
			out[i] = cycle[i%len(cycle)]
		}
		return out
	}
	r.runBatch(s, st, transport, mk(max), d, "batch-size")
	over := mk(max + 1)
	b := c08DoBatch(s.Client(), transport, over, d)
	r.requests.Add(1)
	r.evals.Add(1)
	ok := b.Whole != nil && (b.Whole.Class == "4xx" || b.Whole.Class == "invalid")
	if !ok {
		got := "results"
		if b.Whole != nil {
			got = b.Whole.String() + " " + b.Whole.Detail
		}
		r.cand(c08Cand{Sig: "batch-oversize-not-rejected:" + transport, What: fmt.Sprintf("%s with %d tuples (configured maximum %d) on %s: expected 400 / InvalidArgument, got %s", transport, max+1, max, st, got),
			Case: c08Case{State: st, Depth: d, Transport: transport, Letters: over, Family: "batch-size", Size: max + 1}})
	}
	r.note("batch-size", fmt.Sprintf("z|%s|%s|%s", st, transport, d.Name))
}

// ---- jobs -----------------------------------------------------------------------------------------

type c08Job struct {
	State  int
	Kind   string // single | batch | size
	Lo, Hi int    // range of query tuples / sequences
	Depth  int
	Tr     string
}

type c08Worker struct {
	t        testing.TB
	thorough bool
	srv      map[int]*apih.Server
}

func (w *c08Worker) server(states []c08State, i int) *apih.Server {
	if s := w.srv[i]; s != nil {
		return s
	}
	s := c08NewServer(w.t, states[i], w.thorough)
	w.srv[i] = s
	return s
}

func c08CaseSize(c c08Case) int {
	n := 0
	switch c.Family {
	case "batch":
		n = 1_000_000 + len(c.Letters)*1000
		for _, l := range c.Letters {
			n += l
		}
	case "batch-size":
		n = 2_000_000 + c.Size
	default:
		n = len(c.Tuple.Namespace) + len(c.Tuple.Object) + len(c.Tuple.Relation)
	}
	return n*100 + c.State.Store*10 + len(c.Depth.REST)
}

// c08Minimise shrinks a failing batch by dropping entries while the same signature persists.
func (r *c08Run) c08Minimise(s *apih.Server, cd c08Cand) c08Cand {
	if cd.Case.Family != "batch" {
		return cd
	}
	cur := cd
	for changed := true; changed; {
		changed = false
		for i := range cur.Case.Letters {
			shorter := append(append([]int{}, cur.Case.Letters[:i]...), cur.Case.Letters[i+1:]...)
			b := c08DoBatch(s.Client(), cur.Case.Transport, shorter, cur.Case.Depth)
			sigs, whats := r.judgeBatch(s, cur.Case.State, cur.Case.Transport, shorter, cur.Case.Depth, b, "batch")
			for k := range sigs {
				if sigs[k] == cur.Sig {
					cs := cur.Case
					cs.Letters, cs.Batch, cs.Size = shorter, c08LetterStr(shorter), len(shorter)
					cur = c08Cand{Sig: cur.Sig, What: whats[k], Case: cs}
					changed = true
					break
				}
			}
			if changed {
				break
			}
		}
	}
	return cur
}

func (r *c08Run) rerun(w *c08Worker, states []c08State, cs c08Case) []c08Cand {
	si := 0
	for i, st := range states {
		if st == cs.State {
			si = i
		}
	}
	s := w.server(states, si)
	sub := &c08Run{thorough: r.thorough, nontriv: map[string]bool{}, oracleN: map[string]int{}}
	switch cs.Family {
	case "single":
		sub.runSingle(s, cs.State, cs.Tuple, cs.Transport, cs.Depth.Name)
	case "batch":
		sub.runBatch(s, cs.State, cs.Transport, cs.Letters, cs.Depth, "batch")
	default:
		sub.runSizes(s, cs.State, cs.Transport, cs.Depth)
	}
	return sub.cands
}

func TestC08(t *testing.T) {
	run := ev.New("C08", "exploration")
	thorough := ev.Thorough()
	r := &c08Run{thorough: thorough, nontriv: map[string]bool{}, oracleN: map[string]int{}}
	states := c08States()

	if rp, ok := axReplay("C08"); ok {
		var cs c08Case
		if err := json.Unmarshal([]byte(c04JSON(rp["case"])), &cs); err != nil {
			fmt.Printf("INFRA-ERROR replay: %v\n", err)
			t.FailNow()
		}
		w := &c08Worker{t: t, thorough: rp["tier"] == "thorough", srv: map[int]*apih.Server{}}
		cands := r.rerun(w, states, cs)
		for _, c := range cands {
			run.Violation(c08FinalSig(c), c.What, rp)
		}
		if len(cands) == 0 {
			fmt.Println("  [replay] the recorded case satisfies the oracle now")
		}
		return
	}

	queries := c08Queries(thorough)
	seqs := c08Sequences()
	depths := c08Depths()
	batchDepths := []int{0, 2, 3, 5, 6, 7} // absent, 1, 2, 99999, abc, 2^32+2
	if thorough {
		batchDepths = []int{0, 1, 2, 3, 4, 5, 6, 7, 8, 9}
	}
	var jobs []c08Job
	const qChunk, sChunk = 24, 65
	for si := range states {
		for lo := 0; lo < len(queries); lo += qChunk {
			jobs = append(jobs, c08Job{State: si, Kind: "single", Lo: lo, Hi: min(lo+qChunk, len(queries))})
		}
		for _, tr := range []string{"rest-batch", "grpc-batch"} {
			for _, di := range batchDepths {
				for lo := 0; lo < len(seqs); lo += sChunk {
					jobs = append(jobs, c08Job{State: si, Kind: "batch", Lo: lo, Hi: min(lo+sChunk, len(seqs)), Depth: di, Tr: tr})
				}
			}
			for di := range depths {
				jobs = append(jobs, c08Job{State: si, Kind: "size", Depth: di, Tr: tr})
			}
		}
	}
	// interleave the states so that every worker needs few servers: job i of state s goes to slot (i*len(states)+s)
	sort.SliceStable(jobs, func(i, j int) bool { return jobs[i].State < jobs[j].State })

	deadline := ev.Deadline(240, 1500)
	var timedOut atomic.Bool
	var done atomic.Int64
	workers := axWorkers()
	// static assignment: worker w serves the states w, w+workers, … first (one server each), then helps elsewhere
	perState := make([][]int, len(states))
	for i, j := range jobs {
		perState[j.State] = append(perState[j.State], i)
	}
	var cursors = make([]atomic.Int64, len(states))
	var wg sync.WaitGroup
	for wi := 0; wi < workers; wi++ {
		wg.Add(1)
		go func(wi int) {
			defer wg.Done()
			w := &c08Worker{t: t, thorough: thorough, srv: map[int]*apih.Server{}}
			for off := 0; off < len(states); off++ {
				si := (wi + off) % len(states)
				for {
					k := int(cursors[si].Add(1) - 1)
					if k >= len(perState[si]) {
						break
					}
					if time.Now().After(deadline) {
						timedOut.Store(true)
						return
					}
					j := jobs[perState[si][k]]
					s := w.server(states, j.State)
					switch j.Kind {
					case "single":
						for q := j.Lo; q < j.Hi; q++ {
							r.runSingle(s, states[j.State], queries[q], "", "")
						}
					case "batch":
						for q := j.Lo; q < j.Hi; q++ {
							r.runBatch(s, states[j.State], j.Tr, seqs[q], depths[j.Depth], "batch")
						}
					default:
						r.runSizes(s, states[j.State], j.Tr, depths[j.Depth])
					}
					done.Add(1)
				}
			}
		}(wi)
	}
	wg.Wait()

	// request order: every ordered pair of single-check requests (transport x tuple) issued back to
	// back on one server; the SECOND answer must still agree with the engine - nothing a request
	// decodes into may survive into the next request. One OS thread, so that per-P caches
	// (sync.Pool) hand the same object to consecutive requests deterministically.
	pairsDone := 0
	if !timedOut.Load() {
		prevProcs := runtime.GOMAXPROCS(1)
		w := &c08Worker{t: t, thorough: thorough, srv: map[int]*apih.Server{}}
		trs := c08Transports()
		tuples := []*ketoapi.RelationTuple{c08Letter(0), c08Letter(1), c08Letter(4), c08Letter(5), c08Letter(8), c08Letter(9), c08Letter(10)}
		d0 := depths[0]
		for si := range states {
			if states[si].Store != 1 || states[si].Global != 0 {
				continue // the states that hold store 1
			}
			s := w.server(states, si)
			c := s.Client()
			for t1 := range trs {
				for x1 := range tuples {
					for t2 := range trs {
						for x2 := range tuples {
							pairsDone++
							bad := ""
							for rep := 0; rep < 3; rep++ {
								trs[t1].Do(c, tuples[x1], d0)
								got := trs[t2].Do(c, tuples[x2], d0)
								sig := c08Judge(trs[t2].Name, trs[t2].REST, d0, c08Oracle(s, tuples[x2], d0.Int), got)
								if sig == "" {
									bad = ""
									break
								}
								bad = sig + " (got " + got.String() + ")"
							}
							if bad != "" {
								run.Violation("after-previous-request:"+trs[t1].Name+"->"+trs[t2].Name, fmt.Sprintf("%s of %s right after %s of %s on %s: %s", trs[t2].Name, refsem.Key(tuples[x2]), trs[t1].Name, refsem.Key(tuples[x1]), states[si], bad),
									map[string]any{"first": map[string]any{"transport": trs[t1].Name, "tuple": tuples[x1]}, "second": map[string]any{"transport": trs[t2].Name, "tuple": tuples[x2]}, "state": states[si]})
							}
						}
					}
				}
			}
		}
		runtime.GOMAXPROCS(prevProcs)
	}

	// a namespace removed at run time: relationships of namespace Doc are stored and allowed on every transport;
	// the namespace list is then replaced by one without Doc while the server keeps running (Config.Set - what a
	// reload does). From then on Doc is an UNKNOWN namespace: no transport may report allowed (the oracle here is
	// the statement itself, not the engine behind the server's own mapper). Put back, the answers return.
	reconfRuns := 0
	if !timedOut.Load() {
		s := apih.NewServer(t, apih.Options{Namespaces: c08PlainNamespaces(), Config: map[string]any{"limit.max_read_depth": 50}})
		c := s.Client()
		tp := axID("Doc", "reconf-doc", "viewers", "reconf-user")
		if r := c.Create(tp); r.Status != 201 {
			panic("c08: reconfiguration family: " + r.String())
		}
		trs := c08Transports()
		d0 := depths[0]
		phase := func(name string, nss []*namespace.Namespace, wantAllowed bool) {
			if err := s.Reg.Config(s.Ctx).Set(config.KeyNamespaces, nss); err != nil {
				panic("c08: reconfiguration family: " + err.Error())
			}
			for _, tr := range trs {
				got := tr.Do(c, tp, d0)
				reconfRuns++
				switch {
				case wantAllowed && got.Kind != "allowed":
					run.Violation("namespace-reconfiguration:known-namespace-not-allowed:"+tr.Name, fmt.Sprintf("%s of the stored relationship %s in phase %q answers %s", tr.Name, refsem.Key(tp), name, got), map[string]any{"family": "namespace-reconfiguration", "phase": name, "transport": tr.Name})
				case !wantAllowed && got.Kind == "allowed":
					run.Violation("namespace-reconfiguration:unknown-namespace-allowed:"+tr.Name, fmt.Sprintf("namespace Doc was removed from the configuration at run time; %s of %s still answers allowed", tr.Name, refsem.Key(tp)), map[string]any{"family": "namespace-reconfiguration", "phase": name, "transport": tr.Name})
				}
			}
		}
		all := c08PlainNamespaces()
		var withoutDoc []*namespace.Namespace
		for _, n := range all {
			if n.Name != "Doc" {
				withoutDoc = append(withoutDoc, n)
			}
		}
		phase("configured", all, true)
		phase("Doc removed", withoutDoc, false)
		phase("Doc configured again", all, true)
		phase("Doc removed again", withoutDoc, false)
	}

	// batch entries under a storage failure: every SQL statement of a batch request fails in turn (generic error
	// and cancelled query); every entry must then carry an error or be exactly what it is without the failure - a
	// failure must not come back as a clean decision of the other kind (what the single-check transports answer
	// with an error for). Batches over the letters allowed-direct / denied / allowed-at-depth-2, both transports.
	faultRuns := 0
	if !timedOut.Load() {
		w := &c08Worker{t: t, thorough: thorough, srv: map[int]*apih.Server{}}
		d0 := depths[0]
		for si := range states {
			if states[si].Store != 1 || states[si].Global != 0 {
				continue
			}
			s := w.server(states, si)
			c := s.Client()
			for _, transport := range []string{"rest-batch", "grpc-batch"} {
				for _, letters := range [][]int{{0}, {5}, {0, 1, 5}, {5, 0}} {
					s.Settle()
					s.Tap.ResetCount()
					base := c08DoBatch(c, transport, letters, d0)
					s.Settle()
					n := int(s.Tap.Count())
					if base.Whole != nil {
						continue
					}
					for k := 1; k <= n; k++ {
						for _, kerr := range []error{errors.New("verif: injected storage failure"), context.Canceled} {
							var cnt atomic.Int64
							s.Tap.SetBefore(func(e *sqlfault.Event) error {
								if cnt.Add(1) == int64(k) {
									return kerr
								}
								return nil
							})
							got := c08DoBatch(c, transport, letters, d0)
							s.Tap.SetBefore(nil)
							s.Settle()
							faultRuns++
							if got.Whole != nil {
								continue // the whole request failed: an error
							}
							for i := range letters {
								if i >= len(got.Entries) || i >= len(base.Entries) {
									break
								}
								g, b := got.Entries[i], base.Entries[i]
								if g.Kind != "error" && g.Kind != b.Kind {
									run.Violation("batch-entry-storage-failure-reported-as-decision:"+transport, fmt.Sprintf("%s %s on %s with SQL statement %d of %d failing (%v): entry %d (%s) says %s without an error; without the failure it says %s", transport, c08LetterStr(letters), states[si], k, n, kerr, i, c08LetterNames[letters[i]], g, b),
										map[string]any{"family": "batch-fault", "state": states[si], "transport": transport, "letters": letters, "fail_statement": k, "error": kerr.Error()})
								}
							}
						}
					}
				}
			}
		}
	}

	// confirm (2 more runs), minimise batches, report the smallest instance per signature
	sort.SliceStable(r.cands, func(i, j int) bool { return c08CaseSize(r.cands[i].Case) < c08CaseSize(r.cands[j].Case) })
	w0 := &c08Worker{t: t, thorough: thorough, srv: map[int]*apih.Server{}}
	sigCount := map[string]int{}
	reported := map[string]bool{}
	unstable := int(r.unstable.Load())
	for _, cd := range r.cands {
		sigCount[cd.Sig]++
		if reported[cd.Sig] {
			continue
		}
		ok := true
		for rep := 0; rep < 2 && ok; rep++ {
			ok = false
			for _, c2 := range r.rerun(w0, states, cd.Case) {
				ok = ok || c2.Sig == cd.Sig
			}
		}
		if !ok {
			unstable++
			continue
		}
		reported[cd.Sig] = true
		si := 0
		for i, st := range states {
			if st == cd.Case.State {
				si = i
			}
		}
		cd = r.c08Minimise(w0.server(states, si), cd)
		run.Violation(c08FinalSig(cd), cd.What, map[string]any{"case": cd.Case, "tier": ev.Tier(), "store": c08Store(cd.Case.State.Store, thorough)})
	}

	run.Assume(
		"the engine's decision is CheckIsMember(ReadOnlyMapper.FromTuple(t)[0], depth) called directly on the registry that serves the transports; the oracle does not re-implement the semantics",
		"configurations are restricted to rewrite-free and OR-only namespaces and to tree-shaped stores (no subject set reachable on two paths), for which the free-running engine has a single outcome; the engine is queried before the transports and again on a mismatch, a disagreement between the two engine calls is counted as unstable and never reported",
		"weaker reading for an unknown namespace: allowed:false or any error is accepted, only 'allowed' is a violation; 'unknown' is decided by the harness from the configured names (tuple namespace or subject-set namespace)",
		"where the engine itself returns an error (undeclared relation in the OPL config, tuple without subject) there is no decision to agree with: the transports only must not answer 'allowed'",
		"non-numeric max-depth exists on REST only (gRPC max_depth is an int32): it must be answered 4xx without a decision",
		"a batch within the size limit must be answered as a whole (one result per tuple, in order); a per-entry error with allowed:false counts as that entry's own result",
		"a REST batch containing a JSON null element terminates the process and is enumerated by C13 in a worker subprocess, not here",
	)
	for _, i := range []int{0, len(queries) / 5, len(queries) / 2, len(queries) - 3} {
		run.Sample(map[string]any{"family": "single", "tuple": queries[i], "state": states[len(states)-1].String(), "depths": "all 7", "transports": "all 8"})
	}
	for _, i := range []int{9, 77, 300, 584} {
		run.Sample(map[string]any{"family": "batch", "batch": c08LetterStr(seqs[i]), "transports": "rest-batch, grpc-batch"})
	}
	orc := map[string]int{}
	for k, v := range r.oracleN {
		orc[k] = v
	}
	run.Finish(map[string]any{
		"evaluations":                        int(r.evals.Load()) + pairsDone,
		"request_order_pairs":                pairsDone,
		"distinct_nontrivial":                len(r.nontriv),
		"rule":                               "evaluation = one transport answer (or one batch entry) compared with the engine; non-trivial = distinct (state, tuple, max-depth) whose engine decision is allowed, depends on max-depth or is an engine error (unknown namespaces and plain denials are evaluated but not counted), plus distinct (state, transport, batch sequence, max-depth) of length >= 2 that mixes letters or repeats one, plus the max-size / max+1 cases",
		"requests":                           int(r.requests.Load()),
		"states":                             len(states),
		"query_tuples":                       len(queries),
		"max_depth_values":                   len(depths),
		"single_transports":                  len(c08Transports()),
		"batch_sequences":                    len(seqs),
		"batch_alphabet":                     c08LetterNames,
		"batch_depths":                       len(batchDepths),
		"batch_fault_runs":                   faultRuns,
		"namespace_reconfiguration_requests": reconfRuns,
		"oracle_kinds":                       orc,
		"jobs":                               len(jobs),
		"jobs_done":                          int(done.Load()),
		"candidate_signatures":               sigCount,
		"unstable_candidates":                unstable,
		"exhaustive":                         !timedOut.Load() && unstable == 0,
		"workers":                            workers,
	})
}

// c08OPLLocation passes the OPL text as a base64:// location (decoded locally by keto; no
// file watcher, so many servers do not exhaust inotify instances).
func c08OPLLocation() map[string]any {
	return map[string]any{"location": "base64://" + base64.StdEncoding.EncodeToString([]byte(c08OPL))}
}

// c08FinalSig: the structural class of a failing batch is transport, failure
// kind and the letters of the minimal failing batch.
func c08FinalSig(cd c08Cand) string {
	if cd.Case.Family != "batch" {
		return cd.Sig
	}
	names := make([]string, len(cd.Case.Letters))
	for i, l := range cd.Case.Letters {
		names[i] = c08LetterNames[l]
	}
	return cd.Sig + ":minimal-batch=" + strings.Join(names, "+")
}

func c08PlainNamespaces() []*namespace.Namespace {
	return []*namespace.Namespace{{Name: "User"}, {Name: "Group"}, {Name: "Doc"}}
}

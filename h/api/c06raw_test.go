//go:build sqlite

// C06, two further families.
//
// c06RawIDs - the same invariant one layer down. The string API derives the internal id of a name as
// UUIDv5(network id, name), so two tenants never share an internal id there and a statement that forgets the
// network predicate in a JOIN / sub-select on ids cannot show through the string API. The persister, the
// traverser and the engines take internal ids, and nothing makes ids unique per network at that level (keto's
// own engine tests use the same ids under several networks). Here A and B use THE SAME internal ids; B holds
// subject-set edges whose membership rows exist only in A (and the other way round). Breadth-first search over
// Manager-level histories in A; after every transition B's observation vector (lists, exists, both traversals,
// engine checks, expand trees) must be what it was.
//
// c06Spellings - names that some layer may interpret: strings that parse as UUIDs, in every spelling
// uuid.FromString accepts. Two tenants write the same UUID in different spellings, in both orders; each must
// read back exactly what it wrote.
package api

import (
	"context"
	"fmt"
	"sort"
	"strings"
	"sync"
	"sync/atomic"
	"testing"
	"time"

	"github.com/gofrs/uuid"

	"github.com/ory/keto/internal/relationtuple"
	"github.com/ory/keto/ketoapi"
	"github.com/ory/keto/verif/apih"
	"github.com/ory/keto/verif/ev"
)

type c06RT struct {
	Obj, Rel string
	SubID    string // subject id, or
	SetObj   string // subject set object
	SetRel   string
}

func (t c06RT) String() string {
	if t.SubID != "" {
		return fmt.Sprintf("n1:%s#%s@%s", t.Obj, t.Rel, t.SubID)
	}
	return fmt.Sprintf("n1:%s#%s@(n1:%s#%s)", t.Obj, t.Rel, t.SetObj, t.SetRel)
}

func c06RawID(name string) uuid.UUID { return uuid.NewV5(uuid.Nil, "c06raw:"+name) }

var c06RawNames = map[uuid.UUID]string{}

func init() {
	for _, n := range []string{"a", "g", "x", "z"} {
		c06RawNames[c06RawID(n)] = n
	}
}

func (t c06RT) internal() *relationtuple.RelationTuple {
	it := &relationtuple.RelationTuple{Namespace: "n1", Object: c06RawID(t.Obj), Relation: t.Rel}
	if t.SubID != "" {
		it.Subject = &relationtuple.SubjectID{ID: c06RawID(t.SubID)}
	} else {
		it.Subject = &relationtuple.SubjectSet{Namespace: "n1", Object: c06RawID(t.SetObj), Relation: t.SetRel}
	}
	return it
}

func c06RawRender(it *relationtuple.RelationTuple) string {
	if it == nil {
		return "<nil>"
	}
	sub := "?"
	switch s := it.Subject.(type) {
	case *relationtuple.SubjectID:
		sub = c06RawNames[s.ID]
	case *relationtuple.SubjectSet:
		sub = fmt.Sprintf("(%s:%s#%s)", s.Namespace, c06RawNames[s.Object], s.Relation)
	}
	return fmt.Sprintf("%s:%s#%s@%s", it.Namespace, c06RawNames[it.Object], it.Relation, sub)
}

func c06RawUniverse() []c06RT {
	var out []c06RT
	for _, o := range []string{"a", "g"} {
		for _, r := range []string{"r", "m"} {
			for _, id := range []string{"x", "z"} {
				out = append(out, c06RT{Obj: o, Rel: r, SubID: id})
			}
			out = append(out, c06RT{Obj: o, Rel: r, SetObj: "g", SetRel: "m"}, c06RT{Obj: o, Rel: r, SetObj: "a", SetRel: "r"})
			if r == "r" {
				out = append(out, c06RT{Obj: o, Rel: r, SetObj: "g", SetRel: ""}) // a subject set without relation
			}
		}
	}
	return out
}

// B: edges whose far side is (also) populated by A's alphabet, one membership of its own
func c06RawSeedB() []c06RT {
	return []c06RT{
		{Obj: "a", Rel: "r", SetObj: "g", SetRel: "m"},
		{Obj: "g", Rel: "m", SubID: "x"},
		{Obj: "a", Rel: "m", SetObj: "a", SetRel: "r"},
	}
}

type c06RawOp struct {
	Kind string // ins | del | delall | tx
	T, U int    // universe indices (tx: insert T, delete U)
	Q    string // delall: "" | ns | obj-g | rel-m
}

func (o c06RawOp) String() string {
	u := c06RawUniverse()
	switch o.Kind {
	case "ins":
		return "write " + u[o.T].String()
	case "del":
		return "delete " + u[o.T].String()
	case "tx":
		return "transact +" + u[o.T].String() + " -" + u[o.U].String()
	}
	return "delete-all{" + o.Q + "}"
}

func c06RawOps() []c06RawOp {
	var ops []c06RawOp
	n := len(c06RawUniverse())
	for i := 0; i < n; i++ {
		ops = append(ops, c06RawOp{Kind: "ins", T: i})
	}
	for i := 0; i < n; i++ {
		ops = append(ops, c06RawOp{Kind: "del", T: i})
	}
	for _, q := range []string{"", "ns", "obj-g", "rel-m"} {
		ops = append(ops, c06RawOp{Kind: "delall", Q: q})
	}
	ops = append(ops, c06RawOp{Kind: "tx", T: 6, U: 0}, c06RawOp{Kind: "tx", T: 0, U: 6})
	return ops
}

func c06RawQuery(q string) *relationtuple.RelationQuery {
	ns, m := "n1", "m"
	g := c06RawID("g")
	switch q {
	case "ns":
		return &relationtuple.RelationQuery{Namespace: &ns}
	case "obj-g":
		return &relationtuple.RelationQuery{Object: &g}
	case "rel-m":
		return &relationtuple.RelationQuery{Relation: &m}
	}
	return &relationtuple.RelationQuery{}
}

func c06RawApply(ctx context.Context, s *apih.Server, o c06RawOp) error {
	m := s.Reg.RelationTupleManager()
	u := c06RawUniverse()
	switch o.Kind {
	case "ins":
		return m.WriteRelationTuples(ctx, u[o.T].internal())
	case "del":
		return m.DeleteRelationTuples(ctx, u[o.T].internal())
	case "tx":
		return m.TransactRelationTuples(ctx, []*relationtuple.RelationTuple{u[o.T].internal()}, []*relationtuple.RelationTuple{u[o.U].internal()})
	}
	return m.DeleteAllRelationTuples(ctx, c06RawQuery(o.Q))
}

func c06RawTree(t *relationtuple.Tree) string {
	if t == nil {
		return "nil"
	}
	sub := "?"
	switch s := t.Subject.(type) {
	case *relationtuple.SubjectID:
		sub = c06RawNames[s.ID]
	case *relationtuple.SubjectSet:
		sub = fmt.Sprintf("(%s#%s)", c06RawNames[s.Object], s.Relation)
	}
	var kids []string
	for _, c := range t.Children {
		kids = append(kids, c06RawTree(c))
	}
	sort.Strings(kids)
	return fmt.Sprintf("%s %s[%s]", t.Type, sub, strings.Join(kids, ","))
}

// c06RawVector: every observation of one network at the id level.
func c06RawVector(ctx context.Context, s *apih.Server, calls *atomic.Int64) []string {
	var out []string
	m := s.Reg.RelationTupleManager()
	tr := s.Reg.Traverser()
	for _, q := range []string{"", "ns", "obj-g", "rel-m"} {
		ts, next, err := m.GetRelationTuples(ctx, c06RawQuery(q))
		calls.Add(1)
		var ks []string
		for _, t := range ts {
			ks = append(ks, c06RawRender(t))
		}
		sort.Strings(ks)
		out = append(out, fmt.Sprintf("list{%s} = %v next=%q err=%v", q, ks, next, err))
	}
	for _, t := range c06RawUniverse() {
		it := t.internal()
		ex, err := m.ExistsRelationTuples(ctx, it.ToQuery())
		out = append(out, fmt.Sprintf("exists %s = %v %v", t, ex, err))
		ok, err := s.Reg.PermissionEngine().CheckIsMember(ctx, it, 5)
		out = append(out, fmt.Sprintf("check %s = %v %v", t, ok, err))
		for _, mode := range []string{"expansion", "rewrite"} {
			var res []*relationtuple.TraversalResult
			if mode == "expansion" {
				res, err = tr.TraverseSubjectSetExpansion(ctx, it)
			} else {
				res, err = tr.TraverseSubjectSetRewrite(ctx, it, []string{"r", "m"})
			}
			var ks []string
			for _, r := range res {
				ks = append(ks, fmt.Sprintf("%s->%s via %s found=%v", c06RawRender(r.From), c06RawRender(r.To), r.Via, r.Found))
			}
			sort.Strings(ks)
			out = append(out, fmt.Sprintf("traverse-%s %s = %v %v", mode, t, ks, err))
		}
		calls.Add(4)
	}
	// special spellings of "no relation" in a subject-set subject ("", "...", "*"): lookups only, A's alphabet
	// writes rows with the empty one
	for _, rel := range []string{"", "...", "*"} {
		for _, o := range []string{"a", "g"} {
			it := &relationtuple.RelationTuple{Namespace: "n1", Object: c06RawID(o), Relation: "r", Subject: &relationtuple.SubjectSet{Namespace: "n1", Object: c06RawID("g"), Relation: rel}}
			ex, err := m.ExistsRelationTuples(ctx, it.ToQuery())
			ts, _, lerr := m.GetRelationTuples(ctx, &relationtuple.RelationQuery{Subject: it.Subject})
			var ks []string
			for _, t := range ts {
				ks = append(ks, c06RawRender(t))
			}
			sort.Strings(ks)
			res, terr := tr.TraverseSubjectSetRewrite(ctx, it, []string{"r", "m"})
			found := false
			for _, r := range res {
				found = found || r.Found
			}
			out = append(out, fmt.Sprintf("subject (g#%q) on %s#r: exists=%v %v list=%v %v rewrite-found=%v %v", rel, o, ex, err, ks, lerr, found, terr))
			calls.Add(3)
		}
	}
	for _, ss := range [][2]string{{"a", "r"}, {"a", "m"}, {"g", "m"}, {"g", "r"}} {
		t, err := s.Reg.ExpandEngine().BuildTree(ctx, &relationtuple.SubjectSet{Namespace: "n1", Object: c06RawID(ss[0]), Relation: ss[1]}, 5)
		calls.Add(1)
		out = append(out, fmt.Sprintf("expand %s#%s = %s %v", ss[0], ss[1], c06RawTree(t), err))
	}
	return out
}

// c06RawIDs: BFS over histories in A (canonical state: A's set of rows, multiplicity capped at 2).
func c06RawIDs(t *testing.T, run *ev.Run, depth int) {
	ops := c06RawOps()
	univ := c06RawUniverse()
	var calls, transitions, vectors atomic.Int64
	deadline := ev.Deadline(60, 900)

	type state struct {
		path  []int
		canon string
	}
	var mu sync.Mutex
	initial := map[*apih.Server][]string{}
	pool := &axServerPool{t: t, multi: true, init: func(s *apih.Server) {
		s.AddNetwork(c06A)
		s.AddNetwork(c06B)
		ctxB := apih.WithNetwork(s.Ctx, c06B)
		for _, tp := range c06RawSeedB() {
			if err := s.Reg.RelationTupleManager().WriteRelationTuples(ctxB, tp.internal()); err != nil {
				t.Fatalf("seeding B (ids): %v", err)
			}
		}
		v := c06RawVector(ctxB, s, &calls)
		mu.Lock()
		initial[s] = v
		mu.Unlock()
	}}
	canonA := func(s *apih.Server) string {
		ts, _, err := s.Reg.RelationTupleManager().GetRelationTuples(apih.WithNetwork(s.Ctx, c06A), &relationtuple.RelationQuery{})
		if err != nil {
			return "error: " + err.Error()
		}
		cnt := map[string]int{}
		for _, t := range ts {
			cnt[c06RawRender(t)]++
		}
		var ks []string
		for k, n := range cnt {
			if n > 2 {
				n = 2
			}
			ks = append(ks, fmt.Sprintf("%s x%d", k, n))
		}
		sort.Strings(ks)
		return strings.Join(ks, " ; ")
	}
	// run one history on a worker's server; returns the canonical state of A, judges B after the LAST step
	type cand struct {
		sig, what string
		path      []int
	}
	var cands []cand
	exec := func(s *apih.Server, path []int) string {
		ctxA, ctxB := apih.WithNetwork(s.Ctx, c06A), apih.WithNetwork(s.Ctx, c06B)
		s.TruncateTuples(c06A)
		model := map[string]bool{} // strings A ever wrote on this path
		for _, k := range path {
			o := ops[k]
			if o.Kind == "ins" || o.Kind == "tx" {
				model[univ[o.T].String()] = true
			}
			if err := c06RawApply(ctxA, s, o); err != nil {
				mu.Lock()
				cands = append(cands, cand{"ids:operation-in-A-failed", fmt.Sprintf("%s in network A failed: %v", o, err), path})
				mu.Unlock()
			}
		}
		transitions.Add(1)
		got := c06RawVector(ctxB, s, &calls)
		vectors.Add(1)
		mu.Lock()
		want := initial[s]
		mu.Unlock()
		for i := range want {
			if i >= len(got) || got[i] != want[i] {
				g := ""
				if i < len(got) {
					g = got[i]
				}
				kind := strings.SplitN(want[i], " ", 2)[0]
				mu.Lock()
				cands = append(cands, cand{"ids:B-observation-changed:" + kind, fmt.Sprintf("a Manager-level history in network A changed an observation of network B (same internal ids in both networks): before: %s | after: %s", want[i], g), path})
				mu.Unlock()
				// B may have been modified: reseed
				s.TruncateTuples(c06B)
				for _, tp := range c06RawSeedB() {
					_ = s.Reg.RelationTupleManager().WriteRelationTuples(ctxB, tp.internal())
				}
				break
			}
		}
		// A sees its own rows only
		c := canonA(s)
		for _, part := range strings.Split(c, " ; ") {
			if part == "" {
				continue
			}
			k := part[:strings.LastIndex(part, " x")]
			if !model[k] {
				mu.Lock()
				cands = append(cands, cand{"ids:A-lists-a-row-it-never-wrote", fmt.Sprintf("network A lists %s, which no operation of this history wrote in A", k), path})
				mu.Unlock()
			}
		}
		return c
	}

	seen := map[string]bool{"": true}
	frontier := []state{{nil, ""}}
	states, complete, depthDone := 1, true, 0
	var levels []int
	for d := 1; d <= depth && len(frontier) > 0; d++ {
		type job struct {
			path []int
		}
		var jobs []job
		for _, st := range frontier {
			for k := range ops {
				jobs = append(jobs, job{append(append([]int{}, st.path...), k)})
			}
		}
		res := make([]string, len(jobs))
		done := make([]bool, len(jobs))
		axParallel(len(jobs), pool.get, func(s *apih.Server, i int) {
			if time.Now().After(deadline) {
				return
			}
			res[i] = exec(s, jobs[i].path)
			done[i] = true
		})
		var next []state
		for i, j := range jobs {
			if !done[i] {
				complete = false
				continue
			}
			if !seen[res[i]] {
				seen[res[i]] = true
				states++
				next = append(next, state{j.path, res[i]})
			}
		}
		if !complete {
			break
		}
		depthDone = d
		levels = append(levels, len(next))
		frontier = next
	}

	sort.SliceStable(cands, func(i, j int) bool { return len(cands[i].path) < len(cands[j].path) })
	reported := map[string]bool{}
	for _, c := range cands {
		if reported[c.sig] {
			continue
		}
		reported[c.sig] = true
		var hist []string
		for _, k := range c.path {
			hist = append(hist, ops[k].String())
		}
		run.Violation(c.sig, c.what+"  history in A: "+strings.Join(hist, " ; "), map[string]any{"family": "raw-ids", "path": c.path, "history": hist})
	}
	c06Extra["ids_states"] = states
	c06Extra["ids_transitions"] = int(transitions.Load())
	c06Extra["ids_depth_completed"] = depthDone
	c06Extra["ids_alphabet"] = len(ops)
	c06Extra["ids_B_vector_evaluations"] = int(vectors.Load())
	c06Extra["ids_B_vector_calls"] = int(calls.Load())
	if !complete {
		c06Extra["ids_incomplete"] = 1
	}
	_ = levels
}

// ---- UUID-shaped names ----------------------------------------------------------------------------------

func c06SpellingsOf(u uuid.UUID) []string {
	c := u.String()
	return []string{c, strings.ToUpper(c), "{" + c + "}", "urn:uuid:" + c, strings.ReplaceAll(c, "-", "")}
}

func c06Spellings(t *testing.T, run *ev.Run) {
	pool := &axServerPool{t: t, multi: true, init: func(s *apih.Server) {
		s.AddNetwork(c06A)
		s.AddNetwork(c06B)
	}}
	type cs struct {
		ia, ib int
		field  string
		aFirst bool
	}
	var cases []cs
	for ia := 0; ia < 5; ia++ {
		for ib := 0; ib < 5; ib++ {
			for _, f := range []string{"object", "subject-id", "subject-set-object"} {
				for _, af := range []bool{true, false} {
					cases = append(cases, cs{ia, ib, f, af})
				}
			}
		}
	}
	var mu sync.Mutex
	type cand struct {
		sig, what string
		c         cs
	}
	var cands []cand
	var done atomic.Int64
	mk := func(name, field string) *ketoapi.RelationTuple {
		switch field {
		case "object":
			return axID("n1", name, "r", "spell-user")
		case "subject-id":
			return axID("n1", "spell-doc", "r", name)
		}
		return axSet("n1", "spell-doc", "r", "n1", name, "m")
	}
	nameOf := func(tp *ketoapi.RelationTuple, field string) string {
		switch field {
		case "object":
			return tp.Object
		case "subject-id":
			if tp.SubjectID != nil {
				return *tp.SubjectID
			}
			return "<no subject id>"
		}
		if tp.SubjectSet != nil {
			return tp.SubjectSet.Object
		}
		return "<no subject set>"
	}
	axParallel(len(cases), pool.get, func(s *apih.Server, i int) {
		c := cases[i]
		// a UUID no other case uses: nothing about it is in the database yet
		u := uuid.NewV5(uuid.Nil, fmt.Sprintf("c06-spelling-case-%d-%d", i, time.Now().UnixNano()))
		sa, sb := c06SpellingsOf(u)[c.ia], c06SpellingsOf(u)[c.ib]
		ca, cb := c06ClientA(s), s.ClientFor(c06B)
		ta, tb := mk(sa, c.field), mk(sb, c.field)
		first, second := ca, cb
		t1, t2 := ta, tb
		if !c.aFirst {
			first, second, t1, t2 = cb, ca, tb, ta
		}
		if r := first.Create(t1); r.Status != 201 {
			mu.Lock()
			cands = append(cands, cand{"spelling:write-rejected", fmt.Sprintf("writing %s failed: %s", c04JSON(t1), r), c})
			mu.Unlock()
			return
		}
		if r := second.Create(t2); r.Status != 201 {
			mu.Lock()
			cands = append(cands, cand{"spelling:write-rejected", fmt.Sprintf("writing %s failed: %s", c04JSON(t2), r), c})
			mu.Unlock()
			return
		}
		for _, side := range []struct {
			net  string
			cl   *apih.Client
			mine *ketoapi.RelationTuple
		}{{"A", ca, ta}, {"B", cb, tb}} {
			for _, tr := range []string{"rest", "grpc"} {
				var l axListing
				q := &ketoapi.RelationQuery{Namespace: axS("n1"), Relation: axS("r")}
				if tr == "rest" {
					l = axListREST(side.cl, q, 0)
				} else {
					l = axListGRPC(side.cl, q, 0)
				}
				var got []string
				for _, it := range l.Items {
					if it.Object == "spell-doc" || (it.SubjectID != nil && *it.SubjectID == "spell-user") {
						got = append(got, nameOf(it, c.field))
					}
				}
				want := nameOf(side.mine, c.field)
				if l.Err != "" || len(got) != 1 || got[0] != want {
					mu.Lock()
					cands = append(cands, cand{"spelling:network-reads-a-name-it-did-not-write:" + c.field, fmt.Sprintf("network A wrote the %s %q, network B wrote %q (A first: %v); listing in network %s over %s returns %q (err %q), want exactly %q", c.field, sa, sb, c.aFirst, side.net, tr, got, l.Err, want), c})
					mu.Unlock()
				}
			}
		}
		s.TruncateTuples(c06A)
		s.TruncateTuples(c06B)
		s.Settle()
		done.Add(1)
	})
	reported := map[string]bool{}
	for _, c := range cands {
		if reported[c.sig] {
			continue
		}
		reported[c.sig] = true
		run.Violation(c.sig, c.what, map[string]any{"family": "uuid-spellings", "spelling_A": c.c.ia, "spelling_B": c.c.ib, "field": c.c.field, "A_first": c.c.aFirst})
	}
	c06Extra["uuid_spelling_cases"] = int(done.Load())
}

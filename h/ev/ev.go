// Package ev is the evidence / violation / known-finding plumbing shared by
// every check. A check creates one Run, reports candidate violations through
// it (each with a structural signature), and calls Finish with its coverage.
package ev

import (
	"crypto/sha1"
	"encoding/json"
	"fmt"
	"os"
	"os/exec"
	"path/filepath"
	"sort"
	"strconv"
	"strings"
	"sync"
	"time"
)

// Root is /verif unless VERIF_DIR overrides it (used by nothing registered).
func Root() string {
	if d := os.Getenv("VERIF_DIR"); d != "" {
		return d
	}
	return "/verif"
}

func Tier() string {
	if t := os.Getenv("VERIF_TIER"); t == "thorough" {
		return "thorough"
	}
	return "quick"
}

func Thorough() bool { return Tier() == "thorough" }

func Seed() int {
	n, _ := strconv.Atoi(os.Getenv("VERIF_SEED"))
	return n
}

// Workers is the number of worker processes / goroutines a check may use.
func Workers() int {
	if n, _ := strconv.Atoi(os.Getenv("VERIF_WORKERS")); n > 0 {
		return n
	}
	return 16
}

type Finding struct {
	Property  string `json:"property"`
	ID        string `json:"id"`
	Status    string `json:"status"` // "known" | "fixed"
	Signature string `json:"signature"`
	What      string `json:"what"`
	Commit    string `json:"commit,omitempty"`
}

type Run struct {
	Property string
	Level    string
	start    time.Time

	mu         sync.Mutex
	known      []Finding
	knownHits  map[string]int
	violations int
	vioSigs    map[string]bool
	assume     []string
	samples    []any
	quiet      bool
}

func New(property, level string) *Run {
	r := &Run{Property: property, Level: level, start: time.Now(),
		knownHits: map[string]int{}, vioSigs: map[string]bool{}}
	b, err := os.ReadFile(filepath.Join(Root(), "known_findings.json"))
	if err == nil {
		var all struct {
			Findings []Finding `json:"findings"`
		}
		if err := json.Unmarshal(b, &all); err != nil {
			fmt.Printf("INFRA-ERROR known_findings.json: %v\n", err)
			os.Exit(2)
		}
		for _, f := range all.Findings {
			if f.Property == property && f.Status == "known" {
				r.known = append(r.known, f)
			}
		}
	}
	return r
}

func (r *Run) Assume(s ...string) { r.assume = append(r.assume, s...) }

// Sample records up to 12 written-out cases for the evidence file.
func (r *Run) Sample(s any) {
	r.mu.Lock()
	defer r.mu.Unlock()
	if len(r.samples) < 12 {
		r.samples = append(r.samples, s)
	}
}

// Violation reports one candidate. sig is the structural signature computed
// by the check from the (minimised) counterexample; a signature listed in
// known_findings.json is reported as KNOWN-FINDING and does not fail the run.
// replay is written to /verif/replays/<prop>-<hash>.json.
// It returns true if the violation is new (not a known finding).
func (r *Run) Violation(sig string, what string, replay any) bool {
	r.mu.Lock()
	defer r.mu.Unlock()
	for _, k := range r.known {
		if k.Signature == sig {
			r.knownHits[k.ID]++
			if r.knownHits[k.ID] == 1 {
				fmt.Printf("KNOWN-FINDING: property=%s %s [%s] first instance: %s\n", r.Property, k.What, k.ID, what)
			}
			return false
		}
	}
	r.violations++
	if r.vioSigs[sig] && r.violations > 20 {
		return true
	}
	r.vioSigs[sig] = true
	body := map[string]any{"property": r.Property, "signature": sig, "what": what, "replay": replay}
	b, _ := json.MarshalIndent(body, "", " ")
	h := sha1.Sum(b)
	dir := filepath.Join(Root(), "replays")
	_ = os.MkdirAll(dir, 0o755)
	p := filepath.Join(dir, fmt.Sprintf("%s-%x.json", r.Property, h[:6]))
	_ = os.WriteFile(p, b, 0o644)
	fmt.Printf("VIOLATION property=%s replay=%s\n", r.Property, p)
	fmt.Printf("  signature=%s\n  %s\n", sig, what)
	return true
}

func (r *Run) Violations() int {
	r.mu.Lock()
	defer r.mu.Unlock()
	return r.violations
}

func (r *Run) KnownHits() map[string]int {
	r.mu.Lock()
	defer r.mu.Unlock()
	m := map[string]int{}
	for k, v := range r.knownHits {
		m[k] = v
	}
	return m
}

// Finish writes /verif/evidence/<id>.json. cov must hold the keys its level
// requires; samples collected through Sample are added if cov has none.
func (r *Run) Finish(cov map[string]any) {
	r.mu.Lock()
	defer r.mu.Unlock()
	if v, ok := cov["samples"]; !ok || v == nil {
		if r.samples == nil {
			r.samples = []any{}
		}
		cov["samples"] = r.samples
	}
	if len(r.knownHits) > 0 {
		ids := []string{}
		for k := range r.knownHits {
			ids = append(ids, fmt.Sprintf("%s x%d", k, r.knownHits[k]))
		}
		sort.Strings(ids)
		cov["known_findings_hit"] = ids
	}
	e := map[string]any{
		"property_id": r.Property,
		"tier":        Tier(),
		"seed":        Seed(),
		"level":       r.Level,
		"coverage":    cov,
		"assumptions": r.assume,
		"wall_s":      float64(int(time.Since(r.start).Seconds()*100)) / 100,
		"violations":  r.violations,
	}
	b, err := json.MarshalIndent(e, "", " ")
	if err != nil {
		fmt.Printf("INFRA-ERROR evidence marshal: %v\n", err)
		os.Exit(2)
	}
	dir := filepath.Join(Root(), "evidence")
	if os.Getenv("VERIF_MUTANT") != "" && os.Getenv("VERIF_SCRATCH") != "" {
		// a self-validation run on patched sources (./selftest): not evidence about the working tree
		dir = os.Getenv("VERIF_SCRATCH")
	}
	_ = os.MkdirAll(dir, 0o755)
	if err := os.WriteFile(filepath.Join(dir, r.Property+".json"), append(b, '\n'), 0o644); err != nil {
		fmt.Printf("INFRA-ERROR evidence write: %v\n", err)
		os.Exit(2)
	}
	var keys []string
	for k, v := range cov {
		switch v.(type) {
		case int, int64, bool, float64:
			keys = append(keys, fmt.Sprintf("%s=%v", k, v))
		}
	}
	sort.Strings(keys)
	fmt.Printf("EVIDENCE property=%s violations=%d %s\n", r.Property, r.violations, strings.Join(keys, " "))
}

// Deadline returns the instant after which a time-capped enumeration should
// stop starting new work (exit 0, exhaustive:false). quick/thorough in seconds.
func Deadline(quickS, thoroughS int) time.Time {
	if s, _ := strconv.Atoi(os.Getenv("VERIF_BUDGET_S")); s > 0 {
		return time.Now().Add(time.Duration(s) * time.Second)
	}
	if Thorough() {
		return time.Now().Add(time.Duration(thoroughS) * time.Second)
	}
	return time.Now().Add(time.Duration(quickS) * time.Second)
}

// ---------------------------------------------------------------- process sharding
//
// Checks whose engine is a process-global cooperative scheduler parallelise by
// re-executing their own test binary: the parent runs N children with
// VERIF_SHARD=i/N; each child explores its share, prints its own VIOLATION
// lines and writes a partial coverage map; the parent merges the parts.

// Shard returns (i, n, true) in a child process and (0, 1, false) in the parent.
func Shard() (int, int, bool) {
	s := os.Getenv("VERIF_SHARD")
	if s == "" {
		return 0, 1, false
	}
	var i, n int
	fmt.Sscanf(s, "%d/%d", &i, &n)
	return i, n, true
}

// FinishPart is Finish for a child process.
func (r *Run) FinishPart(cov map[string]any) {
	r.mu.Lock()
	defer r.mu.Unlock()
	if _, ok := cov["samples"]; !ok && len(r.samples) > 0 {
		cov["samples"] = r.samples
	}
	cov["_violations"] = r.violations
	kh := map[string]any{}
	for k, v := range r.knownHits {
		kh[k] = v
	}
	cov["_known"] = kh
	b, _ := json.Marshal(cov)
	if err := os.WriteFile(os.Getenv("VERIF_PART"), b, 0o644); err != nil {
		fmt.Printf("INFRA-ERROR part write: %v\n", err)
		os.Exit(2)
	}
}

// RunShards runs n children of this test binary for testName and merges their
// coverage: integers are summed ("max*" keys take the maximum), booleans are
// AND-ed, arrays concatenated (capped), other values taken from the first part.
func (r *Run) RunShards(testName string, n int) map[string]any {
	return r.RunShardsBin(os.Args[0], "", testName, n)
}

// RunShardsBin is RunShards for another test binary of the harness (started in workDir).
func (r *Run) RunShardsBin(bin, workDir, testName string, n int) map[string]any {
	dir := os.Getenv("VERIF_SCRATCH")
	if dir == "" {
		dir = os.TempDir()
	}
	type res struct {
		out []byte
		err error
	}
	results := make([]res, n)
	var wg sync.WaitGroup
	for i := 0; i < n; i++ {
		wg.Add(1)
		go func(i int) {
			defer wg.Done()
			cmd := execCommand(bin, "-test.run", "^"+testName+"$", "-test.timeout", "0", "-test.count", "1")
			cmd.Dir = workDir
			cmd.Env = append(os.Environ(), fmt.Sprintf("VERIF_SHARD=%d/%d", i, n), "VERIF_PART="+filepath.Join(dir, fmt.Sprintf("part-%s-%d.json", r.Property, i)), "GOMAXPROCS=1")
			out, err := cmd.CombinedOutput()
			results[i] = res{out, err}
		}(i)
	}
	wg.Wait()
	merged := map[string]any{}
	seenKnown := map[string]bool{}
	for i := 0; i < n; i++ {
		lines := strings.Split(string(results[i].out), "\n")
		for li, l := range lines {
			switch {
			case strings.HasPrefix(l, "KNOWN-FINDING"):
				k := l
				if j := strings.Index(l, "first instance:"); j > 0 {
					k = l[:j]
				}
				if !seenKnown[k] {
					seenKnown[k] = true
					fmt.Println(l)
				}
			case strings.HasPrefix(l, "VIOLATION "), strings.HasPrefix(l, "INFRA-ERROR"), strings.HasPrefix(l, "  signature="):
				fmt.Println(l)
				if strings.HasPrefix(l, "  signature=") && li+1 < len(lines) {
					fmt.Println(lines[li+1])
				}
			}
		}
		part := filepath.Join(dir, fmt.Sprintf("part-%s-%d.json", r.Property, i))
		b, err := os.ReadFile(part)
		if err != nil {
			var keep []string
			for _, l := range strings.Split(string(results[i].out), "\n") {
				if !strings.Contains(l, "level=info") && !strings.HasPrefix(l, "VIOLATION") && (!strings.HasPrefix(l, "  ") || strings.HasPrefix(l, "    ")) {
					keep = append(keep, l)
				}
			}
			tail := strings.Join(keep, "\n")
			if len(tail) > 6000 {
				tail = tail[len(tail)-6000:]
			}
			fmt.Printf("INFRA-ERROR shard %d/%d of %s produced no result (%v)\n%s\n", i, n, r.Property, results[i].err, tail)
			os.Exit(2)
		}
		os.Remove(part)
		var cov map[string]any
		if err := json.Unmarshal(b, &cov); err != nil {
			fmt.Printf("INFRA-ERROR shard part: %v\n", err)
			os.Exit(2)
		}
		for k, v := range cov {
			switch k {
			case "_violations":
				r.violations += int(v.(float64))
				continue
			case "_known":
				for id, c := range v.(map[string]any) {
					r.knownHits[id] += int(c.(float64))
				}
				continue
			}
			old, have := merged[k]
			switch x := v.(type) {
			case float64:
				if !have {
					merged[k] = int(x)
				} else if strings.HasPrefix(k, "max") || strings.HasSuffix(k, "_bound") || strings.HasSuffix(k, "bound_completed") {
					if int(x) > old.(int) {
						merged[k] = int(x)
					}
				} else {
					merged[k] = old.(int) + int(x)
				}
			case bool:
				if !have {
					merged[k] = x
				} else {
					merged[k] = old.(bool) && x
				}
			case []any:
				if !have {
					merged[k] = x
				} else if len(old.([]any)) < 12 {
					merged[k] = append(old.([]any), x...)
				}
			default:
				if !have {
					merged[k] = v
				}
			}
		}
	}
	for k, v := range merged {
		if a, ok := v.([]any); ok && len(a) > 12 {
			merged[k] = a[:12]
		}
	}
	return merged
}

var execCommand = exec.Command

// C18 — relationship encodings are faithful on their documented domains.
// Bounded-exhaustive: the full product of a small adversarial string alphabet
// over every field, through JSON / URL query / protobuf and back, and every
// string up to a length bound over the separator alphabet through
// FromString / String.
package c18

import (
	"bytes"
	"encoding/json"
	"errors"
	"fmt"
	"io"
	"net/url"
	"reflect"
	"runtime"
	"runtime/debug"
	"strings"
	"sync"
	"sync/atomic"
	"testing"
	"testing/iotest"

	"google.golang.org/protobuf/proto"

	cmdrt "github.com/ory/keto/cmd/relationtuple"
	"github.com/ory/keto/ketoapi"
	rts "github.com/ory/keto/proto/ory/keto/relation_tuples/v1alpha2"
	"github.com/ory/keto/verif/ev"
)

var alphaFull = []string{"", "a", ":", "#", "@", "(", ")", "a:b", "(a)", "%41", "a b", "ä", "&=", "+", "a#b@c"}
var alphaQuick = []string{"", "a", ":", "#", "@", "(a)", "%41", "a b&=+ä"}

func sp(s string) *string { return &s }

func mkTuple(f []string, set bool) *ketoapi.RelationTuple {
	t := &ketoapi.RelationTuple{Namespace: f[0], Object: f[1], Relation: f[2]}
	if set {
		t.SubjectSet = &ketoapi.SubjectSet{Namespace: f[3], Object: f[4], Relation: f[5]}
	} else {
		t.SubjectID = sp(f[3])
	}
	return t
}

func safe(f func() error) (err error) {
	defer func() {
		if r := recover(); r != nil {
			err = fmt.Errorf("panic: %v", r)
		}
	}()
	return f()
}

// roundTrips returns "" or a description of the first codec that is not faithful on t.
func tupleRoundTrips(t *ketoapi.RelationTuple) string {
	// JSON
	if err := safe(func() error {
		b, err := json.Marshal(t)
		if err != nil {
			return err
		}
		var back ketoapi.RelationTuple
		if err := json.Unmarshal(b, &back); err != nil {
			return err
		}
		if !reflect.DeepEqual(&back, t) {
			return fmt.Errorf("json: %s -> %+v", b, back)
		}
		return nil
	}); err != nil {
		return "json:" + err.Error()
	}
	// URL query (through the wire form)
	if err := safe(func() error {
		enc := t.ToURLQuery().Encode()
		vals, err := url.ParseQuery(enc)
		if err != nil {
			return err
		}
		back, err := (&ketoapi.RelationTuple{}).FromURLQuery(vals)
		if err != nil {
			return err
		}
		if !reflect.DeepEqual(back, t) {
			return fmt.Errorf("url: %s -> %+v", enc, back)
		}
		return nil
	}); err != nil {
		return "url:" + err.Error()
	}
	// protobuf (through the wire form)
	if err := safe(func() error {
		b, err := proto.Marshal(t.ToProto())
		if err != nil {
			return err
		}
		var p rts.RelationTuple
		if err := proto.Unmarshal(b, &p); err != nil {
			return err
		}
		back := (&ketoapi.RelationTuple{}).FromProto(&p)
		if !reflect.DeepEqual(back, t) {
			return fmt.Errorf("proto/FromProto: %+v", back)
		}
		back2, err := (&ketoapi.RelationTuple{}).FromDataProvider(&p)
		if err != nil {
			return err
		}
		if !reflect.DeepEqual(back2, t) {
			return fmt.Errorf("proto/FromDataProvider: %+v", back2)
		}
		return nil
	}); err != nil {
		return "proto:" + err.Error()
	}
	return ""
}

func queryRoundTrips(q *ketoapi.RelationQuery) string {
	if err := safe(func() error {
		b, err := json.Marshal(q)
		if err != nil {
			return err
		}
		var back ketoapi.RelationQuery
		if err := json.Unmarshal(b, &back); err != nil {
			return err
		}
		if !reflect.DeepEqual(&back, q) {
			return fmt.Errorf("json: %s -> %+v", b, back)
		}
		return nil
	}); err != nil {
		return "qjson:" + err.Error()
	}
	if err := safe(func() error {
		enc := q.ToURLQuery().Encode()
		vals, err := url.ParseQuery(enc)
		if err != nil {
			return err
		}
		back, err := (&ketoapi.RelationQuery{}).FromURLQuery(vals)
		if err != nil {
			return err
		}
		if !reflect.DeepEqual(back, q) {
			return fmt.Errorf("url: %s -> %+v", enc, back)
		}
		return nil
	}); err != nil {
		return "qurl:" + err.Error()
	}
	if err := safe(func() error {
		b, err := proto.Marshal(q.ToProto())
		if err != nil {
			return err
		}
		var p rts.RelationQuery
		if err := proto.Unmarshal(b, &p); err != nil {
			return err
		}
		back := (&ketoapi.RelationQuery{}).FromDataProvider(qw{&p})
		if !reflect.DeepEqual(back, q) {
			return fmt.Errorf("proto: %+v", back)
		}
		return nil
	}); err != nil {
		return "qproto:" + err.Error()
	}
	return ""
}

// qw mirrors the server's own adapter from the proto query to ketoapi's provider interface.
type qw struct{ *rts.RelationQuery }

func (q qw) GetObject() *string    { return q.Object }
func (q qw) GetNamespace() *string { return q.Namespace }
func (q qw) GetRelation() *string  { return q.Relation }

const seps = ":#@()"

// inStringDomain: the fields avoid the separators in the positions where they are significant for
// the documented form namespace:object#relation@subject read left to right (the reading the
// repository's own decoding vectors such as "#dev:@ory#:working:@projects:keto#awesome" fix):
// no ':' in the namespace, no '#' in the object, no '@' in the relation; a subject id holds no ':'
// (it would read as a subject set) and no parenthesis (optional brackets are stripped); in a
// subject set the namespace holds no ':' or '#', the object no '#', and none of its fields a
// parenthesis.
func inStringDomain(t *ketoapi.RelationTuple) bool {
	if strings.Contains(t.Namespace, ":") || strings.Contains(t.Object, "#") || strings.Contains(t.Relation, "@") {
		return false
	}
	if t.SubjectID != nil {
		return !strings.ContainsAny(*t.SubjectID, ":()")
	}
	ss := t.SubjectSet
	return !strings.ContainsAny(ss.Namespace, ":#()") && !strings.ContainsAny(ss.Object, "#()") && !strings.ContainsAny(ss.Relation, "()")
}

func stringRoundTrips(t *ketoapi.RelationTuple) string {
	err := safe(func() error {
		s := t.String()
		back, err := (&ketoapi.RelationTuple{}).FromString(s)
		if err != nil {
			return fmt.Errorf("%q rejected: %v", s, err)
		}
		if !reflect.DeepEqual(back, t) {
			return fmt.Errorf("%q -> %+v", s, back)
		}
		return nil
	})
	if err != nil {
		return "string:" + err.Error()
	}
	return ""
}

// idempotent: FromString(s) errors, or its rendering re-parses to the same value.
func stringStable(s string) (parsed bool, bad string) {
	err := safe(func() error {
		a, err := (&ketoapi.RelationTuple{}).FromString(s)
		if err != nil {
			return nil
		}
		if a == nil {
			return fmt.Errorf("nil tuple without error")
		}
		parsed = true
		if (a.SubjectID == nil) == (a.SubjectSet == nil) {
			return fmt.Errorf("%q parsed to a tuple with both/neither subject", s)
		}
		r := a.String()
		b, err := (&ketoapi.RelationTuple{}).FromString(r)
		if err != nil {
			return fmt.Errorf("%q -> %q rejected: %v", s, r, err)
		}
		if !reflect.DeepEqual(a, b) {
			return fmt.Errorf("%q -> %+v -> %q -> %+v", s, a, r, b)
		}
		return nil
	})
	if err != nil {
		return parsed, "stable:" + err.Error()
	}
	return parsed, ""
}

// stableSig classifies an unstable string structurally: the recorded finding
// is the family where the first parse yields a subject set whose rendering
// begins or ends with a parenthesis (only reachable through a '#'-terminated
// subject set with an empty relation, or a namespace that keeps an inner
// parenthesis); String() drops the trailing '#' and the re-parse trims the
// now-outermost parenthesis. Anything else keeps the generic signature.
func stableSig(s string) string {
	sig := "string-stable"
	_ = safe(func() error {
		a, err := (&ketoapi.RelationTuple{}).FromString(s)
		if err != nil || a == nil || a.SubjectSet == nil {
			return nil
		}
		r := a.SubjectSet.String()
		if r != strings.Trim(r, "()") && a.SubjectSet.Relation == "" {
			sig = "string-stable:subject-set-rendering-has-edge-paren"
		}
		return nil
	})
	return sig
}

func parallel(n int, f func(i int)) {
	var wg sync.WaitGroup
	var next atomic.Int64
	for w := 0; w < runtime.NumCPU(); w++ {
		wg.Add(1)
		go func() {
			defer wg.Done()
			for {
				i := int(next.Add(1) - 1)
				if i >= n {
					return
				}
				f(i)
			}
		}()
	}
	wg.Wait()
}

func idx(i, base, n int) []int {
	out := make([]int, n)
	for k := 0; k < n; k++ {
		out[k] = i % base
		i /= base
	}
	return out
}

func pow(b, n int) int {
	r := 1
	for i := 0; i < n; i++ {
		r *= b
	}
	return r
}

func TestC18(t *testing.T) {
	run := ev.New("C18", "exploration")
	alphaSet := alphaQuick
	strLen := 7
	if ev.Thorough() {
		alphaSet = alphaFull
		strLen = 9
	}
	var evals, nontrivial, inDom atomic.Int64

	check := func(tp *ketoapi.RelationTuple, set bool) {
		evals.Add(1)
		special := false
		for _, f := range []string{tp.Namespace, tp.Object, tp.Relation} {
			if f == "" || strings.ContainsAny(f, seps+"%&=+ ") {
				special = true
			}
		}
		if special {
			nontrivial.Add(1)
		}
		if bad := tupleRoundTrips(tp); bad != "" {
			run.Violation("codec:"+strings.SplitN(bad, ":", 2)[0], bad, map[string]any{"tuple": tp})
		}
		if inStringDomain(tp) {
			inDom.Add(1)
			if bad := stringRoundTrips(tp); bad != "" {
				run.Violation("string-roundtrip", bad, map[string]any{"tuple": tp})
			}
		}
	}

	// (1) tuples with a subject id: full product over 4 fields; with a subject set: 6 fields.
	n := len(alphaFull)
	parallel(pow(n, 4), func(i int) {
		ix := idx(i, n, 4)
		f := []string{alphaFull[ix[0]], alphaFull[ix[1]], alphaFull[ix[2]], alphaFull[ix[3]]}
		check(mkTuple(f, false), false)
	})
	m := len(alphaSet)
	parallel(pow(m, 6), func(i int) {
		ix := idx(i, m, 6)
		f := make([]string, 6)
		for k := range f {
			f[k] = alphaSet[ix[k]]
		}
		check(mkTuple(f, true), true)
	})
	run.Sample(map[string]any{"tuple": mkTuple([]string{"a:b", "#", "", "%41"}, false), "codecs": "json,url,proto(wire)"})
	run.Sample(map[string]any{"tuple": mkTuple([]string{"", "(a)", "@", ":", "a b&=+ä", ""}, true), "codecs": "json,url,proto(wire)"})

	// (2) queries: 2^4 shapes x values (subject: absent / id / set).
	var qn atomic.Int64
	vals := alphaQuick
	k := len(vals)
	parallel(16*pow(k, 6), func(i int) {
		shape := i % 16
		ix := idx(i/16, k, 6)
		q := &ketoapi.RelationQuery{}
		if shape&1 != 0 {
			q.Namespace = sp(vals[ix[0]])
		}
		if shape&2 != 0 {
			q.Object = sp(vals[ix[1]])
		}
		if shape&4 != 0 {
			q.Relation = sp(vals[ix[2]])
		}
		switch {
		case shape&8 != 0 && ix[5]%2 == 0:
			q.SubjectID = sp(vals[ix[3]])
		case shape&8 != 0:
			q.SubjectSet = &ketoapi.SubjectSet{Namespace: vals[ix[3]], Object: vals[ix[4]], Relation: vals[ix[5]]}
		}
		qn.Add(1)
		if bad := queryRoundTrips(q); bad != "" {
			run.Violation("codec:"+strings.SplitN(bad, ":", 2)[0], bad, map[string]any{"query": q})
		}
	})

	// (3) every string of length <= strLen over {a : # @ ( )}.
	sa := []byte("a:#@()")
	var strs, parsedN atomic.Int64
	for l := 0; l <= strLen; l++ {
		total := pow(len(sa), l)
		parallel(total, func(i int) {
			ix := idx(i, len(sa), l)
			b := make([]byte, l)
			for p := range b {
				b[p] = sa[ix[p]]
			}
			strs.Add(1)
			ok, bad := stringStable(string(b))
			if ok {
				parsedN.Add(1)
			}
			if bad != "" {
				run.Violation(stableSig(string(b)), bad, map[string]any{"input": string(b)})
			}
		})
	}
	run.Sample(map[string]any{"string": "a:(#@a:a#)", "oracle": "FromString errors or String() re-parses to the same value"})

	// (4) absent subject is an error, not a panic / mis-parse.
	if err := safe(func() error {
		_, err := (&ketoapi.RelationTuple{}).FromDataProvider(&rts.RelationTuple{Namespace: "n"})
		if err == nil {
			return fmt.Errorf("tuple without subject accepted from proto")
		}
		_, err = (&ketoapi.RelationTuple{}).FromURLQuery(url.Values{"namespace": {"n"}, "object": {"o"}, "relation": {"r"}})
		if err == nil {
			return fmt.Errorf("tuple without subject accepted from URL query")
		}
		return nil
	}); err != nil {
		run.Violation("no-subject", err.Error(), nil)
	}

	// (5) the CLI line reader over string-domain tuples with comments/blank lines around them.
	var cli int64
	readerCases := 0
	{
		fields := []string{"a", "ä", "%41", "a b", "", "+"}
		var lines []string
		var want []*ketoapi.RelationTuple
		for i := 0; i < pow(len(fields), 4); i++ {
			ix := idx(i, len(fields), 4)
			tp := mkTuple([]string{fields[ix[0]], fields[ix[1]], fields[ix[2]], fields[ix[3]]}, false)
			if tp.Namespace != strings.TrimSpace(tp.Namespace) || *tp.SubjectID != strings.TrimSpace(*tp.SubjectID) {
				continue
			}
			if strings.HasPrefix(tp.Namespace, "//") {
				continue
			}
			switch i % 4 {
			case 0:
				lines = append(lines, "// comment "+tp.String())
			case 1:
				lines = append(lines, "")
			case 2:
				lines = append(lines, "   ")
			}
			// namespace "" with leading ':' etc. are fine; leading/trailing blanks are trimmed by the reader
			lines = append(lines, "  "+tp.String()+"\t")
			want = append(want, tp)
			if ix[3]%2 == 0 {
				ts := mkTuple([]string{fields[ix[0]], fields[ix[1]], fields[ix[2]], fields[ix[3]], fields[ix[1]], fields[ix[2]]}, true)
				if ts.SubjectSet.Namespace == strings.TrimSpace(ts.SubjectSet.Namespace) && ts.SubjectSet.Relation == strings.TrimSpace(ts.SubjectSet.Relation) && ts.SubjectSet.Relation != "" {
					lines = append(lines, ts.Namespace+":"+ts.Object+"#"+ts.Relation+"@("+ts.SubjectSet.String()+")")
					want = append(want, ts)
				}
			}
		}
		// a tuple whose last field ends in whitespace cannot be on a line of its own: skip those
		var keepL []string
		var keepW []*ketoapi.RelationTuple
		wi := 0
		for _, l := range lines {
			tl := strings.TrimSpace(l)
			if tl == "" || strings.HasPrefix(tl, "//") {
				keepL = append(keepL, l)
				continue
			}
			w := want[wi]
			wi++
			last := ""
			if w.SubjectID != nil {
				last = *w.SubjectID
			}
			if last != strings.TrimSpace(last) {
				continue
			}
			keepL = append(keepL, l)
			keepW = append(keepW, w)
		}
		cmd := cmdrt.NewParseCmd()
		var out, errb bytes.Buffer
		cmd.SetIn(strings.NewReader(strings.Join(keepL, "\n")))
		cmd.SetOut(&out)
		cmd.SetErr(&errb)
		cmd.SetArgs([]string{"-", "--format", "json"})
		if err := safe(cmd.Execute); err != nil {
			run.Violation("cli-parse", "parse command failed: "+err.Error()+" "+errb.String(), map[string]any{"lines": len(keepL)})
		} else {
			var got []*ketoapi.RelationTuple
			if err := json.Unmarshal(out.Bytes(), &got); err != nil {
				run.Violation("cli-parse", "parse output not JSON: "+err.Error(), nil)
			} else if !reflect.DeepEqual(got, keepW) {
				first := ""
				for i := range keepW {
					if i >= len(got) || !reflect.DeepEqual(got[i], keepW[i]) {
						first = fmt.Sprintf("index %d want %+v", i, keepW[i])
						break
					}
				}
				run.Violation("cli-parse", fmt.Sprintf("parse command returned %d tuples, want %d; %s", len(got), len(keepW), first), nil)
			}
		}
		cli = int64(len(keepW))
		// malformed line is rejected
		cmd = cmdrt.NewParseCmd()
		cmd.SetIn(strings.NewReader("n:o#r@s\nno-separators\n"))
		cmd.SetOut(&out)
		cmd.SetErr(&errb)
		cmd.SetArgs([]string{"-", "--format", "json"})
		if err := safe(cmd.Execute); err == nil {
			run.Violation("cli-parse", "malformed line accepted by the parse command", nil)
		}
	}

	// encoders and decoders are functions of their argument: the result for y must not depend on the call made
	// just before (pooled buffers, reused scratch values). Every ordered pair (x, y) over a set of ordinary and
	// degenerate values (no subject, both subjects, empty fields, separators), per function; single OS thread
	// and no garbage collection during a pair, so that whatever x leaves in a pool is what y picks up.
	pairCases := 0
	{
		u, v := "u", "a@b"
		vals := []*ketoapi.RelationTuple{
			{Namespace: "n", Object: "o", Relation: "r", SubjectID: &u},
			{Namespace: "files", Object: "readme", Relation: "owner"}, // no subject
			{Namespace: "n", Object: "o", Relation: "r", SubjectSet: &ketoapi.SubjectSet{Namespace: "g", Object: "grp", Relation: "m"}},
			{Namespace: "n", Object: "o", Relation: "r", SubjectID: &u, SubjectSet: &ketoapi.SubjectSet{Namespace: "g", Object: "grp", Relation: "m"}}, // both
			{Namespace: "", Object: "", Relation: "", SubjectID: sp("")},
			{Namespace: "n", Object: "a:b#c", Relation: "r", SubjectID: &v},
			{Namespace: "n", Object: "o", Relation: "r", SubjectSet: &ketoapi.SubjectSet{Namespace: "", Object: "", Relation: ""}},
			{Namespace: "a-very-long-namespace-name-to-grow-buffers", Object: strings.Repeat("x", 300), Relation: "rel", SubjectID: &u},
		}
		texts := []string{"n:o#r@u", "n:o#r@(g:grp#m)", "no-separators", "n:o#r@", "", "n:o#r@(g:grp#m", ":#@", "a:b#c@d@e"}
		fns := []struct {
			name string
			n    int
			f    func(i int) string
		}{
			{"String", len(vals), func(i int) string { return vals[i].String() }},
			{"ToURLQuery", len(vals), func(i int) string { return vals[i].ToURLQuery().Encode() }},
			{"ToProto", len(vals), func(i int) string { return fmt.Sprint(vals[i].ToProto()) }},
			{"json.Marshal", len(vals), func(i int) string { b, err := json.Marshal(vals[i]); return fmt.Sprint(string(b), err) }},
			{"FromString", len(texts), func(i int) string {
				t, err := (&ketoapi.RelationTuple{}).FromString(texts[i])
				return fmt.Sprintf("%+v %v", t, err)
			}},
		}
		old := runtime.GOMAXPROCS(1)
		gc := debug.SetGCPercent(-1)
		for _, fn := range fns {
			ref := make([]string, fn.n)
			for y := 0; y < fn.n; y++ {
				for k := 0; k < 3; k++ {
					_ = safeStr(func() string { return fn.f(0) }) // a benign call first
				}
				ref[y] = safeStr(func() string { return fn.f(y) })
			}
			reported := false
			for x := 0; x < fn.n && !reported; x++ {
				for y := 0; y < fn.n && !reported; y++ {
					_ = safeStr(func() string { return fn.f(x) })
					got := safeStr(func() string { return fn.f(y) })
					pairCases++
					if got != ref[y] {
						reported = true
						run.Violation("call-order:"+fn.name, fmt.Sprintf("%s of value #%d gives %q right after %s of value #%d, and %q otherwise", fn.name, y, got, fn.name, x, ref[y]), map[string]any{"function": fn.name, "first": x, "second": y})
					}
				}
			}
		}
		debug.SetGCPercent(gc)
		runtime.GOMAXPROCS(old)
	}

	// the parse command reads its input through a reader: every environment answer of that reader
	{
		full := "n:o1#r@bob\n// comment\nn:o2#r@alice\n\nn:o3#r@(n:g#m)\n"
		wantN := 3
		runParse := func(in io.Reader) (got []*ketoapi.RelationTuple, err error) {
			cmd := cmdrt.NewParseCmd()
			var out, errb bytes.Buffer
			cmd.SetIn(in)
			cmd.SetOut(&out)
			cmd.SetErr(&errb)
			cmd.SetArgs([]string{"-", "--format", "json"})
			if err := safe(cmd.Execute); err != nil {
				return nil, err
			}
			if err := json.Unmarshal(out.Bytes(), &got); err != nil {
				return nil, fmt.Errorf("output not JSON: %w", err)
			}
			return got, nil
		}
		ref, err := runParse(strings.NewReader(full))
		if err != nil || len(ref) != wantN {
			run.Violation("cli-parse", fmt.Sprintf("parse of a 3-relationship input: %d tuples, err %v", len(ref), err), nil)
		}
		// (a) the read fails after k bytes, every k: the command must fail, not return what it has
		for k := 0; k <= len(full); k++ {
			got, err := runParse(io.MultiReader(strings.NewReader(full[:k]), iotest.ErrReader(errors.New("verif: input/output error"))))
			readerCases++
			if err == nil {
				run.Violation("cli-parse:read-error-ignored", fmt.Sprintf("the input fails with an I/O error after %d of %d bytes; the parse command succeeds and prints %d relationships (the last one %v)", k, len(full), len(got), lastTuple(got)), map[string]any{"fail_after_bytes": k, "input": full})
				break
			}
		}
		// (b) short reads: every chunk size 1..8 and one byte at a time
		for chunk := 1; chunk <= 8; chunk++ {
			got, err := runParse(&chunkReader{s: full, n: chunk})
			readerCases++
			if err != nil || !reflect.DeepEqual(got, ref) {
				run.Violation("cli-parse:short-reads", fmt.Sprintf("input delivered %d byte(s) per read: %d tuples, err %v; want the %d of the whole input", chunk, len(got), err, len(ref)), map[string]any{"chunk": chunk})
				break
			}
		}
		// (c) long lines: a relationship whose object has L characters, followed by another relationship
		for _, L := range []int{4095, 4096, 4097, 65535, 65536, 65537, 1 << 20} {
			long := strings.Repeat("x", L)
			got, err := runParse(strings.NewReader("n:" + long + "#r@bob\nn:o2#r@alice\n"))
			readerCases++
			if err != nil {
				continue // rejecting is allowed; mis-parsing silently is not
			}
			if len(got) != 2 || got[0].Object != long || got[1].Object != "o2" {
				run.Violation("cli-parse:long-line", fmt.Sprintf("a line with an object name of %d characters followed by a second line: the parse command succeeds with %d relationships (want both, unchanged, or an error)", L, len(got)), map[string]any{"object_length": L})
				break
			}
		}
	}

	run.Assume("string-form domain = fields avoid the separators where the left-to-right reading of namespace:object#relation@subject makes them significant (no ':' in the namespace, no '#' in the object, no '@' in the relation, no ':' or parenthesis in a subject id, ...), the reading fixed by the repository's own decoding vectors",
		"protobuf strings are valid UTF-8 (invalid UTF-8 cannot be marshalled and is outside 'well-formed protobuf')")
	run.Finish(map[string]any{
		"evaluations":             int(evals.Load() + qn.Load() + strs.Load() + cli),
		"distinct_nontrivial":     int(nontrivial.Load() + parsedN.Load()),
		"rule":                    "full product of the field alphabet over all tuple fields (subject id: 4 fields x full alphabet; subject set: 6 fields) x {json,url,proto wire} + 16 query shapes x values + every string of length <= bound over {a : # @ ( )}; non-trivial = a tuple with an empty/separator/escape-bearing field, or a string that FromString accepts",
		"tuples":                  int(evals.Load()),
		"tuples_in_string_domain": int(inDom.Load()),
		"queries":                 int(qn.Load()),
		"strings":                 int(strs.Load()),
		"strings_parsed":          int(parsedN.Load()),
		"cli_tuples":              int(cli),
		"cli_reader_cases":        readerCases,
		"string_len_bound":        strLen,
		"alphabet":                alphaFull,
		"exhaustive":              true,
	})
}

type chunkReader struct {
	s string
	n int
}

func (c *chunkReader) Read(p []byte) (int, error) {
	if len(c.s) == 0 {
		return 0, io.EOF
	}
	n := c.n
	if n > len(c.s) {
		n = len(c.s)
	}
	if n > len(p) {
		n = len(p)
	}
	copy(p, c.s[:n])
	c.s = c.s[n:]
	return n, nil
}

func lastTuple(ts []*ketoapi.RelationTuple) string {
	if len(ts) == 0 {
		return "<none>"
	}
	return ts[len(ts)-1].String()
}

func safeStr(f func() string) (out string) {
	defer func() {
		if r := recover(); r != nil {
			out = fmt.Sprint("panic: ", r)
		}
	}()
	return f()
}
